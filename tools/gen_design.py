#!/usr/bin/env python3
"""Regenerate the generated blocks of DESIGN.md section 9 (rule inventory from the
evidence files, seeded-change table from seeded/*/detection.json)."""
import json, glob, os, re
os.chdir('/verif')
def rules_block():
    out=[]
    for i in range(1,21):
        pid="C%02d"%i
        ev=json.load(open(f'evidence/{pid}.json'))
        rs=[r for r in ev['coverage']['rules'] if not r['rule'].endswith('.anchors')]
        out.append(f"\n**{pid}**\n")
        for r in rs:
            own = "" if r['rule'].startswith(pid+'.') else " *(shared)*"
            out.append(f"* `{r['rule']}`{own} · {r['primitive']} · {r['clause']} [{r['instances']}]")
    return "\n".join(out)+"\n"
def seeds_block():
    out=["| seed | property | what the change does (needs to manifest) | reported by (rule · construct) | also reported by |","|---|---|---|---|---|"]
    for d in sorted(glob.glob('seeded/*/')):
        n=os.path.basename(d.rstrip('/'))
        if not os.path.exists(d+'detection.json'): continue
        m=json.load(open(d+'meta.json')); det=json.load(open(d+'detection.json'))
        p=m['property']
        own=det['new_reports'].get(p,[])
        seen=[]; 
        for k in own:
            k=k.replace(' | ',' · ')
            if k not in seen: seen.append(k)
        others=", ".join(q for q in det['new_reports'] if q!=p) or "–"
        summ=(m.get('summary') or '').replace('\n',' ').replace('|','/')
        summ=summ[:230]+('…' if len(summ)>230 else '')
        rep="<br>".join(f"`{x.split(' · ')[0]}` · {x.split(' · ',1)[1] if ' · ' in x else ''}" for x in seen[:3]) or "**not reported**"
        out.append(f"| {n} | {p} | {summ} | {rep} | {others} |")
    return "\n".join(out)+"\n"
s=open('DESIGN.md').read()
for name,fn in (('rules',rules_block),('seeds',seeds_block)):
    a=f"<!-- BEGIN GENERATED:{name} -->\n"; b=f"<!-- END GENERATED:{name} -->"
    i=s.index(a)+len(a); j=s.index(b)
    s=s[:i]+fn()+s[j:]
open('DESIGN.md','w').write(s)
