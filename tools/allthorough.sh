#!/bin/bash
# development gate: every thorough check with -strict-selftest on /repo (a misbehaving variant fails the run); prints a summary
export GOFLAGS=-mod=mod GOPROXY=off GOSUMDB=off GOTOOLCHAIN=local GOWORK=off
mkdir -p /tmp/thor; rm -f /tmp/thor/*
for p in $(seq -f "C%02g" 1 20); do
  ${BD:-/verif/bin/bdcheck} -prop $p -tier thorough -strict-selftest > /tmp/thor/$p.log 2>&1
  echo "$p exit=$? $(grep -c SELFTEST-PROBLEM /tmp/thor/$p.log) selftest problem(s); $(tail -1 /tmp/thor/$p.log)"
done
