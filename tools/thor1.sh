#!/bin/bash
# usage: thor1.sh <prop> : one thorough check with -strict-selftest on /repo into a scratch evidence dir; prints the result line, selftest problems and variant counts
export GOFLAGS=-mod=mod GOPROXY=off GOSUMDB=off GOTOOLCHAIN=local GOWORK=off
t=$(mktemp -d); cp /verif/known_findings.json $t/; mkdir $t/evidence; ln -s /verif/seeded $t/seeded; ln -s /verif/refactors $t/refactors
${BD:-/verif/bin/bdcheck} -prop $1 -tier thorough -strict-selftest -verif $t 2>&1 | grep -v '^WARNING' | grep -E 'SELFTEST|VIOLATION|thorough:' 
echo "exit=${PIPESTATUS[0]}"
python3 - <<PY
import json
e=json.load(open('$t/evidence/$1.json'))
vs=e['coverage'].get('variant_suite') or {}
print(vs.get('counts'))
for r in vs.get('results',[]):
    if r['state'] not in ('fired','silent'): print(' ', r['state'], r['name'], (r.get('detail') or '')[:160])
PY
rm -rf $t
