#!/usr/bin/env python3
"""Write /verif/refactors-open/RESULTS.md from the detection.json files that
`REFDIR=/verif/refactors-open tools/run_refactors.py <name ...>` leaves in each entry."""
import json, os
D = "/verif/refactors-open"
rows = []
for n in sorted(os.listdir(D)):
    f = os.path.join(D, n, "detection.json")
    if not os.path.exists(f):
        continue
    det = json.load(open(f))
    rep = "; ".join(f"{p}: {', '.join(v)}" for p, v in sorted(det["new_reports"].items())) or "–"
    if det.get("errors"):
        rep += " ERRORS: " + json.dumps(det["errors"])[:300]
    rows.append((n, "silent" if det.get("silent") else "**reported**", rep))
with open(os.path.join(D, "RESULTS.md"), "w") as f:
    f.write("# Behaviour-preserving rewrites on which today's checker still raises FALSE alarms\n\n"
            f"These {len(rows)} rewrites (rounds r4 and r5) were confirmed behaviour-preserving against the pinned suite; every report below is a limit "
            "of the checker (see DESIGN.md 9.3h and 9.3j), not a finding about the tree. They are not replayed by the gate. Regenerate with "
            "`REFDIR=/verif/refactors-open tools/run_refactors.py <name ...>` followed by `tools/open_results.py`.\n\n"
            "| refactoring | all 20 checks | reports |\n|---|---|---|\n")
    for r in rows:
        f.write("| " + " | ".join(r) + " |\n")
print(len(rows), "entries;", sum(1 for r in rows if r[1] == "silent"), "silent")
