#!/usr/bin/env python3
"""After a `fix:` commit in /repo: re-target every corpus patch (seeded/*/patch.diff,
refactors/*/patch.diff) at the new HEAD. A patch that still applies is left alone; one that
does not is applied to its old base (meta.json "base" or the given old commit) in a scratch
worktree, committed there, the fix commits are cherry-picked on top, and the diff against the
new HEAD replaces patch.diff (the old one is kept as patch.diff.<oldbase>). Conflicts are
reported for manual resolution (worktree left in place).
usage: rebase_corpus.py <old-base-commit>"""
import json, os, subprocess, sys, tempfile
old = sys.argv[1]
head = subprocess.run(["git","-C","/repo","rev-parse","--short","HEAD"],capture_output=True,text=True).stdout.strip()
fixes = subprocess.run(["git","-C","/repo","rev-list","--reverse",f"{old}..HEAD"],capture_output=True,text=True).stdout.split()
def sh(cmd, cwd=None):
    p = subprocess.run(cmd, shell=True, cwd=cwd, capture_output=True, text=True)
    return p.returncode, p.stdout + p.stderr
res = []
for kind in ("seeded", "refactors"):
    for n in sorted(os.listdir(f"/verif/{kind}")):
        d = f"/verif/{kind}/{n}"
        pd = os.path.join(d, "patch.diff")
        if not os.path.isfile(pd): continue
        wt = tempfile.mkdtemp(prefix="rb-", dir="/tmp"); os.rmdir(wt)
        sh(f"git -C /repo worktree add --detach {wt} HEAD")
        rc, _ = sh(f"git apply --check {pd}", cwd=wt)
        if rc == 0:
            sh(f"git -C /repo worktree remove --force {wt}")
            res.append((n, "applies")); continue
        sh(f"git -C /repo worktree remove --force {wt}")
        sh(f"git -C /repo worktree add --detach {wt} {old}")
        rc, out = sh(f"git apply {pd}", cwd=wt)
        if rc != 0:
            res.append((n, "DOES NOT APPLY TO OLD BASE: " + out[:200])); continue
        sh("git add -A && git -c user.name=x -c user.email=x@x commit -qm corpus", cwd=wt)
        ok = True
        for fx in fixes:
            rc, out = sh(f"git -c user.name=x -c user.email=x@x cherry-pick {fx}", cwd=wt)
            if rc != 0:
                ok = False
                res.append((n, f"CONFLICT cherry-picking {fx[:7]} in {wt}: " + out[-300:])); break
        if not ok: continue
        rc, out = sh(f"git diff {head} HEAD", cwd=wt)
        os.rename(pd, pd + "." + old)
        open(pd, "w").write(out)
        sh(f"git -C /repo worktree remove --force {wt}")
        res.append((n, "rebased"))
for n, r in res:
    if r != "applies": print(n, r)
print(sum(1 for _, r in res if r == "applies"), "apply unchanged;", sum(1 for _, r in res if r == "rebased"), "rebased;", sum(1 for _, r in res if r not in ("applies","rebased")), "need attention")
