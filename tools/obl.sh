#!/bin/bash
# usage: obl.sh <repo-dir> <prop> [pattern] : list the obligations (state, construct, position) a check derives on a tree, without touching /verif/evidence
export GOFLAGS=-mod=mod GOPROXY=off GOSUMDB=off GOTOOLCHAIN=local GOWORK=off
t=$(mktemp -d); cp /verif/known_findings.json $t/; mkdir -p $t/evidence
${BD:-/verif/bin/bdcheck} -prop $2 -dir $1 -verif $t >/dev/null 2>&1
python3 - $t/evidence/$2.json "${3:-}" <<'PY'
import json,sys,re
e=json.load(open(sys.argv[1])); pat=sys.argv[2]
def walk(o):
    if isinstance(o,dict):
        if 'construct' in o and 'state' in o:
            line="%s | %s | %s | %s"%(o.get('state'),o.get('rule'),o.get('construct'),o.get('pos'))
            if re.search(pat,line):
                print(line)
                if o.get('state')!='discharged':
                    for k in ('why','detail','facts'):
                        if o.get(k): print('     ',k,':',o.get(k))
        for v in o.values(): walk(v)
    elif isinstance(o,list):
        for v in o: walk(v)
walk(e)
PY
rm -rf $t
