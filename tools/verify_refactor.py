#!/usr/bin/env python3
"""Confirm a behaviour-preserving refactoring written by a sub-agent (scratch worktree outside
/repo and /verif): the patch applies to /repo's HEAD, builds, and the pinned baseline tests
still pass. Then store patch.diff and meta.json under /verif/refactors/<name>/.
usage: verify_refactor.py <name> <dir>"""
import json, os, shutil, subprocess, sys, tempfile
name, src = sys.argv[1], sys.argv[2]
base_commit = sys.argv[3] if len(sys.argv) > 3 else subprocess.run(["git", "-C", "/repo", "rev-parse", "--short", "HEAD"], capture_output=True, text=True).stdout.strip()
ENV = dict(os.environ, GOFLAGS="-mod=mod", GOPROXY="off", GOSUMDB="off", GOTOOLCHAIN="local")
wt = tempfile.mkdtemp(prefix="vref-", dir="/tmp"); os.rmdir(wt)
def sh(cmd, cwd=None, timeout=1800):
    p = subprocess.run(cmd, shell=True, cwd=cwd, env=ENV, capture_output=True, text=True, timeout=timeout)
    return p.returncode, p.stdout + p.stderr
ok, ran = True, []
try:
    rc, out = sh(f"git -C /repo worktree add --detach {wt} {base_commit}"); assert rc == 0, out
    rc, out = sh(f"git apply {os.path.join(src,'patch.diff')}", cwd=wt); ran.append({"cmd": "git apply", "rc": rc}); assert rc == 0, out
    rc, out = sh("go build ./...", cwd=wt); ran.append({"cmd": "go build ./...", "rc": rc}); assert rc == 0, out
    base = json.load(open("/root/.vp/BASELINE.json"))["stable_pass"]
    passed = set()
    def suite(pk="./..."):
        rc, out = sh(f"go test -json -vet=off -count=1 -timeout 25m {pk} 2>/dev/null", cwd=wt)
        for line in out.splitlines():
            try: ev = json.loads(line)
            except Exception: continue
            if ev.get("Action") == "pass" and ev.get("Test"):
                passed.add(ev["Package"] + "::" + ev["Test"])
    suite()
    missing = [t for t in base if t not in passed]
    if missing:
        suite(" ".join(sorted({m.split("::")[0] for m in missing})))
        missing = [t for t in base if t not in passed]
    ran.append({"cmd": "go test -json -vet=off -count=1 ./... (288 pinned tests)", "pinned_missing": missing})
    ok = not missing
    dst = f"/verif/refactors/{name}"
    os.makedirs(dst, exist_ok=True)
    shutil.copy(os.path.join(src, "patch.diff"), dst)
    meta = json.load(open(os.path.join(src, "meta.json"))) if os.path.exists(os.path.join(src, "meta.json")) else {}
    meta.update({"base": base_commit, "confirmed": ok, "confirmed_by": "tools/verify_refactor.py in a scratch worktree of /repo at the base commit", "ran": ran})
    json.dump(meta, open(os.path.join(dst, "meta.json"), "w"), indent=1)
    print(name, "CONFIRMED" if ok else "NOT CONFIRMED", missing[:5])
except AssertionError as e:
    print(name, "ERROR", str(e)[-1500:])
finally:
    sh(f"git -C /repo worktree remove --force {wt}"); shutil.rmtree(wt, ignore_errors=True)
