#!/bin/bash
# usage: rfdir.sh <tree-dir> : for every property, the failing keys on <tree-dir> that /tmp/rf/base (HEAD) does not have
export GOFLAGS=-mod=mod GOPROXY=off GOSUMDB=off GOTOOLCHAIN=local GOWORK=off
d=$1
mkdir -p /tmp/rfbase
for p in $(seq -f "C%02g" 1 20); do
  ( [ -s /tmp/rfbase/$p.json ] || ${BD:-/verif/bin/bdcheck} -prop $p -keys -dir /tmp/rf/base 2>/dev/null | tail -1 > /tmp/rfbase/$p.json
    r=$(${BD:-/verif/bin/bdcheck} -prop $p -keys -dir $d 2>/dev/null | tail -1)
    python3 - "$p" "$(cat /tmp/rfbase/$p.json)" "$r" <<'PY'
import json,sys
p=sys.argv[1]; b=json.loads(sys.argv[2]); r=json.loads(sys.argv[3])
if r.get('load_error'): print(p,"LOAD ERROR", r['load_error'][:300])
base=set(b.get('failed') or [])
for k in sorted(set(r.get('failed') or [])-base): print(p,"NEW", k)
PY
  ) &
  while [ $(jobs -r | wc -l) -ge 6 ]; do sleep 0.3; done
done
wait
