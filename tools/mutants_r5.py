#!/usr/bin/env python3
"""Soundness spot-checks for the generalisations made for the r5 rewrites: each entry takes a
behaviour-preserving rewrite from /verif/refactors/<name>/patch.diff (or /verif/refactors-open/<name>), applies ONE property-breaking
edit on top of it (in the rewritten shape: a classifier struct, a higher-order helper, a forwarder ...)
and expects the named rule of the named property to report something the rewrite alone does not.
Scratch worktrees under /tmp, removed afterwards; /repo is never touched.
usage: mutants_r5.py [filter ...]   (exit 0 when every mutant is reported)"""
import json, os, subprocess, sys, tempfile
BD = os.environ.get("BD", "/verif/bin/bdcheck")
ENV = dict(os.environ, GOFLAGS="-mod=mod", GOPROXY="off", GOSUMDB="off", GOTOOLCHAIN="local", GOWORK="off")
MUTANTS = [
 ("C08-r5", "internal/persistence/model/status.go", "\treturn st.Status == scheduler.StatusRunning", "\treturn st.Status != scheduler.StatusNone", "C08", "C08.correct-table",
  "the predicate behind the correction holds for more than a stale `running`"),
 ("C08-r5", "internal/persistence/model/status.go", "\tst.setState(scheduler.StatusError)", "\tst.setState(scheduler.StatusSuccess)", "C20", "C20.correction-footprint",
  "a dead run relabelled finished through the receiver's setter"),
 ("C08-r5", "internal/sock/client.go", "\t\treturn phaseReadResponse.failed(cause)", "\t\treturn phaseReadResponse.failed(ErrConnectionRefused)", "C16", "C16.client-errors-are-transport",
  "an error of the client's own, made by the wrapping helper of a phase type"),
 ("C08-r5", "internal/sock/client.go", "\t\treturn phaseTimeout.failed(ErrTimeout)", "\t\treturn phaseTimeout.failed(cause)", "C16", "C16.probe-table",
  "the timeout sentinel no longer wrapped (through the wrapping helper)"),
 ("C06-r5", "internal/persistence/jsondb/jsondb.go", "AddDate(0, 0, -keepDays)", "AddDate(0, 0, keepDays)", "C06", "C06.retention-guard",
  "the cutoff computed with the wrong sign inside the purge helper shared with RemoveAll"),
 ("C06-r5", "internal/persistence/jsondb/jsondb.go", "\tif retentionDays >= 0 {\n\t\treturn s.purge(dagFile, retentionDays)\n\t}\n\treturn nil", "\treturn s.purge(dagFile, retentionDays)", "C06", "C06.retention-guard",
  "negative retention reaches the purge helper"),
 ("C07-r5", "internal/persistence/jsondb/jsondb.go", "\tif err != nil {\n\t\tstale = twin.target\n\t}", "\tif err == nil {\n\t\tstale = twin.target\n\t}", "C07", "C07.compact-order",
  "the file chosen for removal is the original when the copy was NOT written"),
 ("C10-r5", "internal/dag/scheduler/graph.go", "\t\trecorded := node.data.Step.OutputVariables\n\t\tnode.data.Step.OutputVariables = shared\n", "\t\tnode.data.Step.OutputVariables = shared\n\t\trecorded := node.data.Step.OutputVariables\n", "C10", "C10.outputs-restored",
  "the recorded map read into the local after the node was re-pointed"),
 ("C10-r5", "internal/persistence/model/node.go", "\tn.Log = state.Log\n", "", "C08", "C08.persisted-fields",
  "the capture helper of the recorder no longer records the log path"),
 ("C16-r5", "internal/client/client.go", "\tcase errors.Is(err, sock.ErrTimeout):\n\t\treturn nil, err\n", "\tcase errors.Is(err, sock.ErrTimeout):\n\t\treturn model.NewStatusDefault(workflow), nil\n", "C16", "C16.probe-table",
  "a timed-out status request (made through two forwarders) answered as `not started`"),
 ("C20-r5", "internal/frontend/dag/action.go", "\t\tif node.Step.Name == stepName {", "\t\tif node.Step.Name != \"\" {", "C20", "C20.edit-footprint",
  "the remembered node is not chosen by the request's step name"),
 ("C18-r5", "internal/persistence/local/dag_store.go", "\tif target.present() {\n\t\treturn \"\", target.tagged(errDAGFileAlreadyExists)\n\t}\n", "", "C18", "C18.create-guard",
  "Create no longer asks the path type whether the file is there"),
 ("C18-r5", "internal/persistence/local/dag_store.go", "\tif to == from || !to.present() {", "\tif to == from || to.present() {", "C18", "C18.rename-guard",
  "the rename's existence test on the path type inverted"),
 ("C18-r5", "internal/client/client.go", "\tif err = e.dataStore.HistoryStore().RemoveAll(loc); err == nil {\n\t\terr = e.dataStore.DAGStore().Delete(name)\n\t}\n\treturn err", "\t_ = e.dataStore.HistoryStore().RemoveAll(loc)\n\terr = e.dataStore.DAGStore().Delete(name)\n\treturn err", "C18", "C18.order",
  "the definition is removed although the history removal failed (one error variable)"),
 ("C18-r5", "internal/client/client.go", "\tif err = store.Rename(m.from, m.to); err != nil {\n\t\treturn nil, nil, err\n\t}\n", "\t_ = store.Rename(m.from, m.to)\n", "C18", "C18.order",
  "the helper that renames the definition goes on when the rename failed"),
 ("C03-r5", "internal/dag/scheduler/runstate.go", "\ts.canceled = true\n", "\ts.canceled = !s.canceled\n", "C05", "C05.cancel-flag-monotone",
  "the cancel flag (now in an embedded struct) can be taken back"),
 ("C03-r5", "internal/dag/scheduler/runstate.go", "\tfailed := s.lastError != nil\n", "\tfailed := s.lastError == nil\n", "C04", "C04.status-table",
  "the predicate reading the last error (now in an embedded struct) inverted"),
 ("C02-r5", "internal/dag/executor/process.go", "\tgroup := -p.proc.Process.Pid", "\tgroup := p.proc.Process.Pid", "C05", "C05.kill-delivers",
  "the shared process type signals the leader only"),
 ("C02-r5", "internal/dag/executor/process.go", "exec.CommandContext(ctx, spec.program", "exec.CommandContext(context.Background(), spec.program", "C05", "C05.timeout-ctx",
  "the command builder of the shared spec ignores the step's context"),
 ("C02-r5", "internal/dag/executor/process.go", "Setpgid: true, Pgid: 0", "Pgid: 0", "C05", "C05.pgroup",
  "the command builder no longer starts the child in its own group"),
 ("C02-r5", "internal/dag/executor/command.go", "\t\t\tstep.Variables,\n\t\t\tdagContext.Envs.All(),\n\t\t\toutputAssignments(step),\n", "\t\t\tdagContext.Envs.All(),\n\t\t\toutputAssignments(step),\n\t\t\tstep.Variables,\n", "C11", "C11.outputs-last",
  "the step's static variables layered after the captured outputs in the table of environment layers"),
 ("C02-r5", "internal/dag/scheduler/scheduler.go", "\t\t\t\tnode.setStatus(NodeStatusSkipped)\n\t\t\t\tnode.SetError(unmet)", "\t\t\t\tnode.SetError(unmet)", "C02", "C02.precond-skip",
  "a failed precondition (reported by a helper) no longer marks the node skipped"),
]
def keys(tree, prop):
    p = subprocess.run([BD, "-prop", prop, "-keys", "-dir", tree], env=ENV, capture_output=True, text=True)
    try:
        return set(json.loads(p.stdout.strip().splitlines()[-1]).get("failed") or [])
    except Exception:
        return {"LOAD-ERROR " + (p.stdout + p.stderr)[-300:]}
bad = 0
for name, path, old, new, prop, rule, what in MUTANTS:
    if len(sys.argv) > 1 and not any(a in name + " " + what for a in sys.argv[1:]):
        continue
    wt = tempfile.mkdtemp(prefix="mut-", dir="/tmp"); os.rmdir(wt)
    try:
        subprocess.run(["git", "-C", "/repo", "worktree", "add", "--detach", wt, "HEAD"], check=True, capture_output=True)
        subprocess.run(["git", "apply", next(p for p in (f"/verif/refactors/{name}/patch.diff", f"/verif/refactors-open/{name}/patch.diff") if os.path.exists(p))], cwd=wt, check=True, capture_output=True)
        before = keys(wt, prop)
        f = os.path.join(wt, path); s = open(f).read()
        assert old in s, (name, "edit site not found")
        open(f, "w").write(s.replace(old, new, 1))
        b = subprocess.run(["go", "build", "./..."], cwd=wt, env=ENV, capture_output=True, text=True)
        assert b.returncode == 0, (name, b.stderr[-400:])
        new_keys = sorted(k for k in keys(wt, prop) - before if k.startswith(rule))
        ok = bool(new_keys)
        print(("REPORTED " if ok else "MISSED   ") + f"{name} + [{what}] -> {prop}: " + ("; ".join(new_keys)[:200] if ok else "nothing new under " + rule), flush=True)
        bad += 0 if ok else 1
    finally:
        subprocess.run(["git", "-C", "/repo", "worktree", "remove", "--force", wt], capture_output=True)
        subprocess.run(["rm", "-rf", wt])
sys.exit(1 if bad else 0)
