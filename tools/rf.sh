#!/bin/bash
# usage: rf.sh <refactor-name> <prop> : failing keys of <prop> on the refactored tree that the base tree does not have
export GOFLAGS=-mod=mod GOPROXY=off GOSUMDB=off GOTOOLCHAIN=local GOWORK=off
n=$1; p=$2
b=$(/verif/bin/bdcheck -prop $p -keys -dir /tmp/rf/base 2>/dev/null | tail -1)
r=$(/verif/bin/bdcheck -prop $p -keys -dir /tmp/rf/$n 2>/dev/null | tail -1)
python3 - "$b" "$r" <<'PY'
import json,sys
b=json.loads(sys.argv[1]); r=json.loads(sys.argv[2])
if r.get('load_error'): print("LOAD ERROR", r['load_error'][:300])
base=set(b.get('failed') or [])
for k in sorted(set(r.get('failed') or [])-base): print("  NEW", k)
PY
