#!/bin/bash
# usage: allquick.sh [dir] : run every quick check against a tree (default /repo) without touching /verif/evidence; print exit status and result line
export GOFLAGS=-mod=mod GOPROXY=off GOSUMDB=off GOTOOLCHAIN=local GOWORK=off
d=${1:-/repo}
t=$(mktemp -d); cp /verif/known_findings.json $t/; mkdir -p $t/evidence
for p in $(seq -f "C%02g" 1 20); do
  ( out=$(/verif/bin/bdcheck -prop $p -dir $d -verif $t 2>&1); echo "$p exit=$? $(echo "$out" | grep -c '^KNOWN-FINDING') known; $(echo "$out" | grep '^VIOLATION' | head -3 | tr '\n' ' ')" ) &
done | sort
wait
rm -rf $t
