#!/usr/bin/env python3
"""Confirm a seeded change independently, in a scratch worktree outside /repo and /verif:
 - the patch applies to /repo's HEAD and the tree builds,
 - the pinned baseline tests (BASELINE.json stable_pass) still pass with it,
 - the demonstration FAILS with the change and PASSES without it.
Then store patch.diff, the demonstration, meta.json (with what was run) under /verif/seeded/<name>/.
usage: verify_seed.py <name> <seed_dir> [--skip-suite]
"""
import json, os, re, shutil, subprocess, sys, tempfile

name, seed = sys.argv[1], sys.argv[2]
skip_suite = "--skip-suite" in sys.argv
ENV = dict(os.environ, GOFLAGS="-mod=mod", GOPROXY="off", GOSUMDB="off", GOTOOLCHAIN="local")
wt = tempfile.mkdtemp(prefix="vseed-", dir="/tmp")
os.rmdir(wt)
def sh(cmd, cwd=None, timeout=1500):
    p = subprocess.run(cmd, shell=True, cwd=cwd, env=ENV, capture_output=True, text=True, timeout=timeout)
    return p.returncode, p.stdout + p.stderr
ran = []
ok = True
try:
    rc, out = sh(f"git -C /repo worktree add --detach {wt} HEAD")
    assert rc == 0, out
    meta = {}
    mp = os.path.join(seed, "meta.json")
    if os.path.exists(mp):
        meta = json.load(open(mp))
    demo_src = None
    for cand in ("demo_test.go", "demo/main.go", "demo.go"):
        if os.path.exists(os.path.join(seed, cand)):
            demo_src = os.path.join(seed, cand)
            break
    assert demo_src, "no demo"
    loc = meta.get("demo_location", "").strip("/").removeprefix("./")
    if loc.endswith(".go"):
        loc = os.path.dirname(loc)
    src = open(demo_src).read()
    tests = re.findall(r"^func (Test\w+)\(", src, re.M)
    assert tests, "demo has no Test functions"
    assert os.path.isdir(os.path.join(wt, loc)), "demo location missing: " + loc
    demo_dst = os.path.join(wt, loc, "zz_seed_demo_test.go")
    rx = "^(" + "|".join(tests) + ")$"
    demo_cmd = f"go test -vet=off -count=1 -run '{rx}' ./{loc}/"
    # 1. apply
    rc, out = sh(f"git apply {os.path.join(seed,'patch.diff')}", cwd=wt)
    ran.append({"cmd": "git apply patch.diff", "rc": rc}); assert rc == 0, out
    rc, out = sh("go build ./...", cwd=wt)
    ran.append({"cmd": "go build ./... (with change)", "rc": rc}); assert rc == 0, out
    # 2. suite with change (demo not present)
    if not skip_suite:
        rc, out = sh("go test -json -vet=off -count=1 -timeout 25m ./... 2>/dev/null", cwd=wt)
        passed = set()
        for line in out.splitlines():
            try: ev = json.loads(line)
            except Exception: continue
            if ev.get("Action") == "pass" and ev.get("Test"):
                passed.add(ev["Package"] + "::" + ev["Test"])
        base = json.load(open("/root/.vp/BASELINE.json"))["stable_pass"]
        missing = [t for t in base if t not in passed]
        if missing:
            # re-run the affected packages once (timing flakes under load)
            pk = sorted({m.split("::")[0] for m in missing})
            rc, out = sh("go test -json -vet=off -count=1 -timeout 25m " + " ".join(pk) + " 2>/dev/null", cwd=wt)
            for line in out.splitlines():
                try: ev = json.loads(line)
                except Exception: continue
                if ev.get("Action") == "pass" and ev.get("Test"):
                    passed.add(ev["Package"] + "::" + ev["Test"])
            missing = [t for t in base if t not in passed]
        ran.append({"cmd": "go test -json -vet=off -count=1 ./... (with change; 288 pinned tests)", "pinned_missing": missing})
        if missing: ok = False
    # 3. demo with change: must fail
    shutil.copy(demo_src, demo_dst)
    rc, out = sh(demo_cmd, cwd=wt)
    ran.append({"cmd": demo_cmd + " (with change)", "rc": rc, "tail": out[-600:]})
    if rc == 0 or "FAIL" not in out or "[build failed]" in out or "[setup failed]" in out: ok = False
    # 4. demo without change: must pass
    rc, out = sh(f"git apply -R {os.path.join(seed,'patch.diff')}", cwd=wt); assert rc == 0, out
    rc, out = sh(demo_cmd, cwd=wt)
    ran.append({"cmd": demo_cmd + " (without change)", "rc": rc, "tail": out[-300:]})
    if rc != 0: ok = False
    dst = f"/verif/seeded/{name}"
    os.makedirs(dst, exist_ok=True)
    shutil.copy(os.path.join(seed, "patch.diff"), dst)
    shutil.copy(demo_src, os.path.join(dst, "demo_test.go.txt"))
    meta2 = {"property": meta.get("property", name.split("-")[0]), "summary": meta.get("summary"),
             "needs_to_manifest": meta.get("needs_to_manifest"), "files_changed": meta.get("files_changed"),
             "demo_location": loc, "demo_file": "demo_test.go.txt (copy to <demo_location>/zz_seed_demo_test.go)", "demo_cmd": demo_cmd,
             "confirmed": ok, "confirmed_by": "tools/verify_seed.py in a scratch worktree of /repo HEAD", "ran": ran,
             "author_ran": meta.get("author_ran") or meta.get("ran")}
    json.dump(meta2, open(os.path.join(dst, "meta.json"), "w"), indent=1)
    print(name, "CONFIRMED" if ok else "NOT CONFIRMED")
    if not ok:
        print(json.dumps(ran, indent=1)[-3000:])
except AssertionError as e:
    print(name, "ERROR", str(e)[-2000:])
finally:
    sh(f"git -C /repo worktree remove --force {wt}")
    shutil.rmtree(wt, ignore_errors=True)
