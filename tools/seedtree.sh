#!/bin/bash
# usage: seedtree.sh <seed-or-refactor-dir> <dest> : scratch worktree of /repo HEAD with the entry's patch applied (remove with: git -C /repo worktree remove --force <dest>)
set -e
git -C /repo worktree add --detach "$2" HEAD >/dev/null 2>&1
cd "$2" && (git apply "$1/patch.diff" || git apply --3way "$1/patch.diff")
