#!/usr/bin/env python3
"""Soundness spot-checks for the generalisations made for the r4 rewrites: each entry takes a
behaviour-preserving rewrite from /verif/refactors/<name>/patch.diff, applies ONE property-breaking
edit on top of it (in the rewritten shape: a classifier struct, a higher-order helper, a forwarder ...)
and expects the named rule of the named property to report something the rewrite alone does not.
Scratch worktrees under /tmp, removed afterwards; /repo is never touched.
usage: mutants_r4.py   (exit 0 when every mutant is reported)"""
import json, os, subprocess, sys, tempfile
BD = os.environ.get("BD", "/verif/bin/bdcheck")
ENV = dict(os.environ, GOFLAGS="-mod=mod", GOPROXY="off", GOSUMDB="off", GOTOOLCHAIN="local", GOWORK="off")
MUTANTS = [
 ("C01-r4", "internal/dag/scheduler/node.go",
  "\tcase status == NodeStatusError:\n\t\treturn dependencyVerdict{settleAs: NodeStatusCancel, reason: errUpstreamFailed}",
  "\tcase status == NodeStatusError:\n\t\treturn dependencyVerdict{proceed: true}", "C01", "C01.ready-table",
  "a classifier struct lets a failed dependency through"),
 ("C02-r4", "internal/dag/scheduler/run.go",
  "\t\tif execErr != nil && r.done != nil {\n\t\t\tr.done <- node\n\t\t\treturn true\n\t\t}",
  "\t\tif execErr != nil && r.done != nil {\n\t\t\treturn true\n\t\t}", "C08", "C08.done-on-every-exit",
  "the helper answers `reported` without having reported"),
 ("C15-r4", "internal/dag/scheduler/status.go", "\treturn !(running < int(l))", "\treturn !(running <= int(l))", "C15", "C15.gate",
  "off-by-one inside the limit's own predicate"),
 ("C04-r4", "internal/dag/scheduler/graph.go",
  "\t\tif dep.data.Step.ContinueOn.Skipped {\n\t\t\treturn upstreamSatisfied\n\t\t}\n", "", "C02", "C02.mark-table",
  "continueOn.skipped no longer consulted by the classifier"),
 ("C05-r4", "internal/agent/agent.go", "a.deliver(stopOrder{sig: syscall.SIGKILL}, nil)",
  "a.deliver(stopOrder{sig: syscall.SIGKILL, allowOverride: true}, nil)", "C05", "C05.agent-escalation",
  "the escalation may be overridden, through a forwarder taking a request struct"),
 ("C09-r4", "internal/scheduler/entry.go", "\treturn entries[:n]\n", "\treturn entries[:n+1]\n", "C09", "C09.tick",
  "the due prefix includes the first entry that is not due"),
 ("C09-r4", "internal/scheduler/entry.go", "\t} else if e.EntryType == entryTypeStop {\n\t\treturn e.Job.Stop",
  "\t} else if e.EntryType == entryTypeStop {\n\t\treturn e.Job.Restart", "C09", "C09.entry-table",
  "a stop entry dispatched to Restart through a method value"),
 ("C08-r4", "internal/persistence/model/status.go", "\tst.setStatus(scheduler.StatusError)", "\tst.setStatus(scheduler.StatusSuccess)", "C08", "C08.correct-table",
  "a dead run relabelled finished through the receiver's helper"),
 ("C16-r4", "internal/sock/server.go", "\t\tif err != nil {\n\t\t\tcontinue\n\t\t}\n", "\t\tif err != nil {\n\t\t\treturn err\n\t\t}\n", "C16", "C16.serve-until-shutdown",
  "the accept loop is left on a failed accept (flag written by CompareAndSwap)"),
 ("C10-r4", "internal/dag/scheduler/graph.go",
  "\t\tif recorded := node.data.Step.OutputVariables; recorded != nil {\n\t\t\trecorded.Range(graph.restoreOutputVariable)\n\t\t}\n\t\tgraph.add(node)\n",
  "\t\tgraph.add(node)\n\t\tif recorded := node.data.Step.OutputVariables; recorded != nil {\n\t\t\trecorded.Range(graph.restoreOutputVariable)\n\t\t}\n", "C10", "C10.outputs-restored",
  "recorded outputs read after the node was re-pointed (bound-method callback)"),
 ("C18-r4", "internal/persistence/local/dag_store.go", "\tif to != from && to.exists() {", "\tif to != from && to.exists() && len(newID) == 0 {", "C18", "C18.rename-guard",
  "the rename (behind a forwarder on a path type) no longer refuses an existing target"),
 ("C18-r4", "internal/persistence/local/spec_file.go", "\tif _, err := file.Write(content); err != nil {\n\t\treturn err\n\t}\n", "\t_, _ = file.Write(content)\n", "C18", "C18.atomic-save",
  "the helper that stages the new text no longer reports a failed write"),
 ("C20-r4", "internal/frontend/dag/history_grid.go", "return func(n *model.Node) bool { return n.Step.Name == name }",
  "return func(n *model.Node) bool { return len(n.Step.Name) == len(name) }", "C20", "C20.edit-footprint",
  "the predicate made for the index helper no longer compares the step's name with the request's"),
]
def keys(tree, prop):
    p = subprocess.run([BD, "-prop", prop, "-keys", "-dir", tree], env=ENV, capture_output=True, text=True)
    try:
        return set(json.loads(p.stdout.strip().splitlines()[-1]).get("failed") or [])
    except Exception:
        return {"LOAD-ERROR " + (p.stdout + p.stderr)[-300:]}
bad = 0
for name, path, old, new, prop, rule, what in MUTANTS:
    wt = tempfile.mkdtemp(prefix="mut-", dir="/tmp"); os.rmdir(wt)
    try:
        subprocess.run(["git", "-C", "/repo", "worktree", "add", "--detach", wt, "HEAD"], check=True, capture_output=True)
        subprocess.run(["git", "apply", f"/verif/refactors/{name}/patch.diff"], cwd=wt, check=True, capture_output=True)
        before = keys(wt, prop)
        f = os.path.join(wt, path); s = open(f).read()
        assert old in s, (name, "edit site not found")
        open(f, "w").write(s.replace(old, new, 1))
        b = subprocess.run(["go", "build", "./..."], cwd=wt, env=ENV, capture_output=True, text=True)
        assert b.returncode == 0, (name, b.stderr[-400:])
        new_keys = sorted(k for k in keys(wt, prop) - before if k.startswith(rule))
        ok = bool(new_keys)
        print(("REPORTED " if ok else "MISSED   ") + f"{name} + [{what}] -> {prop}: " + ("; ".join(new_keys)[:200] if ok else "nothing new under " + rule), flush=True)
        bad += 0 if ok else 1
    finally:
        subprocess.run(["git", "-C", "/repo", "worktree", "remove", "--force", wt], capture_output=True)
        subprocess.run(["rm", "-rf", wt])
sys.exit(1 if bad else 0)
