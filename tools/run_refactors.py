#!/usr/bin/env python3
"""Run every check against every confirmed behaviour-preserving refactoring under
/verif/refactors/<name>/ (scratch worktree, bdcheck -keys). Any failing obligation key that
the unchanged tree does not have is a FALSE ALARM of the checker (or an undecided anchor):
it must be fixed in the checker. Results: refactors/<name>/detection.json, refactors/RESULTS.md.
usage: run_refactors.py [name ...]"""
import json, os, subprocess, sys, tempfile
sys.path.insert(0, "/verif/tools")
import importlib.util
spec = importlib.util.spec_from_file_location("rs", "/verif/tools/run_seeds.py")
src = open("/verif/tools/run_seeds.py").read().rsplit("\n\nmain()", 1)[0]
ns = {}
exec(compile(src, "run_seeds", "exec"), ns)
allkeys = ns["allkeys"]
REFDIR = os.environ.get("REFDIR", "/verif/refactors")  # REFDIR=/verif/refactors-open: the rewrites that still set off alarms
names = sys.argv[1:] or sorted(n for n in os.listdir(REFDIR) if os.path.isdir(os.path.join(REFDIR, n)))
bases = {}
def base_keys(commit):
    if commit not in bases:
        wt = tempfile.mkdtemp(prefix="refbase-", dir="/tmp"); os.rmdir(wt)
        try:
            subprocess.run(["git", "-C", "/repo", "worktree", "add", "--detach", wt, commit], check=True, capture_output=True)
            bases[commit] = allkeys(wt)
        finally:
            subprocess.run(["git", "-C", "/repo", "worktree", "remove", "--force", wt], capture_output=True)
            subprocess.run(["rm", "-rf", wt])
    return bases[commit]
rows = []
for n in names:
    d = os.path.join(REFDIR, n)
    meta = json.load(open(os.path.join(d, "meta.json")))
    commit = meta.get("base", "HEAD")
    base = base_keys(commit)
    wt = tempfile.mkdtemp(prefix="refrun-", dir="/tmp"); os.rmdir(wt)
    try:
        subprocess.run(["git", "-C", "/repo", "worktree", "add", "--detach", wt, commit], check=True, capture_output=True)
        subprocess.run(["git", "apply", os.path.join(d, "patch.diff")], cwd=wt, check=True, capture_output=True)
        got = allkeys(wt)
    finally:
        subprocess.run(["git", "-C", "/repo", "worktree", "remove", "--force", wt], capture_output=True)
        subprocess.run(["rm", "-rf", wt])
    det = {"base": commit, "new_reports": {}, "errors": {}}
    for p, (k, err) in got.items():
        if err:
            det["errors"][p] = err; continue
        new = [x for x in k if x not in set(base[p][0] or [])]
        if new: det["new_reports"][p] = new
    det["silent"] = not det["new_reports"] and not det["errors"]
    json.dump(det, open(os.path.join(d, "detection.json"), "w"), indent=1)
    print(n, "SILENT" if det["silent"] else "FALSE-ALARM", json.dumps(det["new_reports"])[:2500], json.dumps(det["errors"])[:300], flush=True)
    rows.append((n, "silent" if det["silent"] else "**reported**", "; ".join(f"{p}: {', '.join(v)}" for p, v in det["new_reports"].items()) or "–"))
if not sys.argv[1:]:
    with open(os.path.join(REFDIR, "RESULTS.md"), "w") as f:
        f.write("# Behaviour-preserving refactorings vs. checks\n\n| refactoring | all 20 checks | reports |\n|---|---|---|\n")
        for r in rows: f.write("| " + " | ".join(r) + " |\n")
