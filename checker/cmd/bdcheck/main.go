// bdcheck decides the static clauses of one property of /verif/properties.jsonl
// against /repo's current sources. See /verif/DESIGN.md.
package main

import (
	"encoding/json"
	"flag"
	"fmt"
	"os"
	"path/filepath"
	"runtime/debug"
	"sort"
	"strconv"
	"strings"

	"bdcheck/internal/load"
	"bdcheck/internal/report"
	"bdcheck/internal/rules"
	"bdcheck/internal/variants"
)

func main() {
	prop := flag.String("prop", "", "property id (C01..C20)")
	tier := flag.String("tier", "quick", "quick | thorough")
	dir := flag.String("dir", "/repo", "repository root")
	verif := flag.String("verif", "/verif", "verification root")
	replay := flag.String("replay", "", "replay file: re-derive the listed obligations and print the full diagnosis")
	overlay := flag.String("overlay", "", "internal: JSON file {path: content} of source overlays (variant suite)")
	keysOnly := flag.Bool("keys", false, "internal: print failing obligation keys as JSON, write no evidence")
	dump := flag.String("dump", "", "debug: dump SSA + dominating conditions of pkg/rel:Func")
	manifest := flag.Bool("manifest", false, "print MANIFEST.json generated from the rule registry")
	rolesDbg := flag.Bool("roles", false, "debug: print the roles resolved on this tree (scheduler, graph, node, agent)")
	lockstat := flag.Bool("lockstat", false, "debug: print lock / field access statistics")
	strictSelf := flag.Bool("strict-selftest", false, "a misbehaving selftest variant fails the run (development gate on the pinned tree)")
	novar := flag.Bool("novariants", false, "thorough tier without the variant suite (debug)")
	flag.Parse()

	if *replay != "" {
		b, err := os.ReadFile(*replay)
		if err == nil {
			var rf struct{ Property, Tier string }
			if json.Unmarshal(b, &rf) == nil && rf.Property != "" {
				if *prop == "" {
					*prop = rf.Property
				}
				*tier = rf.Tier
			}
		}
	}
	seed := int64(0)
	if s := os.Getenv("VERIF_SEED"); s != "" {
		if v, err := strconv.ParseInt(s, 10, 64); err == nil {
			seed = v
		}
	}
	if t := os.Getenv("VERIF_TIER"); t != "" && *tier == "" {
		*tier = t
	}

	if *manifest {
		writeManifest(*verif)
		return
	}
	if *rolesDbg {
		p, err := load.Load(load.Options{Dir: *dir})
		if err != nil {
			fmt.Println(err)
			os.Exit(2)
		}
		rules.DumpRoles(p)
		return
	}
	if *lockstat {
		p, err := load.Load(load.Options{Dir: *dir})
		if err != nil {
			fmt.Println(err)
			os.Exit(2)
		}
		rules.LockStat(p)
		return
	}
	if *dump != "" {
		p, err := load.Load(load.Options{Dir: *dir})
		if err != nil {
			fmt.Println(err)
			os.Exit(2)
		}
		rules.Dump(p, *dump)
		return
	}

	pr := rules.Props[*prop]
	if pr == nil {
		var ids []string
		for id := range rules.Props {
			ids = append(ids, id)
		}
		sort.Strings(ids)
		fmt.Fprintf(os.Stderr, "unknown property %q; known: %s\n", *prop, strings.Join(ids, " "))
		os.Exit(2)
	}
	evidence := filepath.Join(*verif, "evidence", *prop+".json")
	outDir := filepath.Join(*verif, "out")
	rep := report.New(*prop, *tier, seed)
	rep.Decided, rep.NotDec, rep.Assume = pr.Decided, pr.NotDec, pr.Assume

	fail := func(rule, msg string) {
		rep.Rule(rule, "load", "the tree must be analysable", 0)
		rep.Unknown("load", "-", msg)
	}

	var ov map[string][]byte
	if *overlay != "" {
		b, err := os.ReadFile(*overlay)
		if err != nil {
			fmt.Println(err)
			os.Exit(2)
		}
		var m map[string]string
		if err := json.Unmarshal(b, &m); err != nil {
			fmt.Println(err)
			os.Exit(2)
		}
		ov = map[string][]byte{}
		for k, v := range m {
			ov[k] = []byte(v)
		}
	}

	extra := map[string]any{}
	func() {
		defer func() {
			if r := recover(); r != nil {
				fail("PANIC", fmt.Sprintf("checker panic: %v\n%s", r, debug.Stack()))
			}
		}()
		p, err := load.Load(load.Options{Dir: *dir, Whole: (*tier == "thorough" && !*keysOnly) || pr.NeedDeps, Overlay: ov})
		if err != nil {
			if *keysOnly {
				// a variant that does not type-check is discarded by the caller
				fmt.Println(`{"load_error":` + strconv.Quote(err.Error()) + `}`)
				os.Exit(0)
			}
			fail("LOAD", err.Error())
			return
		}
		extra["analysed"] = map[string]any{
			"repo_packages": len(p.Pkgs), "all_packages": p.AllPkgs, "repo_functions": len(p.Funcs),
			"ssa_functions": len(p.AllFuncs), "callgraph": p.CGKind, "callgraph_edges": p.NumEdges(),
			"load_s": p.LoadS, "ssa_s": p.SSAS, "callgraph_s": p.CGS,
		}
		env := rules.NewEnv(p, rep)
		pr.Run(env)
	}()

	if *keysOnly {
		var keys []string
		for _, o := range rep.Obs {
			if o.State != report.Discharged {
				keys = append(keys, o.Key())
			}
		}
		for _, rs := range rep.Rules {
			if rs.Instances < rs.MinInstances {
				keys = append(keys, rs.Rule+" | anti-vacuity")
			}
		}
		b, _ := json.Marshal(map[string]any{"failed": keys})
		fmt.Println(string(b))
		return
	}

	variants.VerifDir = *verif
	findings, err := report.LoadFindings(filepath.Join(*verif, "known_findings.json"))
	if err != nil {
		fail("FINDINGS", err.Error())
	}

	if *tier == "thorough" && !*novar && *replay == "" {
		vr := variants.Run(*prop, *dir, seed, findings)
		extra["variant_suite"] = vr.Summary
		// A variant that misbehaves says something about the checker on this tree,
		// not that this tree breaks the property: it is reported loudly and recorded
		// in the evidence, and fails the run only under -strict-selftest (the mode the
		// checker's own development gate uses on the pinned tree).
		var sp []map[string]string
		for _, pb := range vr.Problems {
			fmt.Printf("SELFTEST-PROBLEM property=%s variant=%q %s\n", *prop, pb.Name, pb.Msg)
			sp = append(sp, map[string]string{"variant": pb.Name, "problem": pb.Msg})
		}
		extra["selftest_problems"] = sp
		if len(vr.Problems) > 0 && *strictSelf {
			rep.Rule("SELFTEST", "variant suite", "must-fire variants are reported, must-stay-silent variants are not", 0)
			for _, pb := range vr.Problems {
				rep.Unknown("variant "+pb.Name, "-", pb.Msg)
			}
		}
	}

	res, err := rep.Finish(findings, evidence, outDir, extra)
	if err != nil {
		fmt.Println("cannot write evidence:", err)
		os.Exit(2)
	}
	for _, l := range res.Lines {
		fmt.Println(l)
	}
	disc := 0
	for _, o := range rep.Obs {
		if o.State == report.Discharged {
			disc++
		}
	}
	fmt.Printf("%s %s: %d obligations, %d discharged, %d known finding(s), %d violation(s)\n",
		*prop, *tier, len(rep.Obs), disc, res.Known, res.Violations)
	if res.Violations > 0 {
		os.Exit(1)
	}
}

// notApplicable gives the reason for every property without a registered check.
var notApplicable = map[string]string{}

func writeManifest(verif string) {
	type check map[string]any
	var ids []string
	for id, p := range rules.Props {
		if !p.Stub {
			ids = append(ids, id)
		}
	}
	sort.Strings(ids)
	var checks []check
	for _, id := range ids {
		p := rules.Props[id]
		checks = append(checks, check{
			"property_id":         id,
			"quick_cmd":           "bin/bdcheck -prop " + id + " -tier quick",
			"thorough_cmd":        "bin/bdcheck -prop " + id + " -tier thorough",
			"evidence_file":       "evidence/" + id + ".json",
			"replay_cmd_template": "bin/bdcheck -prop " + id + " -replay {path}",
			"engine":              "bdcheck",
			"technique":           p.Technique,
			"level_claimed": map[string]any{
				"category": "other",
				"text": "Static analysis, not a proof of the behaviour: decides structural necessary conditions of the property on every path of the current source (" +
					strings.Join(p.Decided, "; ") + "). A violated or undecidable obligation names the construct. Right level because the property quantifies over runtime schedules/inputs/crash points that no sound static argument in reach bounds; these clauses are the part visible in the shape of the code.",
				"design_ref": "DESIGN.md section 4 / " + id,
			},
			"level_note": "NOT decided: " + strings.Join(p.NotDec, "; ") + ". Trusted: go/packages, go/types, go/ssa (x/tools v0.29.0), the checker's dominance/reachability code; " + strings.Join(p.Assume, "; "),
		})
	}
	na := []map[string]string{}
	b, _ := os.ReadFile(filepath.Join(verif, "properties.jsonl"))
	for _, line := range strings.Split(string(b), "\n") {
		var pr struct {
			ID string `json:"id"`
		}
		if json.Unmarshal([]byte(line), &pr) != nil || pr.ID == "" {
			continue
		}
		if p, ok := rules.Props[pr.ID]; ok && !p.Stub {
			continue
		}
		reason := notApplicable[pr.ID]
		if reason == "" {
			reason = "check not built yet (planned static rules: DESIGN.md section 4)"
		}
		na = append(na, map[string]string{"property_id": pr.ID, "reason": reason})
	}
	m := map[string]any{
		"version":   1,
		"setup_cmd": "cd /verif/checker && GOFLAGS=-mod=mod GOPROXY=off GOSUMDB=off GOTOOLCHAIN=local GOWORK=off go build -o /verif/bin/bdcheck ./cmd/bdcheck",
		"hooks": map[string]any{
			"guard":            "verif",
			"enable":           "none needed: the checker only reads /repo's sources (go/packages + go/ssa); no hook exists in /repo",
			"baseline_off_cmd": "cd /repo && GOFLAGS=-mod=mod GOPROXY=off GOSUMDB=off go test -json -vet=off -count=1 -timeout 25m ./...",
			"source_commits":   []string{},
			"add_only":         true,
		},
		"engines": []map[string]any{{"name": "bdcheck", "path": "checker/cmd/bdcheck", "serves_properties": ids,
			"kind_free_text": "repository-specific static analyser: go/packages type-checked program + go/ssa + call graph (CHA quick, VTA thorough); dominating-condition sets, must-pass-through, value-flow slices, who-may-write/call, enum tables; thorough tier adds an overlay-based must-fire / must-stay-silent variant suite that tests the checker itself"}},
		"checks":         checks,
		"notes":          "Static analysis only (DESIGN.md). Every check reads /repo's current working tree on each run and never executes repository code. known_findings.json lists genuine defects (known / fixed).",
		"not_applicable": na,
	}
	out, _ := json.MarshalIndent(m, "", " ")
	fmt.Println(string(out))
}
