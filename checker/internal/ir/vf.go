package ir

import (
	"go/token"

	"golang.org/x/tools/go/ssa"
)

// Flow is a backward value-flow query (def-use slicing without executing
// anything). Starting from a value it walks to the values it is computed from
// through a whitelist of pass-through instructions.
type Flow struct {
	C *Ctx
	// Source classifies a value as a wanted source.
	Source func(ssa.Value) bool
	// Through decides whether to continue through a call (e.g. strings.TrimSpace,
	// fmt.Sprintf, filepath.Join): it returns the argument indexes to follow, or
	// nil to stop (the call is then a leaf).
	Through func(*ssa.Call) []int
	// MaxDepth bounds the walk.
	MaxDepth int
	// Leaves collects the terminal values that were not sources.
	Leaves []ssa.Value
	// Sources collects the source values reached.
	Sources []ssa.Value
	seen    map[ssa.Value]bool
}

// All reports whether every backward path from v ends in a Source
// (must-derive); Any whether some path does (may-derive).
func (f *Flow) All(v ssa.Value) bool {
	f.seen = map[ssa.Value]bool{}
	f.Leaves, f.Sources = nil, nil
	f.walk(v, 0)
	return len(f.Leaves) == 0 && len(f.Sources) > 0
}

func (f *Flow) Any(v ssa.Value) bool {
	f.seen = map[ssa.Value]bool{}
	f.Leaves, f.Sources = nil, nil
	f.walk(v, 0)
	return len(f.Sources) > 0
}

func (f *Flow) leaf(v ssa.Value) { f.Leaves = append(f.Leaves, v) }

func (f *Flow) walk(v ssa.Value, d int) {
	if v == nil || f.seen[v] {
		return
	}
	f.seen[v] = true
	if f.Source != nil && f.Source(v) {
		f.Sources = append(f.Sources, v)
		return
	}
	max := f.MaxDepth
	if max == 0 {
		max = 40
	}
	if d > max {
		f.leaf(v)
		return
	}
	switch x := v.(type) {
	case *ssa.Phi:
		for _, e := range x.Edges {
			f.walk(e, d+1)
		}
	case *ssa.Extract:
		f.walk(x.Tuple, d+1)
	case *ssa.Convert:
		f.walk(x.X, d+1)
	case *ssa.ChangeType:
		f.walk(x.X, d+1)
	case *ssa.ChangeInterface:
		f.walk(x.X, d+1)
	case *ssa.MakeInterface:
		f.walk(x.X, d+1)
	case *ssa.Field:
		f.walk(x.X, d+1)
	case *ssa.FieldAddr:
		f.walk(x.X, d+1)
	case *ssa.IndexAddr:
		f.walk(x.X, d+1)
	case *ssa.Index:
		f.walk(x.X, d+1)
	case *ssa.Slice:
		f.walk(x.X, d+1)
	case *ssa.TypeAssert:
		f.walk(x.X, d+1)
	case *ssa.UnOp:
		if x.Op == token.MUL {
			// load: from an Alloc cell or a captured variable follow the stores
			if cell := cellOf(x.X); cell != nil {
				stores := StoresTo(cell)
				if len(stores) == 0 {
					f.leaf(v)
					return
				}
				for _, s := range stores {
					f.walk(s, d+1)
				}
				return
			}
			f.walk(x.X, d+1)
			return
		}
		f.walk(x.X, d+1)
	case *ssa.BinOp:
		f.walk(x.X, d+1)
		f.walk(x.Y, d+1)
	case *ssa.Call:
		if f.Through != nil {
			if idx := f.Through(x); idx != nil {
				for _, i := range idx {
					if i < len(x.Call.Args) {
						f.walk(x.Call.Args[i], d+1)
					}
				}
				return
			}
		}
		f.leaf(v)
	default:
		f.leaf(v)
	}
}

// cellOf returns the local variable cell (Alloc, possibly seen through a
// FreeVar of a closure) that addr denotes, or nil.
func cellOf(addr ssa.Value) ssa.Value {
	switch x := addr.(type) {
	case *ssa.Alloc:
		return x
	case *ssa.FreeVar:
		return x
	}
	return nil
}

// StoresTo returns the values stored into a local cell: for an Alloc the
// Stores in its function and in closures capturing it; for a FreeVar the
// stores to the captured Alloc in the parent and siblings.
func StoresTo(cell ssa.Value) []ssa.Value {
	var out []ssa.Value
	seen := map[ssa.Value]bool{}
	var visit func(c ssa.Value)
	visit = func(c ssa.Value) {
		if seen[c] {
			return
		}
		seen[c] = true
		refs := c.Referrers()
		if refs != nil {
			for _, r := range *refs {
				switch x := r.(type) {
				case *ssa.Store:
					if x.Addr == c {
						out = append(out, x.Val)
					}
				case *ssa.MakeClosure:
					// c bound to a free variable of the closure
					for i, b := range x.Bindings {
						if b == c {
							fn := x.Fn.(*ssa.Function)
							if i < len(fn.FreeVars) {
								visit(fn.FreeVars[i])
							}
						}
					}
				}
			}
		}
		if fv, ok := c.(*ssa.FreeVar); ok {
			// go to the binding in the parent
			fn := fv.Parent()
			idx := -1
			for i, v := range fn.FreeVars {
				if v == fv {
					idx = i
				}
			}
			if par := fn.Parent(); par != nil && idx >= 0 {
				for _, b := range par.Blocks {
					for _, in := range b.Instrs {
						if mc, ok := in.(*ssa.MakeClosure); ok && mc.Fn == fn && idx < len(mc.Bindings) {
							visit(mc.Bindings[idx])
						}
					}
				}
			}
		}
	}
	visit(cell)
	return out
}

// CallsIn lists the call instructions (call, go, defer) of fn whose callee
// satisfies pred, in block order.
func CallsIn(fn *ssa.Function, pred func(*ssa.CallCommon) bool) []ssa.CallInstruction {
	var out []ssa.CallInstruction
	if fn == nil {
		return nil
	}
	for _, b := range fn.Blocks {
		for _, in := range b.Instrs {
			if ci, ok := in.(ssa.CallInstruction); ok && pred(ci.Common()) {
				out = append(out, ci)
			}
		}
	}
	return out
}

// WithClosures returns fn and every anonymous function nested in it.
func WithClosures(fn *ssa.Function) []*ssa.Function {
	if fn == nil {
		return nil
	}
	out := []*ssa.Function{fn}
	for _, a := range fn.AnonFuncs {
		out = append(out, WithClosures(a)...)
	}
	return out
}

// IsCallTo reports whether the call's static callee has the given full name
// (as printed by ssa.Function.String, e.g. "os.Remove" or
// "(*bufio.Writer).Flush").
func IsCallTo(call *ssa.CallCommon, names ...string) bool {
	n := CalleeName(call)
	for _, w := range names {
		if n == w {
			return true
		}
	}
	return false
}
