package ir

import (
	"fmt"
	"go/token"
	"sort"
	"strings"

	"golang.org/x/tools/go/ssa"
)

// NLit is a normalised literal: negations folded into the polarity and, for
// comparisons, into the operator (so `!(a >= b)` and `b > a` are both `a < b`).
type NLit struct {
	// Kind "cmp": X Op Y with Op in == != < <= ; "val": the boolean value V is true/false.
	Kind string
	Op   token.Token
	X, Y ssa.Value
	V    ssa.Value
	Pol  bool // for Kind "val"
	Src  Lit
}

func negOp(op token.Token) token.Token {
	switch op {
	case token.EQL:
		return token.NEQ
	case token.NEQ:
		return token.EQL
	case token.LSS:
		return token.GEQ
	case token.GEQ:
		return token.LSS
	case token.GTR:
		return token.LEQ
	case token.LEQ:
		return token.GTR
	}
	return token.ILLEGAL
}

// Normalize turns a branch literal into canonical form.
func Normalize(l Lit) NLit {
	v, pol := l.Cond, l.Pol
	for {
		if u, ok := v.(*ssa.UnOp); ok && u.Op == token.NOT {
			v, pol = u.X, !pol
			continue
		}
		break
	}
	if b, ok := v.(*ssa.BinOp); ok {
		op := b.Op
		switch op {
		case token.EQL, token.NEQ, token.LSS, token.LEQ, token.GTR, token.GEQ:
			if !pol {
				op = negOp(op)
			}
			x, y := b.X, b.Y
			// canonical direction: only < and <= (swap operands of > and >=)
			switch op {
			case token.GTR:
				op, x, y = token.LSS, y, x
			case token.GEQ:
				op, x, y = token.LEQ, y, x
			case token.EQL, token.NEQ:
				// constant on the right
				if _, ok := x.(*ssa.Const); ok {
					x, y = y, x
				}
			}
			return NLit{Kind: "cmp", Op: op, X: x, Y: y, Src: l}
		}
	}
	return NLit{Kind: "val", V: v, Pol: pol, Src: l}
}

// NormalizeAll normalises a list of literals.
func NormalizeAll(ls []Lit) []NLit {
	out := make([]NLit, len(ls))
	for i, l := range ls {
		out[i] = Normalize(l)
	}
	return out
}

// Render gives a readable, position-free rendering of a value for reports.
func (c *Ctx) Render(v ssa.Value) string { return c.render(v, 0) }

func (c *Ctx) render(v ssa.Value, d int) string {
	if v == nil {
		return "?"
	}
	if d > 6 {
		return v.Name()
	}
	v = Resolve(v)
	if p, ok := c.PathOf(v); ok {
		return c.render(p.Root, d+1) + "." + p.Dotted()
	}
	switch x := v.(type) {
	case *ssa.Const:
		if x.Value == nil {
			return "nil"
		}
		if names := EnumConsts(x.Type()); len(names) > 0 {
			if k, ok := ConstInt(x); ok {
				if n, ok := names[k]; ok {
					return n
				}
			}
		}
		return x.Value.String()
	case *ssa.Parameter:
		return x.Name()
	case *ssa.FreeVar:
		return x.Name()
	case *ssa.Global:
		return x.Name()
	case *ssa.Alloc:
		if x.Comment != "" {
			return "&" + x.Comment
		}
		return x.Name()
	case *ssa.UnOp:
		if x.Op == token.MUL {
			if a, ok := x.X.(*ssa.Alloc); ok && a.Comment != "" {
				return a.Comment
			}
			return "*" + c.render(x.X, d+1)
		}
		return x.Op.String() + c.render(x.X, d+1)
	case *ssa.BinOp:
		return "(" + c.render(x.X, d+1) + " " + x.Op.String() + " " + c.render(x.Y, d+1) + ")"
	case *ssa.Call:
		var args []string
		for _, a := range x.Call.Args {
			args = append(args, c.render(a, d+1))
		}
		return CalleeName(&x.Call) + "(" + strings.Join(args, ", ") + ")"
	case *ssa.Extract:
		return c.render(x.Tuple, d+1) + fmt.Sprintf("#%d", x.Index)
	case *ssa.Phi:
		return "phi:" + x.Comment
	case *ssa.Lookup:
		return c.render(x.X, d+1) + "[" + c.render(x.Index, d+1) + "]"
	case *ssa.MakeInterface:
		return c.render(x.X, d+1)
	case *ssa.Convert:
		return c.render(x.X, d+1)
	case *ssa.ChangeType:
		return c.render(x.X, d+1)
	case *ssa.TypeAssert:
		return c.render(x.X, d+1) + ".(" + x.AssertedType.String() + ")"
	case *ssa.Function:
		return x.String()
	case *ssa.MakeClosure:
		return "closure:" + x.Fn.Name()
	}
	return v.Name()
}

// RenderLit renders one normalised literal.
func (c *Ctx) RenderLit(n NLit) string {
	if n.Kind == "cmp" {
		return c.Render(n.X) + " " + n.Op.String() + " " + c.Render(n.Y)
	}
	if n.Pol {
		return c.Render(n.V)
	}
	return "!" + c.Render(n.V)
}

// RenderLits renders a list of literals, sorted, for evidence.
func (c *Ctx) RenderLits(ls []Lit) []string {
	var out []string
	for _, l := range ls {
		out = append(out, c.RenderLit(Normalize(l)))
	}
	sort.Strings(out)
	return out
}

// CalleeName returns a stable name for the callee of a call.
func CalleeName(call *ssa.CallCommon) string {
	if call.IsInvoke() {
		return "iface:" + NamedType(call.Value.Type()) + "." + call.Method.Name()
	}
	if f := call.StaticCallee(); f != nil {
		return FuncName(f)
	}
	if b, ok := call.Value.(*ssa.Builtin); ok {
		return "builtin:" + b.Name()
	}
	return "dynamic:" + call.Value.Name()
}

// FuncName renders pkgpath.Func or pkgpath.(*T).Method; closures as parent$N.
func FuncName(f *ssa.Function) string {
	if f == nil {
		return "?"
	}
	return strings.ReplaceAll(f.String(), "github.com/ErdemOzgen/blackdagger/", "")
}

// EnumSet is a subset of the constants of an enum type.
type EnumSet map[int64]bool

func FullEnum(names map[int64]string) EnumSet {
	s := EnumSet{}
	for k := range names {
		s[k] = true
	}
	return s
}

func (s EnumSet) Names(names map[int64]string) []string {
	var out []string
	for k := range s {
		if n, ok := names[k]; ok {
			out = append(out, n)
		} else {
			out = append(out, fmt.Sprint(k))
		}
	}
	sort.Strings(out)
	return out
}

// Restrict narrows the set of values a subject may have under the given
// literals. isSubject decides whether an SSA value denotes the subject.
// Values outside the declared enum ("other") are tracked with key -1<<62.
const OtherEnum = int64(-1) << 62

func Restrict(lits []NLit, isSubject func(ssa.Value) bool, names map[int64]string) EnumSet {
	s := FullEnum(names)
	s[OtherEnum] = true
	for _, l := range lits {
		if l.Kind != "cmp" || (l.Op != token.EQL && l.Op != token.NEQ) {
			continue
		}
		k, ok := ConstInt(l.Y)
		if !ok || !isSubject(l.X) {
			continue
		}
		if l.Op == token.EQL {
			for v := range s {
				if v != k {
					delete(s, v)
				}
			}
		} else {
			delete(s, k)
		}
	}
	return s
}
