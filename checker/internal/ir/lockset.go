package ir

import (
	"go/token"
	"go/types"
	"sort"
	"strings"

	"golang.org/x/tools/go/ssa"
)

// Lock identifies a held mutex: the access path of the mutex variable (root
// value and field chain) and whether it is held for writing.
type Lock struct {
	Root  ssa.Value
	Path  string // dotted field path from Root to the mutex, e.g. "mu"
	Write bool
}

// LockFacts is the result of the must-hold analysis of one function: for every
// basic block the locks held at its entry, and a way to query any instruction.
type LockFacts struct {
	fn    *ssa.Function
	c     *Ctx
	in    map[*ssa.BasicBlock][]Lock
	known bool
}

func sameRoot(a, b ssa.Value) bool {
	a, b = Resolve(a), Resolve(b)
	if a == b {
		return true
	}
	// loads of the same single-assignment cell / same address
	ua, oka := a.(*ssa.UnOp)
	ub, okb := b.(*ssa.UnOp)
	return oka && okb && ua.Op == token.MUL && ub.Op == token.MUL && ua.X == ub.X
}

func lockEq(a, b Lock) bool {
	return a.Path == b.Path && a.Write == b.Write && sameRoot(a.Root, b.Root)
}

func hasLock(ls []Lock, l Lock) bool {
	for _, x := range ls {
		if lockEq(x, l) {
			return true
		}
	}
	return false
}

func intersect(a, b []Lock) []Lock {
	var out []Lock
	for _, x := range a {
		if hasLock(b, x) {
			out = append(out, x)
		}
	}
	return out
}

// mutexOp classifies a call on a sync.Mutex / sync.RWMutex: the lock it names
// and +1 (acquire) / -1 (release).
func (c *Ctx) mutexOp(call *ssa.CallCommon) (Lock, int, bool) {
	sc := call.StaticCallee()
	if sc == nil || len(call.Args) == 0 {
		return Lock{}, 0, false
	}
	n := CalleeName(call)
	var delta int
	var write bool
	switch n {
	case "(*sync.Mutex).Lock", "(*sync.RWMutex).Lock":
		delta, write = 1, true
	case "(*sync.RWMutex).RLock":
		delta, write = 1, false
	case "(*sync.Mutex).Unlock", "(*sync.RWMutex).Unlock":
		delta, write = -1, true
	case "(*sync.RWMutex).RUnlock":
		delta, write = -1, false
	default:
		return Lock{}, 0, false
	}
	// the receiver is the address of the mutex: &root.f1.f2.mu
	addr := call.Args[0]
	var fields []string
	for {
		switch x := addr.(type) {
		case *ssa.FieldAddr:
			fields = append([]string{fieldName(x.X.Type(), x.Field)}, fields...)
			addr = x.X
			continue
		case *ssa.UnOp:
			if x.Op == token.MUL {
				// pointer stored in a field or cell: treat the load as the root
				return Lock{Root: x, Path: strings.Join(fields, "."), Write: write}, delta, true
			}
		}
		break
	}
	return Lock{Root: addr, Path: strings.Join(fields, "."), Write: write}, delta, true
}

// Locks computes the must-hold lock sets of fn (forward dataflow, meet =
// intersection; a deferred unlock keeps the lock held until the function exits).
func (c *Ctx) Locks(fn *ssa.Function) *LockFacts {
	lf := &LockFacts{fn: fn, c: c, in: map[*ssa.BasicBlock][]Lock{}}
	if len(fn.Blocks) == 0 {
		return lf
	}
	visited := map[*ssa.BasicBlock]bool{}
	work := []*ssa.BasicBlock{fn.Blocks[0]}
	lf.in[fn.Blocks[0]] = nil
	visited[fn.Blocks[0]] = true
	for len(work) > 0 {
		b := work[0]
		work = work[1:]
		out := lf.transfer(b, lf.in[b], nil)
		for _, s := range b.Succs {
			if !visited[s] {
				visited[s] = true
				lf.in[s] = append([]Lock{}, out...)
				work = append(work, s)
				continue
			}
			ni := intersect(lf.in[s], out)
			if len(ni) != len(lf.in[s]) {
				lf.in[s] = ni
				work = append(work, s)
			}
		}
	}
	lf.known = true
	return lf
}

func (lf *LockFacts) transfer(b *ssa.BasicBlock, in []Lock, stop ssa.Instruction) []Lock {
	cur := append([]Lock{}, in...)
	for _, instr := range b.Instrs {
		if instr == stop {
			break
		}
		ci, ok := instr.(ssa.CallInstruction)
		if !ok {
			continue
		}
		if _, isDefer := instr.(*ssa.Defer); isDefer {
			continue // a deferred unlock runs at exit: the lock stays held
		}
		if _, isGo := instr.(*ssa.Go); isGo {
			continue
		}
		l, d, isM := lf.c.mutexOp(ci.Common())
		if !isM {
			continue
		}
		if d > 0 {
			if !hasLock(cur, l) {
				cur = append(cur, l)
			}
		} else {
			var nx []Lock
			for _, x := range cur {
				if !lockEq(x, l) {
					nx = append(nx, x)
				}
			}
			cur = nx
		}
	}
	return cur
}

// Reached reports whether the block is reachable from the entry (the recover
// block of a function with defers is not).
func (lf *LockFacts) Reached(b *ssa.BasicBlock) bool {
	_, ok := lf.in[b]
	return ok
}

// HeldAt returns the locks that are held on every path reaching in.
func (lf *LockFacts) HeldAt(in ssa.Instruction) []Lock {
	b := in.Block()
	if b == nil {
		return nil
	}
	return lf.transfer(b, lf.in[b], in)
}

// Holds reports whether a lock with the given path on root is held at in
// (a write lock satisfies a read requirement).
func (lf *LockFacts) Holds(in ssa.Instruction, root ssa.Value, path string, needWrite bool) bool {
	for _, l := range lf.HeldAt(in) {
		if l.Path == path && sameRoot(l.Root, root) && (l.Write || !needWrite) {
			return true
		}
	}
	return false
}

// FieldAccess is one load or store of a struct field reached through a pointer.
type FieldAccess struct {
	Instr  ssa.Instruction
	Root   ssa.Value // the struct pointer the path starts from
	Struct string    // named type of *Root
	Path   string    // dotted field path
	Write  bool
}

// FieldAccesses lists the field loads and stores of fn (outermost access paths:
// `n.data.State.Status` is reported once, with the full path).
func (c *Ctx) FieldAccesses(fn *ssa.Function) []FieldAccess {
	var out []FieldAccess
	for _, b := range fn.Blocks {
		for _, in := range b.Instrs {
			var addr ssa.Value
			write := false
			switch x := in.(type) {
			case *ssa.Store:
				addr, write = x.Addr, true
			case *ssa.UnOp:
				if x.Op == token.MUL {
					addr = x.X
				}
			case *ssa.MapUpdate:
				// m[k] = v where m is a field: a write to the field's content
				if u, ok := x.Map.(*ssa.UnOp); ok && u.Op == token.MUL {
					addr, write = u.X, true
				}
			}
			fa, ok := addr.(*ssa.FieldAddr)
			if !ok {
				continue
			}
			var fields []string
			var root ssa.Value
			cur := ssa.Value(fa)
			for {
				f, isF := cur.(*ssa.FieldAddr)
				if !isF {
					root = cur
					break
				}
				fields = append([]string{fieldName(f.X.Type(), f.Field)}, fields...)
				cur = f.X
			}
			// a load of a pointer-typed field that is immediately used as the base of
			// another FieldAddr is part of a longer path only when the field is embedded
			// by value; pointer hops start a new root (handled by reporting both).
			st := NamedType(deref(root.Type()))
			if st == "" {
				continue
			}
			out = append(out, FieldAccess{Instr: in, Root: root, Struct: st, Path: strings.Join(fields, "."), Write: write})
		}
	}
	return out
}

// MutexFields returns the dotted paths of the sync.Mutex / sync.RWMutex fields
// directly contained in the named struct type.
func MutexFields(t types.Type) []string {
	st, ok := deref(t).Underlying().(*types.Struct)
	if !ok {
		return nil
	}
	var out []string
	for i := 0; i < st.NumFields(); i++ {
		ft := st.Field(i).Type()
		if n := NamedType(ft); n == "sync.Mutex" || n == "sync.RWMutex" {
			out = append(out, st.Field(i).Name())
		}
	}
	sort.Strings(out)
	return out
}
