package ir

import (
	"fmt"
	"go/constant"
	"go/token"
	"go/types"
	"strings"

	"golang.org/x/tools/go/ssa"
)

// Path is an access path: a root SSA value followed by field selections.
// Loads, by-value Field, by-address FieldAddr and calls of trivial getter
// methods are all normalised to the same path, so `n.State().Status`,
// `n.data.State.Status` and an inlined or renamed accessor are identical.
type Path struct {
	Root   ssa.Value
	Fields []string // field names from the root
}

func (p Path) String() string {
	return rootName(p.Root) + "." + strings.Join(p.Fields, ".")
}

// Suffix reports whether the path ends with the dotted field list.
func (p Path) Suffix(dotted string) bool {
	want := strings.Split(dotted, ".")
	if len(p.Fields) < len(want) {
		return false
	}
	off := len(p.Fields) - len(want)
	for i, w := range want {
		if p.Fields[off+i] != w {
			return false
		}
	}
	return true
}

// Dotted returns the field part.
func (p Path) Dotted() string { return strings.Join(p.Fields, ".") }

func rootName(v ssa.Value) string {
	switch x := v.(type) {
	case *ssa.Parameter:
		return x.Name()
	case *ssa.FreeVar:
		return x.Name()
	case *ssa.Global:
		return x.Name()
	case *ssa.Alloc:
		if x.Comment != "" {
			return x.Comment
		}
	}
	if v == nil {
		return "?"
	}
	return v.Name()
}

func fieldName(t types.Type, i int) string {
	t = deref(t)
	if st, ok := t.Underlying().(*types.Struct); ok && i < st.NumFields() {
		return st.Field(i).Name()
	}
	return fmt.Sprintf("#%d", i)
}

func deref(t types.Type) types.Type {
	if p, ok := t.Underlying().(*types.Pointer); ok {
		return p.Elem()
	}
	return t
}

// Ctx carries interprocedural summaries (getter recognition).
type Ctx struct {
	getters map[*ssa.Function]*getter
	eff     map[effKey][]StoreEvent
	effBusy map[effKey]bool
}

type getter struct {
	ok     bool
	param  int
	fields []string
}

func NewCtx() *Ctx { return &Ctx{getters: map[*ssa.Function]*getter{}} }

// getterOf recognises a function whose every return yields the value at an
// access path rooted at one of its parameters (locks, defers and logging
// aside): `func (n *Node) State() NodeState { lock; defer unlock; return n.data.State }`.
func (c *Ctx) getterOf(fn *ssa.Function) *getter {
	if g, ok := c.getters[fn]; ok {
		return g
	}
	g := &getter{}
	c.getters[fn] = g // recursion guard: not a getter while being computed
	if fn == nil || fn.Blocks == nil || fn.Signature.Results().Len() != 1 || len(fn.Blocks) > 3 {
		return g
	}
	var res *Path
	for _, b := range fn.Blocks {
		for _, in := range b.Instrs {
			switch x := in.(type) {
			case *ssa.Return:
				p, ok := c.PathOf(x.Results[0])
				if !ok {
					return g
				}
				if _, isParam := p.Root.(*ssa.Parameter); !isParam {
					return g
				}
				if res != nil && (res.Root != p.Root || res.Dotted() != p.Dotted()) {
					return g
				}
				pp := p
				res = &pp
			case *ssa.Store:
				if _, local := x.Addr.(*ssa.Alloc); !local {
					return g
				}
			case *ssa.MapUpdate, *ssa.Send, *ssa.Go:
				return g
			}
		}
	}
	if res == nil || len(res.Fields) == 0 {
		return g
	}
	for i, p := range fn.Params {
		if p == res.Root {
			g.ok, g.param, g.fields = true, i, res.Fields
		}
	}
	return g
}

// PathOf normalises v to an access path. ok is false when v is not a chain of
// field selections / loads / getter calls.
func (c *Ctx) PathOf(v ssa.Value) (Path, bool) {
	var fields []string
	for depth := 0; depth < 32; depth++ {
		switch x := v.(type) {
		case *ssa.UnOp:
			if x.Op == token.MUL { // load
				// a local cell (spilled parameter, defer-spilled result, captured
				// variable) assigned exactly once stands for the value assigned
				if cell := cellOf(x.X); cell != nil {
					if st := StoresTo(cell); len(st) == 1 {
						v = st[0]
						continue
					}
				}
				v = x.X
				continue
			}
			return Path{}, false
		case *ssa.FieldAddr:
			fields = append([]string{fieldName(x.X.Type(), x.Field)}, fields...)
			v = x.X
			// a local copy of a struct (`opts := n.data.Step.ContinueOn; opts.Failure`)
			// that is assigned once and never written field by field reads what it copied
			if al, isA := x.X.(*ssa.Alloc); isA {
				if st := StoresTo(al); len(st) == 1 && !fieldWritten(al) {
					switch st[0].(type) {
					case *ssa.UnOp, *ssa.Parameter: // a copy read from a path, or a struct parameter spilled into a local
						v = st[0]
					}
				}
			}
			continue
		case *ssa.Field:
			fields = append([]string{fieldName(x.X.Type(), x.Field)}, fields...)
			v = x.X
			continue
		case *ssa.Call:
			if callee := x.Call.StaticCallee(); callee != nil && !x.Call.IsInvoke() {
				if g := c.getterOf(callee); g.ok && g.param < len(x.Call.Args) {
					fields = append(append([]string{}, g.fields...), fields...)
					v = x.Call.Args[g.param]
					continue
				}
			}
			if len(fields) == 0 {
				return Path{}, false
			}
			return Path{Root: v, Fields: fields}, true
		case *ssa.ChangeType:
			v = x.X
			continue
		default:
			if len(fields) == 0 {
				return Path{}, false
			}
			return Path{Root: v, Fields: fields}, true
		}
	}
	return Path{}, false
}

// Resolve looks through loads of single-assignment local cells (spilled
// parameters, captured variables): it returns the value the cell holds.
func Resolve(v ssa.Value) ssa.Value {
	for i := 0; i < 16; i++ {
		switch x := v.(type) {
		case *ssa.UnOp:
			if x.Op == token.MUL {
				if cell := cellOf(x.X); cell != nil {
					if st := StoresTo(cell); len(st) == 1 {
						v = st[0]
						continue
					}
				}
			}
		case *ssa.ChangeType:
			v = x.X
			continue
		}
		break
	}
	return v
}

// StorePath resolves the address operand of a Store to an access path.
func (c *Ctx) StorePath(addr ssa.Value) (Path, bool) {
	switch x := addr.(type) {
	case *ssa.FieldAddr:
		// build a fake load path
		base, ok := c.PathOf(x.X)
		name := fieldName(x.X.Type(), x.Field)
		if !ok {
			return Path{Root: stripLoads(x.X), Fields: []string{name}}, true
		}
		return Path{Root: base.Root, Fields: append(append([]string{}, base.Fields...), name)}, true
	}
	return Path{}, false
}

func stripLoads(v ssa.Value) ssa.Value {
	for {
		if u, ok := v.(*ssa.UnOp); ok && u.Op == token.MUL {
			v = u.X
			continue
		}
		if ct, ok := v.(*ssa.ChangeType); ok {
			v = ct.X
			continue
		}
		return v
	}
}

// ConstInt returns the integer value of a constant SSA value.
func ConstInt(v ssa.Value) (int64, bool) {
	v = boundConst(v)
	c, ok := v.(*ssa.Const)
	if !ok || c.Value == nil {
		return 0, false
	}
	if c.Value.Kind() != constant.Int {
		return 0, false
	}
	return c.Int64(), true
}

// ConstBool returns the boolean value of a constant SSA value.
func ConstBool(v ssa.Value) (bool, bool) {
	v = boundConst(v)
	c, ok := v.(*ssa.Const)
	if !ok || c.Value == nil || c.Value.Kind() != constant.Bool {
		return false, false
	}
	return constant.BoolVal(c.Value), true
}

// ConstString returns the string value of a constant SSA value.
func ConstString(v ssa.Value) (string, bool) {
	v = boundConst(v)
	c, ok := v.(*ssa.Const)
	if !ok || c.Value == nil || c.Value.Kind() != constant.String {
		return "", false
	}
	return constant.StringVal(c.Value), true
}

// IsNilConst reports whether v is the nil constant.
func IsNilConst(v ssa.Value) bool {
	c, ok := v.(*ssa.Const)
	return ok && c.Value == nil
}

// NamedType returns "pkgpath.Name" of a (pointer to) named type, or "".
func NamedType(t types.Type) string {
	t = types.Unalias(deref(types.Unalias(t)))
	if n, ok := t.(*types.Named); ok {
		if n.Obj().Pkg() != nil {
			return n.Obj().Pkg().Path() + "." + n.Obj().Name()
		}
		return n.Obj().Name()
	}
	return ""
}

// EnumConsts lists the declared constants of a named integer type.
func EnumConsts(t types.Type) map[int64]string {
	out := map[int64]string{}
	n, ok := t.(*types.Named)
	if !ok || n.Obj().Pkg() == nil {
		return out
	}
	sc := n.Obj().Pkg().Scope()
	for _, name := range sc.Names() {
		if c, ok := sc.Lookup(name).(*types.Const); ok && types.Identical(c.Type(), t) {
			if c.Val().Kind() != constant.Int {
				continue // a named string or float type has no enumeration
			}
			if v, ok := constant.Int64Val(c.Val()); ok {
				out[v] = name
			}
		}
	}
	return out
}

// FieldNameOf exposes fieldName.
func FieldNameOf(t types.Type, i int) string { return fieldName(t, i) }

// boundConst: a parameter that is bound to a constant argument - by the only call
// of its function (virtual inlining view) or by a binding in force (see
// SetOverride) - stands for that constant: `n.hasStatus(StatusNone)` compares
// with StatusNone inside hasStatus.
func boundConst(v ssa.Value) ssa.Value {
	if p, ok := v.(*ssa.Parameter); ok {
		if d := Deep(p); d != nil {
			if _, isC := d.(*ssa.Const); isC {
				return d
			}
		}
	}
	return v
}

// fieldWritten: some field of the local is stored to through its address.
func fieldWritten(al *ssa.Alloc) bool {
	for _, ref := range *al.Referrers() {
		if fa, ok := ref.(*ssa.FieldAddr); ok {
			for _, r2 := range *fa.Referrers() {
				if st, isS := r2.(*ssa.Store); isS && st.Addr == ssa.Value(fa) {
					return true
				}
			}
		}
	}
	return false
}
