package ir

import (
	"sort"

	"golang.org/x/tools/go/ssa"
)

// Conj is one disjunct of a reaching condition: a conjunction of branch literals.
type Conj []Lit

type litKey struct {
	i   *ssa.If
	pol bool
}

type conjSet map[litKey]Lit

func (c conjSet) key() string {
	var ks []string
	for k := range c {
		s := "-"
		if k.pol {
			s = "+"
		}
		ks = append(ks, s+k.i.Block().String())
	}
	sort.Strings(ks)
	out := ""
	for _, k := range ks {
		out += k + ","
	}
	return out
}

// ReachingCondition computes, for a target block inside the acyclic region
// entered at `entry` (back edges are not followed), the disjunction over all
// paths entry→target of the branch literals taken - the classical
// path-predicate dataflow on a DAG, kept in DNF, with complementary pairs
// merged ((A∧x)∨(A∧¬x) = A) and absorbed disjuncts removed. ok=false when the
// DNF grows beyond maxDisjuncts (the caller must treat this as undecided).
func ReachingCondition(entry, target *ssa.BasicBlock, maxDisjuncts int) (dnf []Conj, ok bool) {
	// topological order of the region (ignoring back edges)
	visited := map[*ssa.BasicBlock]bool{}
	var order []*ssa.BasicBlock
	var dfs func(b *ssa.BasicBlock)
	dfs = func(b *ssa.BasicBlock) {
		visited[b] = true
		for _, s := range b.Succs {
			if s.Dominates(b) { // back edge
				continue
			}
			if !visited[s] {
				dfs(s)
			}
		}
		order = append(order, b)
	}
	dfs(entry)
	// reverse postorder
	for i, j := 0, len(order)-1; i < j; i, j = i+1, j-1 {
		order[i], order[j] = order[j], order[i]
	}
	rc := map[*ssa.BasicBlock][]conjSet{entry: {conjSet{}}}
	for _, b := range order {
		cur := rc[b]
		if len(cur) == 0 {
			continue
		}
		if b == target {
			break
		}
		i := ifOf(b)
		for si, s := range b.Succs {
			if s.Dominates(b) || !visited[s] {
				continue
			}
			for _, c := range cur {
				nc := conjSet{}
				for k, v := range c {
					nc[k] = v
				}
				contradiction := false
				if i != nil && len(b.Succs) == 2 && b.Succs[0] != b.Succs[1] {
					k := litKey{i, si == 0}
					if _, has := nc[litKey{i, si != 0}]; has {
						contradiction = true
					}
					nc[k] = Lit{Cond: i.Cond, Pol: si == 0, If: i}
				}
				if !contradiction {
					rc[s] = append(rc[s], nc)
				}
			}
			rc[s] = simplify(rc[s])
			if len(rc[s]) > maxDisjuncts {
				return nil, false
			}
		}
	}
	for _, c := range rc[target] {
		var cj Conj
		for _, l := range c {
			cj = append(cj, l)
		}
		dnf = append(dnf, cj)
	}
	return dnf, true
}

func simplify(cs []conjSet) []conjSet {
	changed := true
	for changed {
		changed = false
		// dedupe
		seen := map[string]bool{}
		var out []conjSet
		for _, c := range cs {
			k := c.key()
			if !seen[k] {
				seen[k] = true
				out = append(out, c)
			}
		}
		cs = out
		// merge complementary pairs
	outer:
		for a := 0; a < len(cs); a++ {
			for b := a + 1; b < len(cs); b++ {
				if len(cs[a]) != len(cs[b]) {
					continue
				}
				var diff *litKey
				same := true
				for k := range cs[a] {
					if _, ok := cs[b][k]; ok {
						continue
					}
					if _, ok := cs[b][litKey{k.i, !k.pol}]; ok && diff == nil {
						kk := k
						diff = &kk
						continue
					}
					same = false
					break
				}
				if same && diff != nil {
					m := conjSet{}
					for k, v := range cs[a] {
						if k != *diff {
							m[k] = v
						}
					}
					cs[a] = m
					cs = append(cs[:b], cs[b+1:]...)
					changed = true
					break outer
				}
			}
		}
		// absorption: drop c if some other d ⊂ c
		var kept []conjSet
		for a, c := range cs {
			absorbed := false
			for b, d := range cs {
				if a == b || len(d) >= len(c) {
					continue
				}
				sub := true
				for k := range d {
					if _, ok := c[k]; !ok {
						sub = false
						break
					}
				}
				if sub {
					absorbed = true
					break
				}
			}
			if !absorbed {
				kept = append(kept, c)
			} else {
				changed = true
			}
		}
		cs = kept
	}
	return cs
}
