// Package ir holds the analysis primitives of DESIGN.md section 1.3. All of
// them are classical static analyses over go/ssa: nothing is executed and no
// solver is called.
package ir

import (
	"golang.org/x/tools/go/ssa"
)

// Lit is one branch literal: the condition value of an If and the polarity
// (true = the "then" edge was taken).
type Lit struct {
	Cond ssa.Value
	Pol  bool
	If   *ssa.If
}

// ifOf returns the If terminating b, or nil.
func ifOf(b *ssa.BasicBlock) *ssa.If {
	if len(b.Instrs) == 0 {
		return nil
	}
	i, _ := b.Instrs[len(b.Instrs)-1].(*ssa.If)
	return i
}

// reachableWithout computes the blocks reachable from the entry when the CFG
// edge from->from.Succs[idx] is deleted (from==nil: nothing deleted).
func reachableWithout(fn *ssa.Function, from *ssa.BasicBlock, idx int) []bool {
	seen := make([]bool, len(fn.Blocks))
	if len(fn.Blocks) == 0 {
		return seen
	}
	stack := []*ssa.BasicBlock{fn.Blocks[0]}
	seen[0] = true
	for len(stack) > 0 {
		b := stack[len(stack)-1]
		stack = stack[:len(stack)-1]
		for i, s := range b.Succs {
			if b == from && i == idx {
				continue
			}
			if !seen[s.Index] {
				seen[s.Index] = true
				stack = append(stack, s)
			}
		}
	}
	return seen
}

// FuncFacts caches per-function CFG facts.
type FuncFacts struct {
	Fn    *ssa.Function
	reach []bool
	// edgeDom[k] for the k-th (if-block, polarity) pair: blocks unreachable without that edge
	lits    []Lit
	without [][]bool
}

// Facts computes edge-dominance facts for fn.
func Facts(fn *ssa.Function) *FuncFacts {
	ff := &FuncFacts{Fn: fn}
	ff.reach = reachableWithout(fn, nil, 0)
	for _, b := range fn.Blocks {
		if !ff.reach[b.Index] {
			continue
		}
		i := ifOf(b)
		if i == nil || len(b.Succs) != 2 || b.Succs[0] == b.Succs[1] {
			continue
		}
		ff.lits = append(ff.lits, Lit{Cond: i.Cond, Pol: true, If: i})
		ff.without = append(ff.without, reachableWithout(fn, b, 0))
		ff.lits = append(ff.lits, Lit{Cond: i.Cond, Pol: false, If: i})
		ff.without = append(ff.without, reachableWithout(fn, b, 1))
	}
	return ff
}

// Reachable reports whether b is reachable from the entry.
func (ff *FuncFacts) Reachable(b *ssa.BasicBlock) bool { return ff.reach[b.Index] }

// DCS returns the dominating-condition set of block b: every branch literal
// whose CFG edge lies on all paths from the entry to b (edge dominance).
func (ff *FuncFacts) DCS(b *ssa.BasicBlock) []Lit {
	var out []Lit
	if !ff.reach[b.Index] {
		return nil
	}
	for k, l := range ff.lits {
		if !ff.without[k][b.Index] {
			out = append(out, l)
		}
	}
	return out
}

// DCSEdge returns the dominating-condition set of the CFG edge p->p.Succs[idx]:
// DCS(p) plus p's own branch literal towards that successor.
func (ff *FuncFacts) DCSEdge(p *ssa.BasicBlock, idx int) []Lit {
	out := ff.DCS(p)
	if i := ifOf(p); i != nil && len(p.Succs) == 2 && p.Succs[0] != p.Succs[1] {
		out = append(out, Lit{Cond: i.Cond, Pol: idx == 0, If: i})
	}
	return out
}

// DCSPhiEdge returns the dominating-condition set of the k-th incoming edge of
// the block holding phi (k indexes phi.Edges / block.Preds).
func (ff *FuncFacts) DCSPhiEdge(blk *ssa.BasicBlock, k int) []Lit {
	p := blk.Preds[k]
	// which successor index of p is blk? (if both, no literal)
	idx := -1
	n := 0
	for i, s := range p.Succs {
		if s == blk {
			idx = i
			n++
		}
	}
	if n != 1 {
		return ff.DCS(p)
	}
	return ff.DCSEdge(p, idx)
}

// ---------------------------------------------------------------------------
// Instruction-level reachability (must-pass-through).

// Pos is a position in the instruction-level CFG: before instruction Idx of Block.
type pos struct {
	b   *ssa.BasicBlock
	idx int
}

// PathQuery describes a must-pass-through question.
type PathQuery struct {
	// Stop returns true for an instruction that satisfies the obligation: the
	// search does not continue past it.
	Stop func(ssa.Instruction) bool
	// Bad returns true for an instruction that must not be reached without
	// passing a Stop instruction first (e.g. a Return, or a specific call).
	Bad func(ssa.Instruction) bool
	// DeferStop: a `defer` of a call satisfying this predicate counts as Stop at
	// every later function exit (RunDefers).
	DeferStop func(*ssa.Defer) bool
	// Descend: when set and true for the static callee of a plain call (not go /
	// defer), the callee's body is searched too: a Bad instruction reachable in it
	// without a Stop is a hit; a callee in which every path to its return passes a
	// Stop satisfies the obligation. The callee's own returns are neither.
	Descend func(*ssa.Function) bool
	// SkipEdge: CFG edges that must not be followed (e.g. the false edge of a
	// condition the rule assumes true). May be nil.
	SkipEdge func(from *ssa.BasicBlock, succIdx int) bool
}

// Bypass searches, from the instruction following start (or from the first
// instruction of startBlock when start is nil), for a path that reaches a Bad
// instruction without passing a Stop instruction. It returns the Bad
// instruction reached and the blocks of one such path, or nil.
func Bypass(start ssa.Instruction, startBlock *ssa.BasicBlock, q PathQuery) (ssa.Instruction, []*ssa.BasicBlock) {
	type state struct {
		b        *ssa.BasicBlock
		idx      int
		deferred bool
	}
	var s0 state
	if start != nil {
		b := start.Block()
		idx := -1
		for i, in := range b.Instrs {
			if in == start {
				idx = i
				break
			}
		}
		s0 = state{b, idx + 1, false}
	} else {
		s0 = state{startBlock, 0, false}
	}
	type key struct {
		b        int
		deferred bool
	}
	seen := map[key]bool{}
	parent := map[key]key{}
	var walk func(st state, from key, hasFrom bool) (ssa.Instruction, *key)
	var queue []state
	var qfrom []key
	var qhas []bool
	queue = append(queue, s0)
	qfrom = append(qfrom, key{})
	qhas = append(qhas, false)
	_ = walk
	first := true
	for len(queue) > 0 {
		st := queue[0]
		from := qfrom[0]
		has := qhas[0]
		queue, qfrom, qhas = queue[1:], qfrom[1:], qhas[1:]
		k := key{st.b.Index, st.deferred}
		if !first || st.idx == 0 {
			if seen[k] {
				continue
			}
			seen[k] = true
			if has {
				parent[k] = from
			}
		}
		first = false
		stopped := false
		deferred := st.deferred
		for i := st.idx; i < len(st.b.Instrs); i++ {
			in := st.b.Instrs[i]
			if d, ok := in.(*ssa.Defer); ok && q.DeferStop != nil && q.DeferStop(d) {
				deferred = true
				continue
			}
			if _, ok := in.(*ssa.RunDefers); ok && deferred {
				stopped = true
				break
			}
			if q.Stop != nil && q.Stop(in) {
				stopped = true
				break
			}
			if q.Descend != nil {
				if c, isCall := in.(*ssa.Call); isCall {
					if g := c.Call.StaticCallee(); g != nil && g.Blocks != nil && q.Descend(g) {
						mayBad, mustStop := calleeSummary(g, q, map[*ssa.Function]bool{st.b.Parent(): true})
						if mayBad {
							return in, []*ssa.BasicBlock{st.b}
						}
						if mustStop {
							stopped = true
							break
						}
					}
				}
			}
			if q.Bad != nil && q.Bad(in) {
				// reconstruct path
				var path []*ssa.BasicBlock
				cur := k
				visited := map[key]bool{}
				for !visited[cur] {
					visited[cur] = true
					path = append([]*ssa.BasicBlock{st.b.Parent().Blocks[cur.b]}, path...)
					p, ok := parent[cur]
					if !ok {
						break
					}
					cur = p
				}
				return in, path
			}
		}
		if stopped {
			continue
		}
		for si, s := range st.b.Succs {
			if q.SkipEdge != nil && q.SkipEdge(st.b, si) {
				continue
			}
			queue = append(queue, state{s, 0, deferred})
			qfrom = append(qfrom, key{st.b.Index, deferred})
			qhas = append(qhas, true)
		}
	}
	return nil, nil
}

// calleeSummary: inside g (entered from a call), can a Bad instruction be
// reached without passing a Stop, and does every path to g's return pass a Stop?
func calleeSummary(g *ssa.Function, q PathQuery, onStack map[*ssa.Function]bool) (mayBad, mustStop bool) {
	if onStack[g] || len(onStack) > 5 {
		return false, false
	}
	onStack[g] = true
	defer delete(onStack, g)
	inner := PathQuery{Stop: q.Stop, DeferStop: q.DeferStop, Descend: nil, SkipEdge: q.SkipEdge,
		Bad: func(in ssa.Instruction) bool {
			if _, isRet := in.(*ssa.Return); isRet {
				return false
			}
			return q.Bad != nil && q.Bad(in)
		}}
	// nested calls
	if q.Descend != nil {
		inner.Stop = func(in ssa.Instruction) bool {
			if q.Stop != nil && q.Stop(in) {
				return true
			}
			if c, ok := in.(*ssa.Call); ok {
				if h := c.Call.StaticCallee(); h != nil && h.Blocks != nil && q.Descend(h) {
					_, ms := calleeSummary(h, q, onStack)
					return ms
				}
			}
			return false
		}
		innerBad := inner.Bad
		inner.Bad = func(in ssa.Instruction) bool {
			if innerBad(in) {
				return true
			}
			if c, ok := in.(*ssa.Call); ok {
				if h := c.Call.StaticCallee(); h != nil && h.Blocks != nil && q.Descend(h) {
					mb, _ := calleeSummary(h, q, onStack)
					return mb
				}
			}
			return false
		}
	}
	bad, _ := Bypass(nil, g.Blocks[0], inner)
	mayBad = bad != nil
	toRet := PathQuery{Stop: inner.Stop, DeferStop: q.DeferStop, SkipEdge: q.SkipEdge, Bad: func(in ssa.Instruction) bool { _, ok := in.(*ssa.Return); return ok }}
	r, _ := Bypass(nil, g.Blocks[0], toRet)
	mustStop = r == nil
	return
}

// IsReturn reports whether in is a Return instruction.
func IsReturn(in ssa.Instruction) bool {
	_, ok := in.(*ssa.Return)
	return ok
}

// InstrIndex returns the index of in within its block.
func InstrIndex(in ssa.Instruction) int {
	for i, x := range in.Block().Instrs {
		if x == in {
			return i
		}
	}
	return -1
}

// Precedes reports whether every path from the function entry to instruction b
// passes instruction a (a dominates b at instruction granularity).
func Precedes(a, b ssa.Instruction) bool {
	if a.Block() == b.Block() {
		return InstrIndex(a) < InstrIndex(b)
	}
	return a.Block().Dominates(b.Block())
}

// BlocksReachableFrom returns the set of blocks reachable from b (including b
// only if it lies on a cycle), optionally not following some edges.
func BlocksReachableFrom(b *ssa.BasicBlock, skip func(from *ssa.BasicBlock, idx int) bool) map[*ssa.BasicBlock]bool {
	seen := map[*ssa.BasicBlock]bool{}
	stack := []*ssa.BasicBlock{b}
	for len(stack) > 0 {
		x := stack[len(stack)-1]
		stack = stack[:len(stack)-1]
		for i, s := range x.Succs {
			if skip != nil && skip(x, i) {
				continue
			}
			if !seen[s] {
				seen[s] = true
				stack = append(stack, s)
			}
		}
	}
	return seen
}

// Expand rewrites literals over short-circuit boolean phis (`a || b` used as a
// value, e.g. in an expression switch) into the branch literals they stand for,
// when that is a conjunction: `(a||b) == false` gives !a, !b; `(a&&b) == true`
// gives a, b. A literal that stands for a disjunction is kept as it is.
func (ff *FuncFacts) Expand(ls []Lit) []Lit {
	var out []Lit
	seen := map[Lit]bool{}
	var add func(l Lit, depth int)
	add = func(l Lit, depth int) {
		key := Lit{Cond: l.Cond, Pol: l.Pol}
		if seen[key] {
			return
		}
		seen[key] = true
		v, pol := l.Cond, l.Pol
		for {
			if u, ok := v.(*ssa.UnOp); ok && u.Op.String() == "!" {
				v, pol = u.X, !pol
				continue
			}
			break
		}
		phi, ok := v.(*ssa.Phi)
		if !ok || depth > 8 {
			out = append(out, l)
			return
		}
		if b, isB := phi.Type().Underlying().(interface{ Kind() int }); isB {
			_ = b
		}
		// candidate edges: those whose operand can equal pol
		cand := -1
		n := 0
		for k, e := range phi.Edges {
			if cb, isConst := ConstBool(e); isConst && cb != pol {
				continue
			}
			cand = k
			n++
		}
		if n != 1 {
			out = append(out, l)
			return
		}
		for _, el := range ff.DCSPhiEdge(phi.Block(), cand) {
			add(el, depth+1)
		}
		if _, isConst := ConstBool(phi.Edges[cand]); !isConst {
			add(Lit{Cond: phi.Edges[cand], Pol: pol, If: l.If}, depth+1)
		}
	}
	for _, l := range ls {
		add(l, 0)
	}
	return out
}

// Alternatives returns the ways a branch literal can hold, as a disjunction of
// literals: for a plain condition just the literal itself; for a short-circuit
// boolean phi (`a || b` as a value) one alternative per incoming edge that can
// produce the polarity (the edge's own branch literal for constant operands,
// the operand otherwise). Nested phis are expanded.
func (ff *FuncFacts) Alternatives(l Lit) []Lit {
	v, pol := l.Cond, l.Pol
	for {
		if u, ok := v.(*ssa.UnOp); ok && u.Op.String() == "!" {
			v, pol = u.X, !pol
			continue
		}
		break
	}
	phi, ok := v.(*ssa.Phi)
	if !ok {
		return []Lit{{Cond: v, Pol: pol, If: l.If}}
	}
	var out []Lit
	for k, e := range phi.Edges {
		if cb, isConst := ConstBool(e); isConst {
			if cb != pol {
				continue
			}
			p := phi.Block().Preds[k]
			if i := ifOf(p); i != nil && len(p.Succs) == 2 {
				idx := 0
				if p.Succs[1] == phi.Block() {
					idx = 1
				}
				out = append(out, ff.Alternatives(Lit{Cond: i.Cond, Pol: idx == 0, If: i})...)
			} else {
				out = append(out, Lit{Cond: e, Pol: pol})
			}
			continue
		}
		out = append(out, ff.Alternatives(Lit{Cond: e, Pol: pol, If: l.If})...)
	}
	return out
}

// ExpandDNF rewrites a conjunction of branch literals into a disjunction of
// conjunctions in which every short-circuit / flag boolean phi has been replaced
// by one of the ways it can take the required value (the conditions of the
// incoming edge, plus the operand when it is not a constant). Bounded: gives up
// expanding (keeps the phi literal) beyond 64 disjuncts or depth 6.
func (ff *FuncFacts) ExpandDNF(conj []Lit) [][]Lit {
	var out [][]Lit
	var rec func(c []Lit, depth int)
	rec = func(c []Lit, depth int) {
		if depth > 6 || len(out) > 64 {
			out = append(out, c)
			return
		}
		for i, l := range c {
			v, pol := l.Cond, l.Pol
			for {
				if u, ok := v.(*ssa.UnOp); ok && u.Op.String() == "!" {
					v, pol = u.X, !pol
					continue
				}
				break
			}
			phi, ok := v.(*ssa.Phi)
			if !ok {
				continue
			}
			rest := append(append([]Lit{}, c[:i]...), c[i+1:]...)
			n := 0
			for k, e := range phi.Edges {
				cb, isConst := ConstBool(e)
				if isConst && cb != pol {
					continue
				}
				n++
				alt := append([]Lit{}, rest...)
				alt = append(alt, ff.DCSPhiEdge(phi.Block(), k)...)
				if !isConst {
					alt = append(alt, Lit{Cond: e, Pol: pol})
				}
				rec(alt, depth+1)
			}
			if n == 0 {
				// infeasible
			}
			return
		}
		out = append(out, c)
	}
	rec(conj, 0)
	return out
}

// ExpandDNFRegion is ExpandDNF with the alternatives of a boolean phi taken
// from the reaching condition (inside the acyclic region entered at entry) of
// each incoming edge, not just from its dominating conditions - so a flag set
// in a block that several case edges share is expanded into those cases.
// Contradictory combinations are dropped.
func (ff *FuncFacts) ExpandDNFRegion(entry *ssa.BasicBlock, conj []Lit) [][]Lit {
	var out [][]Lit
	consistent := func(c []Lit) bool {
		seen := map[*ssa.If]bool{}
		pol := map[*ssa.If]bool{}
		for _, l := range c {
			if l.If == nil {
				continue
			}
			if seen[l.If] && pol[l.If] != l.Pol {
				return false
			}
			seen[l.If], pol[l.If] = true, l.Pol
		}
		return true
	}
	var rec func(c []Lit, depth int)
	rec = func(c []Lit, depth int) {
		if !consistent(c) {
			return
		}
		if depth > 6 || len(out) > 128 {
			out = append(out, c)
			return
		}
		for i, l := range c {
			v, pol := l.Cond, l.Pol
			for {
				if u, ok := v.(*ssa.UnOp); ok && u.Op.String() == "!" {
					v, pol = u.X, !pol
					continue
				}
				break
			}
			phi, ok := v.(*ssa.Phi)
			if !ok {
				continue
			}
			rest := append(append([]Lit{}, c[:i]...), c[i+1:]...)
			for k, e := range phi.Edges {
				cb, isConst := ConstBool(e)
				if isConst && cb != pol {
					continue
				}
				p := phi.Block().Preds[k]
				var edgeLits []Lit
				if ifx := ifOf(p); ifx != nil && len(p.Succs) == 2 && p.Succs[0] != p.Succs[1] {
					idx := 0
					if p.Succs[1] == phi.Block() {
						idx = 1
					}
					edgeLits = append(edgeLits, Lit{Cond: ifx.Cond, Pol: idx == 0, If: ifx})
				}
				if !isConst {
					edgeLits = append(edgeLits, Lit{Cond: e, Pol: pol})
				}
				rcp, okrc := ReachingCondition(entry, p, 32)
				if !okrc || len(rcp) == 0 {
					alt := append(append([]Lit{}, rest...), ff.DCSPhiEdge(phi.Block(), k)...)
					alt = append(alt, edgeLits...)
					rec(alt, depth+1)
					continue
				}
				for _, pc := range rcp {
					alt := append(append([]Lit{}, rest...), []Lit(pc)...)
					alt = append(alt, edgeLits...)
					rec(alt, depth+1)
				}
			}
			return
		}
		out = append(out, c)
	}
	rec(conj, 0)
	return out
}
