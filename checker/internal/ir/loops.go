package ir

import (
	"golang.org/x/tools/go/ssa"
)

// Loop is a natural loop of the CFG.
type Loop struct {
	Header *ssa.BasicBlock
	Blocks map[*ssa.BasicBlock]bool // including the header
	// Ranged is the collection a `for range` loop iterates over (slice/array via
	// len+index, map/string via range/next), nil for other loops.
	Ranged ssa.Value
	// Elem is the per-iteration element value (slice ranges: the load of
	// &X[i]; map ranges: extract #2 / key extract #1) when identifiable.
	Elem ssa.Value
	Key  ssa.Value
}

// Loops finds the natural loops of fn (one per header; multiple back edges to
// one header are merged).
func Loops(fn *ssa.Function) []*Loop {
	byHeader := map[*ssa.BasicBlock]*Loop{}
	var order []*ssa.BasicBlock
	for _, b := range fn.Blocks {
		for _, s := range b.Succs {
			if s.Dominates(b) { // back edge b->s
				l := byHeader[s]
				if l == nil {
					l = &Loop{Header: s, Blocks: map[*ssa.BasicBlock]bool{s: true}}
					byHeader[s] = l
					order = append(order, s)
				}
				// add nodes that reach b without passing s
				stack := []*ssa.BasicBlock{b}
				for len(stack) > 0 {
					x := stack[len(stack)-1]
					stack = stack[:len(stack)-1]
					if l.Blocks[x] {
						continue
					}
					l.Blocks[x] = true
					for _, p := range x.Preds {
						stack = append(stack, p)
					}
				}
			}
		}
	}
	var out []*Loop
	for _, h := range order {
		l := byHeader[h]
		l.findRange()
		out = append(out, l)
	}
	return out
}

func (l *Loop) findRange() {
	h := l.Header
	// slice range: header: phi idx; inc; cmp inc < len(X); body: &X[inc]
	for _, in := range h.Instrs {
		switch x := in.(type) {
		case *ssa.BinOp:
			if c, ok := x.Y.(*ssa.Call); ok {
				if b, ok := c.Call.Value.(*ssa.Builtin); ok && b.Name() == "len" && len(c.Call.Args) == 1 {
					l.Ranged = c.Call.Args[0]
					l.Key = x.X
				}
			}
		case *ssa.UnOp:
			// for v := range ch  lowers to  t = <-ch (comma-ok) in the loop header
			if x.Op.String() == "<-" && x.CommaOk {
				l.Ranged = x.X
				if refs := x.Referrers(); refs != nil {
					for _, r := range *refs {
						if e, ok := r.(*ssa.Extract); ok && e.Index == 0 {
							l.Elem = e
						}
					}
				}
			}
		case *ssa.Next:
			if r, ok := x.Iter.(*ssa.Range); ok {
				l.Ranged = r.X
			}
			// key/value extracts
			if refs := x.Referrers(); refs != nil {
				for _, r := range *refs {
					if e, ok := r.(*ssa.Extract); ok {
						if e.Index == 1 {
							l.Key = e
						}
						if e.Index == 2 {
							l.Elem = e
						}
					}
				}
			}
		}
	}
	if l.Ranged != nil && l.Elem == nil {
		for b := range l.Blocks {
			for _, in := range b.Instrs {
				if ia, ok := in.(*ssa.IndexAddr); ok && ia.X == l.Ranged && ia.Index == l.Key {
					if refs := ia.Referrers(); refs != nil {
						for _, r := range *refs {
							if u, ok := r.(*ssa.UnOp); ok {
								l.Elem = u
							}
						}
					}
				}
				if ix, ok := in.(*ssa.Index); ok && ix.X == l.Ranged && ix.Index == l.Key {
					l.Elem = ix
				}
			}
		}
	}
}

// ExitLit returns the header's branch literal that leaves the loop (the edge
// from the header to a block outside), if the header ends in an If.
func (l *Loop) ExitEdge() (idx int, ok bool) {
	i := ifOf(l.Header)
	if i == nil {
		return 0, false
	}
	for k, s := range l.Header.Succs {
		if !l.Blocks[s] {
			return k, true
		}
	}
	return 0, false
}

// Contains reports whether the instruction is inside the loop.
func (l *Loop) Contains(in ssa.Instruction) bool { return l.Blocks[in.Block()] }

// InnermostLoop returns the smallest loop containing b, or nil.
func InnermostLoop(loops []*Loop, b *ssa.BasicBlock) *Loop {
	var best *Loop
	for _, l := range loops {
		if l.Blocks[b] && (best == nil || len(l.Blocks) < len(best.Blocks)) {
			best = l
		}
	}
	return best
}
