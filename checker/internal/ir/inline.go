package ir

import (
	"golang.org/x/tools/go/ssa"
)

// A "virtual inlining" view of the program: a repository function that has
// exactly one call site in the program, is never used as a value and has no
// dynamic callers behaves like a block of its caller. The rules use this view
// so that extracting a piece of a function into a helper (or inlining a helper)
// does not change what they see:
//
//   - Deep resolves a parameter of such a function to the argument at its call
//     site (value identity across the extraction boundary);
//   - the rules' dominating-condition sets are extended with the conditions of
//     the call site (rules.Env.DCS);
//   - Bypass can descend into callees (PathQuery.Descend).
var uniqueSite = map[*ssa.Function]ssa.CallInstruction{}

// SetUniqueSites installs the table (computed by the rules package from the
// loaded program).
func SetUniqueSites(m map[*ssa.Function]ssa.CallInstruction) { uniqueSite = m }

// UniqueSite returns the only call site of f, or nil.
func UniqueSite(f *ssa.Function) ssa.CallInstruction {
	if f == nil {
		return nil
	}
	return uniqueSite[f]
}

// Deep is Resolve extended through parameters of single-call-site functions.
func Deep(v ssa.Value) ssa.Value {
	for i := 0; i < 8; i++ {
		v = Resolve(v)
		p, ok := v.(*ssa.Parameter)
		if !ok {
			return v
		}
		site := uniqueSite[p.Parent()]
		if site == nil {
			return v
		}
		idx := -1
		for k, q := range p.Parent().Params {
			if q == p {
				idx = k
			}
		}
		args := site.Common().Args
		if idx < 0 || idx >= len(args) {
			return v
		}
		v = args[idx]
	}
	return v
}
