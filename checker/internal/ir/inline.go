package ir

import (
	"golang.org/x/tools/go/ssa"
)

// A "virtual inlining" view of the program: a repository function that has
// exactly one call site in the program, is never used as a value and has no
// dynamic callers behaves like a block of its caller. The rules use this view
// so that extracting a piece of a function into a helper (or inlining a helper)
// does not change what they see:
//
//   - Deep resolves a parameter of such a function to the argument at its call
//     site (value identity across the extraction boundary);
//   - the rules' dominating-condition sets are extended with the conditions of
//     the call site (rules.Env.DCS);
//   - Bypass can descend into callees (PathQuery.Descend).
var uniqueSite = map[*ssa.Function]ssa.CallInstruction{}

// SetUniqueSites installs the table (computed by the rules package from the
// loaded program).
func SetUniqueSites(m map[*ssa.Function]ssa.CallInstruction) { uniqueSite = m }

// UniqueSite returns the only call site of f, or nil.
func UniqueSite(f *ssa.Function) ssa.CallInstruction {
	if f == nil {
		return nil
	}
	return uniqueSite[f]
}

// Deep is Resolve extended through parameters of single-call-site functions.
func Deep(v ssa.Value) ssa.Value {
	for i := 0; i < 8; i++ {
		v = Resolve(v)
		if fv, isFV := v.(*ssa.FreeVar); isFV {
			// a captured variable stands for what the closure was created with
			if b := bindingOf(fv); b != nil {
				v = b
				continue
			}
			return v
		}
		p, ok := v.(*ssa.Parameter)
		if !ok {
			return v
		}
		if a, bound := override[p]; bound {
			v = a
			continue
		}
		site := uniqueSite[p.Parent()]
		if site == nil {
			return v
		}
		idx := -1
		for k, q := range p.Parent().Params {
			if q == p {
				idx = k
			}
		}
		args := site.Common().Args
		if idx < 0 || idx >= len(args) {
			return v
		}
		v = args[idx]
	}
	return v
}

// bindingOf returns the value bound to a free variable where its closure is
// created (an anonymous function has exactly one creation site), or nil.
func bindingOf(fv *ssa.FreeVar) ssa.Value {
	fn := fv.Parent()
	if fn == nil || fn.Parent() == nil {
		return nil
	}
	idx := -1
	for k, q := range fn.FreeVars {
		if q == fv {
			idx = k
		}
	}
	if idx < 0 {
		return nil
	}
	var found ssa.Value
	n := 0
	for _, b := range fn.Parent().Blocks {
		for _, in := range b.Instrs {
			if mc, ok := in.(*ssa.MakeClosure); ok && mc.Fn == fn && idx < len(mc.Bindings) {
				found = mc.Bindings[idx]
				n++
			}
		}
	}
	if n != 1 {
		return nil
	}
	return found
}

// override binds parameters of functions that have several call sites to the
// arguments of one particular call, for the time a rule evaluates conditions
// taken from that call (see rules.Env.withBindings).
var override = map[*ssa.Parameter]ssa.Value{}

// SetOverride installs the bindings and returns a function that removes them.
func SetOverride(m map[ssa.Value]ssa.Value) func() {
	var added []*ssa.Parameter
	for k, v := range m {
		if p, ok := k.(*ssa.Parameter); ok {
			if _, dup := override[p]; !dup {
				override[p] = v
				added = append(added, p)
			}
		}
	}
	return func() {
		for _, p := range added {
			delete(override, p)
		}
	}
}

// Bound returns the argument a parameter is currently bound to (SetOverride), or nil.
func Bound(p *ssa.Parameter) ssa.Value {
	if a, ok := override[p]; ok {
		return a
	}
	return nil
}
