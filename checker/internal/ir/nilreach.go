package ir

import (
	"go/token"
	"sort"
	"strings"

	"golang.org/x/tools/go/ssa"
)

// ReachableAssuming explores the paths of one function from instruction `from`
// under assumptions about the nil-ness of some values (true: the value is not
// nil) and reports whether `target` can be reached. Along a path the knowledge
// is carried through φ-nodes (a φ has the nil-ness of the value of the edge
// taken) and prunes the branches of `x == nil` / `x != nil` tests of known
// values. It is the path-sensitive complement of the dominating-condition sets
// for code written in the accumulate-the-first-error style:
//
//	_, err = f.Write(b); if err == nil { err = f.Sync() }; if err != nil { return err }; rename()
//
// where no single test mentions the write's error and the rename.
func ReachableAssuming(from, target ssa.Instruction, assume map[ssa.Value]bool) bool {
	fn := from.Parent()
	if fn == nil || target.Parent() != fn {
		return true
	}
	type state struct {
		b     *ssa.BasicBlock
		start int
		known map[ssa.Value]bool
	}
	key := func(s state) string {
		var ks []string
		for v, nn := range s.known {
			x := v.Name()
			if nn {
				x += "+"
			} else {
				x += "-"
			}
			ks = append(ks, x)
		}
		sort.Strings(ks)
		return s.b.String() + "|" + strings.Join(ks, ",")
	}
	startIdx := 0
	for i, in := range from.Block().Instrs {
		if in == from {
			startIdx = i + 1
		}
	}
	seen := map[string]bool{}
	work := []state{{from.Block(), startIdx, assume}}
	steps := 0
	for len(work) > 0 {
		s := work[len(work)-1]
		work = work[:len(work)-1]
		if steps++; steps > 20000 {
			return true
		}
		k := key(s)
		if seen[k] && s.start == 0 {
			continue
		}
		seen[k] = true
		for i := s.start; i < len(s.b.Instrs); i++ {
			if s.b.Instrs[i] == target {
				return true
			}
		}
		term := s.b.Instrs[len(s.b.Instrs)-1]
		var succs []int
		switch t := term.(type) {
		case *ssa.If:
			take := map[int]bool{0: true, 1: true}
			if bo, ok := t.Cond.(*ssa.BinOp); ok && (bo.Op == token.EQL || bo.Op == token.NEQ) {
				var x ssa.Value
				if IsNilConst(bo.Y) {
					x = bo.X
				} else if IsNilConst(bo.X) {
					x = bo.Y
				}
				if x != nil {
					if nn, known := s.known[x]; known {
						condTrue := (bo.Op == token.NEQ) == nn
						if condTrue {
							delete(take, 1)
						} else {
							delete(take, 0)
						}
					}
				}
			}
			for i := range s.b.Succs {
				if take[i] {
					succs = append(succs, i)
				}
			}
		default:
			for i := range s.b.Succs {
				succs = append(succs, i)
			}
		}
		for _, si := range succs {
			nb := s.b.Succs[si]
			// which predecessor edge of nb is this?
			pi := -1
			for j, p := range nb.Preds {
				if p == s.b {
					pi = j
				}
			}
			nk := map[ssa.Value]bool{}
			for v, nn := range s.known {
				nk[v] = nn
			}
			// the branch taken teaches the nil-ness of the tested value
			if t, ok := term.(*ssa.If); ok {
				if bo, ok := t.Cond.(*ssa.BinOp); ok && (bo.Op == token.EQL || bo.Op == token.NEQ) {
					var x ssa.Value
					if IsNilConst(bo.Y) {
						x = bo.X
					} else if IsNilConst(bo.X) {
						x = bo.Y
					}
					if x != nil {
						nk[x] = (bo.Op == token.NEQ) == (si == 0)
					}
				}
			}
			for _, in := range nb.Instrs {
				ph, ok := in.(*ssa.Phi)
				if !ok {
					break
				}
				if pi >= 0 && pi < len(ph.Edges) {
					ed := ph.Edges[pi]
					if IsNilConst(ed) {
						nk[ph] = false
					} else if nn, known := s.known[ed]; known {
						nk[ph] = nn
					} else {
						delete(nk, ph)
					}
				}
			}
			work = append(work, state{nb, 0, nk})
		}
	}
	return false
}
