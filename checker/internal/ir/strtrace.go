package ir

import (
	"go/token"
	"go/types"

	"golang.org/x/tools/go/ssa"
)

// Leaf is a terminal of an interprocedural backward trace of a value.
type Leaf struct {
	Kind string // const | param | field | call | global | sanitized | other
	V    ssa.Value
	Name string   // callee name for calls, field path for fields, parameter name
	Via  []string // repository functions the trace descended into, outermost first
}

// Tracer walks backwards from a value to the values it is assembled from:
// through phis, conversions, string concatenation, slices/index expressions,
// single-assignment cells, a table of pass-through library calls
// (fmt.Sprintf, filepath.Join ...) and - context-sensitively, with a call
// stack - into the return values of statically called repository functions and
// back out through their parameters.
type Tracer struct {
	C *Ctx
	// Through lists library callees whose result is assembled from their
	// arguments (all arguments are followed).
	Through map[string]bool
	// Sanitizer marks calls whose result counts as sanitized (leaf kind "sanitized").
	Sanitizer func(*ssa.Call) bool
	// Wrapper, when it returns values, makes the call transparent: the trace
	// continues with those values (typically one argument) instead of
	// entering the callee (e.g. an escaping helper whose result is a
	// re-encoding of its argument).
	Wrapper func(*ssa.Call) []ssa.Value
	// Descend decides whether to enter a static callee's body.
	Descend func(*ssa.Function) bool
	// Up, when set, continues a trace that reached a parameter of the function
	// the trace started in (or was continued into) at all the given call sites
	// of that function (e.g. unexported helpers with static callers).
	Up func(*ssa.Function) []ssa.CallInstruction
	// Fields, when set, makes a read of a field transparent: the trace continues
	// with the values the program stores into that field (field-based flow, for
	// small unexported helper objects: `c := &capture{src: f}; … read(c.src)`).
	Fields func(recv types.Type, field int) []ssa.Value
	// MaxDepth of the call stack.
	MaxDepth int
	leaves   []Leaf
	seen     map[traceKey]bool
}

type traceKey struct {
	v     ssa.Value
	depth int
	top   *ssa.CallCommon
}

type frame struct {
	call   *ssa.CallCommon
	callee *ssa.Function
}

// Trace returns the leaves of v.
func (t *Tracer) Trace(v ssa.Value) []Leaf {
	t.leaves = nil
	t.seen = map[traceKey]bool{}
	t.walkH(v, nil, nil, 0)
	return t.leaves
}

func via(fr []frame) []string {
	var out []string
	for _, f := range fr {
		out = append(out, FuncName(f.callee))
	}
	return out
}

func (t *Tracer) leaf(kind string, v ssa.Value, name string, hist []string) {
	t.leaves = append(t.leaves, Leaf{Kind: kind, V: v, Name: name, Via: hist})
}

func (t *Tracer) walk(v ssa.Value, fr []frame, d int) { t.walkH(v, fr, nil, d) }

func (t *Tracer) walkH(v ssa.Value, fr []frame, hist []string, d int) {
	if v == nil {
		return
	}
	var top *ssa.CallCommon
	if len(fr) > 0 {
		top = fr[len(fr)-1].call
	}
	k := traceKey{v, len(fr), top}
	if t.seen[k] {
		return
	}
	t.seen[k] = true
	if d > 200 {
		t.leaf("other", v, "depth", hist)
		return
	}
	switch x := v.(type) {
	case *ssa.Const:
		t.leaf("const", x, "", hist)
	case *ssa.Global:
		t.leaf("global", x, x.Name(), hist)
	case *ssa.Parameter:
		if len(fr) > 0 {
			f := fr[len(fr)-1]
			for i, p := range f.callee.Params {
				if p == x && i < len(f.call.Args) {
					t.walkH(f.call.Args[i], fr[:len(fr)-1], hist, d+1)
					return
				}
			}
		}
		if t.Up != nil && len(fr) == 0 {
			if sites := t.Up(x.Parent()); len(sites) > 0 {
				idx := -1
				for i, p := range x.Parent().Params {
					if p == x {
						idx = i
					}
				}
				for _, ci := range sites {
					if idx >= 0 && idx < len(ci.Common().Args) {
						t.walkH(ci.Common().Args[idx], nil, hist, d+1)
					}
				}
				return
			}
		}
		t.leaf("param", x, x.Name(), hist)
	case *ssa.FreeVar:
		// captured variable: follow its stores
		st := StoresTo(x)
		if len(st) == 0 {
			t.leaf("other", x, "freevar "+x.Name(), hist)
		}
		for _, s := range st {
			t.walkH(s, fr, hist, d+1)
		}
	case *ssa.Phi:
		for _, e := range x.Edges {
			t.walkH(e, fr, hist, d+1)
		}
	case *ssa.Convert:
		t.walkH(x.X, fr, hist, d+1)
	case *ssa.ChangeType:
		t.walkH(x.X, fr, hist, d+1)
	case *ssa.MakeInterface:
		t.walkH(x.X, fr, hist, d+1)
	case *ssa.ChangeInterface:
		t.walkH(x.X, fr, hist, d+1)
	case *ssa.TypeAssert:
		t.walkH(x.X, fr, hist, d+1)
	case *ssa.Slice:
		t.walkH(x.X, fr, hist, d+1)
	case *ssa.Extract:
		t.walkH(x.Tuple, fr, hist, d+1)
	case *ssa.BinOp:
		t.walkH(x.X, fr, hist, d+1)
		t.walkH(x.Y, fr, hist, d+1)
	case *ssa.Index:
		t.walkH(x.X, fr, hist, d+1)
	case *ssa.IndexAddr:
		// element of a slice/array: the elements stored into a local array, or the slice value
		if al, ok := x.X.(*ssa.Alloc); ok {
			found := false
			for _, ref := range *al.Referrers() {
				if ia, ok := ref.(*ssa.IndexAddr); ok {
					for _, r2 := range *ia.Referrers() {
						if st, ok := r2.(*ssa.Store); ok && st.Addr == ia {
							found = true
							t.walkH(st.Val, fr, hist, d+1)
						}
					}
				}
			}
			if found {
				return
			}
		}
		t.walkH(x.X, fr, hist, d+1)
	case *ssa.Alloc:
		// a local array/struct used as a whole (varargs): its element stores
		found := false
		for _, ref := range *x.Referrers() {
			switch r := ref.(type) {
			case *ssa.Store:
				if r.Addr == x {
					found = true
					t.walkH(r.Val, fr, hist, d+1)
				}
			case *ssa.IndexAddr:
				for _, r2 := range *r.Referrers() {
					if st, ok := r2.(*ssa.Store); ok && st.Addr == r {
						found = true
						t.walkH(st.Val, fr, hist, d+1)
					}
				}
			}
		}
		if !found {
			t.leaf("other", x, "alloc", hist)
		}
	case *ssa.UnOp:
		if x.Op == token.MUL {
			if cell := cellOf(x.X); cell != nil {
				st := StoresTo(cell)
				if len(st) > 0 {
					for _, s := range st {
						t.walkH(s, fr, hist, d+1)
					}
					return
				}
			}
			if _, ok := x.X.(*ssa.IndexAddr); ok {
				t.walkH(x.X, fr, hist, d+1)
				return
			}
			if g, ok := x.X.(*ssa.Global); ok {
				t.leaf("global", g, g.Name(), hist)
				return
			}
			if vals := aggLiteralVals(x); len(vals) > 0 {
				for _, v := range vals {
					t.walkH(v, fr, hist, d+1)
				}
				return
			}
			// a field of the small struct a repository function handed back
			// (`key := s.keyOf(file); … key.dir`): what the function's returns put into it
			if fa, isFA := x.X.(*ssa.FieldAddr); isFA {
				if c, cfr, ok := structSource(fa.X, fr); ok && t.walkCallField(c, fa.Field, cfr, hist, d) {
					return
				}
			}
			if fa, isFA := x.X.(*ssa.FieldAddr); isFA && t.Fields != nil {
				if vals := t.Fields(fa.X.Type(), fa.Field); len(vals) > 0 {
					for _, v := range vals {
						t.walkH(v, nil, hist, d+1)
					}
					return
				}
			}
			if p, ok := t.C.PathOf(x); ok {
				t.leaf("field", x, p.Dotted(), hist)
				// also remember the root for callers that care
				return
			}
			t.walkH(x.X, fr, hist, d+1)
			return
		}
		t.walkH(x.X, fr, hist, d+1)
	case *ssa.Field:
		if c, cfr, ok := structSource(x.X, fr); ok && t.walkCallField(c, x.Field, cfr, hist, d) {
			return
		}
		if vals := aggLiteralVals(x); len(vals) > 0 {
			for _, v := range vals {
				t.walkH(v, fr, hist, d+1)
			}
			return
		}
		if p, ok := t.C.PathOf(x); ok {
			t.leaf("field", x, p.Dotted(), hist)
			return
		}
		t.walkH(x.X, fr, hist, d+1)
	case *ssa.Call:
		if t.Sanitizer != nil && t.Sanitizer(x) {
			t.leaf("sanitized", x, CalleeName(&x.Call), hist)
			return
		}
		if t.Wrapper != nil {
			if vs := t.Wrapper(x); len(vs) > 0 {
				for _, a := range vs {
					t.walkH(a, fr, hist, d+1)
				}
				return
			}
		}
		name := CalleeName(&x.Call)
		if callee := x.Call.StaticCallee(); callee != nil && callee.Blocks != nil && !x.Call.IsInvoke() &&
			t.Descend != nil && t.Descend(callee) && len(fr) < t.maxDepth() {
			nf := append(append([]frame{}, fr...), frame{&x.Call, callee})
			nh := append(append([]string{}, hist...), FuncName(callee))
			any := false
			for _, b := range callee.Blocks {
				for _, in := range b.Instrs {
					if rt, ok := in.(*ssa.Return); ok {
						for _, res := range rt.Results {
							any = true
							t.walkH(res, nf, nh, d+1)
						}
					}
				}
			}
			if any {
				return
			}
		}
		if t.Through[name] {
			for _, a := range x.Call.Args {
				t.walkH(a, fr, hist, d+1)
			}
			return
		}
		t.leaf("call", x, name, hist)
	case *ssa.Lookup:
		t.walkH(x.X, fr, hist, d+1)
	default:
		t.leaf("other", v, v.Name(), hist)
	}
}

func (t *Tracer) maxDepth() int {
	if t.MaxDepth == 0 {
		return 6
	}
	return t.MaxDepth
}

// StringThrough is the default table of library calls whose string result is
// assembled from their arguments.
var StringThrough = map[string]bool{
	"fmt.Sprintf": true, "fmt.Sprint": true, "path/filepath.Join": true, "path.Join": true,
	"path/filepath.Base": true, "path/filepath.Dir": true, "path/filepath.Ext": true, "path/filepath.Clean": true,
	"strings.TrimSuffix": true, "strings.TrimPrefix": true, "strings.TrimSpace": true, "strings.Replace": true,
	"strings.ReplaceAll": true, "strings.Join": true, "strings.ToLower": true, "strings.Trim": true,
	"os.ExpandEnv": true, "path/filepath.Abs": true,
}

// aggLiteralVals: v reads a field of (an element of) a local composite literal
// - `sinks := [...]T{{a, b}, {c, d}}; for _, s := range sinks { use(s.f) }` -
// and the result is what the literal stores into that field (of any element).
func aggLiteralVals(v ssa.Value) []ssa.Value {
	var base ssa.Value
	field := -1
	switch x := v.(type) {
	case *ssa.Field:
		field = x.Field
		if u, ok := x.X.(*ssa.UnOp); ok && u.Op == token.MUL {
			base = u.X
		}
	case *ssa.UnOp:
		if fa, ok := x.X.(*ssa.FieldAddr); ok && x.Op == token.MUL {
			field, base = fa.Field, fa.X
		}
	}
	if base == nil || field < 0 {
		return nil
	}
	var al *ssa.Alloc
	switch b := base.(type) {
	case *ssa.Alloc:
		al = b
	case *ssa.IndexAddr:
		switch y := b.X.(type) {
		case *ssa.Alloc:
			al = y
		case *ssa.Slice:
			al, _ = y.X.(*ssa.Alloc)
		}
	}
	// a copy of an element (`for _, s := range lit`, `s := lit[i]`): go to the literal
	for d := 0; al != nil && d < 3; d++ {
		var whole []ssa.Value
		nField := 0
		if al.Referrers() != nil {
			for _, r := range *al.Referrers() {
				switch x := r.(type) {
				case *ssa.Store:
					if x.Addr == ssa.Value(al) {
						whole = append(whole, x.Val)
					}
				case *ssa.FieldAddr:
					if x.Referrers() != nil {
						for _, r2 := range *x.Referrers() {
							if st, ok := r2.(*ssa.Store); ok && st.Addr == ssa.Value(x) {
								nField++
							}
						}
					}
				}
			}
		}
		if len(whole) != 1 || nField > 0 {
			break
		}
		var src *ssa.Alloc
		switch w := whole[0].(type) {
		case *ssa.Index:
			if u, ok := w.X.(*ssa.UnOp); ok && u.Op == token.MUL {
				src, _ = u.X.(*ssa.Alloc)
			}
		case *ssa.UnOp:
			if w.Op == token.MUL {
				switch y := w.X.(type) {
				case *ssa.Alloc:
					src = y
				case *ssa.IndexAddr:
					switch z := y.X.(type) {
					case *ssa.Alloc:
						src = z
					case *ssa.Slice:
						src, _ = z.X.(*ssa.Alloc)
					}
				}
			}
		}
		if src == nil {
			break
		}
		al = src
	}
	if al == nil || al.Referrers() == nil {
		return nil
	}
	var out []ssa.Value
	collect := func(addr ssa.Value) {
		refs := addr.Referrers()
		if refs == nil {
			return
		}
		for _, r := range *refs {
			if fa, ok := r.(*ssa.FieldAddr); ok && fa.Field == field && fa.Referrers() != nil {
				for _, r2 := range *fa.Referrers() {
					if st, ok := r2.(*ssa.Store); ok && st.Addr == ssa.Value(fa) {
						out = append(out, st.Val)
					}
				}
			}
		}
	}
	collect(al)
	for _, r := range *al.Referrers() {
		switch x := r.(type) {
		case *ssa.IndexAddr:
			collect(x)
		case *ssa.Slice:
			if x.Referrers() != nil {
				for _, r2 := range *x.Referrers() {
					if ia, ok := r2.(*ssa.IndexAddr); ok {
						collect(ia)
					}
				}
			}
		}
	}
	return out
}

// LiteralRows: v reads field `field` of (a copy of) an element of a local
// composite array / slice literal of structs (`for _, row := range []T{{a, b},
// {c, d}} { … row.f … }`). rows[j][f] is what the literal stores into field f of
// element j; alloc identifies the literal.
func LiteralRows(v ssa.Value) (rows []map[int]ssa.Value, field int, alloc *ssa.Alloc, ok bool) {
	var base ssa.Value
	field = -1
	switch x := v.(type) {
	case *ssa.Field:
		field = x.Field
		if u, isU := x.X.(*ssa.UnOp); isU && u.Op == token.MUL {
			base = u.X
		}
	case *ssa.UnOp:
		if fa, isF := x.X.(*ssa.FieldAddr); isF && x.Op == token.MUL {
			field, base = fa.Field, fa.X
		}
	}
	if base == nil || field < 0 {
		return nil, 0, nil, false
	}
	var al *ssa.Alloc
	switch b := base.(type) {
	case *ssa.Alloc:
		al = b
	case *ssa.IndexAddr:
		switch y := b.X.(type) {
		case *ssa.Alloc:
			al = y
		case *ssa.Slice:
			al, _ = y.X.(*ssa.Alloc)
		}
	}
	// a copy of an element: go to the literal (as in aggLiteralVals)
	for d := 0; al != nil && d < 3; d++ {
		var whole []ssa.Value
		if al.Referrers() != nil {
			for _, r := range *al.Referrers() {
				if st, isS := r.(*ssa.Store); isS && st.Addr == ssa.Value(al) {
					whole = append(whole, st.Val)
				}
			}
		}
		if len(whole) != 1 {
			break
		}
		var src *ssa.Alloc
		switch w := whole[0].(type) {
		case *ssa.Index:
			if u, isU := w.X.(*ssa.UnOp); isU && u.Op == token.MUL {
				src, _ = u.X.(*ssa.Alloc)
			}
		case *ssa.UnOp:
			if w.Op == token.MUL {
				switch y := w.X.(type) {
				case *ssa.Alloc:
					src = y
				case *ssa.IndexAddr:
					switch z := y.X.(type) {
					case *ssa.Alloc:
						src = z
					case *ssa.Slice:
						src, _ = z.X.(*ssa.Alloc)
					}
				}
			}
		}
		if src == nil {
			break
		}
		al = src
	}
	if al == nil || al.Referrers() == nil {
		return nil, 0, nil, false
	}
	byIdx := map[int64]map[int]ssa.Value{}
	var maxIdx int64 = -1
	addElem := func(ia *ssa.IndexAddr) {
		k, isC := ConstInt(ia.Index)
		if !isC || ia.Referrers() == nil {
			return
		}
		for _, r := range *ia.Referrers() {
			fa, isF := r.(*ssa.FieldAddr)
			if !isF || fa.Referrers() == nil {
				continue
			}
			for _, r2 := range *fa.Referrers() {
				if st, isS := r2.(*ssa.Store); isS && st.Addr == ssa.Value(fa) {
					if byIdx[k] == nil {
						byIdx[k] = map[int]ssa.Value{}
					}
					byIdx[k][fa.Field] = st.Val
					if k > maxIdx {
						maxIdx = k
					}
				}
			}
		}
	}
	for _, r := range *al.Referrers() {
		switch x := r.(type) {
		case *ssa.IndexAddr:
			addElem(x)
		case *ssa.Slice:
			if x.Referrers() != nil {
				for _, r2 := range *x.Referrers() {
					if ia, isI := r2.(*ssa.IndexAddr); isI {
						addElem(ia)
					}
				}
			}
		}
	}
	if maxIdx < 0 {
		return nil, 0, nil, false
	}
	for k := int64(0); k <= maxIdx; k++ {
		if byIdx[k] != nil {
			rows = append(rows, byIdx[k])
		}
	}
	return rows, field, al, len(rows) > 0
}

// walkCallField continues a trace at field `field` of the struct value the call
// returns: in the callee, at every return, with what the returned composite literal
// stores into that field (nothing stored: the zero value, a constant). It reports
// false when the callee is not entered or a return hands back something other than a
// literal built in place.
func (t *Tracer) walkCallField(c *ssa.Call, field int, fr []frame, hist []string, d int) bool {
	callee := c.Call.StaticCallee()
	if callee == nil || callee.Blocks == nil || c.Call.IsInvoke() || t.Descend == nil || !t.Descend(callee) || len(fr) >= t.maxDepth() {
		return false
	}
	if callee.Signature.Results().Len() != 1 {
		return false
	}
	type ret struct{ vals []ssa.Value }
	var rets []ret
	for _, b := range callee.Blocks {
		for _, in := range b.Instrs {
			rt, ok := in.(*ssa.Return)
			if !ok {
				continue
			}
			u, isU := rt.Results[0].(*ssa.UnOp)
			if !isU || u.Op != token.MUL {
				return false
			}
			al, isA := u.X.(*ssa.Alloc)
			if !isA || len(StoresTo(al)) > 0 {
				return false
			}
			var vals []ssa.Value
			for _, ref := range *al.Referrers() {
				if fa, isFA := ref.(*ssa.FieldAddr); isFA && fa.Field == field {
					for _, r2 := range *fa.Referrers() {
						if st, isS := r2.(*ssa.Store); isS && st.Addr == ssa.Value(fa) {
							vals = append(vals, st.Val)
						}
					}
				}
			}
			rets = append(rets, ret{vals})
		}
	}
	if len(rets) == 0 {
		return false
	}
	nf := append(append([]frame{}, fr...), frame{&c.Call, callee})
	nh := append(append([]string{}, hist...), FuncName(callee))
	for _, r := range rets {
		for _, v := range r.vals {
			t.walkH(v, nf, nh, d+1)
		}
	}
	return true
}

// structSource: the call whose (struct) result v holds - directly, kept in a local that
// is assigned once and never written field by field, or handed down as a by-value
// parameter of the functions on the trace's call stack - and the stack at that call.
func structSource(v ssa.Value, fr []frame) (*ssa.Call, []frame, bool) {
	for d := 0; d < 8; d++ {
		switch x := v.(type) {
		case *ssa.Call:
			return x, fr, true
		case *ssa.Alloc:
			if fieldWritten(x) {
				return nil, nil, false
			}
			st := StoresTo(x)
			if len(st) != 1 {
				return nil, nil, false
			}
			v = st[0]
		case *ssa.UnOp:
			if x.Op != token.MUL {
				return nil, nil, false
			}
			v = x.X
		case *ssa.Parameter:
			if len(fr) == 0 {
				return nil, nil, false
			}
			f := fr[len(fr)-1]
			found := false
			for i, p := range f.callee.Params {
				if p == x && i < len(f.call.Args) {
					v, fr, found = f.call.Args[i], fr[:len(fr)-1], true
				}
			}
			if !found {
				return nil, nil, false
			}
		default:
			return nil, nil, false
		}
	}
	return nil, nil, false
}
