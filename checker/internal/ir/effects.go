package ir

import (
	"go/types"
	"strings"

	"golang.org/x/tools/go/ssa"
)

// StoreEvent is one write to a struct field (identified by the dotted suffix of
// its access path), either a direct Store in the analysed function or a call
// to a function that performs the store on (a path rooted at) one of its
// parameters - so an accessor (`setStatus`, `setErr`, `clearState`) and its
// inlined form produce the same event.
type StoreEvent struct {
	Site   ssa.Instruction // Store or call instruction in the analysed function
	Fn     *ssa.Function   // the analysed function
	Root   ssa.Value       // root of the written path in Fn's frame (resolved), nil if unknown
	Val    ssa.Value       // value written, in Fn's frame; nil if unknown
	Zero   bool            // the write stores the zero value of an enclosing struct
	Via    []*ssa.Function // callee chain (outermost first); empty for a direct store
	InCond bool            // inside the (innermost) callee the store is conditional
	Inc    bool            // the store writes <old value> + 1
	Init   bool            // the written object is allocated in the same function (constructor / composite literal)
}

type effKey struct {
	fn     *ssa.Function
	suffix string
}

// FieldStores lists the writes to `*.suffix` performed by fn itself or by the
// functions it calls statically (not through go statements), up to depth 4.
func (c *Ctx) FieldStores(fn *ssa.Function, suffix string) []StoreEvent {
	if c.eff == nil {
		c.eff = map[effKey][]StoreEvent{}
		c.effBusy = map[effKey]bool{}
	}
	return c.fieldStores(fn, suffix, 0)
}

func (c *Ctx) fieldStores(fn *ssa.Function, suffix string, depth int) []StoreEvent {
	k := effKey{fn, suffix}
	if ev, ok := c.eff[k]; ok {
		return ev
	}
	if c.effBusy[k] || fn == nil || fn.Blocks == nil || depth > 4 {
		return nil
	}
	c.effBusy[k] = true
	defer delete(c.effBusy, k)
	var out []StoreEvent
	ff := Facts(fn)
	for _, b := range fn.Blocks {
		for _, in := range b.Instrs {
			switch x := in.(type) {
			case *ssa.Store:
				p, ok := c.StorePath(x.Addr)
				if !ok {
					continue
				}
				d := p.Dotted()
				switch {
				case p.Suffix(suffix):
					ev := StoreEvent{Site: in, Fn: fn, Root: Resolve(p.Root), Val: Resolve(x.Val)}
					if bo, ok := x.Val.(*ssa.BinOp); ok && bo.Op.String() == "+" {
						if k, ok := ConstInt(bo.Y); ok && k == 1 {
							if lp, ok := c.PathOf(bo.X); ok && lp.Dotted() == d {
								ev.Inc = true
							}
						}
					}
					out = append(out, ev)
				case enclosing(d, suffix):
					// store of a whole enclosing struct
					ev := StoreEvent{Site: in, Fn: fn, Root: Resolve(p.Root)}
					if cst, ok := x.Val.(*ssa.Const); ok && cst.Value == nil {
						ev.Zero = true
					}
					out = append(out, ev)
				}
			case *ssa.Call:
				callee := x.Call.StaticCallee()
				if callee == nil || callee.Blocks == nil || x.Call.IsInvoke() {
					continue
				}
				if _, isClosure := x.Call.Value.(*ssa.MakeClosure); isClosure {
					// immediately-invoked closure: analysed as part of this function
				}
				for _, ce := range c.fieldStores(callee, suffix, depth+1) {
					ev := StoreEvent{Site: in, Fn: fn, Zero: ce.Zero, Inc: ce.Inc,
						Via: append([]*ssa.Function{callee}, ce.Via...), InCond: ce.InCond}
					if len(ce.Via) == 0 {
						// conditional inside the callee?
						if len(Facts(callee).DCS(ce.Site.Block())) > 0 {
							ev.InCond = true
						}
					}
					ev.Root = liftValue(ce.Root, callee, &x.Call)
					ev.Val = liftValue(ce.Val, callee, &x.Call)
					if ce.Root != nil && ev.Root == nil {
						// an object the callee reaches through one of its parameters
						// (`w.sc` in a method of w): the write stays visible to the caller,
						// attributed to the argument it was reached from
						if pp, okp := c.PathOf(ce.Root); okp {
							if base := liftValue(Resolve(pp.Root), callee, &x.Call); base != nil {
								ev.Root = base
							}
						}
					}
					if ce.Root != nil && ev.Root == nil {
						// root is not a parameter of the callee: a write to some
						// other object, irrelevant for the caller's objects
						if _, isGlobal := ce.Root.(*ssa.Global); !isGlobal {
							continue
						}
					}
					out = append(out, ev)
				}
			}
		}
	}
	_ = ff
	for i := range out {
		if al, ok := out[i].Root.(*ssa.Alloc); ok && al.Parent() == fn && al.Heap {
			out[i].Init = true
		}
	}
	c.eff[k] = out
	return out
}

// enclosing: stored path d is a proper prefix struct of a path ending in suffix,
// e.g. d = "data.State", suffix = "State.Status".
func enclosing(d, suffix string) bool {
	parts := strings.Split(suffix, ".")
	for i := len(parts) - 1; i >= 1; i-- {
		pre := strings.Join(parts[:i], ".")
		if d == pre || strings.HasSuffix(d, "."+pre) {
			return true
		}
	}
	return false
}

func liftValue(v ssa.Value, callee *ssa.Function, call *ssa.CallCommon) ssa.Value {
	if v == nil {
		return nil
	}
	switch x := v.(type) {
	case *ssa.Const:
		return x
	case *ssa.Global:
		return x
	case *ssa.Parameter:
		for i, p := range callee.Params {
			if p == x && i < len(call.Args) {
				return Resolve(call.Args[i])
			}
		}
	case *ssa.FreeVar:
		if mc, ok := call.Value.(*ssa.MakeClosure); ok {
			for i, fv := range callee.FreeVars {
				if fv == x && i < len(mc.Bindings) {
					return Resolve(mc.Bindings[i])
				}
			}
		}
	}
	return nil
}

// IsErrorType reports whether t is the built-in error interface.
func IsErrorType(t types.Type) bool {
	return types.Identical(t, types.Universe.Lookup("error").Type())
}
