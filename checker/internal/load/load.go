// Package load reads /repo's current sources with go/packages and builds the
// SSA program and call graphs the rules work on. Nothing from the repository is
// ever executed.
package load

import (
	"fmt"
	"go/ast"
	"go/parser"
	"go/token"
	"go/types"
	"os"
	"path/filepath"
	"sort"
	"strconv"
	"strings"
	"time"

	"golang.org/x/tools/go/callgraph"
	"golang.org/x/tools/go/callgraph/cha"
	"golang.org/x/tools/go/callgraph/vta"
	"golang.org/x/tools/go/packages"
	"golang.org/x/tools/go/ssa"
	"golang.org/x/tools/go/ssa/ssautil"
)

// ModulePath is the import-path prefix of the repository under analysis.
const ModulePath = "github.com/ErdemOzgen/blackdagger"

// Program is the loaded, type-checked, SSA-built repository.
type Program struct {
	Dir      string
	Whole    bool // dependencies have SSA bodies too (thorough tier)
	Fset     *token.FileSet
	Pkgs     []*packages.Package // root (repository) packages, sorted by path
	AllPkgs  int
	Prog     *ssa.Program
	SSAPkgs  map[string]*ssa.Package // by import path (repository packages)
	Funcs    map[*ssa.Function]bool  // every function with a body that belongs to the repository
	AllFuncs map[*ssa.Function]bool
	CG       *callgraph.Graph
	CGKind   string
	LoadS    float64
	SSAS     float64
	CGS      float64
}

// overlayStd: standard packages an edit of the sources may start importing.
var overlayStd = []string{"bufio", "bytes", "cmp", "context", "encoding/hex", "encoding/json", "errors", "fmt", "io", "io/fs",
	"iter", "maps", "math", "os", "path", "path/filepath", "regexp", "slices", "sort", "strconv", "strings", "sync", "sync/atomic",
	"time", "unicode", "unicode/utf8"}

// Options for Load.
type Options struct {
	Dir     string
	Whole   bool              // load dependencies with syntax and build a VTA call graph
	Overlay map[string][]byte // file replacements (variant suite)
}

// Load loads ./... below opt.Dir. Any package error is returned as an error:
// a tree that cannot be analysed is never reported as "held".
func Load(opt Options) (*Program, error) {
	t0 := time.Now()
	mode := packages.NeedName | packages.NeedFiles | packages.NeedCompiledGoFiles |
		packages.NeedImports | packages.NeedDeps | packages.NeedTypes |
		packages.NeedSyntax | packages.NeedTypesInfo | packages.NeedTypesSizes | packages.NeedModule
	if !opt.Whole {
		mode = packages.NeedName | packages.NeedFiles | packages.NeedCompiledGoFiles |
			packages.NeedImports | packages.NeedTypes | packages.NeedSyntax |
			packages.NeedTypesInfo | packages.NeedTypesSizes | packages.NeedModule | packages.NeedDeps
	}
	env := append(os.Environ(),
		"GOFLAGS=-mod=mod", "GOPROXY=off", "GOSUMDB=off", "GOTOOLCHAIN=local", "GOWORK=off")
	cfg := &packages.Config{
		Mode:  mode,
		Dir:   opt.Dir,
		Env:   env,
		Tests: false,
	}
	if !opt.Whole {
		// Types of dependencies come from export data; only the repository's
		// own packages get syntax (and hence SSA bodies).
		cfg.Mode = packages.LoadSyntax | packages.NeedModule
	}
	// With an overlay everything is type-checked from source: asking go list
	// for export data would recompile every package that depends on the
	// overlaid file, in every variant subprocess.
	patterns := []string{"./..."}
	if opt.Overlay != nil {
		// an edited source may import a standard package that no repository
		// package imported before: have the common ones at hand, in the same type universe
		patterns = append(patterns, overlayStd...)
	}
	all, err := packages.Load(cfg, patterns...)
	if err != nil {
		return nil, fmt.Errorf("packages.Load: %w", err)
	}
	var pkgs, extra []*packages.Package
	for _, p := range all {
		if strings.HasPrefix(p.PkgPath, ModulePath) {
			pkgs = append(pkgs, p)
		} else {
			extra = append(extra, p)
		}
	}
	if len(pkgs) == 0 {
		return nil, fmt.Errorf("no packages loaded from %s", opt.Dir)
	}
	var errs []string
	n := 0
	packages.Visit(pkgs, nil, func(p *packages.Package) {
		n++
		if strings.HasPrefix(p.PkgPath, ModulePath) {
			for _, e := range p.Errors {
				errs = append(errs, p.PkgPath+": "+e.Error())
			}
		}
	})
	if len(errs) > 0 {
		sort.Strings(errs)
		if len(errs) > 10 {
			errs = errs[:10]
		}
		return nil, fmt.Errorf("package errors:\n  %s", strings.Join(errs, "\n  "))
	}
	sort.Slice(pkgs, func(i, j int) bool { return pkgs[i].PkgPath < pkgs[j].PkgPath })
	if opt.Overlay != nil {
		pkgs, err = recheck(pkgs, extra, opt.Overlay)
		if err != nil {
			return nil, err
		}
	}
	p := &Program{Dir: opt.Dir, Whole: opt.Whole, Pkgs: pkgs, AllPkgs: n, Fset: pkgs[0].Fset}
	p.LoadS = time.Since(t0).Seconds()

	t1 := time.Now()
	bmode := ssa.InstantiateGenerics
	var spkgs []*ssa.Package
	if opt.Whole {
		p.Prog, spkgs = ssautil.AllPackages(pkgs, bmode)
	} else {
		p.Prog, spkgs = ssautil.Packages(pkgs, bmode)
	}
	p.Prog.Build()
	p.SSAPkgs = map[string]*ssa.Package{}
	for i, sp := range spkgs {
		if sp == nil {
			return nil, fmt.Errorf("no SSA package for %s", pkgs[i].PkgPath)
		}
		p.SSAPkgs[pkgs[i].PkgPath] = sp
	}
	p.AllFuncs = ssautil.AllFunctions(p.Prog)
	p.Funcs = map[*ssa.Function]bool{}
	for f := range p.AllFuncs {
		if f.Blocks == nil {
			continue
		}
		if pk := FuncPkgPath(f); strings.HasPrefix(pk, ModulePath) {
			p.Funcs[f] = true
		}
	}
	p.SSAS = time.Since(t1).Seconds()

	t2 := time.Now()
	if opt.Whole {
		p.CG = vta.CallGraph(p.AllFuncs, cha.CallGraph(p.Prog))
		p.CGKind = "VTA over CHA, whole program"
	} else {
		p.CG = cha.CallGraph(p.Prog)
		p.CGKind = "CHA, repository packages (dependencies from export data)"
	}
	p.CGS = time.Since(t2).Seconds()
	return p, nil
}

// recheck re-parses and re-type-checks the repository packages from source with
// the overlay applied, re-using the dependencies' types of the base load. (Asking
// go list for an overlaid build would recompile every dependent package in every
// variant subprocess.)
func recheck(pkgs, extra []*packages.Package, overlay map[string][]byte) ([]*packages.Package, error) {
	fset := pkgs[0].Fset
	isRoot := map[*packages.Package]bool{}
	for _, p := range pkgs {
		isRoot[p] = true
	}
	// every package of the base load by import path: an edit may add an import
	// the package did not have (a refactoring that starts using slices, strconv...)
	byPath := map[string]*packages.Package{}
	packages.Visit(append(append([]*packages.Package{}, pkgs...), extra...), nil, func(p *packages.Package) { byPath[p.PkgPath] = p })
	// parse first: the import graph between the repository packages is the one of
	// the edited sources, not of the base load
	parsed := map[*packages.Package][]*ast.File{}
	for _, p := range pkgs {
		names := append([]string{}, p.CompiledGoFiles...)
		// files the overlay adds to this package's directory (a refactoring that moves code into a new file)
		if len(p.CompiledGoFiles) > 0 {
			dir := filepath.Dir(p.CompiledGoFiles[0])
			have := map[string]bool{}
			for _, fn := range names {
				have[fn] = true
			}
			var extra []string
			for fn := range overlay {
				if filepath.Dir(fn) == dir && !have[fn] && strings.HasSuffix(fn, ".go") && !strings.HasSuffix(fn, "_test.go") {
					extra = append(extra, fn)
				}
			}
			sort.Strings(extra)
			names = append(names, extra...)
		}
		var files []*ast.File
		for _, fn := range names {
			var src any
			if b, ok := overlay[fn]; ok {
				if len(b) == 0 {
					continue // deleted by the overlay
				}
				src = b
			}
			f, err := parser.ParseFile(fset, fn, src, parser.ParseComments|parser.SkipObjectResolution)
			if err != nil {
				return nil, fmt.Errorf("package errors:\n  %s: %v", p.PkgPath, err)
			}
			files = append(files, f)
		}
		parsed[p] = files
	}
	importsOf := func(p *packages.Package) []string {
		set := map[string]bool{}
		for _, f := range parsed[p] {
			for _, im := range f.Imports {
				if path, err := strconv.Unquote(im.Path.Value); err == nil {
					set[path] = true
				}
			}
		}
		var keys []string
		for k := range set {
			keys = append(keys, k)
		}
		sort.Strings(keys)
		return keys
	}
	// topological order over repository-internal imports
	var order []*packages.Package
	seen := map[*packages.Package]bool{}
	var visit func(p *packages.Package)
	visit = func(p *packages.Package) {
		if p == nil || seen[p] || !isRoot[p] {
			return
		}
		seen[p] = true
		for _, k := range importsOf(p) {
			visit(byPath[k])
		}
		order = append(order, p)
	}
	for _, p := range pkgs {
		visit(p)
	}
	fresh := map[*packages.Package]*packages.Package{}
	var out []*packages.Package
	for _, p := range order {
		np := &packages.Package{ID: p.ID, Name: p.Name, PkgPath: p.PkgPath, GoFiles: p.GoFiles,
			CompiledGoFiles: p.CompiledGoFiles, Fset: fset, TypesSizes: p.TypesSizes, Module: p.Module,
			Imports: map[string]*packages.Package{}}
		for _, k := range importsOf(p) {
			ip := byPath[k]
			if ip == nil {
				continue // unsafe, C, or a package the base program never loaded: reported by the type checker
			}
			if f, ok := fresh[ip]; ok {
				np.Imports[k] = f
			} else {
				np.Imports[k] = ip
			}
		}
		files := parsed[p]
		info := &types.Info{
			Types: map[ast.Expr]types.TypeAndValue{}, Defs: map[*ast.Ident]types.Object{}, Uses: map[*ast.Ident]types.Object{},
			Implicits: map[ast.Node]types.Object{}, Instances: map[*ast.Ident]types.Instance{}, Scopes: map[ast.Node]*types.Scope{},
			Selections: map[*ast.SelectorExpr]*types.Selection{}, FileVersions: map[*ast.File]string{},
		}
		var terrs []string
		conf := types.Config{
			Importer: importerFunc(func(path string) (*types.Package, error) {
				if path == "unsafe" {
					return types.Unsafe, nil
				}
				ip := np.Imports[path]
				if ip == nil || ip.Types == nil {
					return nil, fmt.Errorf("no types for import %q", path)
				}
				return ip.Types, nil
			}),
			Sizes: p.TypesSizes,
			Error: func(err error) { terrs = append(terrs, err.Error()) },
		}
		if p.Module != nil && p.Module.GoVersion != "" {
			conf.GoVersion = "go" + p.Module.GoVersion
		}
		tp, _ := conf.Check(p.PkgPath, fset, files, info)
		if len(terrs) > 0 {
			if len(terrs) > 5 {
				terrs = terrs[:5]
			}
			return nil, fmt.Errorf("package errors:\n  %s", strings.Join(terrs, "\n  "))
		}
		np.Types, np.TypesInfo, np.Syntax = tp, info, files
		fresh[p] = np
	}
	for _, p := range pkgs {
		out = append(out, fresh[p])
	}
	return out, nil
}

type importerFunc func(path string) (*types.Package, error)

func (f importerFunc) Import(path string) (*types.Package, error) { return f(path) }

// FuncPkgPath returns the import path of the package a function (or closure,
// or instantiation) belongs to.
func FuncPkgPath(f *ssa.Function) string {
	for f.Parent() != nil {
		f = f.Parent()
	}
	if f.Pkg != nil {
		return f.Pkg.Pkg.Path()
	}
	if o := f.Origin(); o != nil && o.Pkg != nil {
		return o.Pkg.Pkg.Path()
	}
	if f.Object() != nil && f.Object().Pkg() != nil {
		return f.Object().Pkg().Path()
	}
	return ""
}

// Pkg returns the SSA package with the given path relative to the module, or nil.
func (p *Program) Pkg(rel string) *ssa.Package {
	path := ModulePath
	if rel != "" {
		path += "/" + rel
	}
	return p.SSAPkgs[path]
}

// Func resolves "pkg/rel.Name" or "pkg/rel.(*T).Name" / "pkg/rel.(T).Name".
func (p *Program) Func(rel, name string) *ssa.Function {
	sp := p.Pkg(rel)
	if sp == nil {
		return nil
	}
	if strings.HasPrefix(name, "(") {
		end := strings.Index(name, ")")
		if end < 0 {
			return nil
		}
		tn := name[1:end]
		mn := strings.TrimPrefix(name[end+1:], ".")
		ptr := strings.HasPrefix(tn, "*")
		tn = strings.TrimPrefix(tn, "*")
		t := sp.Type(tn)
		if t == nil {
			return nil
		}
		var recv types.Type = t.Type()
		if ptr {
			recv = types.NewPointer(recv)
		}
		ms := p.Prog.MethodSets.MethodSet(recv)
		for i := 0; i < ms.Len(); i++ {
			if ms.At(i).Obj().Name() == mn {
				return p.Prog.MethodValue(ms.At(i))
			}
		}
		return nil
	}
	return sp.Func(name)
}

// Pos renders a position relative to the repository root.
func (p *Program) Pos(pos token.Pos) string {
	if !pos.IsValid() {
		return "-"
	}
	ps := p.Fset.Position(pos)
	f := strings.TrimPrefix(ps.Filename, p.Dir+"/")
	return fmt.Sprintf("%s:%d", f, ps.Line)
}

// NumEdges counts call-graph edges.
func (p *Program) NumEdges() int {
	n := 0
	for _, nd := range p.CG.Nodes {
		n += len(nd.Out)
	}
	return n
}
