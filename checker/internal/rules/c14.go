package rules

import (
	"go/token"
	"strings"

	"golang.org/x/tools/go/ssa"

	"bdcheck/internal/ir"
)

func init() {
	register(&Prop{ID: "C14", Run: runC14,
		Technique: "static analysis: dominance / must-pass-through of the graph checks over graph admission and over every effect of Agent.Run; role-based conformance of the cycle test to the in-degree elimination named in the property's anchors (degree table, work list, inverse adjacency maps, verdict) on go/ssa",
		Decided: []string{
			"both graph constructors return a graph only when the edge/cycle setup returned nil; that setup returns the lookup error for an unknown dependency name (C01.edges) and returns nil only when the cycle test is false (C14.refusal-propagates)",
			"Agent.Run reaches precondition evaluation, the already-running probe, history, socket and Schedule/dryRun only on the success edge of graph construction, whose error is returned (C14.graph-first)",
			"while the cycle test is an in-degree elimination (local degree table drained through a work list): degrees are initialised with len(adjacency[key]); all and only degree-zero nodes of the whole graph seed the work list; each iteration pops exactly the element it reads and runs until the list is empty; every neighbour adjacency'[popped] (the inverse map, roles read off addEdge) is lowered by exactly one and queued exactly when that makes it zero; the verdict is given after the list is drained: cycle iff a non-zero degree remains (or an equivalent count of node events) (C14.kahn)",
		},
		NotDec: []string{
			"that in-degree elimination decides acyclicity (the textbook argument is assumed, not re-proved) and the correctness of a cycle test of any other shape: a DFS/colouring rewrite is not judged at all (recorded as not applicable in the evidence)",
			"distinctness of step names; integer overflow of degrees; graphs mutated between edge setup and the test",
		},
	})
}

func runC14(e *Env) {
	r := e.R
	r.Rule("C14.anchors", "anchor resolution", "scheduler anchors", 0)
	s := e.resolveSched()
	if !s.ok {
		return
	}
	c01Edges(e, s)
	r.Rule("C14.refusal-propagates", "MPT/DCS", "a graph is admitted only after the checks passed", 3)
	setup := e.graphRoles().Setup
	hasCycle := e.graphRoles().HasCycle
	if setup == nil || hasCycle == nil {
		r.Unknown("graph setup / cycle test", "-", "the function adding the dependency edges, or the boolean test whose positive answer makes it fail, was not found")
		return
	}
	// setup: nil returned only under hasCycle()==false
	nNil := 0
	for _, b := range setup.Blocks {
		for _, in := range b.Instrs {
			rt, ok := in.(*ssa.Return)
			if !ok || !e.Facts(setup).Reachable(b) {
				continue
			}
			allNil := true
			for _, v := range RetVals(rt, 0) {
				if !ir.IsNilConst(ir.Resolve(v)) {
					allNil = false
				}
			}
			if !allNil {
				continue
			}
			nNil++
			lits := e.DCS(rt)
			r.Check(HasVal(lits, IsCallOf(hasCycle), false), "graph setup: nil only when hasCycle() is false", e.InstrPos(rt),
				"the edge setup reports success although the cycle test was positive (or was not consulted): a cyclic DAG is admitted and the run never finishes", e.FactsStr("dominating conditions: ", lits))
		}
	}
	if nNil == 0 {
		r.Unknown("graph setup: success return", e.Pos(setup.Pos()), "no nil return")
	}
	// the cycle test must see every edge: from every addEdge call, each path to a
	// success return passes a (later) cycle test
	okSeen := true
	for _, ci := range ir.CallsIn(setup, func(c *ssa.CallCommon) bool { return c.StaticCallee() != nil && c.StaticCallee().Name() == "addEdge" }) {
		bad, _ := ir.Bypass(ci, nil, ir.PathQuery{
			Stop: func(in ssa.Instruction) bool {
				c, ok := in.(*ssa.Call)
				return ok && c.Call.StaticCallee() == hasCycle
			},
			Bad: func(in ssa.Instruction) bool {
				rt, ok := in.(*ssa.Return)
				if !ok {
					return false
				}
				for _, v := range RetVals(rt, 0) {
					if ir.IsNilConst(ir.Resolve(v)) {
						return true
					}
				}
				return false
			}})
		if bad != nil {
			okSeen = false
		}
	}
	r.Check(okSeen, "graph setup: every added edge is followed by a cycle test before success is reported", e.Pos(setup.Pos()),
		"edges are added after the (last) cycle test: a cycle closed by a later edge is not seen")
	for _, name := range []string{"NewExecutionGraph", "NewExecutionGraphForRetry"} {
		fn := e.Fn(schedRel, name)
		if fn == nil {
			continue
		}
		var call *ssa.Call
		for _, ci := range ir.CallsIn(fn, func(c *ssa.CallCommon) bool { return c.StaticCallee() == setup }) {
			call, _ = ci.(*ssa.Call)
		}
		for _, b := range fn.Blocks {
			for _, in := range b.Instrs {
				rt, ok := in.(*ssa.Return)
				if !ok || !e.Facts(fn).Reachable(b) {
					continue
				}
				nonNil := false
				for _, v := range RetVals(rt, 0) {
					if !ir.IsNilConst(ir.Resolve(v)) {
						nonNil = true
					}
				}
				if !nonNil {
					continue
				}
				okS := false
				for _, l := range e.DCS(rt) {
					if l.Kind == "cmp" && l.Op == token.EQL && ir.IsNilConst(l.Y) && call != nil && ir.Resolve(l.X) == ssa.Value(call) {
						okS = true
					}
				}
				r.Check(okS, name+": a graph is returned only when setup()==nil", e.InstrPos(rt), "a graph with a dangling dependency or a cycle is handed to the scheduler")
			}
		}
	}

	c14Kahn(e, hasCycle, e.graphRoles().AddEdge)

	r.Rule("C14.graph-first", "DCS", "Agent.Run: nothing before the graph was built successfully", 5)
	run := e.Fn("internal/agent", "(*Agent).Run")
	asetup := e.Fn("internal/agent", "(*Agent).setup")
	sg := e.Fn("internal/agent", "(*Agent).setupGraph")
	if run == nil || asetup == nil || sg == nil {
		return
	}
	agentOrdered(e, run, "a.setup()==nil", func(lits []ir.NLit) bool {
		for _, l := range lits {
			if l.Kind == "cmp" && l.Op == token.EQL && ir.IsNilConst(l.Y) {
				if c, ok := ir.Resolve(l.X).(*ssa.Call); ok && c.Call.StaticCallee() == asetup {
					return true
				}
			}
		}
		return false
	}, []string{").checkPreconditions", ").dryRun", ").Schedule", ").checkIsAlreadyRunning", ").setupDatabase", ").setupSocketServer", "HistoryStore.Write", "HistoryStore.Open"},
		"happens although the dependency graph was not (successfully) built: a refused DAG would evaluate preconditions, probe, record or execute")
	// setup returns setupGraph's result; setupGraph returns the constructor's error
	okRet := false
	for _, b := range asetup.Blocks {
		for _, in := range b.Instrs {
			if rt, ok := in.(*ssa.Return); ok {
				for _, v := range RetVals(rt, 0) {
					if c, isC := ir.Resolve(v).(*ssa.Call); isC && c.Call.StaticCallee() == sg {
						okRet = true
					}
				}
			}
		}
	}
	r.Check(okRet, "Agent.setup: returns setupGraph()'s error", e.Pos(asetup.Pos()), "an error of the graph construction is not returned by the agent's setup")
	for _, f := range []*ssa.Function{sg, e.FnQuiet("internal/agent", "(*Agent).setupGraphForRetry")} {
		if f == nil {
			continue
		}
		for _, ci := range ir.CallsIn(f, func(c *ssa.CallCommon) bool {
			return c.StaticCallee() != nil && strings.HasPrefix(c.StaticCallee().Name(), "NewExecutionGraph")
		}) {
			var errV ssa.Value
			for _, ref := range *ci.(ssa.Value).Referrers() {
				if ex, ok := ref.(*ssa.Extract); ok && ex.Index == 1 {
					errV = ex
				}
			}
			// the error is returned on its non-nil edge and the graph stored only on the nil edge
			okE := false
			for _, b := range f.Blocks {
				for _, in := range b.Instrs {
					if rt, ok := in.(*ssa.Return); ok {
						for _, v := range RetVals(rt, 0) {
							if ir.Resolve(v) == errV {
								okE = true
							}
						}
					}
				}
			}
			okG := true
			for _, ev := range e.C.FieldStores(f, "graph") {
				if len(ev.Via) > 0 {
					continue
				}
				g := false
				for _, l := range e.DCS(ev.Site) {
					if l.Kind == "cmp" && l.Op == token.EQL && ir.IsNilConst(l.Y) && ir.Resolve(l.X) == errV {
						g = true
					}
				}
				if !g {
					okG = false
				}
			}
			r.Check(okE && okG, shortName(f)+": the constructor's error is returned and the graph kept only on success", e.InstrPos(ci),
				"a refusal of the graph constructor is swallowed (the agent would go on with a nil or unchecked graph)")
		}
	}
}
