package rules

import (
	"go/token"
	"go/types"
	"strings"

	"golang.org/x/tools/go/ssa"

	"bdcheck/internal/ir"
)

func init() {
	register(&Prop{ID: "C14", Run: runC14,
		Technique: "static analysis: dominance / must-pass-through of the graph checks over graph admission and over every effect of Agent.Run; role-based conformance of the cycle test to the in-degree elimination named in the property's anchors (degree table, work list, inverse adjacency maps, verdict) on go/ssa",
		Decided: []string{
			"a step's depends list is stored as the definition has it (C14.depends-verbatim)",
			"both graph constructors return a graph only when the edge/cycle setup returned nil; that setup returns the lookup error for an unknown dependency name (C01.edges) and returns nil only when the cycle test is false (C14.refusal-propagates)",
			"Agent.Run reaches precondition evaluation, the already-running probe, history, socket and Schedule/dryRun only on the success edge of graph construction, whose error is returned (C14.graph-first)",
			"while the cycle test is an in-degree elimination (local degree table drained through a work list): degrees are initialised with len(adjacency[key]); all and only degree-zero nodes of the whole graph seed the work list; each iteration pops exactly the element it reads and runs until the list is empty; every neighbour adjacency'[popped] (the inverse map, roles read off addEdge) is lowered by exactly one and queued exactly when that makes it zero; the verdict is given after the list is drained: cycle iff a non-zero degree remains (or an equivalent count of node events) (C14.kahn)",
		},
		NotDec: []string{
			"that in-degree elimination decides acyclicity (the textbook argument is assumed, not re-proved) and the correctness of a cycle test of any other shape: a DFS/colouring rewrite is not judged at all (recorded as not applicable in the evidence)",
			"distinctness of step names; integer overflow of degrees; graphs mutated between edge setup and the test",
		},
	})
}

func runC14(e *Env) {
	r := e.R
	r.Rule("C14.anchors", "anchor resolution", "scheduler anchors", 0)
	s := e.resolveSched()
	if !s.ok {
		return
	}
	c01Edges(e, s)
	r.Rule("C14.refusal-propagates", "MPT/DCS", "a graph is admitted only after the checks passed", 2)
	setup := e.graphRoles().Setup
	hasCycle := e.graphRoles().HasCycle
	if hasCycle == nil || e.graphRoles().EdgeLoop == nil {
		r.Unknown("graph setup / cycle test", "-", "the function adding the dependency edges, or the boolean test whose positive answer makes it fail, was not found")
		return
	}
	if setup == nil {
		// edge setup and cycle test are not one function (`link()` + the constructor asking
		// hasCycle itself): judged per constructor below
		c14Constructors(e, nil, hasCycle)
		c14Kahn(e, hasCycle, e.graphRoles().AddEdge)
		c14GraphFirst(e)
		return
	}
	// setup: nil returned only under hasCycle()==false
	nNil := 0
	for _, b := range setup.Blocks {
		for _, in := range b.Instrs {
			rt, ok := in.(*ssa.Return)
			if !ok || !e.Facts(setup).Reachable(b) {
				continue
			}
			allNil := true
			for _, v := range RetVals(rt, 0) {
				if !ir.IsNilConst(ir.Resolve(v)) {
					allNil = false
				}
			}
			if !allNil {
				continue
			}
			nNil++
			lits := e.DCS(rt)
			r.Check(cycleNeg(lits, IsCallOf(hasCycle)), "graph setup: nil only when hasCycle() is false", e.InstrPos(rt),
				"the edge setup reports success although the cycle test was positive (or was not consulted): a cyclic DAG is admitted and the run never finishes", e.FactsStr("dominating conditions: ", lits))
		}
	}
	if nNil == 0 {
		r.Unknown("graph setup: success return", e.Pos(setup.Pos()), "no nil return")
	}
	// the cycle test must see every edge: from every addEdge call, each path to a
	// success return passes a (later) cycle test
	okSeen := true
	// the points of the refusing setup at which edges come into being: its own edge
	// sites, or its calls of the function that loops over the dependencies
	gr := e.graphRoles()
	var edgePoints []ssa.Instruction
	for _, b := range setup.Blocks {
		for _, in := range b.Instrs {
			if setup == gr.EdgeLoop && gr.isEdgeSite(in) {
				edgePoints = append(edgePoints, in)
			}
			if c, ok := in.(*ssa.Call); ok && setup != gr.EdgeLoop && c.Call.StaticCallee() != nil {
				for _, f := range e.staticClosure(c.Call.StaticCallee()) {
					if f == gr.EdgeLoop {
						edgePoints = append(edgePoints, in)
						break
					}
				}
			}
		}
	}
	if len(edgePoints) == 0 {
		r.Unknown("graph setup: where edges are added", e.Pos(setup.Pos()), "no edge site found in "+ShortFn(setup))
	}
	for _, ci := range edgePoints {
		bad, _ := ir.Bypass(ci, nil, ir.PathQuery{
			Stop: func(in ssa.Instruction) bool {
				c, ok := in.(*ssa.Call)
				return ok && c.Call.StaticCallee() == hasCycle
			},
			Bad: func(in ssa.Instruction) bool {
				rt, ok := in.(*ssa.Return)
				if !ok {
					return false
				}
				for _, v := range RetVals(rt, 0) {
					if ir.IsNilConst(ir.Resolve(v)) {
						return true
					}
				}
				return false
			}})
		if bad != nil {
			okSeen = false
		}
	}
	r.Check(okSeen, "graph setup: every added edge is followed by a cycle test before success is reported", e.Pos(setup.Pos()),
		"edges are added after the (last) cycle test: a cycle closed by a later edge is not seen")
	c14Constructors(e, setup, hasCycle)

	c14Kahn(e, hasCycle, e.graphRoles().AddEdge)
	c14GraphFirst(e)
	cFieldVerbatim(e, "C14.depends-verbatim", "a step's depends list reaches the graph check as it was written", "internal/dag", "internal/dag.Step", "Depends", "Depends", "the dependency list is rewritten between the file and the graph check: an entry dropped here (a self-dependency, a name that does not exist) is never seen by the edge set-up and the cycle test, and a DAG the property refuses is admitted", 1)
}

func c14GraphFirst(e *Env) {
	r := e.R
	r.Rule("C14.graph-first", "DCS", "Agent.Run: nothing before the graph was built successfully", 5)
	a := e.agentRoles()
	run := a.Run
	if run == nil {
		return
	}
	agentOrdered(e, "the graph was built", a.PassedGuard(apiNewGraph),
		[]string{apiEval, apiProbe, apiSchedule, apiHistory, apiServe},
		"happens although the dependency graph was not (successfully) built: a refused DAG would evaluate preconditions, probe, record or execute", nil)
	// The constructor's refusal reaches Run: starting from the functions that call
	// the constructor, every function on the way up to Run hands the error on (a
	// return value that is the callee's result, or the callee's whole result tuple).
	holders := a.Holders(apiNewGraph)
	if len(holders) == 0 {
		r.Unknown("the agent's graph construction", e.Pos(run.Pos()), "no function of the agent package calls a graph constructor")
		return
	}
	handsOn := func(f *ssa.Function, call *ssa.Call) bool {
		for _, b := range f.Blocks {
			for _, in := range b.Instrs {
				rt, ok := in.(*ssa.Return)
				if !ok || len(rt.Results) == 0 {
					continue
				}
				for _, v0 := range RetVals(rt, len(rt.Results)-1) {
					for _, rv := range phiLeaves(v0) {
						if ex, isE := rv.(*ssa.Extract); isE && ex.Index == ex.Tuple.Type().(*types.Tuple).Len()-1 {
							rv = ex.Tuple
						}
						if rv == ssa.Value(call) {
							return true
						}
					}
				}
			}
		}
		return false
	}
	seen := map[*ssa.Function]bool{}
	var climb func(f *ssa.Function, depth int)
	climb = func(f *ssa.Function, depth int) {
		if seen[f] || f == run || depth > 6 {
			return
		}
		seen[f] = true
		for _, ci := range e.StaticCallSites(f) {
			caller := ci.Parent()
			if !a.inPkg(caller) || len(a.Does(ci.Common(), []string{apiNewGraph})) == 0 {
				continue
			}
			call, isC := ci.(*ssa.Call)
			if caller == run {
				continue // judged by the ordering rule above: Run goes on only when this call returned nil
			}
			r.Check(isC && handsOn(caller, call), shortName(caller)+": returns the error of the graph construction ("+shortName(f)+")", e.InstrPos(ci),
				"an error of the graph construction is not handed on to the agent's Run")
			climb(caller, depth+1)
		}
	}
	for _, f := range holders {
		climb(f, 0)
	}
	// the constructor's result: the error is returned (or the whole result is), and
	// the graph is stored into the agent only where the paired error is nil
	var paired func(g, er ssa.Value, depth int) bool
	var producer func(c *ssa.Call, depth int) bool
	producer = func(c *ssa.Call, depth int) bool {
		g := c.Call.StaticCallee()
		if g == nil || depth > 4 {
			return false
		}
		if strings.Contains(ir.FuncName(g), apiNewGraph) {
			return true
		}
		if !a.inPkg(g) || g.Signature.Results().Len() != 2 {
			return false
		}
		// a wrapper: every return hands on a producer's whole result, a producer's
		// (graph, error) pair, or (nil, error)
		n := 0
		for _, b := range g.Blocks {
			rt, ok := b.Instrs[len(b.Instrs)-1].(*ssa.Return)
			if !ok {
				continue
			}
			n++
			if len(rt.Results) != 2 {
				return false
			}
			if ir.IsNilConst(ir.Resolve(rt.Results[0])) {
				continue
			}
			if !paired(rt.Results[0], rt.Results[1], depth+1) {
				return false
			}
		}
		return n > 0
	}
	paired = func(g, er ssa.Value, depth int) bool {
		g, er = ir.Resolve(g), ir.Resolve(er)
		if depth > 6 {
			return false
		}
		if pg, ok := g.(*ssa.Phi); ok {
			pe, ok2 := er.(*ssa.Phi)
			if !ok2 || pe.Block() != pg.Block() {
				return false
			}
			for i := range pg.Edges {
				if !paired(pg.Edges[i], pe.Edges[i], depth+1) {
					return false
				}
			}
			return true
		}
		xg, ok1 := g.(*ssa.Extract)
		xe, ok2 := er.(*ssa.Extract)
		if !ok1 || !ok2 || xg.Tuple != xe.Tuple || xg.Index != 0 || xe.Index != 1 {
			return false
		}
		c, ok := xg.Tuple.(*ssa.Call)
		return ok && producer(c, depth+1)
	}
	nStores := 0
	graphField := "graph"
	if at := a.pkg.Type("Agent"); at != nil {
		if st, ok := at.Type().Underlying().(*types.Struct); ok {
			for i := 0; i < st.NumFields(); i++ {
				if strings.HasSuffix(ir.NamedType(st.Field(i).Type()), "scheduler.ExecutionGraph") {
					graphField = st.Field(i).Name()
				}
			}
		}
	}
	for _, f := range e.RepoFuncsSorted() {
		if !a.inPkg(f) {
			continue
		}
		for _, ev := range e.C.FieldStores(f, graphField) {
			if len(ev.Via) > 0 || !strings.HasSuffix(ir.NamedType(ev.Root.Type()), "agent.Agent") {
				continue
			}
			nStores++
			okG := false
			for _, l := range e.DCS(ev.Site) {
				if l.Kind == "cmp" && l.Op == token.EQL && ir.IsNilConst(l.Y) && paired(ev.Val, l.X, 0) {
					okG = true
				}
			}
			r.Check(okG, "agent: the graph is kept only when its constructor returned no error", e.InstrPos(ev.Site),
				"a refusal of the graph constructor is swallowed (the agent would go on with a nil or unchecked graph)",
				e.FactsStr("dominating conditions: ", e.DCS(ev.Site)))
		}
	}
	if nStores == 0 {
		r.Unknown("agent: the store of the graph", e.Pos(run.Pos()), "no store to Agent.graph found")
	}
}

// c14Constructors: every constructor of the execution graph (exported function of the
// scheduler package returning (*ExecutionGraph, error)) hands out a graph only after
// the dependency edges were added and, after that, the cycle test answered "no cycle":
// through one setup function that does both (setup), or through separate calls
// (`link()` then `hasCycle()`), in the constructor itself.
func c14Constructors(e *Env, setup, hasCycle *ssa.Function) {
	r := e.R
	gr := e.graphRoles()
	sp := e.P.Pkg(schedRel)
	isErrFn := func(f *ssa.Function) bool {
		res := f.Signature.Results()
		return res.Len() > 0 && ir.IsErrorType(res.At(res.Len()-1).Type())
	}
	// functions that add the edges (contain, or statically reach, the loop over Step.Depends)
	adds := func(f *ssa.Function) bool {
		if f == nil || !e.P.Funcs[f] {
			return false
		}
		if f == gr.EdgeLoop {
			return true
		}
		for _, g := range e.staticClosure(f) {
			if g == gr.EdgeLoop {
				return true
			}
		}
		return false
	}
	// functions that refuse a cyclic graph: an error result that is nil only under hasCycle()==false
	refuses := func(f *ssa.Function) bool {
		if f == nil || !e.P.Funcs[f] || f.Blocks == nil || !isErrFn(f) {
			return false
		}
		n := 0
		for _, b := range f.Blocks {
			rt, ok := b.Instrs[len(b.Instrs)-1].(*ssa.Return)
			if !ok || !e.Facts(f).Reachable(b) {
				continue
			}
			nilRet := false
			for _, v := range RetVals(rt, len(rt.Results)-1) {
				if ir.IsNilConst(ir.Resolve(v)) {
					nilRet = true
				}
			}
			if !nilRet {
				continue
			}
			n++
			if !cycleNeg(e.DCS(rt), IsCallOf(hasCycle)) {
				return false
			}
		}
		return n > 0
	}
	nCtor := 0
	for _, fn := range e.RepoFuncsSorted() {
		if fn.Package() != sp || fn.Parent() != nil || fn.Synthetic != "" || fn.Object() == nil || !fn.Object().Exported() || fn.Signature.Recv() != nil {
			continue
		}
		res := fn.Signature.Results()
		if res.Len() != 2 || !strings.HasSuffix(ir.NamedType(res.At(0).Type()), ".ExecutionGraph") || !ir.IsErrorType(res.At(1).Type()) {
			continue
		}
		nCtor++
		name := fn.Name()
		var edgeCalls, refuseCalls, cycCalls []*ssa.Call
		for _, g := range sortedFns(e.inlinedSet(fn, nil)) {
			if g != fn {
				continue // calls are looked at in the constructor itself; its helpers through adds / refuses
			}
			for _, ci := range ir.CallsIn(g, func(c *ssa.CallCommon) bool { return c.StaticCallee() != nil }) {
				c, ok := ci.(*ssa.Call)
				if !ok {
					continue
				}
				h := c.Call.StaticCallee()
				if h == hasCycle {
					cycCalls = append(cycCalls, c)
					continue
				}
				if adds(h) {
					edgeCalls = append(edgeCalls, c)
				}
				if refuses(h) {
					refuseCalls = append(refuseCalls, c)
				}
			}
		}
		for _, b := range fn.Blocks {
			rt, ok := b.Instrs[len(b.Instrs)-1].(*ssa.Return)
			if !ok || !e.Facts(fn).Reachable(b) {
				continue
			}
			nonNil := false
			for _, v := range RetVals(rt, 0) {
				if !ir.IsNilConst(ir.Resolve(v)) {
					nonNil = true
				}
			}
			if !nonNil {
				continue
			}
			passed := func(c *ssa.Call) bool {
				if isErrFn(c.Call.StaticCallee()) {
					return e.onlyAfterNil(c, rt)
				}
				return ir.Precedes(c, rt)
			}
			var firstEdge *ssa.Call
			for _, ec := range edgeCalls {
				if passed(ec) && firstEdge == nil {
					firstEdge = ec
				}
			}
			okCycle := false
			for _, rc := range refuseCalls {
				if !e.onlyAfterNil(rc, rt) {
					continue
				}
				if firstEdge != nil && (rc == firstEdge || ir.Precedes(firstEdge, rc)) {
					okCycle = true
				}
			}
			for _, cc := range cycCalls {
				if firstEdge != nil && ir.Precedes(firstEdge, cc) && cycleNeg(e.DCS(rt), func(v ssa.Value) bool { return ir.Resolve(v) == ssa.Value(cc) }) {
					okCycle = true
				}
			}
			var facts []string
			if firstEdge == nil {
				facts = append(facts, "no successful edge setup precedes the return")
			}
			if !okCycle {
				facts = append(facts, "no cycle test that answered `no cycle` after the edges were added dominates the return")
			}
			r.Check(firstEdge != nil && okCycle, name+": a graph is returned only when setup()==nil", e.InstrPos(rt),
				"a graph with a dangling dependency or a cycle is handed to the scheduler (this constructor returns a graph without the edge setup and the cycle test having both succeeded)", facts...)
		}
	}
	if nCtor == 0 {
		r.Unknown("graph constructors", schedRel, "no exported function returning (*ExecutionGraph, error)")
	}
}
