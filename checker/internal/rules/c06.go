package rules

import (
	"go/token"
	"go/types"
	"regexp"
	"strings"
	"time"

	"golang.org/x/tools/go/ssa"

	"bdcheck/internal/ir"
)

const jsondbRel = "internal/persistence/jsondb"

func init() {
	register(&Prop{ID: "C06", Run: runC06,
		Technique: "static analysis: writer/reader constant agreement (layout vs sort-key regexp evaluated on the extracted constants), interprocedural value-flow of glob patterns and destructive paths, dominance guards (go/ssa)",
		Decided: []string{
			"what the history store hashes into the per-DAG directory key is the path argument itself (C06.key-injective); a path looked up by name reaches a destructive operation only through the function computing that key (C06.isolation)",
			"the history store derives days from the wall clock the file names carry: no Truncate/Round to 24h or more, no UTC()/In() (C06.day-is-calendar-day)",
			"the sort key extracted from a history file name distinguishes two runs that differ in the finest unit of the layout the name is written with; the date-only layout is a prefix of it (C06.key-covers-layout)",
			"DAG-name-derived text reaching filepath.Glob passes through a glob-escaping function (C06.glob-injection)",
			"every os.Remove/Rename in the history store acts on a path derived from the DAG file argument of the operation (C06.isolation)",
			"retention removes only files with ModTime before now-retentionDays (sign checked) and nothing for negative retention (C06.retention-guard)",
			"lookup by request id answers only on an exact id match and never for the empty id (C06.reqid-guard)",
			"latest-N orders by key descending and returns the clamped prefix (C06.newest-first)",
			"the history line reader has no fixed line-length cap (C06.unbounded-line)",
			"the status cache stores with an entry file attributes taken before the load, and answers from memory only when the entry's size equals the file's and its mtime is not older (C06.cache-validator)",
			"the lists of run files that are sorted, cut and walked are complete glob results or newest-first prefixes of them (C07.all-matches-considered, shared)",
			"status lines are appended: existing history files are opened for writing only with O_APPEND and without O_TRUNC (C07.append-only, shared)",
		},
		NotDec: []string{
			"equality with a reference model over operation sequences",
			"Rename's string replacement of the prefix; cache staleness within one mtime second at equal size; md5 collisions; ties between identical keys (sort stability)",
		},
	})
}

func runC06(e *Env) {
	c06KeyCoversLayout(e)
	c06CalendarDay(e, "C06.day-is-calendar-day")
	c06KeyInjective(e)
	c06Glob(e)
	c06Isolation(e)
	c06Retention(e)
	c06ReqID(e)
	c06NewestFirst(e)
	c06UnboundedLine(e, "C06.unbounded-line")
	c06CacheValidator(e)
	c07Candidates(e) // a run whose file is dropped from the candidates by name is not returned
	c07AppendOnly(e) // an update that does not append leaves queries answering the pre-update record
}

// globalRegexp returns the constant pattern a package-level regexp variable is compiled from.
func (e *Env) globalRegexp(rel, name string) (string, bool) {
	sp := e.P.Pkg(rel)
	if sp == nil {
		return "", false
	}
	g, _ := sp.Members[name].(*ssa.Global)
	initFn := sp.Func("init")
	if g == nil || initFn == nil {
		return "", false
	}
	for _, b := range initFn.Blocks {
		for _, in := range b.Instrs {
			if st, ok := in.(*ssa.Store); ok && st.Addr == ssa.Value(g) {
				if c, ok := st.Val.(*ssa.Call); ok && ir.IsCallTo(&c.Call, "regexp.MustCompile") {
					return ir.ConstString(c.Call.Args[0])
				}
			}
		}
	}
	return "", false
}

func c06KeyCoversLayout(e *Env) {
	r := e.R
	r.Rule("C06.key-covers-layout", "AGR", "sort key distinguishes instants the file-name layout distinguishes", 1)
	// by role: the file-name layout is the longest constant layout given to
	// time.Format in the history store; the sort-key function is the one that
	// applies a package-level regexp with FindString
	sp := e.P.Pkg(jsondbRel)
	var pkgFns []*ssa.Function
	for _, f := range e.RepoFuncsSorted() {
		if sp != nil && rootFn(f).Package() == sp {
			pkgFns = append(pkgFns, f)
		}
	}
	layout := ""
	var layouts []string
	var newFile, tsFn *ssa.Function
	for _, f := range pkgFns {
		for _, ci := range ir.CallsIn(f, func(c *ssa.CallCommon) bool { return ir.IsCallTo(c, "(time.Time).Format") }) {
			if s, ok := ir.ConstString(ci.Common().Args[1]); ok {
				layouts = append(layouts, s)
				if len(s) > len(layout) {
					layout, newFile = s, f
				}
			}
		}
	}
	var pat string
	for _, f := range pkgFns {
		for _, ci := range ir.CallsIn(f, func(c *ssa.CallCommon) bool { return ir.IsCallTo(c, "(*regexp.Regexp).FindString") }) {
			if u, ok := ci.Common().Args[0].(*ssa.UnOp); ok {
				if g, ok := u.X.(*ssa.Global); ok {
					if p, okp := e.globalRegexp(jsondbRel, g.Name()); okp {
						pat, tsFn = p, f
					}
				}
			}
		}
	}
	if newFile == nil || tsFn == nil {
		r.Unknown("file-name layout and sort-key pattern", "-", sprintf("could not find the history store's time.Format layout (%q) and FindString sort key (%q)", layout, pat))
		return
	}
	if layout == "" || pat == "" {
		r.Unknown("file-name layout and sort-key pattern", e.Pos(newFile.Pos()), sprintf("could not extract constants: layout=%q pattern=%q", layout, pat))
		return
	}
	re, err := regexp.Compile(pat)
	if err != nil {
		r.Unknown("sort-key pattern compiles", e.Pos(tsFn.Pos()), err.Error())
		return
	}
	// finest unit of the layout
	unit := time.Second
	switch {
	case strings.Contains(layout, ".000000000") || strings.Contains(layout, ".999999999"):
		unit = time.Nanosecond
	case strings.Contains(layout, ".000000") || strings.Contains(layout, ".999999"):
		unit = time.Microsecond
	case strings.Contains(layout, ".000") || strings.Contains(layout, ".999"):
		unit = time.Millisecond
	case !strings.Contains(layout, "05"):
		unit = time.Minute
	}
	t1 := time.Date(2024, 5, 6, 7, 8, 9, 123456789, time.UTC)
	t2 := t1.Add(unit)
	n1, n2 := "dag."+t1.Format(layout)+".abcdefgh.dat", "dag."+t2.Format(layout)+".abcdefgh.dat"
	k1, k2 := re.FindString(n1), re.FindString(n2)
	r.Check(k1 != "" && k2 != "" && k1 < k2, "history file key: layout "+layout+" vs key pattern", e.Pos(tsFn.Pos()),
		sprintf("two runs started %v apart get file names %q and %q but the same sort key %q: the latest-status and recent-history queries cannot tell which is newer", unit, n1, n2, k1),
		"layout="+layout, "pattern="+pat)
	// every other layout the store formats times with (the "today" pattern) is a prefix of the file-name layout
	okp, other := true, 0
	for _, l := range layouts {
		if l == layout {
			continue
		}
		other++
		if l == "" || !strings.HasPrefix(layout, l) {
			okp = false
		}
	}
	if other > 0 {
		r.Check(okp, "today pattern: date layout is a prefix of the file-name layout", e.Pos(newFile.Pos()),
			"the pattern selecting today's runs formats the day with a layout that is not a prefix of the layout file names are written with", "layouts: "+strings.Join(layouts, ", "))
	}
}

func (e *Env) repoDescend(f *ssa.Function) bool { return e.P.Funcs[f] }

// isGlobEscaper: a repository function that mentions all glob metacharacters
// as constants (an escaping helper).
func (e *Env) isGlobEscaper(f *ssa.Function) bool {
	if f == nil || !e.P.Funcs[f] {
		return false
	}
	seen := map[string]bool{}
	note := func(s string) {
		for _, m := range []string{"\\", "*", "?", "["} {
			if strings.Contains(s, m) {
				seen[m] = true
			}
		}
	}
	for _, g := range ir.WithClosures(f) {
		for _, b := range g.Blocks {
			for _, in := range b.Instrs {
				for _, op := range in.Operands(nil) {
					if op == nil || *op == nil {
						continue
					}
					// a package-level table (strings.NewReplacer(...), a map or slice
					// literal) the helper applies: the constants of its initialiser count
					if gl, ok := (*op).(*ssa.Global); ok && gl.Pkg != nil && e.P.Funcs[gl.Pkg.Func("init")] {
						for _, s := range e.globalInitConsts(gl) {
							note(s)
						}
					}
					if s, ok := ir.ConstString(*op); ok {
						for _, m := range []string{"\\", "*", "?", "["} {
							if strings.Contains(s, m) {
								seen[m] = true
							}
						}
					}
					if c, ok := (*op).(*ssa.Const); ok && c.Value != nil {
						if k, ok := ir.ConstInt(c); ok {
							for _, m := range []string{"\\", "*", "?", "["} {
								if k == int64(m[0]) {
									seen[m] = true
								}
							}
						}
					}
				}
			}
		}
	}
	return len(seen) == 4
}

// globalInitConsts: string constants the package initialiser uses to build the
// value stored into a package-level variable.
func (e *Env) globalInitConsts(g *ssa.Global) []string {
	initFn := g.Pkg.Func("init")
	if initFn == nil {
		return nil
	}
	var out []string
	tr := &ir.Tracer{C: e.C, Through: map[string]bool{"strings.NewReplacer": true}}
	for _, b := range initFn.Blocks {
		for _, in := range b.Instrs {
			if st, ok := in.(*ssa.Store); ok && st.Addr == ssa.Value(g) {
				for _, l := range tr.Trace(st.Val) {
					if s, ok := ir.ConstString(l.V); ok && l.Kind == "const" {
						out = append(out, s)
					}
				}
			}
		}
	}
	return out
}

func c06Glob(e *Env) {
	r := e.R
	r.Rule("C06.glob-injection", "VF", "DAG-derived text reaching filepath.Glob is escaped", 1)
	sp := e.P.Pkg(jsondbRel)
	tr := &ir.Tracer{C: e.C, Through: ir.StringThrough, Descend: e.repoDescend,
		Sanitizer: func(c *ssa.Call) bool { return e.escapedArg(c) != nil },
		Up: func(f *ssa.Function) []ssa.CallInstruction {
			if f.Object() != nil && f.Object().Exported() {
				return nil
			}
			return e.StaticCallSites(f)
		}}
	for _, f := range e.RepoFuncsSorted() {
		if rootFn(f).Package() != sp {
			continue
		}
		for _, ci := range ir.CallsIn(f, func(c *ssa.CallCommon) bool { return ir.IsCallTo(c, "path/filepath.Glob") }) {
			leaves := tr.Trace(ci.Common().Args[0])
			var tainted []string
			for _, l := range leaves {
				switch l.Kind {
				case "const", "sanitized":
				case "call":
					if l.Name == "(time.Time).Format" || l.Name == "encoding/hex.EncodeToString" {
						continue
					}
					tainted = append(tainted, "result of "+l.Name)
				case "param":
					tainted = append(tainted, "parameter "+l.Name+viaStr(l.Via))
				case "field":
					if l.Name == "location" {
						continue // the data directory is configuration, not DAG-derived
					}
					tainted = append(tainted, "field "+l.Name)
				default:
					tainted = append(tainted, l.Kind+" "+l.Name)
				}
			}
			r.Check(len(tainted) == 0, ShortFn(f)+": filepath.Glob pattern built from escaped text", e.InstrPos(ci),
				"caller-supplied DAG file text reaches the glob pattern unescaped: a DAG named e.g. `a[1].yaml` or `x*.yaml` matches the wrong history files or none",
				"unescaped sources: "+strings.Join(dedupe(tainted), ", "))
		}
	}
}

func viaStr(v []string) string {
	if len(v) == 0 {
		return ""
	}
	return " (via " + strings.Join(v, "→") + ")"
}

func dedupe(s []string) []string {
	seen := map[string]bool{}
	var out []string
	for _, x := range s {
		if !seen[x] {
			seen[x] = true
			out = append(out, x)
		}
	}
	return out
}

func c06Isolation(e *Env) {
	r := e.R
	r.Rule("C06.isolation", "VF", "destructive file operations act on paths derived from the operation's DAG argument", 4)
	sp := e.P.Pkg(jsondbRel)
	// an escaping helper keeps the derivation of its argument
	tr := &ir.Tracer{C: e.C, Through: ir.StringThrough, Descend: e.repoDescend,
		Wrapper: e.escapedArg,
		// a helper's parameter is followed to its call sites: the DAG argument is the
		// string parameter of the store's exported operation the helper works for
		Up: func(f *ssa.Function) []ssa.CallInstruction {
			if f.Object() != nil && f.Object().Exported() {
				return nil
			}
			return e.StaticCallSites(f)
		}}
	// the function(s) keying the per-DAG directory: what hashes the path
	keyFns := map[string]bool{}
	for _, f := range e.RepoFuncsSorted() {
		if rootFn(f).Package() != sp {
			continue
		}
		if len(ir.CallsIn(f, func(c *ssa.CallCommon) bool {
			cn := ir.CalleeName(c)
			return cn == "crypto/md5.New" || cn == "crypto/md5.Sum" || cn == "crypto/sha1.Sum" || cn == "crypto/sha256.Sum256" || cn == "crypto/sha256.New"
		})) > 0 {
			keyFns[ir.FuncName(f)] = true
		}
	}
	for _, f := range e.RepoFuncsSorted() {
		if rootFn(f).Package() != sp {
			continue
		}
		for _, ci := range ir.CallsIn(f, func(c *ssa.CallCommon) bool {
			return ir.IsCallTo(c, "os.Remove", "os.RemoveAll", "os.Rename")
		}) {
			// the DAG argument: a string parameter of an operation at the store's API
			// boundary (an exported function or method of the package, or a function
			// nobody in the repository calls statically)
			isAPIParam := func(v ssa.Value) bool {
				p, ok := v.(*ssa.Parameter)
				if !ok || p.Type().String() != "string" {
					return false
				}
				g := p.Parent()
				return (g.Object() != nil && g.Object().Exported()) || len(e.StaticCallSites(g)) == 0
			}
			check := func(arg ssa.Value) (bool, []string) {
				var srcs []string
				fromParam := false
				keyed := false
				var walkLeaves func(ls []ir.Leaf, depth int)
				walkLeaves = func(ls []ir.Leaf, depth int) {
					for _, l := range ls {
						switch l.Kind {
						case "param":
							if isAPIParam(l.V) {
								fromParam = true
								// ... through the function that keys the per-DAG directory by a hash of the path
								for _, v := range l.Via {
									if keyFns[v] {
										keyed = true
									}
								}
								// the caller's own file (Compact(file) and what it derives from it): nothing
								// was looked up in the data directory by name, so there is nothing to key
								if depth == 0 {
									keyed = true
								}
							}
							srcs = append(srcs, "param "+l.Name)
						case "call":
							if l.Name == "path/filepath.Glob" && depth < 2 {
								c := l.V.(*ssa.Call)
								walkLeaves(tr.Trace(c.Call.Args[0]), depth+1)
								continue
							}
							srcs = append(srcs, "call "+l.Name)
						case "field":
							srcs = append(srcs, "field "+l.Name)
							if l.Name == "writer.target" || l.Name == "target" {
								// the open run's own file, derived from Open(dagFile, …) (see C06.isolation writer-target below)
								fromParam, keyed = true, true
							}
						}
					}
				}
				walkLeaves(tr.Trace(arg), 0)
				if fromParam && !keyed && len(keyFns) > 0 {
					srcs = append(srcs, "NOT through the hash-keyed per-DAG directory")
					return false, dedupe(srcs)
				}
				return fromParam, dedupe(srcs)
			}
			ok, srcs := check(ci.Common().Args[0])
			what := shortCallee(ci.Common())
			r.Check(ok, ShortFn(f)+": "+what+" on a path derived from the operation's DAG argument", e.InstrPos(ci),
				"a destructive file operation of the history store is not confined to the history of the DAG it was called for (it could touch other DAGs' runs)",
				"path sources: "+strings.Join(srcs, ", "))
		}
	}
	// the writer's target derives from newFile(dagFile…) → prefixWithDirectory(dagFile)
	nw := e.Fn(jsondbRel, "(*JSONDB).newWriter")
	if nw != nil {
		ok := false
		for _, ev := range e.C.FieldStores(nw, "target") {
			if ev.Val == nil {
				continue
			}
			for _, l := range tr.Trace(ev.Val) {
				if l.Kind == "param" && l.Name == "dagFile" {
					for _, v := range l.Via {
						if strings.HasSuffix(v, ".getDirectory") || strings.HasSuffix(v, ".prefixWithDirectory") {
							ok = true
						}
					}
				}
			}
		}
		r.Check(ok, "newWriter: writer.target derives from getDirectory(dagFile)", e.Pos(nw.Pos()),
			"the run file is not created inside the per-DAG directory derived from the DAG file path")
	}
}

func c06Retention(e *Env) {
	r := e.R
	r.Rule("C06.retention-guard", "DCS+VF", "RemoveOld removes only files older than now-retentionDays", 1)
	fn := e.Fn(jsondbRel, "(*JSONDB).RemoveOld")
	if fn == nil {
		return
	}
	var days ssa.Value
	for _, p := range fn.Params {
		if p.Type().String() == "int" {
			days = p
		}
	}
	n := 0
	// the removal itself may sit in a helper of the store: its conditions continue at the
	// call RemoveOld makes, its parameters stand for the arguments of that call
	type remSite struct {
		ci   ssa.CallInstruction
		lits []ir.NLit
		bind map[ssa.Value]ssa.Value
	}
	isRemove := func(c *ssa.CallCommon) bool { return ir.IsCallTo(c, "os.Remove", "os.RemoveAll") }
	var rems []remSite
	for _, g := range ir.WithClosures(fn) {
		for _, ci := range ir.CallsIn(g, isRemove) {
			rems = append(rems, remSite{ci, e.DCS(ci), nil})
		}
		for _, cs := range ir.CallsIn(g, func(c *ssa.CallCommon) bool {
			h := c.StaticCallee()
			return h != nil && e.P.Funcs[h] && h.Blocks != nil && rootFn(h).Package() == fn.Package() && h != fn
		}) {
			h := cs.Common().StaticCallee()
			bind := map[ssa.Value]ssa.Value{}
			for i, p := range h.Params {
				if i < len(cs.Common().Args) {
					bind[p] = cs.Common().Args[i]
				}
			}
			for _, hg := range ir.WithClosures(h) {
				for _, ci := range ir.CallsIn(hg, isRemove) {
					lits := append([]ir.NLit{}, e.DCS(cs)...)
					if ir.UniqueSite(h) == nil {
						lits = append(lits, e.DCS(ci)...)
					} else {
						lits = e.DCS(ci) // the virtual inlining view already continues at the call
					}
					rems = append(rems, remSite{ci, lits, bind})
				}
			}
		}
	}
	isDays := func(v ssa.Value, bind map[ssa.Value]ssa.Value) bool {
		v = ir.Deep(v)
		if b, ok := bind[v]; ok {
			v = ir.Deep(b)
		}
		return v == days
	}
	for _, rs := range rems {
		ci, lits, bind := rs.ci, rs.lits, rs.bind
		n++
		okBefore, okSign := false, false
		for _, l := range lits {
			if l.Kind == "val" && l.Pol {
				if c, ok := l.V.(*ssa.Call); ok && ir.IsCallTo(&c.Call, "(time.Time).Before", "(time.Time).After") {
					// modTime.Before(cutoff), or the same thing written cutoff.After(modTime):
					// the file's ModTime() on the older side, time.Now().AddDate(0,0,-days) on the other
					older, bound := c.Call.Args[0], c.Call.Args[1]
					if ir.IsCallTo(&c.Call, "(time.Time).After") {
						older, bound = bound, older
					}
					if rc, ok := ir.Resolve(older).(*ssa.Call); ok && rc.Call.IsInvoke() && rc.Call.Method.Name() == "ModTime" {
						okBefore = true
					}
					if ad, ok := ir.Resolve(bound).(*ssa.Call); ok && ir.IsCallTo(&ad.Call, "(time.Time).AddDate") {
						y, _ := ir.ConstInt(ad.Call.Args[1])
						m, _ := ir.ConstInt(ad.Call.Args[2])
						if u, ok := ir.Resolve(ad.Call.Args[3]).(*ssa.UnOp); ok && u.Op == token.SUB && isDays(u.X, bind) && y == 0 && m == 0 {
							if nc, ok := ir.Resolve(ad.Call.Args[0]).(*ssa.Call); ok && ir.IsCallTo(&nc.Call, "time.Now") {
								okSign = true
							}
						}
					}
				}
			}
		}
		okNeg := false
		for _, l := range lits {
			// 0 <= days  (from `if days < 0 { return }`)
			if l.Kind == "cmp" && l.Op == token.LEQ && isDays(l.Y, bind) {
				if k, ok := ir.ConstInt(l.X); ok && k == 0 {
					okNeg = true
				}
			}
		}
		r.Check(okBefore && okSign, "RemoveOld: os.Remove under ModTime().Before(now − retentionDays)", e.InstrPos(ci),
			"retention can remove runs that are not older than the retention period (age test missing, inverted or with the wrong sign)", e.FactsStr("dominating conditions: ", lits))
		r.Check(okNeg, "RemoveOld: nothing removed for negative retention", e.InstrPos(ci),
			"a negative retention (keep forever) still reaches the removal", e.FactsStr("dominating conditions: ", lits))
	}
	if n == 0 {
		r.Unknown("RemoveOld: removal site", e.Pos(fn.Pos()), "no os.Remove found")
	}
}

func c06ReqID(e *Env) {
	r := e.R
	r.Rule("C06.reqid-guard", "DCS", "FindByRequestID answers only on exact match, never for the empty id", 1)
	fn := e.Fn(jsondbRel, "(*JSONDB).FindByRequestID")
	if fn == nil {
		return
	}
	var id ssa.Value
	for _, p := range fn.Params {
		if p.Name() == "requestID" || (p.Type().String() == "string" && id == nil && p != fn.Params[1]) {
			id = p
		}
	}
	if len(fn.Params) == 3 {
		id = fn.Params[2]
	}
	n := 0
	for _, b := range fn.Blocks {
		for _, in := range b.Instrs {
			rt, ok := in.(*ssa.Return)
			if !ok || !e.Facts(fn).Reachable(b) || len(rt.Results) != 2 || ir.IsNilConst(rt.Results[0]) {
				continue
			}
			n++
			lits := e.DCS(rt)
			okEq, okNE := false, false
			hasEq := func(ls []ir.NLit) bool {
				for _, l := range ls {
					if l.Kind == "cmp" && l.Op == token.EQL {
						if (e.IsFieldRead(l.X, nil, "RequestID") && ir.Resolve(l.Y) == id) || (e.IsFieldRead(l.Y, nil, "RequestID") && ir.Resolve(l.X) == id) {
							return true
						}
					}
				}
				return false
			}
			okEq = hasEq(lits)
			if !okEq {
				// the answer kept in a variable (`found = &StatusFile{...}` inside the walk, returned
				// after it): every record the variable can hold was built under the equality
				all, nLeaf := true, 0
				for _, leaf := range phiLeaves(rt.Results[0]) {
					lv := ir.Resolve(leaf)
					if ir.IsNilConst(lv) {
						continue
					}
					nLeaf++
					in2, isIn := lv.(ssa.Instruction)
					if !isIn || in2.Block() == nil || !hasEq(e.DCS(in2)) {
						all = false
					}
				}
				okEq = all && nLeaf > 0
			}
			for _, l := range lits {
				if l.Kind == "cmp" && l.Op == token.NEQ && ir.Resolve(l.X) == id {
					if s, ok := ir.ConstString(l.Y); ok && s == "" {
						okNE = true
					}
				}
			}
			r.Check(okEq, "FindByRequestID: result only under status.RequestID == requestID", e.InstrPos(rt),
				"a run is returned for a request id it was not recorded under", e.FactsStr("dominating conditions: ", lits))
			r.Check(okNE, "FindByRequestID: no result for the empty request id", e.InstrPos(rt),
				"the empty request id can match a run", e.FactsStr("dominating conditions: ", lits))
		}
	}
	if n == 0 {
		r.Unknown("FindByRequestID: success return", e.Pos(fn.Pos()), "no non-nil return found")
	}
}

func c06NewestFirst(e *Env) {
	r := e.R
	r.Rule("C06.newest-first", "DCS/AGR", "latest-N: comparator key(i) > key(j); result files[:n] with n clamped", 2)
	// by role: the function of the history store that sorts with a comparator calling the sort-key function
	var tsFn *ssa.Function
	sp := e.P.Pkg(jsondbRel)
	for _, f := range e.RepoFuncsSorted() {
		if sp == nil || rootFn(f).Package() != sp {
			continue
		}
		for _, ci := range ir.CallsIn(f, func(c *ssa.CallCommon) bool { return ir.IsCallTo(c, "(*regexp.Regexp).FindString") }) {
			if u, ok := ci.Common().Args[0].(*ssa.UnOp); ok {
				if _, ok := u.X.(*ssa.Global); ok {
					tsFn = f
				}
			}
		}
	}
	// the sort: sort.Slice(files, less) with a comparator closure, or sort.Sort(T(files))
	// with T's Less method - in both cases a function of two indices that calls the
	// sort-key function
	type sorter struct {
		site   ssa.CallInstruction
		less   *ssa.Function
		sorted ssa.Value
	}
	callsKey := func(f *ssa.Function) bool {
		return f != nil && len(ir.CallsIn(f, func(c *ssa.CallCommon) bool { return tsFn != nil && c.StaticCallee() == tsFn })) > 0
	}
	var sorters []sorter
	for _, f := range e.RepoFuncsSorted() {
		if sp == nil || f.Package() != sp || f.Parent() != nil || f.Synthetic != "" {
			continue
		}
		for _, ci := range ir.CallsIn(f, func(c *ssa.CallCommon) bool {
			return ir.IsCallTo(c, "sort.Slice", "sort.SliceStable", "sort.Sort", "sort.Stable")
		}) {
			a0 := ir.Resolve(ci.Common().Args[0])
			mi, isMI := a0.(*ssa.MakeInterface)
			if len(ci.Common().Args) == 2 {
				if mc, ok := ci.Common().Args[1].(*ssa.MakeClosure); ok && callsKey(mc.Fn.(*ssa.Function)) {
					sv := a0
					if isMI {
						sv = ir.Resolve(mi.X)
					}
					sorters = append(sorters, sorter{ci, mc.Fn.(*ssa.Function), sv})
				}
				continue
			}
			if !isMI {
				continue
			}
			for _, g := range e.RepoFuncsSorted() {
				if g.Name() == "Less" && g.Synthetic == "" && g.Signature.Recv() != nil && types.Identical(g.Signature.Recv().Type(), mi.X.Type()) && callsKey(g) {
					sorters = append(sorters, sorter{ci, g, ir.Resolve(mi.X)})
				}
			}
		}
	}
	if len(sorters) == 0 {
		r.Unknown("latest-N selection: the function sorting run files by their time key", "-", "no sort.Slice / sort.Sort whose comparator calls the sort-key function")
		return
	}
	fn := sorters[0].site.Parent()
	okCmp := false
	for _, so := range sorters {
		less := so.less
		for _, b := range less.Blocks {
			for _, in := range b.Instrs {
				rt, ok := in.(*ssa.Return)
				if !ok {
					continue
				}
				n := ir.Normalize(ir.Lit{Cond: rt.Results[0], Pol: true})
				// key(files[j]) < key(files[i])   (i.e. key(i) > key(j)); i, j are the last two parameters
				if n.Kind == "cmp" && n.Op == token.LSS {
					xi, xok := keyIndex(n.X, tsFn, less)
					yi, yok := keyIndex(n.Y, tsFn, less)
					np := len(less.Params)
					if xok && yok && xi == np-1 && yi == np-2 {
						okCmp = true
					}
				}
			}
		}
		r.Check(okCmp, "filterLatest: less(i,j) = key(files[i]) > key(files[j])", e.InstrPos(so.site),
			"the recent-history selection does not sort newest first by the time key")
	}
	// every non-nil return is the first min(n, len(files)) elements of the sorted slice:
	// files[:n] under n <= len(files), files[:phi(n,len)] (clamped), or all of files
	// under len(files) <= n
	okSlice := true
	nRet := 0
	// the sorted slice (what the sort is given) and the requested count (the
	// function's int parameter)
	var files, nParam ssa.Value
	files = sorters[0].sorted
	for _, p := range fn.Params {
		if p.Type().String() == "int" {
			nParam = p
		}
	}
	if files == nil || nParam == nil {
		r.Unknown("filterLatest: the sorted slice and the requested count", e.Pos(fn.Pos()), "not found")
		return
	}
	isFiles := func(v ssa.Value) bool { return ir.Resolve(v) == files }
	lenOfFiles := func(v ssa.Value) bool {
		x, ok := lenArg(v)
		return ok && isFiles(x)
	}
	for _, b := range fn.Blocks {
		for _, in := range b.Instrs {
			rt, ok := in.(*ssa.Return)
			if !ok || ir.IsNilConst(rt.Results[0]) || !e.Facts(fn).Reachable(b) {
				continue
			}
			nRet++
			lits := e.DCS(rt)
			nLEQlen, lenLEQn := false, false
			for _, l := range lits {
				if l.Kind != "cmp" {
					continue
				}
				if (l.Op == token.LEQ || l.Op == token.LSS) && ir.Resolve(l.X) == nParam && lenOfFiles(l.Y) {
					nLEQlen = true
				}
				if (l.Op == token.LEQ || l.Op == token.LSS) && lenOfFiles(l.X) && ir.Resolve(l.Y) == nParam {
					lenLEQn = true
				}
				if l.Op == token.EQL && lenOfFiles(l.X) {
					if k, isK := ir.ConstInt(l.Y); isK && k == 0 {
						lenLEQn = true
					}
				}
			}
			good := false
			res := ir.Resolve(rt.Results[0])
			if isFiles(res) {
				good = lenLEQn
			} else if sl, isS := res.(*ssa.Slice); isS && sl.Low == nil && sl.High != nil && isFiles(sl.X) {
				if ir.Resolve(sl.High) == nParam {
					good = nLEQlen
				} else if mc, isC := ir.Resolve(sl.High).(*ssa.Call); isC {
					// files[:min(n, len(files))]
					if bi, isB := mc.Call.Value.(*ssa.Builtin); isB && bi.Name() == "min" && len(mc.Call.Args) == 2 {
						a0, a1 := mc.Call.Args[0], mc.Call.Args[1]
						good = (ir.Resolve(a0) == nParam && lenOfFiles(a1)) || (ir.Resolve(a1) == nParam && lenOfFiles(a0))
					}
				} else if ph, isP := sl.High.(*ssa.Phi); isP {
					hasN, hasLen := false, false
					for _, ed := range ph.Edges {
						if ir.Resolve(ed) == nParam {
							hasN = true
						}
						if lenOfFiles(ed) {
							hasLen = true
						}
					}
					good = hasN && hasLen
				}
			}
			if !good {
				okSlice = false
			}
		}
	}
	if nRet == 0 {
		okSlice = false
	}
	r.Check(okSlice, "filterLatest: returns files[:min(n,len)]", e.Pos(fn.Pos()), "the recent-history selection does not return the first n (clamped) of the sorted files")
}

// keyIndex: v is timestamp(files[p]) where p is the idx-th parameter of less.
func keyIndex(v ssa.Value, tsFn, less *ssa.Function) (int, bool) {
	c, ok := ir.Resolve(v).(*ssa.Call)
	if !ok || tsFn == nil || c.Call.StaticCallee() != tsFn {
		return 0, false
	}
	u, ok := c.Call.Args[0].(*ssa.UnOp)
	if !ok {
		return 0, false
	}
	ia, ok := u.X.(*ssa.IndexAddr)
	if !ok {
		return 0, false
	}
	for i, p := range less.Params {
		if ir.Resolve(ia.Index) == ssa.Value(p) {
			return i, true
		}
	}
	return 0, false
}

func c06UnboundedLine(e *Env, rule string) {
	r := e.R
	r.Rule(rule, "SIB", "history line reader has no fixed line-length cap", 1)
	pf := e.Fn(jsondbRel, "ParseFile")
	if pf == nil {
		return
	}
	n := 0
	seen := map[*ssa.Function]bool{}
	var visit func(f *ssa.Function)
	visit = func(f *ssa.Function) {
		if seen[f] || !e.P.Funcs[f] {
			return
		}
		seen[f] = true
		hasBuffer := len(ir.CallsIn(f, func(c *ssa.CallCommon) bool { return ir.IsCallTo(c, "(*bufio.Scanner).Buffer") })) > 0
		for _, ci := range ir.CallsIn(f, func(c *ssa.CallCommon) bool { return true }) {
			name := ir.CalleeName(ci.Common())
			switch name {
			case "(*bufio.Scanner).Scan":
				n++
				r.Check(hasBuffer, ShortFn(f)+": bufio.Scanner with an explicit (large) buffer", e.InstrPos(ci),
					"history lines are read with a bufio.Scanner at its default 64 KiB token limit: a status line of a large DAG makes the whole run file unreadable (ErrTooLong)")
			case "(*bufio.Reader).ReadLine":
				n++
				// the isPrefix result must be used
				used := false
				if v, ok := ci.(ssa.Value); ok {
					for _, ref := range *v.Referrers() {
						if ex, ok := ref.(*ssa.Extract); ok && ex.Index == 1 && len(*ex.Referrers()) > 0 {
							used = true
						}
					}
				}
				r.Check(used, ShortFn(f)+": ReadLine continues while isPrefix", e.InstrPos(ci),
					"long history lines are truncated at the reader's buffer size (isPrefix ignored)")
			case "(*bufio.Reader).ReadString", "(*bufio.Reader).ReadBytes":
				n++
				r.OK(ShortFn(f)+": unbounded ReadString/ReadBytes", e.InstrPos(ci), "")
			case "(*bufio.Reader).ReadSlice":
				n++
				r.Bad(ShortFn(f)+": ReadSlice is capped at the buffer size", e.InstrPos(ci), "history lines longer than the buffer fail with ErrBufferFull")
			}
			if sc := ci.Common().StaticCallee(); sc != nil {
				visit(sc)
			}
		}
	}
	visit(pf)
	if n == 0 {
		r.Unknown("ParseFile: line reader", e.Pos(pf.Pos()), "no recognised line-reading primitive reachable from ParseFile")
	}
}

// escapedArg: the call applies a glob escaper to its argument - a repository
// helper whose constants cover the glob metacharacters, or the Replace method of
// a package-level strings.Replacer built from them - and returns that argument.
func (e *Env) escapedArg(c *ssa.Call) []ssa.Value {
	if f := c.Call.StaticCallee(); e.isGlobEscaper(f) && len(f.Params) == 1 && len(c.Call.Args) == 1 {
		return c.Call.Args
	}
	if ir.IsCallTo(&c.Call, "(*strings.Replacer).Replace") && len(c.Call.Args) == 2 {
		if u, ok := ir.Resolve(c.Call.Args[0]).(*ssa.UnOp); ok {
			if gl, isG := u.X.(*ssa.Global); isG && gl.Pkg != nil {
				seen := map[string]bool{}
				for _, s := range e.globalInitConsts(gl) {
					for _, m := range []string{"\\", "*", "?", "["} {
						if strings.Contains(s, m) {
							seen[m] = true
						}
					}
				}
				if len(seen) == 4 {
					return c.Call.Args[1:]
				}
			}
		}
	}
	return nil
}
