package rules

import (
	"go/types"
	"strings"

	"golang.org/x/tools/go/ssa"

	"bdcheck/internal/ir"
)

// c11ParamsOverrideEnv: the NAME=value entries of the named parameters reach every
// step and handler through DAG.Env (copied into Step.Variables; the command executor
// builds the child environment as os.Environ() + Variables, later entries winning).
// A parameter given at start therefore reaches a step that reads its environment only
// if the parser's entries are added to DAG.Env whole, unfiltered and at the end - so
// that they override an `env:` entry of the same name, as os.Setenv does for the
// loading process.
//
// By role: the parameter parser is the function of the dag package returning
// ([]string, []string, error); its second result is the list of entries.
func c11ParamsOverrideEnv(e *Env) {
	r := e.R
	r.Rule("C11.params-override-env", "VF", "the named parameters' NAME=value entries are appended to DAG.Env whole and last", 1)
	sp := e.P.Pkg(dagRel)
	if sp == nil {
		r.Unknown("dag package", dagRel, "not loaded")
		return
	}
	isStrSlice := func(t types.Type) bool {
		s, ok := t.Underlying().(*types.Slice)
		if !ok {
			return false
		}
		b, ok := s.Elem().Underlying().(*types.Basic)
		return ok && b.Kind() == types.String
	}
	var parsers []*ssa.Function
	for _, f := range e.RepoFuncsSorted() {
		if f.Package() != sp || f.Parent() != nil || f.Blocks == nil {
			continue
		}
		res := f.Signature.Results()
		if res.Len() == 3 && isStrSlice(res.At(0).Type()) && isStrSlice(res.At(1).Type()) && ir.IsErrorType(res.At(2).Type()) {
			parsers = append(parsers, f)
		}
	}
	if len(parsers) != 1 {
		r.Unknown("the parameter parser (returns the parameter list and the NAME=value entries)", dagRel, sprintf("%d candidates", len(parsers)))
		return
	}
	parser := parsers[0]
	// wholeAppend: v is append(<current value of the field the store goes to>, entries...)
	var wholeAppend func(v ssa.Value, entries ssa.Value, field string, d int) (bool, string)
	wholeAppend = func(v ssa.Value, entries ssa.Value, field string, d int) (bool, string) {
		c, ok := ir.Resolve(v).(*ssa.Call)
		if !ok {
			return false, "the stored value is not an append"
		}
		if bi, isB := c.Call.Value.(*ssa.Builtin); isB && bi.Name() == "append" && len(c.Call.Args) == 2 {
			if ir.Resolve(c.Call.Args[1]) != entries {
				return false, "what is appended is not the parser's list itself"
			}
			if field != "" && !e.IsFieldRead(c.Call.Args[0], nil, field) {
				return false, "the entries are not appended to the current " + field
			}
			return true, ""
		}
		// a forwarding helper `func(dst, src) { return append(dst, src...) }`
		g := c.Call.StaticCallee()
		if g != nil && e.P.Funcs[g] && len(g.Blocks) == 1 && d < 2 {
			if rt, isR := g.Blocks[0].Instrs[len(g.Blocks[0].Instrs)-1].(*ssa.Return); isR && len(rt.Results) == 1 {
				if ac, isC := ir.Resolve(rt.Results[0]).(*ssa.Call); isC {
					if bi, isB := ac.Call.Value.(*ssa.Builtin); isB && bi.Name() == "append" && len(ac.Call.Args) == 2 {
						pi := func(x ssa.Value) int {
							for k, p := range g.Params {
								if ir.Resolve(x) == ssa.Value(p) {
									return k
								}
							}
							return -1
						}
						d0, s0 := pi(ac.Call.Args[0]), pi(ac.Call.Args[1])
						if d0 >= 0 && s0 >= 0 && ir.Resolve(c.Call.Args[s0]) == entries && (field == "" || e.IsFieldRead(c.Call.Args[d0], nil, field)) {
							return true, ""
						}
					}
				}
			}
		}
		return false, "the entries go through " + ir.CalleeName(&c.Call) + ", which may drop or reorder them"
	}
	n := 0
	for _, ci := range e.callSitesAll(parser) {
		cv, ok := ci.(ssa.Value)
		if !ok {
			continue
		}
		var entries ssa.Value
		for _, ref := range *cv.Referrers() {
			if ex, isE := ref.(*ssa.Extract); isE && ex.Index == 1 {
				entries = ex
			}
		}
		if entries == nil {
			continue // the entries are not used at this site
		}
		n++
		host := ShortFn(rootFn(ci.Parent()))
		// every use of the entries: an append into the DAG's Env field
		stored := false
		for _, ref := range *entries.Referrers() {
			rc, isCall := ref.(*ssa.Call)
			if !isCall {
				if _, isDbg := ref.(*ssa.DebugRef); isDbg {
					continue
				}
				r.Bad(host+": the parser's NAME=value entries are only appended to DAG.Env", e.InstrPos(ref.(ssa.Instruction)), "the entries are used in another way: "+ref.String())
				continue
			}
			// where does the result of this call go?
			for _, r2 := range *rc.Referrers() {
				st, isSt := r2.(*ssa.Store)
				if !isSt {
					continue
				}
				fa, isFA := st.Addr.(*ssa.FieldAddr)
				if !isFA {
					continue
				}
				field := ir.FieldNameOf(fa.X.Type(), fa.Field)
				if !strings.HasSuffix(ir.NamedType(fa.X.Type()), "dag.DAG") {
					continue
				}
				stored = true
				ok, why := wholeAppend(rc, entries, field, 0)
				// unconditional apart from the parser's error
				var other []ir.NLit
				for _, l := range e.DCS(st) {
					if l.Kind == "cmp" && (ir.IsNilConst(l.Y) || ir.IsNilConst(l.X)) {
						continue
					}
					other = append(other, l)
				}
				var facts []string
				if why != "" {
					facts = append(facts, why)
				}
				if len(other) > 0 {
					ok = false
					facts = append(facts, e.FactsStr("stored only under: ", other))
				}
				r.Check(ok, host+": DAG."+field+" = append(DAG."+field+", <the parser's NAME=value entries>...)", e.InstrPos(st),
					"the named parameters' entries are not added to the DAG's environment list whole and last: an entry that is dropped or placed before an `env:` entry of the same name leaves Step.Variables with the `env:` default, which overrides the parameter in every child process", facts...)
			}
		}
		if !stored {
			r.Bad(host+": the parser's NAME=value entries are stored into the DAG's environment list", e.InstrPos(ci), "no store of an append of the entries into a field of the DAG")
		}
	}
	if n == 0 {
		r.Unknown("call of the parameter parser whose NAME=value entries are used", e.Pos(parser.Pos()), "none found")
	}
}
