package rules

import (
	"strings"

	"golang.org/x/tools/go/ssa"

	"bdcheck/internal/ir"
)

// c11ParamsOverrideEnv: the NAME=value entries of the named parameters reach every
// step and handler through DAG.Env (copied into Step.Variables; the command executor
// builds the child environment as os.Environ() + Variables, later entries winning).
// A parameter given at start therefore reaches a step that reads its environment only
// if its entry is added to DAG.Env unfiltered and at the end - so that it overrides an
// `env:` entry of the same name, as os.Setenv does for the loading process.
//
// By role: the parameter builder is the function of the dag package that stores
// DAG.Params. In it (and the helpers only it calls) every store into DAG.Env is
// `DAG.Env = append(DAG.Env, entries...)` - the builtin, or a helper that does nothing
// else - reached under no condition other than error tests, and DAG.Env is read nowhere
// else there (an entry cannot be dropped or placed by looking at what Env already has).
func c11ParamsOverrideEnv(e *Env) {
	r := e.R
	r.Rule("C11.params-override-env", "VF", "the named parameters' NAME=value entries are appended to DAG.Env whole and last", 1)
	sp := e.P.Pkg(dagRel)
	if sp == nil {
		r.Unknown("dag package", dagRel, "not loaded")
		return
	}
	dagField := func(addr ssa.Value) string {
		fa, ok := addr.(*ssa.FieldAddr)
		if !ok || !strings.HasSuffix(ir.NamedType(fa.X.Type()), "internal/dag.DAG") {
			return ""
		}
		return ir.FieldNameOf(fa.X.Type(), fa.Field)
	}
	var builders []*ssa.Function
	for _, f := range e.RepoFuncsSorted() {
		if rootFn(f).Package() != sp || f.Synthetic != "" {
			continue
		}
		for _, b := range f.Blocks {
			for _, in := range b.Instrs {
				if st, ok := in.(*ssa.Store); ok && dagField(st.Addr) == "Params" {
					builders = append(builders, f)
				}
			}
		}
	}
	if len(builders) == 0 {
		r.Unknown("the parameter builder (the function of the dag package that stores DAG.Params)", dagRel, "not found")
		return
	}
	// appendTo: v is append(<current DAG.Env>, entries...), by the builtin or by a helper that is just that
	var appendTo func(v ssa.Value, d int) (ok bool, envRead ssa.Value, why string)
	appendTo = func(v ssa.Value, d int) (bool, ssa.Value, string) {
		c, isC := ir.Resolve(v).(*ssa.Call)
		if !isC {
			return false, nil, "the stored value is not an append"
		}
		if bi, isB := c.Call.Value.(*ssa.Builtin); isB && bi.Name() == "append" && len(c.Call.Args) == 2 {
			if !e.IsFieldRead(c.Call.Args[0], nil, "Env") {
				return false, nil, "the entries are not appended to the current Env (they are placed in front of it, or the list is rebuilt)"
			}
			return true, c.Call.Args[0], ""
		}
		g := c.Call.StaticCallee()
		if g != nil && e.P.Funcs[g] && len(g.Blocks) == 1 && d < 2 {
			if rt, isR := g.Blocks[0].Instrs[len(g.Blocks[0].Instrs)-1].(*ssa.Return); isR && len(rt.Results) == 1 {
				if ac, isA := ir.Resolve(rt.Results[0]).(*ssa.Call); isA {
					if bi, isB := ac.Call.Value.(*ssa.Builtin); isB && bi.Name() == "append" && len(ac.Call.Args) == 2 {
						pi := func(x ssa.Value) int {
							for k, p := range g.Params {
								if ir.Resolve(x) == ssa.Value(p) {
									return k
								}
							}
							return -1
						}
						if d0, s0 := pi(ac.Call.Args[0]), pi(ac.Call.Args[1]); d0 >= 0 && s0 >= 0 && e.IsFieldRead(c.Call.Args[d0], nil, "Env") {
							return true, c.Call.Args[d0], ""
						}
					}
				}
			}
		}
		return false, nil, "the entries go through " + ir.CalleeName(&c.Call) + ", which may drop or reorder them"
	}
	for _, f := range builders {
		host := ShortFn(f)
		parts := sortedFns(e.inlinedSet(f, nil))
		nStore := 0
		used := map[ssa.Value]bool{}
		for _, g := range parts {
			for _, b := range g.Blocks {
				for _, in := range b.Instrs {
					st, ok := in.(*ssa.Store)
					if !ok || dagField(st.Addr) != "Env" {
						continue
					}
					nStore++
					okA, envRead, why := appendTo(st.Val, 0)
					if envRead != nil {
						used[ir.Resolve(envRead)] = true
					}
					var other []ir.NLit
					for _, l := range e.DCS(st) {
						if l.Kind == "cmp" && (ir.IsNilConst(l.Y) || ir.IsNilConst(l.X)) {
							continue
						}
						// the exit test of a loop that ran before (`index < len(list)`)
						if l.Kind == "cmp" {
							if _, isLen := lenArg(l.X); isLen {
								continue
							}
							if _, isLen := lenArg(l.Y); isLen {
								continue
							}
						}
						other = append(other, l)
					}
					var facts []string
					if why != "" {
						facts = append(facts, why)
					}
					if len(other) > 0 {
						okA = false
						facts = append(facts, e.FactsStr("stored only under: ", other))
					}
					r.Check(okA, host+": DAG.Env = append(DAG.Env, <the named parameters' entries>...)", e.InstrPos(st),
						"the named parameters' entries are not added to the DAG's environment list whole and last: an entry that is dropped or placed before an `env:` entry of the same name leaves Step.Variables with the `env:` default, which overrides the parameter in every child process", facts...)
				}
			}
		}
		if nStore == 0 {
			r.Bad(host+": the named parameters' entries are stored into DAG.Env", e.Pos(f.Pos()), "the function that stores DAG.Params stores nothing into DAG.Env")
			continue
		}
		// no other look at DAG.Env while the entries are collected
		okRead := true
		var facts []string
		for _, g := range parts {
			for _, b := range g.Blocks {
				for _, in := range b.Instrs {
					u, ok := in.(*ssa.UnOp)
					if !ok || dagField(u.X) != "Env" || used[ssa.Value(u)] {
						continue
					}
					if len(*u.Referrers()) == 0 {
						continue
					}
					okRead = false
					facts = append(facts, "DAG.Env read at "+e.InstrPos(u))
				}
			}
		}
		r.Check(okRead, host+": DAG.Env is read only to be extended", e.Pos(f.Pos()),
			"the parameter builder looks at what DAG.Env already holds while collecting the parameters' entries: an entry can be dropped because its name is defined there", facts...)
	}
}
