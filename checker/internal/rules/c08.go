package rules

import (
	"go/token"
	"go/types"
	"strings"

	"golang.org/x/tools/go/ssa"

	"bdcheck/internal/ir"
)

func init() {
	register(&Prop{ID: "C08", Run: runC08,
		Technique: "static analysis: must-pass-through of the status writes in Agent.Run and of the done notification in the worker, decision tables of the latest-status query and of the status getter, field coverage of the recorder / restorer (go/ssa)",
		Decided: []string{
			"every non-nil error of the socket client's request wraps a library call's error or is the timeout sentinel under a Timeout() test (C08.client-errors-are-transport, shared with C16); the times handed to the history store are not moved to another zone (C08.day-is-calendar-day, shared with C06)",
			"the run's socket is served until the agent shuts it down: every way out of the accept loop is under the shutdown flag (C08.serve-until-shutdown)",
			"run state that other goroutines read under a mutex (node state, cmd, cancelFunc, Scheduler.lastError / canceled, graph start/finish times - the set is inferred from the code's own locked reads and writes) is written with that mutex held everywhere outside the construction phase, and node state is read from outside the node's methods only under it (C08.state-lock)",
			"a status is written after a successful Open, after Schedule on every path to the return, and on every node notification (C08.write-points); the worker notifies on every exit after launch (C08.done-on-every-exit)",
			"the latest-status query returns the live answer when the socket answered and a persisted status only after correcting running→failed; that correction rewrites nothing else (C08.latest, C08.correct-table)",
			"the recorder reads and the restorer writes every step-state field the status names (C08.persisted-fields)",
			"a live agent always answers running (C08.live-is-running); only a socket timeout is an error for the status getter, every other failure means not running — so a killed run can be started again (C16.probe-table shared)",
			"the daemon refuses a start only for a DAG that is really running or already ran in that minute (C09.start-guard shared)",
			"the line reader under ParseFile has no fixed cap on the length of a record (C08.unbounded-line, shared with C06.unbounded-line)",
		},
		NotDec: []string{"crash points; equality of the node table with what actually happened", "F15 (empty newest file) is owned by C07", "the 100 ms delayed first write racing the end of very short runs"},
	})
}

func runC08(e *Env) {
	r := e.R
	r.Rule("C08.anchors", "anchor resolution", "scheduler anchors", 0)
	s := e.resolveSched()
	if !s.ok {
		return
	}
	c08WritePoints(e, s)
	c08Latest(e)
	c06CalendarDay(e, "C08.day-is-calendar-day")          // the latest-status query finds a run by the day its file name carries
	c16ClientErrors(e, "C08.client-errors-are-transport") // the status getter reads every non-timeout error as `not running`
	c08PersistedFields(e, s)
	c06UnboundedLine(e, "C08.unbounded-line") // a run whose one-line record exceeds a reader's cap can no longer be reported once its process is gone
	c08LiveIsRunning(e)
	c08ServeUntilShutdown(e, "C08.serve-until-shutdown")
	c16ProbeTable(e)
	c09StartGuard(e)
	cLockDiscipline(e)
}

func isHistWrite(c *ssa.CallCommon) bool {
	return c.IsInvoke() && c.Method.Name() == "Write" && strings.HasSuffix(ir.NamedType(c.Value.Type()), "persistence.HistoryStore")
}

func c08WritePoints(e *Env, s *Sched) {
	r := e.R
	r.Rule("C08.write-points", "MPT", "status written at start, on every notification and at the end", 3)
	a := e.agentRoles()
	run := a.Run
	if run == nil {
		return
	}
	// the body of the real run may have been moved into a helper only Run calls
	// (`Run` = checks + `execute`): the function that both opens the history and schedules
	if len(ir.CallsIn(run, func(c *ssa.CallCommon) bool { return c.StaticCallee() == s.Loop })) == 0 {
		for _, g := range sortedFns(e.inlinedSet(run, nil)) {
			if g == run || !a.inPkg(g) || g.Parent() != nil {
				continue
			}
			hasSched := len(ir.CallsIn(g, func(c *ssa.CallCommon) bool { return c.StaticCallee() == s.Loop })) > 0
			hasOpen := false
			for _, ci := range a.Sites(g, apiHistory+"Open") {
				if ci.Parent() == g {
					hasOpen = true
				}
			}
			if hasSched && hasOpen {
				run = g
			}
		}
	}
	isW := func(in ssa.Instruction) bool {
		c, ok := in.(*ssa.Call)
		return ok && isHistWrite(&c.Call)
	}
	// a helper of the agent that writes on all of its paths counts as a write
	descend := func(g *ssa.Function) bool { return a.inPkg(g) }
	// (a) after the history was opened successfully a Write precedes Schedule
	var sched ssa.Instruction
	for _, ci := range ir.CallsIn(run, func(c *ssa.CallCommon) bool { return c.StaticCallee() == s.Loop }) {
		sched = ci
	}
	nOpen := 0
	for _, ci := range a.Sites(run, apiHistory+"Open") {
		if ci.Parent() != run {
			continue
		}
		nOpen++
		bad, _ := ir.Bypass(ci, nil, ir.PathQuery{Stop: isW, Descend: descend,
			SkipEdge: func(from *ssa.BasicBlock, idx int) bool {
				i, ok := from.Instrs[len(from.Instrs)-1].(*ssa.If)
				if !ok {
					return false
				}
				l := ir.Normalize(ir.Lit{Cond: i.Cond, Pol: idx == 0})
				return l.Kind == "cmp" && l.Op == token.NEQ && ir.IsNilConst(l.Y) && ir.Resolve(l.X) == ci.(ssa.Value)
			},
			Bad: func(in ssa.Instruction) bool { return in == sched }})
		r.Check(bad == nil && sched != nil, "Agent.Run: a status is written between opening the history and scheduling", e.InstrPos(ci),
			"the run can start executing without an initial status having been recorded (a crash right after start leaves an empty run file)")
	}
	if nOpen == 0 {
		r.Unknown("Agent.Run: where the history is opened", e.Pos(run.Pos()), "no call of Run opens the history store")
	}
	// (b) after Schedule every path to a return passes a Write
	if sched != nil {
		bad, _ := ir.Bypass(sched, nil, ir.PathQuery{Stop: isW, Descend: descend, Bad: ir.IsReturn})
		r.Check(bad == nil, "Agent.Run: the final status is written after Schedule on every path", e.InstrPos(sched),
			"the run can return without recording its final status: history keeps saying running (reported failed) although it finished")
		// the written status is computed after Schedule: the writes of Run after
		// Schedule, and those of the helpers Run calls after Schedule
		// (the status handed to a writing helper is followed to the helper's callers)
		post := map[*ssa.Function]bool{}
		for _, ci := range ir.CallsIn(run, func(c *ssa.CallCommon) bool { return a.inPkg(c.StaticCallee()) }) {
			if _, isCall := ci.(*ssa.Call); !isCall || !ir.Precedes(sched, ci) {
				continue
			}
			for g := range e.inlinedSet(ci.Common().StaticCallee(), nil) {
				post[g] = true
			}
			post[ci.Common().StaticCallee()] = true
		}
		type wev struct {
			v    ssa.Value
			site ssa.Instruction
		}
		var evs []wev
		var lift func(v ssa.Value, site ssa.Instruction, depth int)
		lift = func(v ssa.Value, site ssa.Instruction, depth int) {
			v = ir.Resolve(v)
			if pm, isP := v.(*ssa.Parameter); isP && depth < 4 {
				for k, q := range pm.Parent().Params {
					if q != pm {
						continue
					}
					for _, cs := range e.StaticCallSites(pm.Parent()) {
						if k < len(cs.Common().Args) {
							lift(cs.Common().Args[k], cs, depth+1)
						}
					}
				}
				return
			}
			evs = append(evs, wev{v, site})
		}
		for _, f := range e.RepoFuncsSorted() {
			if !a.inPkg(f) {
				continue
			}
			for _, w := range ir.CallsIn(f, func(c *ssa.CallCommon) bool { return isHistWrite(c) }) {
				lift(w.Common().Args[0], w, 0)
			}
		}
		for _, x := range evs {
			f := x.site.Parent()
			inRun := f == run && ir.Precedes(sched, x.site)
			if !inRun && !(f != run && post[f]) {
				continue
			}
			okFresh := false
			if sc, isC := x.v.(*ssa.Call); isC && strings.HasSuffix(ir.CalleeName(&sc.Call), "Agent).Status") {
				if sc.Parent() == f && (!inRun || ir.Precedes(sched, sc)) {
					okFresh = true
				}
			}
			r.Check(okFresh, "Agent.Run: the final write records a.Status() taken after Schedule", e.InstrPos(x.site), "the final write records a status computed before the run finished")
		}
	} else {
		r.Unknown("Agent.Run: Schedule call", e.Pos(run.Pos()), "not found")
	}
	// (c) the done consumer writes on every receive
	okC := false
	// the consumer is a goroutine of Run: a closure, or a method started with `go`
	var consumers []*ssa.Function
	seenC := map[*ssa.Function]bool{run: true}
	for _, f := range ir.WithClosures(run) {
		if !seenC[f] {
			seenC[f] = true
			consumers = append(consumers, f)
		}
		for _, b := range f.Blocks {
			for _, in := range b.Instrs {
				if g, isGo := in.(*ssa.Go); isGo {
					if callee := g.Call.StaticCallee(); callee != nil && e.P.Funcs[callee] {
						for _, h := range sortedFns(e.inlinedSet(callee, nil)) {
							for _, hc := range ir.WithClosures(h) {
								if !seenC[hc] {
									seenC[hc] = true
									consumers = append(consumers, hc)
								}
							}
						}
					}
				}
			}
		}
	}
	for _, f := range consumers {
		for _, l := range ir.Loops(f) {
			if l.Ranged == nil {
				continue
			}
			if _, isChan := l.Ranged.Type().Underlying().(interface{ Dir() int }); false && isChan {
			}
			if _, isChan := l.Ranged.Type().Underlying().(*types.Chan); !isChan {
				continue
			}
			var body *ssa.BasicBlock
			for _, sb := range l.Header.Succs {
				if l.Blocks[sb] {
					body = sb
				}
			}
			if body == nil {
				continue
			}
			bad, _ := ir.Bypass(nil, body, ir.PathQuery{Stop: isW, Descend: descend,
				Bad: func(in ssa.Instruction) bool { return in == l.Header.Instrs[0] }})
			if bad == nil {
				okC = true
			}
		}
	}
	r.Check(okC, "Agent.Run: the done consumer writes a status for every notification", e.Pos(run.Pos()), "node completions are not recorded as they happen")

	r.Rule("C08.done-on-every-exit", "MPT", "worker notifies on every exit", 1)
	w := s.Worker
	bad, path := ir.Bypass(nil, w.Blocks[0], ir.PathQuery{
		Stop: func(in ssa.Instruction) bool {
			if sd, ok := in.(*ssa.Send); ok && sameNode(sd.X, s.WorkerNode) {
				return true
			}
			// a reporting helper with several call sites (`exec.report(node)`): it sends
			// its node parameter on every path on which the channel is not nil
			if c, ok := in.(*ssa.Call); ok {
				if k, isRep := e.reporterParam(c.Call.StaticCallee()); isRep && k < len(c.Call.Args) && sameNode(c.Call.Args[k], s.WorkerNode) {
					return true
				}
			}
			return false
		},
		SkipEdge: func(from *ssa.BasicBlock, idx int) bool {
			if doneNilEdge(e, from, idx) {
				return true
			}
			// `if r.execute(node) { return }` where execute answers true only after it has
			// reported the node itself: that edge is taken after a send
			i, ok := from.Instrs[len(from.Instrs)-1].(*ssa.If)
			if !ok {
				return false
			}
			l := ir.Normalize(ir.Lit{Cond: i.Cond, Pol: idx == 0, If: i})
			if l.Kind != "val" || !l.Pol {
				return false
			}
			c, isC := ir.Resolve(l.V).(*ssa.Call)
			if !isC || c.Call.StaticCallee() == nil || !e.P.Funcs[c.Call.StaticCallee()] {
				return false
			}
			h := c.Call.StaticCallee()
			for k, a := range c.Call.Args {
				if k < len(h.Params) && sameNode(a, s.WorkerNode) && e.trueOnlyAfterSend(h, h.Params[k]) {
					return true
				}
			}
			return false
		},
		Descend: func(g *ssa.Function) bool { return s.inWorker(g) },
		Bad:     ir.IsReturn,
	})
	var facts []string
	if bad != nil {
		facts = append(facts, "return at "+e.InstrPos(bad)+" via blocks "+blockList(path))
	}
	r.Check(bad == nil, "worker: every return passes `done <- node` (done != nil)", e.Pos(w.Pos()),
		"a step can finish without notifying the agent: its final state is not recorded until something else triggers a write", facts...)
}

func c08Latest(e *Env) {
	r := e.R
	r.Rule("C08.latest", "DCS+MPT", "latest status: live answer, else corrected persisted status", 2)
	fn := e.Fn("internal/client", "(*client).GetLatestStatus")
	if fn == nil {
		return
	}
	// live: result of currentStatus (socket) returned under != nil
	// the live answer: the *Status obtained from the socket - result #0 of a helper
	// that reaches the socket request, or of the status decoder applied to the
	// request's answer when the request is made in place
	var live ssa.Value
	var liveErrs []ssa.Value // error results whose being non-nil means "the socket did not answer"
	isSockReq := func(f *ssa.Function) bool { return ir.FuncName(f) == "(*internal/sock.Client).Request" }
	for _, ci := range ir.CallsIn(fn, func(c *ssa.CallCommon) bool {
		sc := c.StaticCallee()
		return sc != nil && (isSockReq(sc) || e.ReachesRepo(sc, isSockReq))
	}) {
		v, ok := ci.(ssa.Value)
		if !ok {
			continue
		}
		var r0 ssa.Value
		for _, ref := range *v.Referrers() {
			if ex, isE := ref.(*ssa.Extract); isE {
				if ex.Index == 0 {
					r0 = ex
				} else {
					liveErrs = append(liveErrs, ex)
				}
			}
		}
		if r0 == nil {
			continue
		}
		if strings.HasSuffix(ir.NamedType(r0.Type()), "model.Status") {
			live = r0
			continue
		}
		// the raw answer: followed into the decoder
		for _, dc := range ir.CallsIn(fn, func(c *ssa.CallCommon) bool { return strings.HasSuffix(ir.CalleeName(c), "model.StatusFromJSON") }) {
			if ir.Resolve(dc.Common().Args[0]) != r0 {
				continue
			}
			if dv, isV := dc.(ssa.Value); isV {
				for _, ref := range *dv.Referrers() {
					if ex, isE := ref.(*ssa.Extract); isE {
						if ex.Index == 0 {
							live = ex
						} else {
							liveErrs = append(liveErrs, ex)
						}
					}
				}
			}
		}
	}
	// the history query: made by the function itself or by a helper it hands the answer of on
	hasHistRead := func(f *ssa.Function) bool {
		return len(ir.CallsIn(f, func(c *ssa.CallCommon) bool { return c.IsInvoke() && c.Method.Name() == "ReadStatusToday" })) > 0
	}
	reachesHist := func(c *ssa.CallCommon) bool {
		if c.IsInvoke() {
			return c.Method.Name() == "ReadStatusToday"
		}
		sc := c.StaticCallee()
		return sc != nil && e.P.Funcs[sc] && e.ReachesRepo(sc, hasHistRead)
	}
	holder := fn
	var viaCall *ssa.Call
	if !hasHistRead(fn) {
		for _, ci := range ir.CallsIn(fn, reachesHist) {
			if c, ok := ci.(*ssa.Call); ok && c.Call.StaticCallee() != nil && hasHistRead(c.Call.StaticCallee()) {
				holder, viaCall = c.Call.StaticCallee(), c
			}
		}
	}
	var persisted ssa.Value
	for _, ci := range ir.CallsIn(holder, func(c *ssa.CallCommon) bool { return c.IsInvoke() && c.Method.Name() == "ReadStatusToday" }) {
		if v, ok := ci.(ssa.Value); ok {
			for _, ref := range *v.Referrers() {
				if ex, isE := ref.(*ssa.Extract); isE && ex.Index == 0 {
					persisted = ex
				}
			}
		}
	}
	if live == nil || persisted == nil {
		r.Unknown("GetLatestStatus: live and persisted sources", e.Pos(fn.Pos()), "cannot identify the socket query and the history query")
		return
	}
	okLive, okPers := false, true
	nPers := 0
	for _, b := range fn.Blocks {
		for _, in := range b.Instrs {
			rt, ok := in.(*ssa.Return)
			if !ok || !e.Facts(fn).Reachable(b) {
				continue
			}
			for _, v := range RetVals(rt, 0) {
				v = ir.Resolve(v)
				if v == live {
					if HasNilCmp(e.DCS(rt), func(x ssa.Value) bool { return ir.Resolve(x) == live }, true) {
						okLive = true
					}
				}
			}
		}
	}
	// the helper's answer is what the query returns
	if viaCall != nil {
		handed := false
		for _, b := range fn.Blocks {
			if rt, ok := b.Instrs[len(b.Instrs)-1].(*ssa.Return); ok && len(rt.Results) > 0 {
				for _, v := range RetVals(rt, 0) {
					rv := ir.Resolve(v)
					if ex, isE := rv.(*ssa.Extract); isE && ex.Index == 0 {
						rv = ex.Tuple
					}
					if rv == ssa.Value(viaCall) {
						handed = true
					}
				}
			}
		}
		if !handed {
			okPers = false
		}
	}
	for _, b := range holder.Blocks {
		for _, in := range b.Instrs {
			rt, ok := in.(*ssa.Return)
			if !ok || !e.Facts(holder).Reachable(b) {
				continue
			}
			for _, v := range RetVals(rt, 0) {
				v = ir.Resolve(v)
				if v == persisted {
					nPers++
					// a CorrectRunningStatus(persisted) call precedes
					corrected := false
					for _, ci := range ir.CallsIn(holder, func(c *ssa.CallCommon) bool {
						return strings.HasSuffix(ir.CalleeName(c), "Status).CorrectRunningStatus")
					}) {
						if ir.Resolve(ci.Common().Args[0]) == persisted && ir.Precedes(ci, rt) {
							corrected = true
						}
					}
					if !corrected {
						okPers = false
					}
				}
			}
		}
	}
	// the history is consulted only when the socket did not answer
	okOrder := false
	for _, ci := range ir.CallsIn(fn, reachesHist) {
		// on every way to the history query the socket did not answer: the live status
		// is nil, or the request / the decoding failed
		all, n := true, 0
		for _, way := range e.waysTo(ci) {
			n++
			noAnswer := hasNilCmp(way, func(x ssa.Value) bool { return ir.Resolve(x) == live }, false)
			for _, ev := range liveErrs {
				if hasNilCmp(way, func(x ssa.Value) bool { return ir.Resolve(x) == ev }, true) {
					noAnswer = true
				}
			}
			if !noAnswer {
				all = false
			}
		}
		if all && n > 0 {
			okOrder = true
		}
	}
	r.Check(okLive && okOrder, "GetLatestStatus: the live answer is returned whenever the socket answered", e.Pos(fn.Pos()),
		"while a run is in progress the reported status is not (always) the live state of that run")
	r.Check(okPers && nPers > 0, "GetLatestStatus: a persisted status is returned only after CorrectRunningStatus", e.Pos(fn.Pos()),
		"a run whose process died is reported as still running (the persisted `running` is returned uncorrected)")

	cCorrectTable(e, "C08.correct-table")
}

// reporterParam: g is a small function of the repository that sends one of its
// parameters on a channel on every path to its return, the paths on which that
// channel is nil excepted; returns the parameter's index.
func (e *Env) reporterParam(g *ssa.Function) (int, bool) {
	if g == nil || !e.P.Funcs[g] || g.Blocks == nil || len(g.Blocks) > 6 {
		return 0, false
	}
	for k, p := range g.Params {
		sends := false
		for _, b := range g.Blocks {
			for _, in := range b.Instrs {
				if sd, ok := in.(*ssa.Send); ok && ir.Resolve(sd.X) == ssa.Value(p) {
					sends = true
				}
			}
		}
		if !sends {
			continue
		}
		bad, _ := ir.Bypass(nil, g.Blocks[0], ir.PathQuery{
			Stop: func(in ssa.Instruction) bool {
				sd, ok := in.(*ssa.Send)
				return ok && ir.Resolve(sd.X) == ssa.Value(p)
			},
			SkipEdge: func(from *ssa.BasicBlock, idx int) bool {
				i, ok := from.Instrs[len(from.Instrs)-1].(*ssa.If)
				if !ok {
					return false
				}
				l := ir.Normalize(ir.Lit{Cond: i.Cond, Pol: idx == 0, If: i})
				if l.Kind != "cmp" || l.Op != token.EQL || !ir.IsNilConst(l.Y) {
					return false
				}
				_, isCh := l.X.Type().Underlying().(*types.Chan)
				return isCh
			},
			Bad: ir.IsReturn,
		})
		if bad == nil {
			return k, true
		}
	}
	return 0, false
}

// trueOnlyAfterSend: the boolean function h answers something other than the constant
// false only on paths on which it has sent its parameter p on a channel (or handed it
// to a reporting helper).
func (e *Env) trueOnlyAfterSend(h *ssa.Function, p *ssa.Parameter) bool {
	if h.Blocks == nil || h.Signature.Results().Len() != 1 || h.Signature.Results().At(0).Type().String() != "bool" {
		return false
	}
	bad, _ := ir.Bypass(nil, h.Blocks[0], ir.PathQuery{
		Stop: func(in ssa.Instruction) bool {
			if sd, ok := in.(*ssa.Send); ok && ir.Resolve(sd.X) == ssa.Value(p) {
				return true
			}
			if c, ok := in.(*ssa.Call); ok {
				if k, isRep := e.reporterParam(c.Call.StaticCallee()); isRep && k < len(c.Call.Args) && ir.Resolve(c.Call.Args[k]) == ssa.Value(p) {
					return true
				}
			}
			return false
		},
		Bad: func(in ssa.Instruction) bool {
			rt, ok := in.(*ssa.Return)
			if !ok {
				return false
			}
			for _, v := range RetVals(rt, 0) {
				if cb, isC := ir.ConstBool(ir.Resolve(v)); !isC || cb {
					return true
				}
			}
			return false
		},
	})
	return bad == nil
}
