package rules

import (
	"go/token"
	"go/types"
	"strings"

	"golang.org/x/tools/go/ssa"

	"bdcheck/internal/ir"
)

func init() {
	register(&Prop{ID: "C03", Run: runC03,
		Technique: "static analysis: dominance guards + who-may-write on go/ssa (retry ranking argument), constant/value-flow of the dry flag, call-graph reachability",
		Decided: []string{
			"the end-of-run test the polling loop consults is one walk over all nodes that stops at a not-started or running node (C03.run-to-completion, shared with C02/C04; a helper that walks and then asks a second walker is reported)",
			"in everything an executor's Run reaches, the calls that perform the step's effect (process start, HTTP request, remote command, container start, mail) are outside every loop, and no HTTP client is configured to re-send on its own (C03.executor-single-shot)",
			"launch is gated on status==not-started, flipped to running by the loop first, and unique (C01.gate, C01.flip-first, C01.single-launch shared)",
			"the gate's readiness verdict (\"runnable\") stays true across a dependency only in the licensed cells and is a sticky conjunction over all dependencies, so a step behind an unsatisfied dependency is never launched (C01.ready-table, C01.ready-all-deps shared)",
			"the relaunch licence (store of not-started) is dominated by RetryPolicy!=nil and retryCount < Limit (normalised) (C03.retry-guard)",
			"exactly one increment of RetryCount precedes the reset on that path; RetryCount has no other writer than that increment and whole-state resets (C03.retry-count, C03.count-writers)",
			"not-started is written only by the worker's retry path and the retry-graph reset (C03.none-writers); after handing the node back the worker stores no further status (C03.no-status-after-handback)",
			"every call of Node.Execute/setup/teardown and the log-dir MkdirAll in the scheduler is dominated by !dry (C03.dry-guards)",
			"Config.Dry ← Agent.dry ← Options.Dry; only the dry command passes true (C03.dry-flow)",
			"Agent.Run reaches history/socket calls only under !dry, and dryRun reaches no HistoryStore method (C03.dry-no-history)",
		},
		NotDec: []string{
			"that no second scheduling loop runs on the same graph at run time",
			"interleavings between the worker's hand-back and the next poll (see C12 F25)",
			"precondition commands evaluated in dry-run (allowed by C19)",
		},
	})
}

func runC03(e *Env) {
	r := e.R
	r.Rule("C03.anchors", "anchor resolution", "launch site, scheduling loop, worker", 0)
	s := e.resolveSched()
	if !s.ok {
		return
	}
	c01Gate(e, s)
	c01ReadyTable(e, s, true)
	c01FlipFirst(e, s)
	c01SingleLaunch(e, s)
	c03Retry(e, s)
	c03Writers(e, s)
	c03DryGuards(e, s)
	c03DryFlow(e, s)
	c03DryNoHistory(e, s)
}

func c03Retry(e *Env, s *Sched) {
	r := e.R
	r.Rule("C03.retry-guard", "DCS", "reset to None dominated by RetryPolicy!=nil ∧ retryCount<Limit", 1)
	w := s.Worker
	none := s.val("NodeStatusNone")
	var resets []ir.StoreEvent
	evs := s.events(s.WorkerFns)
	for _, ev := range evs {
		if k, ok := s.constOf(ev); ok && k == none && sameNode(ev.Root, s.WorkerNode) {
			resets = append(resets, ev)
		}
	}
	if len(resets) == 0 {
		r.Unknown("worker: retry reset site", e.Pos(w.Pos()), "no store of NodeStatusNone found in the worker")
		return
	}
	isCount := func(v ssa.Value) bool {
		p, ok := e.C.PathOf(v)
		return ok && p.Suffix("State.RetryCount") && sameNode(p.Root, s.WorkerNode)
	}
	isLimit := func(v ssa.Value) bool {
		p, ok := e.C.PathOf(v)
		return ok && p.Suffix("RetryPolicy.Limit") && sameNode(p.Root, s.WorkerNode)
	}
	incs := []ir.StoreEvent{}
	for _, f := range sortedFns(s.WorkerFns) {
		for _, ev := range e.C.FieldStores(f, "State.RetryCount") {
			if len(ev.Via) > 0 && s.inWorker(ev.Via[0]) {
				continue
			}
			if sameNode(ev.Root, s.WorkerNode) {
				incs = append(incs, ev)
			}
		}
	}
	for _, ev := range resets {
		base := e.DCS(ev.Site)
		pos := e.InstrPos(ev.Site)
		okNil, okLt := true, true
		// a guard extracted into a boolean helper (`canRetry(node)`) is expanded into its return conditions
		for _, lits := range e.expandHelperCalls(base, 0) {
			if !HasNilCmp(lits, func(v ssa.Value) bool {
				p, ok := e.C.PathOf(v)
				return ok && p.Suffix("Step.RetryPolicy") && sameNode(p.Root, s.WorkerNode)
			}, true) {
				okNil = false
			}
			lt := false
			for _, l := range lits {
				if l.Kind == "cmp" && l.Op == token.LSS && isCount(l.X) && isLimit(l.Y) {
					lt = true
				}
			}
			if !lt {
				okLt = false
			}
		}
		r.Check(okNil, "worker: retry reset under RetryPolicy != nil", pos, "the retry path dereferences / uses a RetryPolicy that was not tested non-nil", e.FactsStr("dominating conditions: ", base))
		r.Check(okLt, "worker: retry reset under retryCount < RetryPolicy.Limit", pos,
			"the relaunch licence is not guarded by `retry count < limit` (off-by-one or missing bound: a step could be retried more than `limit` times)", e.FactsStr("dominating conditions: ", base))
	}
	r.Rule("C03.retry-count", "MPT", "exactly one RetryCount increment, before the reset, on the retry path", 1)
	nInc := 0
	for _, ic := range incs {
		if !ic.Inc {
			r.Bad("worker: RetryCount written with a value that is not count+1", e.InstrPos(ic.Site), "the retry counter is overwritten, not incremented")
			continue
		}
		nInc++
		ok := false
		for _, rs := range resets {
			if ic.Site.Parent() == rs.Site.Parent() && ir.Precedes(ic.Site, rs.Site) && sameGuards(e, ic.Site, rs.Site) {
				ok = true
			}
		}
		r.Check(ok, "worker: RetryCount++ precedes the reset on the guarded retry path", e.InstrPos(ic.Site),
			"the retry counter is incremented on a path other than the guarded relaunch (recorded count would differ from the extra attempts made)")
	}
	r.Check(nInc == 1, "worker: exactly one RetryCount increment", e.InstrPos(resets[0].Site),
		sprintf("found %d increments of RetryCount in the worker; each relaunch must increase the count exactly once (ranking argument for ≤ limit retries)", nInc))

	c03Handback(e, s, "C03.no-status-after-handback", true)
	c03ExecutorSingleShot(e)
	cRunToCompletion(e, s, "C03.run-to-completion") // a step handed back for its retry must still be seen by the end-of-run test
}

// c03Handback: once the worker has stored not-started (the hand-back of a retried
// node to the scheduling loop) it writes no further status of that node on its way
// out, and (reentry) does not execute the step again. The first half is shared with
// C01: a stale worker that still labels the node finished lets dependents start
// while the relaunched attempt runs.
func c03Handback(e *Env, s *Sched, rule string, reentry bool) {
	r := e.R
	r.Rule(rule, "MPT", "no status store reachable after the reset to None", 1)
	none := s.val("NodeStatusNone")
	var resets []ir.StoreEvent
	evs := s.events(s.WorkerFns)
	for _, ev := range evs {
		if k, ok := s.constOf(ev); ok && k == none && sameNode(ev.Root, s.WorkerNode) {
			resets = append(resets, ev)
		}
	}
	if len(resets) == 0 {
		r.Unknown("worker: retry reset site", e.Pos(s.Worker.Pos()), "no store of NodeStatusNone found in the worker")
		return
	}
	doneNil := func(from *ssa.BasicBlock, idx int) bool { return doneNilEdge(e, from, idx) }
	backEdge := func(from *ssa.BasicBlock, idx int) bool { return from.Succs[idx].Dominates(from) }
	isStatusStore := func(in ssa.Instruction) bool {
		for _, ev := range evs {
			if ev.Site == in && sameNode(ev.Root, s.WorkerNode) {
				return true
			}
		}
		return false
	}
	isExec := func(in ssa.Instruction) bool {
		c, ok := in.(*ssa.Call)
		return ok && c.Call.StaticCallee() != nil && !s.inWorker(c.Call.StaticCallee()) && e.ReachesRepo(c.Call.StaticCallee(), func(x *ssa.Function) bool { return x == s.Execute })
	}
	descend := func(g *ssa.Function) bool { return s.inWorker(g) }
	// the way on from an instruction: the rest of its function and, when that is a
	// helper of the worker, what follows the helper's call, up to the worker itself
	// what is known in the caller about the answer of the helper the search has just
	// left: when every return the search can reach in a boolean helper hands back the same
	// constant, the caller's test of the call has that outcome (`if r.execute(node) { return }`
	// with execute answering true exactly where it has reported the node)
	var learned []ir.NLit
	onward := func(start ssa.Instruction, q ir.PathQuery) ssa.Instruction {
		learned = nil
		cur := start
		for d := 0; d < 6; d++ {
			if bad, _ := ir.Bypass(cur, nil, q); bad != nil {
				return bad
			}
			f := cur.Parent()
			if f == s.Worker || !s.inWorker(f) {
				return nil
			}
			us := ir.UniqueSite(f)
			if us == nil {
				return nil
			}
			if uc, isCall := us.(*ssa.Call); isCall && f.Signature.Results().Len() == 1 && f.Signature.Results().At(0).Type().String() == "bool" {
				var vals []bool
				allConst := true
				q2 := q
				q2.Bad = func(in ssa.Instruction) bool {
					if rt, isR := in.(*ssa.Return); isR {
						for _, v := range RetVals(rt, 0) {
							if cb, isC := ir.ConstBool(ir.Resolve(v)); isC {
								vals = append(vals, cb)
							} else {
								allConst = false
							}
						}
					}
					return false
				}
				ir.Bypass(cur, nil, q2)
				same := allConst && len(vals) > 0
				for _, b := range vals {
					if b != vals[0] {
						same = false
					}
				}
				if same {
					learned = append(learned, ir.NLit{Kind: "val", V: uc, Pol: vals[0]})
				}
			}
			cur = us
		}
		return nil
	}
	// on the way out after a retry reset the execution error is non-nil (the retry
	// path is only entered under it): an edge whose every alternative is `done == nil`
	// or `<the exec error, possibly handed up through the worker's helpers> == nil` is not taken
	execErrNil := func(l ir.NLit) bool {
		if l.Kind != "cmp" || l.Op != token.EQL || !ir.IsNilConst(l.Y) || !ir.IsErrorType(l.X.Type()) {
			return false
		}
		fl := &ir.Flow{C: e.C, Source: func(v ssa.Value) bool {
			c, ok := v.(*ssa.Call)
			return ok && c.Call.StaticCallee() != nil && !s.inWorker(c.Call.StaticCallee()) &&
				e.ReachesRepo(c.Call.StaticCallee(), func(x *ssa.Function) bool { return x == s.Execute })
		}, Through: func(c *ssa.Call) []int {
			return nil
		}}
		// look through calls of worker helpers: their returned values
		var derives func(v ssa.Value, d int) bool
		derives = func(v ssa.Value, d int) bool {
			if d > 4 {
				return false
			}
			if fl.Any(v) {
				return true
			}
			for _, leaf := range fl.Leaves {
				c, ok := leaf.(*ssa.Call)
				if !ok || c.Call.StaticCallee() == nil || !s.inWorker(c.Call.StaticCallee()) {
					continue
				}
				for _, b := range c.Call.StaticCallee().Blocks {
					for _, in := range b.Instrs {
						if rt, ok := in.(*ssa.Return); ok && len(rt.Results) > 0 {
							if derives(rt.Results[len(rt.Results)-1], d+1) {
								return true
							}
						}
					}
				}
			}
			return false
		}
		return derives(l.X, 0)
	}
	infeasibleAfterRetry := func(from *ssa.BasicBlock, idx int) bool {
		i, ok := from.Instrs[len(from.Instrs)-1].(*ssa.If)
		if !ok {
			return false
		}
		alts := e.Facts(from.Parent()).Alternatives(ir.Lit{Cond: i.Cond, Pol: idx == 0, If: i})
		if len(alts) == 0 {
			return false
		}
		for _, a := range alts {
			l := ir.Normalize(a)
			isDoneNil := l.Kind == "cmp" && l.Op == token.EQL && ir.IsNilConst(l.Y) && isChanNamed(ir.Resolve(l.X), "done")
			if !isDoneNil && !execErrNil(l) {
				return false
			}
		}
		return true
	}
	for _, rs := range resets {
		// (a) without re-entering the exec loop
		known := e.DCS(rs.Site)
		bad := onward(rs.Site, ir.PathQuery{
			SkipEdge: func(from *ssa.BasicBlock, idx int) bool {
				return doneNil(from, idx) || backEdge(from, idx) || e.Contradicts(known, from, idx) || (len(learned) > 0 && e.Contradicts(learned, from, idx)) || (from.Parent() != rs.Site.Parent() && infeasibleAfterRetry(from, idx))
			},
			Descend: descend,
			Bad:     isStatusStore})
		var facts []string
		if bad != nil {
			facts = append(facts, "status store reachable at "+e.InstrPos(bad))
		}
		r.Check(bad == nil, "worker: after status:=None the way out of the worker stores no status", e.InstrPos(rs.Site),
			"after handing the node back to the scheduling loop (status not-started) the old worker still writes its status on its way out: a relaunched attempt can be relabelled finished/failed by the previous attempt's goroutine", facts...)
		if !reentry {
			continue
		}
		// (b) the exec loop is not re-entered after the hand-back
		bad2 := onward(rs.Site, ir.PathQuery{SkipEdge: doneNil, Descend: descend, Bad: isExec})
		facts = nil
		if bad2 != nil {
			facts = append(facts, "exec call reachable at "+e.InstrPos(bad2))
		}
		r.Check(bad2 == nil, "worker: after status:=None the exec loop is not re-entered", e.InstrPos(rs.Site),
			"after handing the node back (status not-started) the same worker can loop and execute the step again while the scheduling loop launches a second worker for it", facts...)
	}
}

// doneNilEdge: the CFG edge is taken only when the worker's `done` channel is
// nil. Every shipped caller passes a made channel (C03.done-nonnil).
func doneNilEdge(e *Env, from *ssa.BasicBlock, idx int) bool {
	i, ok := from.Instrs[len(from.Instrs)-1].(*ssa.If)
	if !ok {
		return false
	}
	alts := e.Facts(from.Parent()).Alternatives(ir.Lit{Cond: i.Cond, Pol: idx == 0, If: i})
	if len(alts) == 0 {
		return false
	}
	for _, a := range alts {
		l := ir.Normalize(a)
		if !(l.Kind == "cmp" && l.Op == token.EQL && ir.IsNilConst(l.Y) && isChanNamed(ir.Resolve(l.X), "done")) {
			return false
		}
	}
	return true
}

// isChanNamed: v is the notification channel handed to the scheduling loop: a
// parameter or captured variable of channel type (by role; the name is not used).
func isChanNamed(v ssa.Value, name string) bool {
	if _, ok := v.Type().Underlying().(*types.Chan); !ok {
		return false
	}
	if isParamLike(ir.Resolve(v)) {
		return true
	}
	v = ir.Deep(v)
	switch x := v.(type) {
	case *ssa.Parameter, *ssa.FreeVar:
		return true
	case *ssa.Field:
		// a field of a small struct the worker is handed (`run.done`)
		return isParamLike(ir.Resolve(x.X)) || isParamLike(ir.Deep(x.X))
	case *ssa.UnOp:
		if fa, ok := x.X.(*ssa.FieldAddr); ok && x.Op == token.MUL {
			if isParamLike(ir.Resolve(fa.X)) || isParamLike(ir.Deep(fa.X)) {
				return true
			}
			// the struct parameter spilled into a local
			if al, isA := fa.X.(*ssa.Alloc); isA {
				for _, sv := range ir.StoresTo(al) {
					if isParamLike(ir.Resolve(sv)) || isParamLike(ir.Deep(sv)) {
						return true
					}
				}
			}
		}
	}
	return false
}

func isParamLike(v ssa.Value) bool {
	switch v.(type) {
	case *ssa.Parameter, *ssa.FreeVar:
		return true
	}
	return false
}

// sameGuards: the DCS of a is a superset of the retry-specific literals of b
// (both lie in the same guarded cell).
func sameGuards(e *Env, a, b ssa.Instruction) bool {
	la, lb := e.RenderN(e.DCS(a)), e.RenderN(e.DCS(b))
	set := map[string]bool{}
	for _, x := range la {
		set[x] = true
	}
	for _, x := range lb {
		if !set[x] {
			return false
		}
	}
	return true
}

func c03Writers(e *Env, s *Sched) {
	r := e.R
	r.Rule("C03.done-nonnil", "VF", "every shipped caller of the scheduling loop passes a made channel", 1)
	for _, ci := range e.StaticCallSites(s.Loop) {
		if strings.HasPrefix(ShortFn(rootFn(ci.Parent())), "internal/test") {
			continue
		}
		okc := false
		for _, a := range ci.Common().Args {
			if _, isChan := a.Type().Underlying().(*types.Chan); isChan {
				fl := &ir.Flow{C: e.C, Source: func(v ssa.Value) bool { _, ok := v.(*ssa.MakeChan); return ok }}
				okc = fl.All(a)
			}
		}
		r.Check(okc, ShortFn(ci.Parent())+": Schedule(..., done) with done made by make(chan)", e.InstrPos(ci),
			"a caller may pass a nil `done` channel; the hand-back analysis assumes done != nil")
	}
	sp := e.P.Pkg(schedRel)
	r.Rule("C03.count-writers", "WMW", "RetryCount: one increment, whole-state resets, nothing else", 1)
	for _, f := range e.RepoFuncsSorted() {
		if rootFn(f).Package() != sp || isAccessor(f) {
			continue
		}
		for _, ev := range e.C.FieldStores(f, "State.RetryCount") {
			if len(ev.Via) > 0 && s.inWorker(f) && s.inWorker(ev.Via[0]) {
				continue // examined in the helper
			}
			pos := e.InstrPos(ev.Site)
			switch {
			case ev.Init:
				// construction of a fresh node from given state
			case ev.Inc && s.inWorker(f):
				r.OK("worker: RetryCount++", pos, "the retry path's increment (see C03.retry-count)")
			case ev.Zero || isZeroConst(ev.Val):
				r.OK(ShortFn(f)+": whole-state reset of a node", pos, "RetryCount zeroed as part of a whole-state reset")
			default:
				r.Bad(ShortFn(f)+": writes RetryCount", pos, "RetryCount is written by something other than the worker's increment or a whole-state reset: the recorded count no longer equals the extra attempts")
			}
		}
	}
	r.Rule("C03.none-writers", "WMW", "status:=None only by the retry path and the retry-graph reset", 2)
	none := s.val("NodeStatusNone")
	// by role: the construction phase of the execution graph (functions that allocate it
	// and functions only they call): nodes are reset there before any scheduler sees them
	lr := &lockRule{e: e, facts: map[*ssa.Function]*ir.LockFacts{}, accs: map[*ssa.Function][]ir.FieldAccess{}, cphase: map[string]map[*ssa.Function]bool{}}
	graphCP := lr.constructionPhase(lockOwner{typ: "internal/dag/scheduler.ExecutionGraph"})
	for _, f := range e.RepoFuncsSorted() {
		if rootFn(f).Package() != sp || isAccessor(f) {
			continue
		}
		for _, ev := range s.statusEvents(f) {
			k, ok := s.constOf(ev)
			if !ok || k != none {
				continue
			}
			pos := e.InstrPos(ev.Site)
			switch {
			case ev.Init:
			case s.inWorker(f):
				if len(ev.Via) > 0 && s.inWorker(ev.Via[0]) {
					continue
				}
				r.OK("worker: status:=None (retry path)", pos, "guarded by C03.retry-guard")
			case graphCP[f]:
				r.OK("retry-graph builder: whole-state reset", pos, "nodes selected for re-execution are reset before the run starts")
			default:
				r.Bad(ShortFn(f)+": writes status not-started", pos, "a node can be made launchable again outside the bounded retry path and the retry-graph reset (a step could run more than once)")
			}
		}
	}
}

func isZeroConst(v ssa.Value) bool {
	if v == nil {
		return false
	}
	if k, ok := ir.ConstInt(v); ok && k == 0 {
		return true
	}
	c, ok := v.(*ssa.Const)
	return ok && c.Value == nil
}

func c03DryGuards(e *Env, s *Sched) {
	r := e.R
	r.Rule("C03.dry-guards", "DCS", "Execute/setup/teardown/MkdirAll dominated by !dry", 3)
	sp := e.P.Pkg(schedRel)
	targets := map[string]bool{
		"(*" + schedRel + ".Node).Execute": true,
		"os.MkdirAll":                      true,
		"os.Mkdir":                         true,
	}
	// the node's set-up and tear-down, by role (what they install / flush)
	if nr := e.nodeRoles(); nr != nil {
		if nr.Setup != nil {
			targets[ir.FuncName(nr.Setup)] = true
		}
		if nr.Teardown != nil {
			targets[ir.FuncName(nr.Teardown)] = true
		}
	}
	isDry := func(v ssa.Value) bool { return e.isDryFlag(v, 0) }
	for _, f := range e.RepoFuncsSorted() {
		if rootFn(f).Package() != sp {
			continue
		}
		for _, ci := range ir.CallsIn(f, func(c *ssa.CallCommon) bool { return targets[ir.CalleeName(c)] }) {
			// calls inside Node methods themselves (e.g. teardown called from Node code) are not scheduler-level calls
			if f.Signature.Recv() != nil && strings.HasSuffix(ir.NamedType(f.Signature.Recv().Type()), ".Node") {
				continue
			}
			var lits []ir.NLit
			if d, ok := ci.(*ssa.Defer); ok {
				lits = e.DCS(d)
			} else {
				lits = e.DCS(ci)
			}
			// a deferred closure: the call is inside an anonymous function whose creation site is guarded
			ok := HasVal(lits, isDry, false)
			if !ok && f.Parent() != nil {
				// closure: look at where it is created/deferred in the parent
				for _, b := range f.Parent().Blocks {
					for _, in := range b.Instrs {
						if mc, isMC := in.(*ssa.MakeClosure); isMC && mc.Fn == f {
							if HasVal(e.DCS(mc), isDry, false) {
								ok = true
							}
						}
					}
				}
			}
			r.Check(ok, ShortFn(f)+": "+shortCallee(ci.Common())+" only under !dry", e.InstrPos(ci),
				"in dry-run mode this call would still "+dryWhat(ir.CalleeName(ci.Common())), e.FactsStr("dominating conditions: ", lits))
		}
	}
}

func shortCallee(c *ssa.CallCommon) string {
	n := ir.CalleeName(c)
	if i := strings.LastIndex(n, "/"); i >= 0 {
		n = n[i+1:]
	}
	return n
}

func dryWhat(n string) string {
	switch {
	case strings.HasSuffix(n, "Execute"):
		return "execute the step's command"
	case strings.HasSuffix(n, "setup"):
		return "create the step's log/redirect files"
	case strings.HasSuffix(n, "teardown"):
		return "touch the step's files"
	}
	return "create the log directory"
}

func c03DryFlow(e *Env, s *Sched) {
	r := e.R
	r.Rule("C03.dry-flow", "VF", "Config.Dry ← Agent.dry ← Options.Dry; only `dry` passes true", 4)
	// scheduler.New: Scheduler.dry := cfg.Dry
	newFn := e.Fn(schedRel, "New")
	if newFn != nil {
		ok := false
		for _, ev := range e.C.FieldStores(newFn, e.schedFields().Dry) {
			if ev.Val != nil && e.IsFieldRead(ev.Val, nil, "Dry") {
				ok = true
			}
		}
		r.Check(ok, "scheduler.New: Scheduler.dry := Config.Dry", e.Pos(newFn.Pos()), "the scheduler's dry flag is not taken from its configuration")
	}
	// agent.newScheduler: Config.Dry := a.dry
	var ns *ssa.Function
	if hs := e.agentRoles().Holders("internal/dag/scheduler.New$"); len(hs) == 1 {
		ns = hs[0]
	} else {
		r.Unknown("agent: where the scheduler is constructed", agentRel, sprintf("%d functions of the agent call scheduler.New", len(hs)))
	}
	if ns != nil {
		ok := false
		for _, ev := range e.C.FieldStores(ns, "Dry") {
			if ev.Val != nil && e.IsFieldRead(ev.Val, nil, e.agentDryField()) {
				ok = true
			}
		}
		r.Check(ok, "agent.newScheduler: Config.Dry := Agent.dry", e.Pos(ns.Pos()), "the agent does not hand its dry flag to the scheduler configuration")
	}
	// agent.New: Agent.dry := opts.Dry
	an := e.Fn("internal/agent", "New")
	if an != nil {
		ok := false
		for _, ev := range e.C.FieldStores(an, e.agentDryField()) {
			if ev.Val != nil && e.IsFieldRead(ev.Val, nil, "Dry") {
				ok = true
			}
		}
		r.Check(ok, "agent.New: Agent.dry := Options.Dry", e.Pos(an.Pos()), "the agent's dry flag is not taken from its options")
	}
	// every agent.Options literal: Dry true only in the dry command
	for _, f := range e.RepoFuncsSorted() {
		for _, b := range f.Blocks {
			for _, in := range b.Instrs {
				al, ok := in.(*ssa.Alloc)
				if !ok || !strings.HasSuffix(ir.NamedType(al.Type()), "internal/agent.Options") {
					continue
				}
				dryVal := "false(zero)"
				isTrue := false
				for _, ref := range *al.Referrers() {
					fa, ok := ref.(*ssa.FieldAddr)
					if !ok || fieldNameOf(fa) != "Dry" {
						continue
					}
					for _, r2 := range *fa.Referrers() {
						if st, ok := r2.(*ssa.Store); ok {
							if bv, ok := ir.ConstBool(st.Val); ok {
								if bv {
									isTrue = true
									dryVal = "true"
								}
							} else {
								dryVal = e.C.Render(st.Val)
								isTrue = true
							}
						}
					}
				}
				root := rootFn(f)
				inDry := strings.Contains(ShortFn(root), "cmd.dryCmd") || strings.Contains(ShortFn(root), "cmd.dry")
				isTest := strings.HasPrefix(ShortFn(root), "internal/test")
				cons := "agent.Options literal in " + ShortFn(root) + ": Dry=" + dryVal
				switch {
				case isTest:
				case inDry:
					r.Check(isTrue, cons, e.InstrPos(al), "the dry command must construct its agent with Dry: true")
				default:
					r.Check(!isTrue, cons, e.InstrPos(al), "a command other than `dry` runs the agent in dry mode (or with a non-constant dry flag)")
				}
			}
		}
	}
}

func fieldNameOf(fa *ssa.FieldAddr) string {
	p := fa.X.Type().Underlying()
	if pt, ok := p.(interface{ Elem() interface{} }); ok {
		_ = pt
	}
	return ir.FieldNameOf(fa.X.Type(), fa.Field)
}

func c03DryNoHistory(e *Env, s *Sched) {
	r := e.R
	r.Rule("C03.dry-no-history", "DCS+REACH", "history/socket only under !a.dry; dryRun reaches no HistoryStore method", 3)
	ar := e.agentRoles()
	run := ar.Run
	if run == nil {
		return
	}
	// by role: the dry run is the function of the agent, other than Run, that schedules
	isADry := func(v ssa.Value) bool {
		p, ok := e.C.PathOf(v)
		return ok && p.Dotted() == e.agentDryField() && strings.HasSuffix(ir.NamedType(p.Root.Type()), ".Agent")
	}
	// (a function that schedules and is called, from its only call site, under `!a.dry` is
	// the real run moved into a helper of Run, not the dry run)
	var dry *ssa.Function
	for _, h := range ar.Holders(apiSchedule) {
		if h == run {
			continue
		}
		if us := ir.UniqueSite(h); us != nil && HasVal(e.DCS(us), isADry, false) {
			continue
		}
		if dry != nil {
			r.Unknown("the agent's dry run", agentRel, "several functions besides Run schedule the graph")
			return
		}
		dry = h
	}
	if dry == nil {
		r.Unknown("the agent's dry run", agentRel, "no function of the agent besides Run schedules the graph")
		return
	}
	isHistOrSock := func(f *ssa.Function) bool {
		n := ir.FuncName(f)
		return strings.HasPrefix(n, "(*internal/persistence/jsondb.") || strings.HasPrefix(n, "(*internal/sock.Server).") || n == "internal/sock.NewServer"
	}
	// the dry branch: `if a.dry { return a.dryRun() }`
	found := false
	for _, ci := range ir.CallsIn(run, func(c *ssa.CallCommon) bool { return c.StaticCallee() == dry }) {
		found = true
		lits := e.DCS(ci)
		r.Check(HasVal(lits, isADry, true), "Agent.Run: dryRun() only under a.dry", e.InstrPos(ci), "dryRun is not guarded by the dry flag", e.FactsStr("dominating conditions: ", lits))
		// after dryRun the function returns: no history/socket call reachable
		bad, _ := ir.Bypass(ci, nil, ir.PathQuery{Bad: func(in ssa.Instruction) bool {
			c, ok := in.(ssa.CallInstruction)
			if !ok {
				return false
			}
			return e.callMayReach(c, isHistOrSock)
		}})
		r.Check(bad == nil, "Agent.Run: nothing after dryRun() touches history or the socket", e.InstrPos(ci),
			"after the dry run control continues into code that opens/writes the history store or binds the socket")
	}
	if !found {
		r.Bad("Agent.Run: dry branch calling dryRun()", e.Pos(run.Pos()), "Agent.Run no longer branches to dryRun()")
	}
	// every history/socket-reaching call in Run (incl. closures) is dominated by !a.dry
	for _, f := range ir.WithClosures(run) {
		for _, ci := range ir.CallsIn(f, func(c *ssa.CallCommon) bool { return true }) {
			if !e.callMayReach(ci, isHistOrSock) {
				continue
			}
			if ci.Common().StaticCallee() == dry {
				continue
			}
			site := ssa.Instruction(ci)
			host := f
			for host != run {
				// closure: use its creation site in the parent
				var mcSite ssa.Instruction
				for _, b := range host.Parent().Blocks {
					for _, in := range b.Instrs {
						if mc, ok := in.(*ssa.MakeClosure); ok && mc.Fn == host {
							mcSite = mc
						}
					}
				}
				if mcSite == nil {
					break
				}
				site, host = mcSite, host.Parent()
			}
			lits := e.DCS(site)
			r.Check(HasVal(lits, isADry, false), "Agent.Run: "+shortCallee(ci.Common())+" only under !a.dry", e.InstrPos(ci),
				"a dry run would reach the history store / status socket through this call", e.FactsStr("dominating conditions: ", lits))
		}
	}
	// dryRun reaches no history method
	reach := e.ReachesRepo(dry, func(f *ssa.Function) bool {
		n := ir.FuncName(f)
		return strings.HasPrefix(n, "(*internal/persistence/jsondb.JSONDB).") && !strings.Contains(n, "$")
	})
	// dryRun legitimately calls DataStores.DAGStore(); HistoryStore() construction alone writes nothing
	r.Check(!reach, "Agent.dryRun: no HistoryStore method reachable", e.Pos(dry.Pos()), "the dry run can reach a method of the JSON history store in the call graph")
}

// callMayReach: the call's possible callees (static or call-graph resolved) satisfy
// pred directly or transitively within the repository.
func (e *Env) callMayReach(ci ssa.CallInstruction, pred func(*ssa.Function) bool) bool {
	var callees []*ssa.Function
	if f := ci.Common().StaticCallee(); f != nil {
		callees = append(callees, f)
	} else if ci.Common().IsInvoke() && strings.HasPrefix(ir.NamedType(ci.Common().Value.Type()), "github.com/ErdemOzgen/blackdagger") {
		if n := e.P.CG.Nodes[ci.Parent()]; n != nil {
			for _, ed := range n.Out {
				if ed.Site == ci {
					callees = append(callees, ed.Callee.Func)
				}
			}
		}
	}
	for _, c := range callees {
		if e.ReachesRepo(c, pred) {
			return true
		}
	}
	return false
}

// isDryFlag: v reads the scheduler's dry flag - wherever the scheduler is reached from
// (`sc.dry`, `w.sc.dry`), or kept in a small helper object into which only the
// configuration's Dry or the scheduler's flag is ever stored.
func (e *Env) isDryFlag(v ssa.Value, depthDry int) bool {
	// the scheduler's dry flag, wherever the scheduler is reached from (`sc.dry`, `w.sc.dry`)
	var base ssa.Value
	field := -1
	switch x := ir.Resolve(v).(type) {
	case *ssa.UnOp:
		if fa, isFA := x.X.(*ssa.FieldAddr); isFA && x.Op == token.MUL {
			base, field = fa.X, fa.Field
		}
	case *ssa.Field:
		base, field = x.X, x.Field
	}
	if base != nil && ir.FieldNameOf(base.Type(), field) == e.schedFields().Dry && strings.HasSuffix(ir.NamedType(base.Type()), ".Scheduler") {
		return true
	}
	if p, ok := e.C.PathOf(v); ok && p.Dotted() == e.schedFields().Dry && strings.HasSuffix(ir.NamedType(p.Root.Type()), ".Scheduler") {
		return true
	}
	// the flag kept in a small helper object (`stepRunner{dry: cfg.Dry, …}`,
	// `runner{dry: sc.dry}`): a field of an unexported struct of the package into which
	// only the configuration's Dry or the scheduler's flag is ever stored
	if base != nil && depthDry < 2 {
		if vals := e.helperObjectFields(base.Type(), field); len(vals) > 0 {
			all := true
			for _, sv := range vals {
				if pp, okp := e.C.PathOf(sv); okp && pp.Suffix("Dry") && strings.HasSuffix(ir.NamedType(pp.Root.Type()), ".Config") {
					continue
				}
				if !e.isDryFlag(sv, depthDry+1) {
					all = false
				}
			}
			return all
		}
	}
	return false
}
