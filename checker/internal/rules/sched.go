package rules

import (
	"go/token"
	"go/types"
	"sort"
	"strings"

	"golang.org/x/tools/go/ssa"

	"bdcheck/internal/ir"
)

const schedRel = "internal/dag/scheduler"

// Sched resolves the anchors of the step scheduler by role (DESIGN.md section 2).
type Sched struct {
	e          *Env
	Execute    *ssa.Function // (*Node).Execute
	IsReady    *ssa.Function
	CountDown  bool                   // the counter counts slots left (limit − running) instead of running nodes
	Counter    *ssa.Function          // by role: the function whose result the launch gate compares with maxActiveRuns (set by c15Gate)
	IsSucceed  *ssa.Function          // by role: the predicate of Status() that walks the nodes (set by c04StatusTable)
	Launch     *ssa.Go                // the unique `go` whose closure reaches Execute
	Loop       *ssa.Function          // the scheduling loop: the function the launch belongs to in the virtual inlining view
	LaunchFn   *ssa.Function          // the function that textually holds the go statement (Loop itself, or a single-call-site helper of it)
	GateFn     *ssa.Function          // the function holding the per-node pass (the loop over the nodes) the launch belongs to
	GateSite   ssa.Instruction        // in GateFn: the go statement, or the call that leads to it
	GateLoop   *ir.Loop               // the loop over the nodes in GateFn
	Worker     *ssa.Function          // the launched closure / method
	LoopFns    map[*ssa.Function]bool // Loop and the single-call-site helpers it is made of (worker side excluded)
	WorkerFns  map[*ssa.Function]bool // Worker and the single-call-site helpers it is made of
	LoopNode   ssa.Value              // the node handed to the worker, in Loop's frame
	WorkerNode ssa.Value              // the worker's node parameter
	NodeStatus types.Type
	NS         map[int64]string // NodeStatus constants
	Status     types.Type
	SS         map[int64]string // scheduler.Status constants
	ok         bool
}

const statusSuffix = "data.State.Status"

// resolveSched finds the anchors; failures are recorded as undecided
// obligations under the current rule.
func (e *Env) resolveSched() *Sched {
	s := &Sched{e: e}
	s.Execute = e.Fn(schedRel, "(*Node).Execute")
	s.NodeStatus, s.NS = e.EnumOf(schedRel, "NodeStatus")
	s.Status, s.SS = e.EnumOf(schedRel, "Status")
	if s.Execute == nil || len(s.NS) == 0 || len(s.SS) == 0 {
		if len(s.NS) == 0 {
			e.R.Unknown("anchor NodeStatus enum", "-", "type scheduler.NodeStatus or its constants not found")
		}
		return s
	}
	e.schedFields()
	sp := e.P.Pkg(schedRel)
	var launches []*ssa.Go
	for f := range e.P.Funcs {
		if ir.FuncName(f) == "" || f.Package() != sp && (f.Parent() == nil || rootFn(f).Package() != sp) {
			continue
		}
		for _, b := range f.Blocks {
			for _, in := range b.Instrs {
				g, ok := in.(*ssa.Go)
				if !ok {
					continue
				}
				callee := g.Call.StaticCallee()
				if callee == nil {
					continue
				}
				if e.ReachesRepo(callee, func(x *ssa.Function) bool { return x == s.Execute }) {
					launches = append(launches, g)
				}
			}
		}
	}
	if len(launches) != 1 {
		var facts []string
		for _, l := range launches {
			facts = append(facts, e.InstrPos(l)+" in "+ShortFn(l.Parent()))
		}
		e.R.Bad("launch site: the unique go statement that reaches (*Node).Execute", "-",
			sprintf("expected exactly one goroutine launch that can execute a step, found %d", len(launches)), facts...)
		return s
	}
	s.Launch = launches[0]
	s.LaunchFn = s.Launch.Parent()
	s.Loop = s.LaunchFn
	for d := 0; d < 4; d++ {
		site := ir.UniqueSite(s.Loop)
		if site == nil {
			break
		}
		if _, plain := site.(*ssa.Call); !plain {
			break
		}
		s.Loop = site.Parent()
	}
	// the per-node pass: lift the launch through single-call-site helpers until it sits in a loop
	s.GateFn, s.GateSite = s.LaunchFn, ssa.Instruction(s.Launch)
	for d := 0; d < 4; d++ {
		if l := ir.InnermostLoop(ir.Loops(s.GateFn), s.GateSite.Block()); l != nil {
			s.GateLoop = l
			break
		}
		site := ir.UniqueSite(s.GateFn)
		if site == nil {
			break
		}
		if _, plain := site.(*ssa.Call); !plain {
			break
		}
		s.GateSite, s.GateFn = site, site.Parent()
	}
	s.Worker = s.Launch.Call.StaticCallee()
	s.WorkerFns = e.inlinedSet(s.Worker, nil)
	s.LoopFns = e.inlinedSet(s.Loop, s.WorkerFns)
	// node argument: the *Node typed argument / binding
	for i, a := range s.Launch.Call.Args {
		if ir.NamedType(a.Type()) == e.P.Pkg(schedRel).Pkg.Path()+".Node" {
			s.LoopNode = ir.Resolve(a)
			if i < len(s.Worker.Params) {
				s.WorkerNode = s.Worker.Params[i]
			}
		}
	}
	if s.LoopNode == nil {
		if mc, ok := s.Launch.Call.Value.(*ssa.MakeClosure); ok {
			for i, b := range mc.Bindings {
				t := b.Type()
				if p, ok := t.(*types.Pointer); ok {
					t = p.Elem()
				}
				if ir.NamedType(t) == e.P.Pkg(schedRel).Pkg.Path()+".Node" {
					s.LoopNode = b
					s.WorkerNode = s.Worker.FreeVars[i]
					// a variable captured by reference is a cell: the node is what was
					// stored into it (every load of the cell resolves to that value)
					if _, isCell := b.(*ssa.Alloc); isCell {
						if st := ir.StoresTo(b); len(st) == 1 {
							s.LoopNode = ir.Resolve(st[0])
							s.WorkerNode = s.LoopNode
						}
					}
				}
			}
		}
	}
	if s.LoopNode == nil {
		// the node travels inside a small struct handed to the worker
		// (`go sc.runStep(ctx, stepRun{node: node, ...})`): the node is what the literal
		// stores into its *Node field; in the worker it is that field of the parameter
		nodeT := e.P.Pkg(schedRel).Pkg.Path() + ".Node"
		for i, a := range s.Launch.Call.Args {
			st, isS := derefT(a.Type()).Underlying().(*types.Struct)
			if !isS || i >= len(s.Worker.Params) {
				continue
			}
			fi := -1
			for k := 0; k < st.NumFields(); k++ {
				if ir.NamedType(st.Field(k).Type()) == nodeT {
					if _, isP := st.Field(k).Type().(*types.Pointer); isP {
						fi = k
					}
				}
			}
			if fi < 0 {
				continue
			}
			var al *ssa.Alloc
			switch x := ir.Resolve(a).(type) {
			case *ssa.UnOp:
				al, _ = x.X.(*ssa.Alloc)
			case *ssa.Alloc:
				al = x
			}
			if al == nil {
				continue
			}
			for _, ref := range *al.Referrers() {
				if fa, ok := ref.(*ssa.FieldAddr); ok && fa.Field == fi {
					for _, r2 := range *fa.Referrers() {
						if sv, ok := r2.(*ssa.Store); ok && sv.Addr == ssa.Value(fa) {
							s.LoopNode = ir.Resolve(sv.Val)
						}
					}
				}
			}
			if s.LoopNode != nil {
				s.WorkerNode = workerFieldRead(s.Worker, s.Worker.Params[i], fi)
			}
		}
	}
	if s.LoopNode == nil || s.WorkerNode == nil {
		e.R.Unknown("launch site node argument", e.InstrPos(s.Launch), "cannot identify the *Node handed to the worker goroutine")
		return s
	}
	// the readiness function, by role: the boolean function the launch is gated on
	// that receives the node and walks other nodes
	s.IsReady = e.readinessFunc(s)
	if s.IsReady == nil {
		s.IsReady = e.FnQuiet(schedRel, "isReady")
	}
	if s.IsReady == nil {
		e.R.Unknown("readiness function", e.InstrPos(s.Launch), "the launch is not gated on a boolean function of the scheduler package that receives the node and walks the graph")
		return s
	}
	s.ok = true
	return s
}

// inlinedSet: root plus the repository functions and closures that the virtual
// inlining view merges into it - those whose only call site (a plain call or a
// defer, not a go statement) lies in the set.
func (e *Env) inlinedSet(root *ssa.Function, exclude map[*ssa.Function]bool) map[*ssa.Function]bool {
	set := map[*ssa.Function]bool{root: true}
	work := []*ssa.Function{root}
	for len(work) > 0 {
		f := work[len(work)-1]
		work = work[:len(work)-1]
		for _, b := range f.Blocks {
			for _, in := range b.Instrs {
				ci, ok := in.(ssa.CallInstruction)
				if !ok {
					continue
				}
				if _, isGo := in.(*ssa.Go); isGo {
					continue
				}
				g := ci.Common().StaticCallee()
				if g == nil || !e.P.Funcs[g] || set[g] || exclude[g] {
					continue
				}
				if isAccessor(g) {
					continue // plain accessors stay opaque: their effect is reported at the call site
				}
				if ir.UniqueSite(g) == ci {
					set[g] = true
					work = append(work, g)
				}
			}
		}
	}
	return set
}

// after: instruction b comes after instruction a on every path, where b may lie
// in a single-call-site helper of a's function (its call site is used instead).
func (s *Sched) after(a, b ssa.Instruction) bool {
	for d := 0; d < 6; d++ {
		if a.Parent() == b.Parent() {
			return ir.Precedes(a, b)
		}
		us := ir.UniqueSite(b.Parent())
		if us == nil {
			return false
		}
		b = us
	}
	return false
}

// events lists the status writes of a function set, each once: a store made in a
// helper that belongs to the set is reported in the helper (with the helper's
// own conditions), not again at its call site.
func (s *Sched) events(set map[*ssa.Function]bool) []ir.StoreEvent {
	var out []ir.StoreEvent
	for _, f := range sortedFns(set) {
		for _, ev := range s.statusEvents(f) {
			if len(ev.Via) > 0 && set[ev.Via[0]] {
				continue
			}
			out = append(out, ev)
		}
	}
	return out
}

func (s *Sched) inWorker(f *ssa.Function) bool { return s.WorkerFns[f] }
func (s *Sched) inLoop(f *ssa.Function) bool   { return s.LoopFns[f] }

// sortedFns returns a function set in source order.
func sortedFns(m map[*ssa.Function]bool) []*ssa.Function {
	var out []*ssa.Function
	for f := range m {
		out = append(out, f)
	}
	sort.Slice(out, func(i, j int) bool {
		if out[i].Pos() != out[j].Pos() {
			return out[i].Pos() < out[j].Pos()
		}
		return out[i].String() < out[j].String()
	})
	return out
}

func rootFn(f *ssa.Function) *ssa.Function {
	for f.Parent() != nil {
		f = f.Parent()
	}
	return f
}

// isStatusOf returns a predicate: v reads the status of node.
func (s *Sched) isStatusOf(node ssa.Value) func(ssa.Value) bool {
	return func(v ssa.Value) bool {
		p, ok := s.e.C.PathOf(v)
		if !ok || !p.Suffix("State.Status") {
			return false
		}
		if node == nil || sameNode(p.Root, node) {
			return true
		}
		// the node is itself a field of a small struct (`run.node`): the path of the
		// status read starts with the path of the node
		if np, okn := s.e.C.PathOf(node); okn && len(np.Fields) > 0 && len(p.Fields) > len(np.Fields) && ir.Resolve(np.Root) == ir.Resolve(p.Root) {
			for i, f := range np.Fields {
				if p.Fields[i] != f {
					return false
				}
			}
			return true
		}
		return false
	}
}

// sameElem: both are loads of the same &X[i] element address, or one is that
// address itself (PathOf strips loads).
func sameElem(a, b ssa.Value) bool {
	strip := func(v ssa.Value) ssa.Value {
		v = ir.Deep(v)
		if u, ok := v.(*ssa.UnOp); ok && u.Op == token.MUL {
			return u.X
		}
		return v
	}
	return strip(a) == strip(b)
}

// statusEvents lists the status writes of fn (direct or through accessors).
func (s *Sched) statusEvents(fn *ssa.Function) []ir.StoreEvent {
	return s.e.C.FieldStores(fn, "State.Status")
}

// constOf returns the enum constant written by a status event: ok=false when
// the value is not a constant.
func (s *Sched) constOf(ev ir.StoreEvent) (int64, bool) {
	if ev.Zero {
		return 0, true
	}
	if ev.Val == nil {
		return 0, false
	}
	return ir.ConstInt(ev.Val)
}

func (s *Sched) name(k int64) string {
	if n, ok := s.NS[k]; ok {
		return n
	}
	return sprintf("NodeStatus(%d)", k)
}

func (s *Sched) val(name string) int64 { return ConstVal(s.NS, name) }

// sameNode compares an event root with a node value.
func sameNode(root, node ssa.Value) bool {
	if root == nil || node == nil {
		return false
	}
	if SameValue(root, node) || sameElem(root, node) {
		return true
	}
	// a path root is an address with the loads stripped (`&run.node`); the node value
	// may be the load of that address
	strip := func(v ssa.Value) ssa.Value {
		for {
			u, ok := v.(*ssa.UnOp)
			if !ok || u.Op != token.MUL {
				return v
			}
			v = u.X
		}
	}
	a, b := strip(ir.Resolve(root)), strip(ir.Resolve(node))
	if a == b {
		return true
	}
	// two reads of the same field of the same base
	fa, okA := a.(*ssa.FieldAddr)
	fb, okB := b.(*ssa.FieldAddr)
	return okA && okB && fa.Field == fb.Field && ir.Resolve(fa.X) == ir.Resolve(fb.X)
}

// isHandlerNode reports whether v is a node taken from the scheduler's handler
// table (sc.handlers[...]) rather than from the execution graph.
func (s *Sched) isHandlerNode(v ssa.Value) bool {
	if v == nil {
		return false
	}
	fl := &ir.Flow{C: s.e.C, Source: func(x ssa.Value) bool {
		lk, ok := x.(*ssa.Lookup)
		if !ok {
			return false
		}
		p, ok := s.e.C.PathOf(lk.X)
		return ok && p.Suffix(s.e.schedFields().Handlers)
	}}
	return fl.All(v)
}

// inlinedWithGo: the inlined set of root together with the functions it starts
// as goroutines (`go obj.method(args)`) and their inlined sets; the value says
// whether the function runs in such a goroutine.
func (e *Env) inlinedWithGo(root *ssa.Function) map[*ssa.Function]bool {
	out := map[*ssa.Function]bool{}
	var add func(f *ssa.Function, async bool, depth int)
	add = func(f *ssa.Function, async bool, depth int) {
		for g := range e.inlinedSet(f, nil) {
			if _, seen := out[g]; seen {
				continue
			}
			out[g] = async
			if depth > 3 {
				continue
			}
			for _, h := range ir.WithClosures(g) {
				for _, b := range h.Blocks {
					for _, in := range b.Instrs {
						if gi, ok := in.(*ssa.Go); ok {
							if c := gi.Call.StaticCallee(); c != nil && c.Parent() == nil && e.P.Funcs[c] {
								add(c, true, depth+1)
							}
						}
					}
				}
			}
		}
	}
	add(root, false, 0)
	return out
}

func boolSet(m map[*ssa.Function]bool) map[*ssa.Function]bool {
	out := map[*ssa.Function]bool{}
	for f := range m {
		out[f] = true
	}
	return out
}

// handlerRunner: by role, the function of the scheduler package that the
// scheduling function calls, after all workers were awaited, on a node taken
// from the handler table, and that reaches Execute.
func (s *Sched) handlerRunner() *ssa.Function {
	e := s.e
	var found *ssa.Function
	for _, lf := range sortedFns(s.LoopFns) {
		for _, b := range lf.Blocks {
			for _, in := range b.Instrs {
				c, ok := in.(*ssa.Call)
				if !ok || c.Call.StaticCallee() == nil || !e.P.Funcs[c.Call.StaticCallee()] {
					continue
				}
				g := c.Call.StaticCallee()
				// not the node's own operations (Execute, set-up ...): the scheduler-level runner
				if g == s.Execute || (g.Signature.Recv() != nil && strings.HasSuffix(ir.NamedType(g.Signature.Recv().Type()), ".Node")) {
					continue
				}
				if !e.ReachesRepo(g, func(x *ssa.Function) bool { return x == s.Execute }) {
					continue
				}
				for _, a := range c.Call.Args {
					if s.isHandlerNode(ir.Deep(a)) && (found == nil || lf == s.Loop || !s.LoopFns[found]) {
						found = g
					}
				}
			}
		}
	}
	return found
}

// errSource classifies an error value by the node operation it comes from: the
// result of a call through which Execute ("exec"), the node's set-up ("setup")
// or its tear-down ("teardown") is reached - the narrowest that applies.
func (s *Sched) errSource(v ssa.Value) string {
	e := s.e
	c, ok := ir.Deep(v).(*ssa.Call)
	if !ok {
		if ex, isE := ir.Deep(v).(*ssa.Extract); isE {
			c, ok = ex.Tuple.(*ssa.Call)
		}
		if !ok {
			return ""
		}
	}
	g := c.Call.StaticCallee()
	if g == nil {
		return ""
	}
	nr := e.nodeRoles()
	reaches := func(t *ssa.Function) bool {
		return t != nil && (g == t || e.ReachesRepo(g, func(x *ssa.Function) bool { return x == t }))
	}
	switch {
	case reaches(s.Execute):
		return "exec"
	case nr != nil && reaches(nr.Setup):
		return "setup"
	case nr != nil && reaches(nr.Teardown):
		return "teardown"
	}
	return ""
}

// evCase is one constant a status store can write, with the conditions under
// which it writes it.
type evCase struct {
	K    int64
	Lits []ir.NLit
}

// cases returns what a status store writes: its constant under the dominating
// conditions of the store, or - for a value chosen beforehand (`st := Success;
// if err != nil { st = Error }; n.setStatus(st)`) - each φ-alternative under the
// conditions of its edge as well.
func (s *Sched) cases(ev ir.StoreEvent) ([]evCase, bool) {
	base := s.e.DCS(ev.Site)
	if k, ok := s.constOf(ev); ok {
		return []evCase{{k, base}}, true
	}
	if ev.Val == nil {
		return nil, false
	}
	var out []evCase
	var walk func(v ssa.Value, lits []ir.NLit, depth int) bool
	walk = func(v ssa.Value, lits []ir.NLit, depth int) bool {
		v = ir.Deep(v)
		if k, ok := ir.ConstInt(v); ok {
			out = append(out, evCase{k, lits})
			return true
		}
		ph, isPhi := v.(*ssa.Phi)
		if !isPhi || depth > 4 {
			return false
		}
		for i, ed := range ph.Edges {
			if !walk(ed, append(append([]ir.NLit{}, lits...), s.e.DCSPhiEdge(ph.Block(), i)...), depth+1) {
				return false
			}
		}
		return len(ph.Edges) > 0
	}
	if !walk(ev.Val, base, 0) {
		return nil, false
	}
	return out, true
}

// workerFieldRead: the value of field fi of the struct parameter p as the worker
// reads it (the first read; repeated reads of the same field are the same value).
func workerFieldRead(w *ssa.Function, p *ssa.Parameter, fi int) ssa.Value {
	var cell ssa.Value
	for _, ref := range *p.Referrers() {
		switch x := ref.(type) {
		case *ssa.Field:
			if x.Field == fi {
				return x
			}
		case *ssa.FieldAddr:
			if x.Field == fi {
				for _, r2 := range *x.Referrers() {
					if u, ok := r2.(*ssa.UnOp); ok {
						return u
					}
				}
			}
		case *ssa.Store:
			// a parameter spilled to a local: reads go through the local
			if x.Val == ssa.Value(p) {
				cell = x.Addr
			}
		}
	}
	if al, ok := cell.(*ssa.Alloc); ok {
		for _, ref := range *al.Referrers() {
			if fa, ok := ref.(*ssa.FieldAddr); ok && fa.Field == fi {
				for _, r2 := range *fa.Referrers() {
					if u, ok := r2.(*ssa.UnOp); ok {
						return u
					}
				}
			}
		}
	}
	return nil
}

// isStatusValue: v is a node's recorded status (a read of State.Status, directly,
// through an accessor, or - inside a predicate on the status value itself, as in
// `func (s NodeStatus) passed() bool` - the parameter bound to such a read).
func (e *Env) isStatusValue(v ssa.Value) bool {
	for d := 0; d < 3 && v != nil; d++ {
		if p, ok := e.C.PathOf(v); ok && p.Suffix("State.Status") {
			return true
		}
		pr, isP := ir.Resolve(v).(*ssa.Parameter)
		if !isP {
			if dv := ir.Deep(v); dv != ir.Resolve(v) && dv != v {
				v = dv
				continue
			}
			return false
		}
		v = ir.Bound(pr)
	}
	return false
}
