package rules

import (
	"go/token"
	"strings"

	"golang.org/x/tools/go/ssa"

	"bdcheck/internal/ir"
)

const feDagRel = "internal/frontend/dag"

func init() {
	register(&Prop{ID: "C20", Run: runC20,
		Technique: "static analysis: dominating-condition sets of the guarded client calls in the API action handler, value-flow of the tested status and of the edited object, who-may-write footprint of the status edit (go/ssa)",
		Decided: []string{
			"the parameters of an accepted start reach the spawned start command: request Body.Params → StartOptions.Params → the -p argument, whose quoting by the client and unquoting by the start command agree (C11.param-flow, shared)",
			"start is issued only under latest-status != running, stop only under == running, a status edit only under latest-status != running with non-empty request id and step; the status tested is the DAG's latest status obtained by GetStatus(DagID) (C20.guards)",
			"no mutating client call precedes a refusal that is not caused by that call's own error (C20.refusal-is-pure)",
			"the status edit stores only Status and StatusText of Nodes[i] of the run read by request id, i being set only under Nodes[i].Step.Name == body.Step, the value being the action's constant; that same object is what UpdateStatus receives (C20.edit-footprint)",
			"an unknown action performs no client call other than the status read (C20.unknown-action); start parameters pass through unchanged (C11.param-flow shared)",
		},
		NotDec: []string{"sequences of actions over recorded runs", "escaping of \\n / \\r in parameters on the way to the child process", "client.UpdateStatus's own live-run check (request-id equality)"},
	})
}

var c20Mutators = map[string]bool{"StartAsync": true, "Start": true, "Stop": true, "Retry": true, "Restart": true, "UpdateStatus": true, "UpdateDAG": true,
	"Rename": true, "ToggleSuspend": true, "DeleteDAG": true, "CreateDAG": true}

func runC20(e *Env) {
	r := e.R
	c11ParamFlow(e) // "a start passes the given parameters through unchanged"
	pa := e.Fn(feDagRel, "(*Handler).postAction")
	pu := e.Fn(feDagRel, "(*Handler).processUpdateStatus")
	if pa == nil || pu == nil {
		return
	}
	_, ss := e.EnumOf(schedRel, "Status")
	running := ConstVal(ss, "StatusRunning")
	clientCall := func(c *ssa.CallCommon, name string) bool {
		return c.IsInvoke() && c.Method.Name() == name && strings.HasSuffix(ir.NamedType(c.Value.Type()), "internal/client.Client")
	}
	// dagStatus in postAction: result of client.GetStatus(params.DagID)
	isLatest := func(root ssa.Value) bool {
		fl := &ir.Flow{C: e.C, Source: func(v ssa.Value) bool {
			c, ok := v.(*ssa.Call)
			return ok && clientCall(&c.Call, "GetStatus")
		}}
		return fl.Any(root)
	}
	statusCmp := func(lits []ir.NLit, op token.Token, isRoot func(ssa.Value) bool) bool {
		for _, l := range lits {
			if l.Kind == "cmp" && l.Op == op {
				if k, ok := ir.ConstInt(l.Y); ok && k == running {
					if p, okp := e.C.PathOf(l.X); okp && p.Dotted() == "Status.Status" && isRoot(p.Root) {
						return true
					}
				}
			}
		}
		return false
	}
	r.Rule("C20.guards", "DCS", "start / stop / edit guarded by the DAG's latest status", 3)
	nStart, nStop := 0, 0
	for _, ci := range ir.CallsIn(pa, func(c *ssa.CallCommon) bool { return clientCall(c, "StartAsync") || clientCall(c, "Start") }) {
		nStart++
		lits := e.DCS(ci)
		r.Check(statusCmp(lits, token.NEQ, isLatest), "postAction start: only under latest status != running", e.InstrPos(ci),
			"a start is issued through the API although the DAG is (or may be) running", e.FactsStr("dominating conditions: ", lits))
	}
	for _, ci := range ir.CallsIn(pa, func(c *ssa.CallCommon) bool { return clientCall(c, "Stop") }) {
		nStop++
		lits := e.DCS(ci)
		r.Check(statusCmp(lits, token.EQL, isLatest), "postAction stop: only under latest status == running", e.InstrPos(ci),
			"a stop is issued through the API although the DAG is not running", e.FactsStr("dominating conditions: ", lits))
	}
	if nStart == 0 || nStop == 0 {
		r.Unknown("postAction: start / stop sites", e.Pos(pa.Pos()), sprintf("start=%d stop=%d", nStart, nStop))
	}
	// processUpdateStatus is called with the latest status
	var dagStatusParam *ssa.Parameter
	for _, p := range pu.Params {
		if strings.HasSuffix(ir.NamedType(p.Type()), "client.DAGStatus") {
			dagStatusParam = p
		}
	}
	okArgs := dagStatusParam != nil
	for _, ci := range e.StaticCallSites(pu) {
		idx := -1
		for i, p := range pu.Params {
			if p == dagStatusParam {
				idx = i
			}
		}
		if idx < 0 || !isLatest(ci.Common().Args[idx]) {
			okArgs = false
		}
	}
	r.Check(okArgs, "postAction mark-*: processUpdateStatus receives the DAG's latest status", e.Pos(pu.Pos()), "the status edit is not guarded by the DAG's latest (live or persisted) status")
	isParamRoot := func(root ssa.Value) bool { return ir.Resolve(root) == ssa.Value(dagStatusParam) }
	nEdit := 0
	for _, ci := range ir.CallsIn(pu, func(c *ssa.CallCommon) bool { return clientCall(c, "UpdateStatus") }) {
		nEdit++
		lits := e.DCS(ci)
		r.Check(statusCmp(lits, token.NEQ, isParamRoot), "status edit: only under latest status != running", e.InstrPos(ci),
			"a manual status edit is accepted while the DAG is running (the guard is missing or tests the addressed run instead of the DAG's latest status — an older run is never `running` once corrected)", e.FactsStr("dominating conditions: ", lits))
		nonEmpty := func(field string) bool {
			for _, l := range lits {
				if l.Kind == "cmp" && l.Op == token.NEQ && e.IsFieldRead(l.X, nil, field) {
					if s, ok := ir.ConstString(l.Y); ok && s == "" {
						return true
					}
				}
			}
			return false
		}
		r.Check(nonEmpty("Body.RequestID") && nonEmpty("Body.Step"), "status edit: request id and step are non-empty", e.InstrPos(ci),
			"a status edit without request id or step name is not refused", e.FactsStr("dominating conditions: ", lits))
	}
	if nEdit == 0 {
		r.Unknown("status edit: UpdateStatus site", e.Pos(pu.Pos()), "not found")
	}

	r.Rule("C20.refusal-is-pure", "MPT", "no mutating call before a refusal", 3)
	isRefusal := func(in ssa.Instruction, own ssa.Value) bool {
		rt, ok := in.(*ssa.Return)
		if !ok || len(rt.Results) != 2 {
			return false
		}
		for _, v := range RetVals(rt, 1) {
			c, isC := ir.Resolve(v).(*ssa.Call)
			if !isC || c.Call.StaticCallee() == nil || c.Call.StaticCallee().Name() != "newBadRequestError" {
				continue
			}
			// exempt: the refusal reports the mutating call's own error
			for _, l := range e.DCS(rt) {
				if l.Kind == "cmp" && l.Op == token.NEQ && ir.IsNilConst(l.Y) && ir.Resolve(l.X) == own {
					return false
				}
			}
			return true
		}
		return false
	}
	for _, f := range []*ssa.Function{pa, pu} {
		for _, ci := range ir.CallsIn(f, func(c *ssa.CallCommon) bool {
			return c.IsInvoke() && c20Mutators[c.Method.Name()] && strings.HasSuffix(ir.NamedType(c.Value.Type()), "internal/client.Client")
		}) {
			var own ssa.Value
			if v, ok := ci.(ssa.Value); ok {
				own = v
			}
			bad, _ := ir.Bypass(ci, nil, ir.PathQuery{Bad: func(in ssa.Instruction) bool { return isRefusal(in, own) }})
			r.Check(bad == nil, shortName(f)+": no refusal after "+ci.Common().Method.Name(), e.InstrPos(ci),
				"an action can be refused (400) after it has already changed something")
		}
	}

	r.Rule("C20.edit-footprint", "WMW/VF", "the edit changes exactly Nodes[i].Status/StatusText of the addressed run", 3)
	// the edited object: result of GetStatusByRequestID(dagStatus.DAG, body.RequestID)
	var edited ssa.Value
	for _, ci := range ir.CallsIn(pu, func(c *ssa.CallCommon) bool { return clientCall(c, "GetStatusByRequestID") }) {
		if e.IsFieldRead(ci.Common().Args[1], nil, "Body.RequestID") {
			if v, ok := ci.(ssa.Value); ok {
				for _, ref := range *v.Referrers() {
					if ex, isE := ref.(*ssa.Extract); isE && ex.Index == 0 {
						edited = ex
					}
				}
			}
		}
	}
	if edited == nil {
		r.Bad("status edit: run read by GetStatusByRequestID(body.RequestID)", e.Pos(pu.Pos()), "the edited run is not the one addressed by the request id")
		return
	}
	var toParam ssa.Value
	for _, p := range pu.Params {
		if strings.HasSuffix(ir.NamedType(p.Type()), ".NodeStatus") {
			toParam = p
		}
	}
	for _, b := range pu.Blocks {
		for _, in := range b.Instrs {
			st, ok := in.(*ssa.Store)
			if !ok {
				continue
			}
			fa, ok := st.Addr.(*ssa.FieldAddr)
			if !ok {
				continue
			}
			// is the written object reachable from `edited`?
			fl := &ir.Flow{C: e.C, Source: func(v ssa.Value) bool { return v == edited }}
			if !fl.Any(fa.X) {
				continue
			}
			field := ir.FieldNameOf(fa.X.Type(), fa.Field)
			okField := (field == "Status" || field == "StatusText") && strings.HasSuffix(ir.NamedType(fa.X.Type()), "model.Node")
			okIdx := false
			// fa.X = *(&edited.Nodes[idx]) ; idx phi set only under name match
			if u, isU := fa.X.(*ssa.UnOp); isU {
				if ia, isIA := u.X.(*ssa.IndexAddr); isIA && e.IsFieldRead(ia.X, nil, "Nodes") {
					okIdx = c20IndexUnderNameMatch(e, ia.Index)
				}
			}
			okVal := true
			if field == "Status" {
				okVal = ir.Resolve(st.Val) == toParam
			}
			if field == "StatusText" {
				c, isC := ir.Resolve(st.Val).(*ssa.Call)
				okVal = isC && len(c.Call.Args) == 1 && ir.Resolve(c.Call.Args[0]) == toParam
			}
			r.Check(okField && okIdx && okVal, "status edit: store into "+field+" of the step named in the request", e.InstrPos(st),
				"the edit writes something other than Status/StatusText of the node whose step name equals the request's step, or a value other than the action's status")
		}
	}
	for _, ci := range ir.CallsIn(pu, func(c *ssa.CallCommon) bool { return clientCall(c, "UpdateStatus") }) {
		r.Check(ir.Resolve(ci.Common().Args[1]) == edited, "status edit: UpdateStatus receives the edited run", e.InstrPos(ci), "the object handed to UpdateStatus is not the run that was read and edited")
	}

	r.Rule("C20.unknown-action", "DCS", "unknown action: no client call besides the status read", 1)
	// the default branch: returns newBadRequestError with "invalid action"
	n := 0
	for _, b := range pa.Blocks {
		for _, in := range b.Instrs {
			c, ok := in.(*ssa.Call)
			if !ok || !ir.IsCallTo(&c.Call, "fmt.Errorf") {
				continue
			}
			if s, _ := ir.ConstString(c.Call.Args[0]); !strings.HasPrefix(s, "invalid action") {
				continue
			}
			n++
			// no mutating client call dominates or is in this block
			okPure := true
			for _, ci := range ir.CallsIn(pa, func(cc *ssa.CallCommon) bool { return cc.IsInvoke() && c20Mutators[cc.Method.Name()] }) {
				if ir.Precedes(ci, c) {
					okPure = false
				}
			}
			// all action comparisons are false here
			lits := e.DCS(c)
			nNeg := 0
			for _, l := range lits {
				if l.Kind == "cmp" && l.Op == token.NEQ {
					if _, isS := ir.ConstString(l.Y); isS {
						nNeg++
					}
				}
			}
			r.Check(okPure && nNeg >= 8, "postAction default: reached only when no known action matched, without side effects", e.InstrPos(c),
				"the unknown-action refusal is reachable after a known action's effect, or known actions fall through to it", e.FactsStr("dominating conditions: ", lits))
		}
	}
	if n == 0 {
		r.Unknown("postAction: unknown-action refusal", e.Pos(pa.Pos()), "not found")
	}
}

// c20IndexUnderNameMatch: idx is a loop-carried phi whose only non-self, non-initial
// inflow is the range index taken under Nodes[i].Step.Name == body.Step.
func c20IndexUnderNameMatch(e *Env, idx ssa.Value) bool {
	seen := map[ssa.Value]bool{}
	ok := true
	found := false
	var walk func(v ssa.Value, blk *ssa.BasicBlock, k int)
	walk = func(v ssa.Value, blk *ssa.BasicBlock, k int) {
		if seen[v] && blk == nil {
			return
		}
		if ph, isPhi := v.(*ssa.Phi); isPhi && ph.Comment != "rangeindex" {
			if seen[v] {
				return
			}
			seen[v] = true
			for i, ed := range ph.Edges {
				walk(ed, ph.Block(), i)
			}
			return
		}
		if _, isC := ir.ConstInt(v); isC {
			return // initial value
		}
		// the range index (phi rangeindex + 1 / extract key): must be under the name match
		if blk == nil {
			ok = false
			return
		}
		lits := e.DCSPhiEdge(blk, k)
		match := false
		for _, l := range lits {
			if l.Kind == "cmp" && l.Op == token.EQL {
				if (e.IsFieldRead(l.X, nil, "Step.Name") && e.IsFieldRead(l.Y, nil, "Body.Step")) || (e.IsFieldRead(l.Y, nil, "Step.Name") && e.IsFieldRead(l.X, nil, "Body.Step")) {
					match = true
				}
			}
		}
		if match {
			found = true
		} else {
			ok = false
		}
	}
	walk(idx, nil, 0)
	return ok && found
}
