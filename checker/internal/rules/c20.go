package rules

import (
	"go/token"
	"go/types"
	"strings"

	"golang.org/x/tools/go/ssa"

	"bdcheck/internal/ir"
	"bdcheck/internal/load"
)

const feDagRel = "internal/frontend/dag"

func init() {
	register(&Prop{ID: "C20", Run: runC20,
		Technique: "static analysis: dominating-condition sets of the guarded client calls in the API action handler, value-flow of the tested status and of the edited object, who-may-write footprint of the status edit (go/ssa)",
		Decided: []string{
			"the status the guards read is the live answer first, else the corrected persisted record (C08.latest, shared)",
			"the view-level correction the edit's object has passed through writes only the run's own Status/StatusText under Status == running (C20.correction-footprint = C08.correct-table)",
			"the parameters of an accepted start reach the spawned start command: request Body.Params → StartOptions.Params → the -p argument, whose quoting by the client and unquoting by the start command agree (C11.param-flow, shared)",
			"start is issued only under latest-status != running, stop only under == running, a status edit only under latest-status != running with non-empty request id and step; the status tested is the DAG's latest status obtained by GetStatus(DagID) (C20.guards)",
			"no mutating client call precedes a refusal that is not caused by that call's own error (C20.refusal-is-pure)",
			"the status edit stores only Status and StatusText of Nodes[i] of the run read by request id, i being set only under Nodes[i].Step.Name == body.Step, the value being the action's constant; that same object is what UpdateStatus receives (C20.edit-footprint)",
			"the run edited in place is private to the request: the client hands out the Status of the store's FindByRequestID record, and every store implementation fills that record from a parse made for the call, not from the shared status cache (C20.edit-on-private-copy)",
			"the status the guards test is the live agent's answer whenever the run's process is alive, and that answer is always `running` - also while handlers run or the run winds down after a stop (C08.live-is-running, shared)",
			"an unknown action performs no client call other than the status read (C20.unknown-action); start parameters pass through unchanged (C11.param-flow shared)",
			"every way to HistoryStore.Update in the client's UpdateStatus knows that the request on the run's socket was answered (error nil) or failed with something other than the timeout sentinel (C20.update-refuses-on-timeout)",
		},
		NotDec: []string{"sequences of actions over recorded runs", "escaping of \\n / \\r in parameters on the way to the child process", "client.UpdateStatus's own live-run check (request-id equality)"},
	})
}

var c20Mutators = map[string]bool{"StartAsync": true, "Start": true, "Stop": true, "Retry": true, "Restart": true, "UpdateStatus": true, "UpdateDAG": true,
	"Rename": true, "ToggleSuspend": true, "DeleteDAG": true, "CreateDAG": true}

// boundLit is a literal together with the binding of a predicate's parameters
// to the arguments of the call it was taken from.
type boundLit struct {
	L    ir.NLit
	Bind map[ssa.Value]ssa.Value
}

// predLits returns the literals and, for every literal that is a call of a
// one-expression predicate of the repository (`func isRunning(s *T) bool {
// return s.Status.Status == running }`, called from any number of places), the
// predicate's own comparison with its parameters bound to the call's arguments.
func (e *Env) predLits(lits []ir.NLit) []boundLit {
	var out []boundLit
	for _, l := range lits {
		out = append(out, boundLit{L: l})
		if l.Kind != "val" {
			continue
		}
		c, ok := ir.Resolve(l.V).(*ssa.Call)
		if !ok {
			continue
		}
		h := c.Call.StaticCallee()
		if h == nil || !e.P.Funcs[h] || len(h.Blocks) != 1 {
			continue
		}
		rt, isR := h.Blocks[0].Instrs[len(h.Blocks[0].Instrs)-1].(*ssa.Return)
		if !isR || len(rt.Results) != 1 {
			continue
		}
		bind := map[ssa.Value]ssa.Value{}
		for i, p := range h.Params {
			if i < len(c.Call.Args) {
				bind[p] = c.Call.Args[i]
			}
		}
		out = append(out, boundLit{L: ir.Normalize(ir.Lit{Cond: rt.Results[0], Pol: l.Pol}), Bind: bind})
	}
	return out
}

func runC20(e *Env) {
	r := e.R
	c11ParamFlow(e)                              // "a start passes the given parameters through unchanged"
	c08Latest(e)                                 // the guards read GetStatus -> GetLatestStatus: the live answer first
	cCorrectTable(e, "C20.correction-footprint") // the edit persists the object the view-level correction touched
	c20UpdateRefusesOnTimeout(e, "C20.update-refuses-on-timeout")
	fp := e.P.Pkg(feDagRel)
	if fp == nil {
		r.Unknown("API handler package", feDagRel, "not loaded")
		return
	}
	var fns []*ssa.Function
	for _, f := range e.RepoFuncsSorted() {
		if rootFn(f).Package() == fp {
			fns = append(fns, f)
		}
	}
	_, ss := e.EnumOf(schedRel, "Status")
	running := ConstVal(ss, "StatusRunning")
	clientCall := func(c *ssa.CallCommon, name string) bool {
		return c.IsInvoke() && c.Method.Name() == name && strings.HasSuffix(ir.NamedType(c.Value.Type()), "internal/client.Client")
	}
	sitesOf := func(names ...string) []ssa.CallInstruction {
		var out []ssa.CallInstruction
		for _, f := range fns {
			out = append(out, ir.CallsIn(f, func(c *ssa.CallCommon) bool {
				for _, n := range names {
					if clientCall(c, n) {
						return true
					}
				}
				return false
			})...)
		}
		return out
	}
	// the DAG's latest status: the result of client.GetStatus(params.DagID), wherever
	// it is handed to (parameters of single-call-site helpers stand for their arguments)
	var isLatestD func(root ssa.Value, depth int) bool
	isLatestD = func(root ssa.Value, depth int) bool {
		root = ir.Deep(root)
		// a parameter of a helper called from several places: at every one of them
		if p, isP := root.(*ssa.Parameter); isP && depth < 4 {
			sites := e.callSitesAll(p.Parent())
			idx := -1
			for i, q := range p.Parent().Params {
				if q == p {
					idx = i
				}
			}
			if len(sites) == 0 || idx < 0 {
				return false
			}
			for _, cs := range sites {
				if idx >= len(cs.Common().Args) || !isLatestD(cs.Common().Args[idx], depth+1) {
					return false
				}
			}
			return true
		}
		fl := &ir.Flow{C: e.C, Source: func(v ssa.Value) bool {
			c, ok := v.(*ssa.Call)
			return ok && clientCall(&c.Call, "GetStatus")
		}}
		return fl.Any(root)
	}
	isLatest := func(root ssa.Value) bool { return isLatestD(root, 0) }
	statusCmp := func(lits []ir.NLit, op token.Token) bool {
		for _, alt := range e.expandHelperCalls(lits, 0) {
			found := false
			for _, bl := range e.predLits(alt) {
				l := bl.L
				if l.Kind == "cmp" && l.Op == op {
					if k, ok := ir.ConstInt(l.Y); ok && k == running {
						if p, okp := e.C.PathOf(l.X); okp && p.Dotted() == "Status.Status" {
							root := ir.Resolve(p.Root)
							if b, bound := bl.Bind[root]; bound {
								root = b
							}
							if isLatest(root) {
								found = true
							}
						}
						// the status packed into a request object (`req.current = GetStatus(...)`)
						if !found {
							if ps, okd := e.DeepPaths(l.X); okd && len(ps) > 0 {
								all := true
								for _, dp := range ps {
									rc := dp.Root
									if ex, isE := rc.(*ssa.Extract); isE {
										rc = ex.Tuple
									}
									cc, isC := rc.(*ssa.Call)
									if dp.Dotted() != "Status.Status" || !isC || !clientCall(&cc.Call, "GetStatus") {
										all = false
									}
								}
								found = all
							}
						}
					}
				}
			}
			if !found {
				return false
			}
		}
		return true
	}
	r.Rule("C20.guards", "DCS", "start / stop / edit guarded by the DAG's latest status", 3)
	starts, stops, edits := sitesOf("StartAsync", "Start"), sitesOf("Stop"), sitesOf("UpdateStatus")
	for _, ci := range starts {
		lits := e.DCS(ci)
		r.Check(statusCmp(lits, token.NEQ), "postAction start: only under latest status != running", e.InstrPos(ci),
			"a start is issued through the API although the DAG is (or may be) running", e.FactsStr("dominating conditions: ", lits))
	}
	for _, ci := range stops {
		lits := e.DCS(ci)
		r.Check(statusCmp(lits, token.EQL), "postAction stop: only under latest status == running", e.InstrPos(ci),
			"a stop is issued through the API although the DAG is not running", e.FactsStr("dominating conditions: ", lits))
	}
	if len(starts) == 0 || len(stops) == 0 {
		r.Unknown("postAction: start / stop sites", feDagRel, sprintf("start=%d stop=%d", len(starts), len(stops)))
	}
	for _, ci := range edits {
		lits := e.DCS(ci)
		r.Check(statusCmp(lits, token.NEQ), "status edit: only under latest status != running", e.InstrPos(ci),
			"a manual status edit is accepted while the DAG is running (the guard is missing or tests the addressed run instead of the DAG's latest status — an older run is never `running` once corrected)", e.FactsStr("dominating conditions: ", lits))
		nonEmpty := func(field string) bool {
			for _, alt := range e.expandHelperCalls(lits, 0) {
				found := false
				for _, l := range alt {
					if l.Kind == "cmp" && l.Op == token.NEQ && e.IsFieldReadAll(l.X, field) {
						if s, ok := ir.ConstString(l.Y); ok && s == "" {
							found = true
						}
					}
				}
				if !found {
					return false
				}
			}
			return true
		}
		r.Check(nonEmpty("Body.RequestID") && nonEmpty("Body.Step"), "status edit: request id and step are non-empty", e.InstrPos(ci),
			"a status edit without request id or step name is not refused", e.FactsStr("dominating conditions: ", lits))
	}
	if len(edits) == 0 {
		r.Unknown("status edit: UpdateStatus site", feDagRel, "not found")
	}

	r.Rule("C20.refusal-is-pure", "MPT", "no mutating call before a refusal", 3)
	// a refusal: a return whose error answer is not nil (and not the mutating call's own error)
	isRefusal := func(in ssa.Instruction, own ssa.Value) bool {
		rt, ok := in.(*ssa.Return)
		if !ok || len(rt.Results) != 2 {
			return false
		}
		for _, v := range RetVals(rt, 1) {
			if ir.IsNilConst(ir.Resolve(v)) || e.alwaysNil(v, 0) {
				continue
			}
			// exempt: the refusal reports the mutating call's own error
			for _, l := range e.DCS(rt) {
				if l.Kind == "cmp" && l.Op == token.NEQ && ir.IsNilConst(l.Y) && own != nil {
					x := ir.Resolve(l.X)
					if ex, isE := x.(*ssa.Extract); isE {
						x = ex.Tuple
					}
					if x == own {
						return false
					}
				}
			}
			return true
		}
		return false
	}
	for _, f := range fns {
		for _, ci := range ir.CallsIn(f, func(c *ssa.CallCommon) bool {
			return c.IsInvoke() && c20Mutators[c.Method.Name()] && strings.HasSuffix(ir.NamedType(c.Value.Type()), "internal/client.Client")
		}) {
			var own ssa.Value
			if v, ok := ci.(ssa.Value); ok {
				own = v
			}
			bad, _ := ir.Bypass(ci, nil, ir.PathQuery{Bad: func(in ssa.Instruction) bool { return isRefusal(in, own) }})
			r.Check(bad == nil, shortName(f)+": no refusal after "+ci.Common().Method.Name(), e.InstrPos(ci),
				"an action can be refused (400) after it has already changed something")
		}
	}

	r.Rule("C20.edit-footprint", "WMW/VF", "the edit changes exactly Nodes[i].Status/StatusText of the addressed run", 3)
	// the edited object: result of GetStatusByRequestID(dagStatus.DAG, body.RequestID)
	var edited ssa.Value
	var pu *ssa.Function
	for _, ci := range sitesOf("GetStatusByRequestID") {
		if e.IsFieldReadAll(ci.Common().Args[1], "Body.RequestID") {
			if v, ok := ci.(ssa.Value); ok {
				for _, ref := range *v.Referrers() {
					if ex, isE := ref.(*ssa.Extract); isE && ex.Index == 0 {
						edited, pu = ex, ci.Parent()
					}
				}
			}
		}
	}
	if edited == nil {
		r.Bad("status edit: run read by GetStatusByRequestID(body.RequestID)", feDagRel, "the edited run is not the one addressed by the request id")
		return
	}
	var toParam ssa.Value
	for _, p := range pu.Params {
		if strings.HasSuffix(ir.NamedType(p.Type()), ".NodeStatus") {
			toParam = p
		}
	}
	for _, b := range pu.Blocks {
		for _, in := range b.Instrs {
			st, ok := in.(*ssa.Store)
			if !ok {
				continue
			}
			fa, ok := st.Addr.(*ssa.FieldAddr)
			if !ok {
				continue
			}
			// is the written object reachable from `edited`?
			fl := &ir.Flow{C: e.C, Source: func(v ssa.Value) bool { return v == edited }}
			if !fl.Any(fa.X) {
				continue
			}
			field := ir.FieldNameOf(fa.X.Type(), fa.Field)
			okField := (field == "Status" || field == "StatusText") && strings.HasSuffix(ir.NamedType(fa.X.Type()), "model.Node")
			okIdx := false
			// fa.X = *(&edited.Nodes[idx]) ; idx set only under the name match
			if u, isU := fa.X.(*ssa.UnOp); isU {
				if ia, isIA := u.X.(*ssa.IndexAddr); isIA && e.IsFieldRead(ia.X, nil, "Nodes") {
					okIdx = c20IndexUnderNameMatch(e, ia.Index)
				}
			}
			// the node itself remembered by the search (`if node.Step.Name == step { target = node }`):
			// set only under the name match, nil before
			if ph, isPhi := ir.Resolve(fa.X).(*ssa.Phi); isPhi {
				if _, isPtr := ph.Type().(*types.Pointer); isPtr {
					okIdx = c20IndexUnderNameMatch(e, ph)
				}
			}
			// the action's status: the handler's NodeStatus parameter, or the entry of a
			// constant table of node statuses (`markedStatus[action]`)
			isTo := func(v ssa.Value) bool {
				v = ir.Resolve(v)
				if toParam != nil && v == toParam {
					return true
				}
				if _, which, fld, ents, okT := e.tableLookup(v); okT && which == 0 && fld == "" && len(ents) > 0 {
					for _, en := range ents {
						if _, isC := ir.ConstInt(en.Val); !isC || !strings.HasSuffix(ir.NamedType(en.Val.Type()), ".NodeStatus") {
							return false
						}
					}
					return true
				}
				return false
			}
			okVal := true
			if field == "Status" {
				okVal = isTo(st.Val)
			}
			if field == "StatusText" {
				c, isC := ir.Resolve(st.Val).(*ssa.Call)
				okVal = isC && len(c.Call.Args) == 1 && isTo(c.Call.Args[0])
			}
			r.Check(okField && okIdx && okVal, "status edit: store into "+field+" of the step named in the request", e.InstrPos(st),
				"the edit writes something other than Status/StatusText of the node whose step name equals the request's step, or a value other than the action's status",
				sprintf("a status field of a recorded node: %v; node chosen by the request's step name: %v; value is the action's status: %v", okField, okIdx, okVal))
		}
	}
	for _, ci := range ir.CallsIn(pu, func(c *ssa.CallCommon) bool { return clientCall(c, "UpdateStatus") }) {
		r.Check(ir.Resolve(ci.Common().Args[1]) == edited, "status edit: UpdateStatus receives the edited run", e.InstrPos(ci), "the object handed to UpdateStatus is not the run that was read and edited")
	}

	c20PrivateCopy(e)
	c08LiveIsRunning(e) // the guards read the live status: while the run's process is alive it must answer running (wind-down, handlers included)
	r.Rule("C20.unknown-action", "DCS", "unknown action: no client call besides the status read", 1)
	// the default branch: answers "invalid action"
	n := 0
	reachesMutator := func(c *ssa.CallCommon) bool {
		if c.IsInvoke() {
			return c20Mutators[c.Method.Name()] && strings.HasSuffix(ir.NamedType(c.Value.Type()), "internal/client.Client")
		}
		g := c.StaticCallee()
		return g != nil && rootFn(g).Package() == fp && e.ReachesRepo(g, func(x *ssa.Function) bool {
			return len(ir.CallsIn(x, func(cc *ssa.CallCommon) bool {
				return cc.IsInvoke() && c20Mutators[cc.Method.Name()] && strings.HasSuffix(ir.NamedType(cc.Value.Type()), "internal/client.Client")
			})) > 0
		})
	}
	for _, pa := range fns {
		for _, b := range pa.Blocks {
			for _, in := range b.Instrs {
				c, ok := in.(*ssa.Call)
				if !ok || !ir.IsCallTo(&c.Call, "fmt.Errorf", "errors.New") {
					continue
				}
				// the message (a format, or a concatenation) starts with "invalid action"
				msg := ir.Resolve(c.Call.Args[0])
				for d := 0; d < 4; d++ {
					if bo, isB := msg.(*ssa.BinOp); isB && bo.Op == token.ADD {
						msg = ir.Resolve(bo.X)
						continue
					}
					break
				}
				if s, _ := ir.ConstString(msg); !strings.HasPrefix(s, "invalid action") {
					continue
				}
				n++
				// the refusal cannot be reached after a mutating call (made here or by a helper)
				okPure := true
				for _, ci := range ir.CallsIn(pa, reachesMutator) {
					bad, _ := ir.Bypass(ci, nil, ir.PathQuery{Bad: func(x ssa.Instruction) bool { return x == ssa.Instruction(c) }})
					if bad != nil {
						okPure = false
					}
				}
				// no known action matched: every comparison of the action with a name is negative here
				lits := e.DCS(c)
				nNeg, nPos := 0, 0
				okNone := true
				// (a dispatch through a table of action names: the miss of the lookup says
				// the action equals none of the keys)
				for _, alt := range e.expandTableLits(lits) {
					nNeg, nPos = 0, 0
					for _, l := range alt {
						if l.Kind == "cmp" {
							if _, isS := ir.ConstString(l.Y); isS {
								if l.Op == token.NEQ {
									nNeg++
								} else if l.Op == token.EQL {
									nPos++
								}
							}
						}
					}
					if nNeg < 1 || nPos != 0 {
						okNone = false
					}
				}
				r.Check(okPure && okNone && nNeg >= 1 && nPos == 0, "postAction default: reached only when no known action matched, without side effects", e.InstrPos(c),
					"the unknown-action refusal is reachable after a known action's effect, or known actions fall through to it", e.FactsStr("dominating conditions: ", lits))
			}
		}
	}
	if n == 0 {
		r.Unknown("postAction: unknown-action refusal", feDagRel, "not found")
	}
}

func c20IndexUnderNameMatch(e *Env, idx ssa.Value) bool {
	seen := map[ssa.Value]bool{}
	ok := true
	found := false
	var walk func(v ssa.Value, blk *ssa.BasicBlock, k int)
	walk = func(v ssa.Value, blk *ssa.BasicBlock, k int) {
		if seen[v] && blk == nil {
			return
		}
		if ph, isPhi := v.(*ssa.Phi); isPhi && ph.Comment != "rangeindex" {
			if seen[v] {
				return
			}
			seen[v] = true
			for i, ed := range ph.Edges {
				walk(ed, ph.Block(), i)
			}
			return
		}
		if _, isC := ir.ConstInt(v); isC || ir.IsNilConst(v) {
			return // initial value
		}
		// the range index (phi rangeindex + 1 / extract key): must be under the name match
		if blk == nil {
			ok = false
			return
		}
		lits := e.DCSPhiEdge(blk, k)
		match := false
		// the name test may be a predicate handed to the index helper (`match(v)`)
		nAlt, allMatch := 0, true
		e.ways(lits, func(alt []ir.NLit) {
			nAlt++
			m := false
			isReqStep := func(v ssa.Value) bool {
				return e.IsFieldReadAll(v, "Body.Step") || e.IsFieldReadAll(e.capturedValue(v), "Body.Step")
			}
			for _, l := range alt {
				if l.Kind == "cmp" && l.Op == token.EQL {
					if (e.IsFieldRead(l.X, nil, "Step.Name") && isReqStep(l.Y)) || (e.IsFieldRead(l.Y, nil, "Step.Name") && isReqStep(l.X)) {
						m = true
					}
				}
			}
			if !m {
				allMatch = false
			}
		})
		match = nAlt > 0 && allMatch
		if match {
			found = true
		} else {
			ok = false
		}
	}
	// an index computed by a single-call-site helper (`i, found := indexOf(nodes, name)`): what it returns
	start := []ssa.Value{idx}
	if ex, isE := ir.Deep(idx).(*ssa.Extract); isE {
		if c, isC := ex.Tuple.(*ssa.Call); isC {
			if g := c.Call.StaticCallee(); g != nil && e.P.Funcs[g] && g.Blocks != nil && ir.UniqueSite(g) != nil {
				start = nil
				for _, b := range g.Blocks {
					if rt, isR := b.Instrs[len(b.Instrs)-1].(*ssa.Return); isR && ex.Index < len(rt.Results) {
						start = append(start, RetVals(rt, ex.Index)...)
					}
				}
			}
		}
	}
	// an index computed by a (generic) search helper with a single result
	// (`idx := lastIndexFunc(run.Nodes, stepNamed(step))`): what it returns, with its
	// parameters bound to this call's arguments
	if c, isC := ir.Deep(idx).(*ssa.Call); isC {
		if g := c.Call.StaticCallee(); g != nil && g.Blocks != nil && g.Signature.Results().Len() == 1 && len(ir.Loops(g)) == 1 {
			bind := map[ssa.Value]ssa.Value{}
			for i, p := range g.Params {
				if i < len(c.Call.Args) {
					bind[p] = c.Call.Args[i]
				}
			}
			undo := ir.SetOverride(bind)
			defer undo()
			start = nil
			for _, b := range g.Blocks {
				if rt, isR := b.Instrs[len(b.Instrs)-1].(*ssa.Return); isR {
					start = append(start, RetVals(rt, 0)...)
				}
			}
		}
	}
	for _, v := range start {
		walk(v, nil, 0)
	}
	return ok && found && len(start) > 0
}

// c20PrivateCopy: the handler edits the run it read in place, before the store has
// accepted the edit. That is only harmless if the object is private to the request:
// the client hands out the store's record unchanged, and the store's lookup by
// request id parses the file for this call instead of answering from the status
// cache shared by all readers (an edit that is then refused would stay in the cache,
// be shown by every view and be written out with the next accepted edit).
func c20PrivateCopy(e *Env) {
	r := e.R
	r.Rule("C20.edit-on-private-copy", "VF", "the run edited in place comes from a parse made for this request, not from the shared cache", 2)
	parse := e.FnQuiet(jsondbRel, "ParseFile")
	nonNilRets := func(f *ssa.Function) []*ssa.Return {
		var out []*ssa.Return
		for _, b := range f.Blocks {
			if rt, ok := b.Instrs[len(b.Instrs)-1].(*ssa.Return); ok && len(rt.Results) > 0 && !ir.IsNilConst(ir.Resolve(rt.Results[0])) && e.Facts(f).Reachable(b) {
				out = append(out, rt)
			}
		}
		return out
	}
	nClient, nStore := 0, 0
	for _, f := range e.RepoFuncsSorted() {
		if f.Signature.Recv() == nil || f.Parent() != nil || f.Synthetic != "" {
			continue
		}
		switch f.Name() {
		case "GetStatusByRequestID":
			if !strings.HasSuffix(load.FuncPkgPath(f), "internal/client") {
				continue
			}
			nClient++
			for _, rt := range nonNilRets(f) {
				ps, ok := e.DeepPaths(rt.Results[0])
				good := ok && len(ps) > 0
				for _, p := range ps {
					if !(invokeResult(p.Root, "FindByRequestID", 0) && p.Dotted() == "Status") {
						good = false
					}
				}
				r.Check(good, ShortFn(f)+": hands out the Status of the store's FindByRequestID record", e.InstrPos(rt),
					"the run handed to the status edit is not the record the history store returned for the request id")
			}
		case "FindByRequestID":
			if !strings.Contains(load.FuncPkgPath(f), "internal/persistence") {
				continue
			}
			nStore++
			for _, rt := range nonNilRets(f) {
				var vals []ssa.Value
				for _, leaf := range phiLeaves(rt.Results[0]) {
					al, ok := ir.Resolve(leaf).(*ssa.Alloc)
					if !ok {
						continue
					}
					for _, ref := range *al.Referrers() {
						if fa, ok := ref.(*ssa.FieldAddr); ok && ir.FieldNameOf(fa.X.Type(), fa.Field) == "Status" {
							for _, r2 := range *fa.Referrers() {
								if st, ok := r2.(*ssa.Store); ok {
									vals = append(vals, st.Val)
								}
							}
						}
					}
				}
				good := len(vals) > 0
				var facts []string
				// every origin of the value is result #0 of the parse function, directly or
				// handed back by helpers
				var fromParse func(v ssa.Value, d int) bool
				fromParse = func(v ssa.Value, d int) bool {
					if d > 5 {
						return false
					}
					for _, leaf := range phiLeaves(v) {
						leaf = ir.Deep(leaf)
						idx := 0
						if ex, ok := leaf.(*ssa.Extract); ok {
							leaf, idx = ex.Tuple, ex.Index
						}
						c, ok := leaf.(*ssa.Call)
						if !ok {
							facts = append(facts, "comes from "+e.C.Render(leaf))
							return false
						}
						g := c.Call.StaticCallee()
						if g == parse && idx == 0 {
							continue
						}
						if g == nil || !e.P.Funcs[g] || g.Blocks == nil {
							facts = append(facts, "comes from "+e.C.Render(leaf)+" at "+e.InstrPos(c))
							return false
						}
						for _, b := range g.Blocks {
							if rt2, ok := b.Instrs[len(b.Instrs)-1].(*ssa.Return); ok && idx < len(rt2.Results) && !ir.IsNilConst(ir.Resolve(rt2.Results[idx])) {
								if !fromParse(rt2.Results[idx], d+1) {
									return false
								}
							}
						}
					}
					return true
				}
				for _, v := range vals {
					if !fromParse(v, 0) {
						good = false
					}
				}
				r.Check(good, ShortFn(f)+": the returned status is parsed from the file for this call", e.InstrPos(rt),
					"the lookup by request id answers with an object that is shared with other readers (status cache): the API's in-place status edit then changes what every view shows even when the edit is refused, and a later accepted edit writes the refused one out as well", facts...)
			}
		}
	}
	if nClient == 0 || nStore == 0 || parse == nil {
		r.Unknown("status edit: the chain handler → client.GetStatusByRequestID → store.FindByRequestID → parse", "-", sprintf("client implementations=%d store implementations=%d parse function found=%v", nClient, nStore, parse != nil))
	}
}

// alwaysNil: v is nil, or result #i of a repository helper that hands back nil at that
// position on every return (`return actionDone()`).
func (e *Env) alwaysNil(v ssa.Value, d int) bool {
	v = ir.Resolve(v)
	if ir.IsNilConst(v) {
		return true
	}
	if d > 3 {
		return false
	}
	idx := 0
	if ex, ok := v.(*ssa.Extract); ok {
		v, idx = ex.Tuple, ex.Index
	}
	c, ok := v.(*ssa.Call)
	if !ok {
		return false
	}
	g := c.Call.StaticCallee()
	if g == nil || !e.P.Funcs[g] || g.Blocks == nil {
		return false
	}
	n := 0
	for _, b := range g.Blocks {
		rt, isR := b.Instrs[len(b.Instrs)-1].(*ssa.Return)
		if !isR || idx >= len(rt.Results) || !e.Facts(g).Reachable(b) {
			continue
		}
		for _, rv := range RetVals(rt, idx) {
			n++
			if !e.alwaysNil(rv, d+1) {
				return false
			}
		}
	}
	return n > 0
}

// capturedValue: for a read of a variable captured by a closure (a free variable), what
// the enclosing function stored into the captured cell - with a parameter of that function
// replaced by the argument it is currently bound to; v itself otherwise.
func (e *Env) capturedValue(v ssa.Value) ssa.Value {
	u, ok := v.(*ssa.UnOp)
	if !ok || u.Op != token.MUL {
		return v
	}
	fv, ok := u.X.(*ssa.FreeVar)
	if !ok {
		return v
	}
	cl := fv.Parent()
	par := cl.Parent()
	if par == nil {
		return v
	}
	for _, b := range par.Blocks {
		for _, in := range b.Instrs {
			mc, isMC := in.(*ssa.MakeClosure)
			if !isMC || mc.Fn != ssa.Value(cl) {
				continue
			}
			for i, f := range cl.FreeVars {
				if f != fv || i >= len(mc.Bindings) {
					continue
				}
				if al, isA := mc.Bindings[i].(*ssa.Alloc); isA {
					if st := ir.StoresTo(al); len(st) == 1 {
						x := ir.Resolve(st[0])
						if p, isP := x.(*ssa.Parameter); isP {
							if bv := ir.Bound(p); bv != nil {
								return bv
							}
						}
						return x
					}
				}
			}
		}
	}
	return v
}
