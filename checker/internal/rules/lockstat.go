package rules

import (
	"fmt"
	"sort"
	"strings"

	"golang.org/x/tools/go/ssa"

	"bdcheck/internal/ir"
	"bdcheck/internal/load"
	"bdcheck/internal/report"
)

// LockStat prints, for every repository struct with a mutex field, how often each
// field is accessed with and without that mutex held (debug aid used to
// discover the candidates of the frozen lock-discipline table).
func LockStat(p *load.Program) {
	e := NewEnv(p, report.New("-", "quick", 0))
	type key struct{ st, field string }
	type stat struct {
		locked, unlocked int
		sites            []string
	}
	stats := map[key]*stat{}
	for _, f := range e.RepoFuncsSorted() {
		lf := e.C.Locks(f)
		allocs := map[string]bool{}
		for _, b := range f.Blocks {
			for _, in := range b.Instrs {
				if al, ok := in.(*ssa.Alloc); ok {
					allocs[ir.NamedType(al.Type())] = true
				}
			}
		}
		for _, a := range e.C.FieldAccesses(f) {
			mus := ir.MutexFields(a.Root.Type())
			if len(mus) == 0 || !strings.HasPrefix(a.Struct, load.ModulePath) {
				continue
			}
			first := a.Path
			if i := strings.Index(first, "."); i >= 0 {
				// keep two levels for Node.data.*
				parts := strings.Split(a.Path, ".")
				if len(parts) > 2 {
					parts = parts[:3]
				}
				first = strings.Join(parts, ".")
			}
			isMu := false
			for _, m := range mus {
				if a.Path == m || strings.HasPrefix(a.Path, m+".") {
					isMu = true
				}
			}
			if isMu {
				continue
			}
			k := key{strings.TrimPrefix(a.Struct, load.ModulePath+"/"), first}
			s := stats[k]
			if s == nil {
				s = &stat{}
				stats[k] = s
			}
			held := false
			for _, m := range mus {
				if lf.Holds(a.Instr, a.Root, m, a.Write) {
					held = true
				}
			}
			if held {
				s.locked++
			} else {
				s.unlocked++
				rw := "R"
				if a.Write {
					rw = "W"
				}
				ctor := ""
				if allocs[a.Struct] {
					ctor = " (ctor)"
				}
				s.sites = append(s.sites, fmt.Sprintf("%s %s %s%s", rw, ShortFn(f), e.InstrPos(a.Instr), ctor))
			}
		}
	}
	var keys []key
	for k := range stats {
		keys = append(keys, k)
	}
	sort.Slice(keys, func(i, j int) bool {
		if keys[i].st != keys[j].st {
			return keys[i].st < keys[j].st
		}
		return keys[i].field < keys[j].field
	})
	for _, k := range keys {
		s := stats[k]
		fmt.Printf("%s.%s locked=%d unlocked=%d\n", k.st, k.field, s.locked, s.unlocked)
		if s.locked > 0 {
			for _, x := range s.sites {
				fmt.Println("    ", x)
			}
		}
	}
}
