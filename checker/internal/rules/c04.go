package rules

import (
	"go/token"
	"sort"
	"strings"

	"golang.org/x/tools/go/ssa"

	"bdcheck/internal/ir"
)

func init() {
	register(&Prop{ID: "C04", Run: runC04,
		Technique: "static analysis: decision tables read off edge-dominance condition sets (go/ssa), must-pass-through ordering, value-flow on returns",
		Decided: []string{
			"a node that is running when a stop reaches it is marked canceled on every path through the node's signal routine, whether or not its process exists yet (C04.cancel-mark); the polling loop is left only under the end-of-run test or the cancel flag (C04.outcome-after-completion)",
			"Scheduler.lastError and the other lock-protected run state are written with their mutex held everywhere (C08.state-lock, shared)",
			"Scheduler.Status returns each outcome constant exactly under the oracle's conditions (canceled∧¬allSucceeded / ¬started / running / lastError!=nil / else success) (C04.status-table)",
			"isSucceed returns true only after all nodes were seen and skips only finished/skipped nodes (C04.succeed-table)",
			"every store of failed into a step's status - by the worker or by the scheduling thread itself - is paired with a write of lastError before the worker moves on / the loop launches, iterates or returns; the same for a step the scheduling thread labels canceled outside the cancel flag (C04.error-pairing)",
			"onSuccess/onFailure/onCancel are appended only under the matching Status value, onExit unconditionally and last; handlers are run by one loop over that slice, one runHandlerNode call per element (C04.handler-table)",
			"the Status call that selects handlers is dominated by wg.Wait(), which is outside the scheduling loop (C04.after-wait)",
			"a handler failure cannot change the run's outcome: no possibly non-nil value is written to lastError after the handlers were selected (C04.handler-no-lasterror)",
			"Agent.Run reaches Schedule/dryRun/history/socket only after checkPreconditions()==nil (C04.precond-first)",
			"runHandlerNode labels the handler finished only under Execute()==nil (C04.handler-status)",
		},
		NotDec: []string{"stop arriving at any point (C05)", "equality of the outcome with what happened over concrete outcome scripts", "handlers' own side effects"},
	})
}

func runC04(e *Env) {
	r := e.R
	r.Rule("C04.anchors", "anchor resolution", "launch site, scheduling loop, worker", 0)
	s := e.resolveSched()
	if !s.ok {
		return
	}
	c04StatusTable(e, s)
	c04SucceedTable(e, s)
	c04ErrorPairing(e, s)
	c04Handlers(e, s)
	c05CancelMark(e, s, "C04.cancel-mark")
	c05CancelFlagMonotone(e, "C04.cancel-flag-monotone") // `canceled iff stopped`: the flag the outcome is read from is never lowered
	c05SignalFanout(e, s)                                // `canceled iff stopped`: every accepted stop sets the flag the outcome is read from
	c04PrecondFirst(e, s)
	c04HandlerStatus(e, s)
	cRunToCompletion(e, s, "C04.outcome-after-completion") // the outcome and the handlers are chosen from final states only
	cLockDiscipline(e)                                     // lastError, which decides failed vs. succeeded, is written under the scheduler's mutex everywhere
}

func calleeIs(v ssa.Value, suffix string) bool {
	c, ok := ir.Resolve(v).(*ssa.Call)
	if !ok {
		return false
	}
	return strings.HasSuffix(ir.CalleeName(&c.Call), suffix)
}

// predKind classifies the boolean predicates the run outcome is computed from by
// what they read, not by their names: "canceled" (derives from the scheduler's
// cancel flag), "error" (lastError != nil), "succeed" (walks the graph's nodes
// comparing their status), "started" / "running" (the graph's exported state).
func (s *Sched) predKind(f *ssa.Function) string {
	if f == nil || f.Blocks == nil {
		return ""
	}
	e := s.e
	switch f.Name() {
	case "IsStarted":
		return "started"
	case "IsRunning":
		return "running"
	}
	if f.Signature.Results().Len() != 1 || f.Signature.Results().At(0).Type().String() != "bool" {
		return ""
	}
	reads := func(field string) bool {
		for _, b := range f.Blocks {
			for _, in := range b.Instrs {
				if u, ok := in.(*ssa.UnOp); ok && u.Op == token.MUL {
					if p, okp := e.C.PathOf(u); okp && len(p.Fields) >= 1 && len(p.Fields) <= 2 && p.Fields[len(p.Fields)-1] == field && isSchedOwner(p.Root.Type()) && (len(p.Fields) == 1 || schedOwners[p.Fields[0]]) {
						return true
					}
				}
			}
		}
		return false
	}
	switch {
	case reads(s.e.schedFields().Canceled):
		return "canceled"
	case reads(s.e.schedFields().LastError):
		return "error"
	}
	// a walk over the nodes (a loop, or slices.ContainsFunc / IndexFunc with a
	// predicate closure), possibly behind a forwarder, comparing statuses with the
	// finished constant
	w, _ := s.followForwarders(f)
	if len(ir.Loops(w)) > 0 || s.quantifierCall(w) != nil {
		succ := s.val("NodeStatusSuccess")
		for _, g := range e.withPkgHelpers(w) {
			for _, b := range g.Blocks {
				for _, in := range b.Instrs {
					if bo, ok := in.(*ssa.BinOp); ok {
						for _, side := range []ssa.Value{bo.X, bo.Y} {
							if k, isK := ir.ConstInt(side); isK && k == succ && strings.HasSuffix(ir.NamedType(side.Type()), ".NodeStatus") {
								return "succeed"
							}
						}
					}
				}
			}
		}
	}
	return ""
}

// followForwarders: f, or the function of the package it merely hands the
// answer of on (`func (sc) isSucceed(g) bool { return g.allSucceeded() }`),
// with the polarity of the forwarding.
func (s *Sched) followForwarders(f *ssa.Function) (*ssa.Function, bool) {
	neg := false
	for d := 0; d < 4; d++ {
		if f == nil || f.Blocks == nil {
			return f, neg
		}
		// straight-line code with a single return (a deferred unlock adds an
		// unreachable recover block)
		var rt *ssa.Return
		straight := true
		for _, b := range f.Blocks {
			if !s.e.Facts(f).Reachable(b) {
				continue
			}
			switch x := b.Instrs[len(b.Instrs)-1].(type) {
			case *ssa.Return:
				if rt != nil {
					straight = false
				}
				rt = x
			case *ssa.If:
				straight = false
			}
		}
		if !straight || rt == nil || len(rt.Results) != 1 {
			return f, neg
		}
		v := ir.Resolve(rt.Results[0])
		n := false
		for {
			if u, isU := v.(*ssa.UnOp); isU && u.Op == token.NOT {
				v, n = ir.Resolve(u.X), !n
				continue
			}
			break
		}
		c, isC := v.(*ssa.Call)
		if !isC || c.Call.StaticCallee() == nil || !s.e.P.Funcs[c.Call.StaticCallee()] || c.Call.StaticCallee().Blocks == nil {
			return f, neg
		}
		f, neg = c.Call.StaticCallee(), neg != n
	}
	return f, neg
}

// quantifierCall: the call of slices.ContainsFunc / slices.IndexFunc with a
// predicate closure in f, if f answers from it.
func (s *Sched) quantifierCall(f *ssa.Function) *ssa.Call {
	if f == nil {
		return nil
	}
	for _, b := range f.Blocks {
		for _, in := range b.Instrs {
			c, ok := in.(*ssa.Call)
			if !ok {
				continue
			}
			n := ir.CalleeName(&c.Call)
			if (strings.HasPrefix(n, "slices.ContainsFunc") || strings.HasPrefix(n, "slices.IndexFunc")) && len(c.Call.Args) == 2 {
				if _, isMC := ir.Resolve(c.Call.Args[1]).(*ssa.MakeClosure); isMC {
					return c
				}
				if _, isFn := ir.Resolve(c.Call.Args[1]).(*ssa.Function); isFn {
					return c
				}
			}
		}
	}
	return nil
}

func c04StatusTable(e *Env, s *Sched) {
	r := e.R
	r.Rule("C04.status-table", "DCS", "Status(): each returned constant under the oracle's conditions", 5)
	fn := e.Fn(schedRel, "(*Scheduler).Status")
	if fn == nil {
		return
	}
	type need struct {
		callee string
		pol    bool
	}
	table := map[string][]need{
		"StatusCancel":  {{"canceled", true}, {"succeed", false}},
		"StatusNone":    {{"started", false}},
		"StatusRunning": {{"started", true}, {"running", true}},
		"StatusError":   {{"started", true}, {"running", false}, {"error", true}},
		"StatusSuccess": {{"started", true}, {"running", false}, {"error", false}},
	}
	kindOf := func(x ssa.Value) string {
		c, ok := ir.Resolve(x).(*ssa.Call)
		if !ok {
			return ""
		}
		return s.predKind(c.Call.StaticCallee())
	}
	var isErrFn, isSuccFn *ssa.Function
	for _, ci := range ir.CallsIn(fn, func(c *ssa.CallCommon) bool { return c.StaticCallee() != nil }) {
		switch s.predKind(ci.Common().StaticCallee()) {
		case "error":
			isErrFn = ci.Common().StaticCallee()
		case "succeed":
			isSuccFn = ci.Common().StaticCallee()
		}
	}
	s.IsSucceed = isSuccFn
	seen := map[string]bool{}
	for _, b := range fn.Blocks {
		for _, in := range b.Instrs {
			rt, ok := in.(*ssa.Return)
			if !ok || !e.Facts(fn).Reachable(b) || len(rt.Results) != 1 {
				continue
			}
			v := ir.Resolve(rt.Results[0])
			// resolve defer-spilled result cell
			var vals []ssa.Value
			if u, ok := v.(*ssa.UnOp); ok && u.Op == token.MUL {
				vals = ir.StoresTo(u.X)
			} else {
				vals = []ssa.Value{v}
			}
			for _, val := range vals {
				k, isC := ir.ConstInt(val)
				if !isC {
					r.Unknown("Status(): non-constant return", e.InstrPos(rt), "returns "+e.C.Render(val))
					continue
				}
				name := s.SS[k]
				seen[name] = true
				lits := e.DCS(rt)
				ok := true
				var missing []string
				for _, nd := range table[name] {
					if !HasVal(lits, func(x ssa.Value) bool { return kindOf(x) == nd.callee }, nd.pol) {
						ok = false
						missing = append(missing, sprintf("%s==%v", nd.callee, nd.pol))
					}
				}
				if _, known := table[name]; !known {
					ok = false
				}
				r.Check(ok, "Status(): return "+name, e.InstrPos(rt),
					"the run outcome "+name+" is returned under the wrong conditions; missing: "+strings.Join(missing, ", "), e.FactsStr("dominating conditions: ", lits))
			}
		}
	}
	for name := range table {
		if !seen[name] {
			r.Bad("Status(): return "+name, e.Pos(fn.Pos()), "Status() never returns "+name)
		}
	}
	// isError is `lastError != nil`
	ie := isErrFn
	if ie == nil {
		r.Unknown("Status(): the predicate reading lastError", e.Pos(fn.Pos()), "Status() consults no function that reads Scheduler.lastError")
	}
	if ie != nil {
		ok := false
		for _, b := range ie.Blocks {
			for _, in := range b.Instrs {
				if rt, isR := in.(*ssa.Return); isR && len(rt.Results) == 1 {
					v := ir.Resolve(rt.Results[0])
					if u, isU := v.(*ssa.UnOp); isU && u.Op == token.MUL {
						for _, st := range ir.StoresTo(u.X) {
							v = st
						}
					}
					n := ir.Normalize(ir.Lit{Cond: v, Pol: true})
					if n.Kind == "cmp" && n.Op == token.NEQ && ir.IsNilConst(n.Y) && e.IsFieldRead(n.X, nil, e.schedFields().LastError) {
						ok = true
					}
				}
			}
		}
		r.Check(ok, "isError(): lastError != nil", e.Pos(ie.Pos()), "isError no longer reports whether an error was recorded")
	}
}

func c04SucceedTable(e *Env, s *Sched) {
	r := e.R
	r.Rule("C04.succeed-table", "DCS+ENUM", "isSucceed: true only after exhaustion; skip only Success/Skipped", 2)
	fn := s.IsSucceed
	if fn == nil {
		if st := e.FnQuiet(schedRel, "(*Scheduler).Status"); st != nil {
			for _, ci := range ir.CallsIn(st, func(c *ssa.CallCommon) bool { return c.StaticCallee() != nil }) {
				if s.predKind(ci.Common().StaticCallee()) == "succeed" {
					fn = ci.Common().StaticCallee()
				}
			}
		}
	}
	if fn == nil {
		r.Unknown("Status(): the all-nodes-succeeded predicate", "-", "Status() consults no function that walks the nodes comparing their status with finished")
		return
	}
	isElemStatus := func(v ssa.Value) bool { return e.isStatusValue(v) }
	// the predicate may hand on the answer of a graph method, and the walk may be
	// written with slices.ContainsFunc and a predicate closure
	walkFn, neg := s.followForwarders(fn)
	if qc := s.quantifierCall(walkFn); qc != nil && len(ir.Loops(walkFn)) == 0 {
		// answer = [!] ContainsFunc(nodes, p): "all nodes are fine" is `!Contains(nodes, notFine)`
		pred := funcOfValue(qc.Call.Args[1])
		isContains := strings.HasPrefix(ir.CalleeName(&qc.Call), "slices.ContainsFunc")
		// the function's answer in terms of the call
		answerNeg := neg
		okShape := false
		for _, b := range walkFn.Blocks {
			if rt, isR := b.Instrs[len(b.Instrs)-1].(*ssa.Return); isR && len(rt.Results) == 1 && e.Facts(walkFn).Reachable(b) {
				v := ir.Resolve(rt.Results[0])
				n := neg
				for {
					if u, isU := v.(*ssa.UnOp); isU && u.Op == token.NOT {
						v, n = ir.Resolve(u.X), !n
						continue
					}
					break
				}
				if v == ssa.Value(qc) {
					okShape, answerNeg = true, n
				}
			}
		}
		if pred == nil || !isContains || !okShape || !answerNeg {
			r.Unknown("isSucceed: the walk over the nodes", e.InstrPos(qc), sprintf("answers from a slices search in a form that is not `!ContainsFunc(nodes, notFinished)` (predicate found=%v, ContainsFunc=%v, result is the search=%v, negated=%v)", pred != nil, isContains, okShape, answerNeg))
			return
		}
		allNodes := false
		if p, okp := e.C.PathOf(qc.Call.Args[0]); okp {
			for _, an := range e.graphRoles().AllNodes {
				if p.Suffix(an) {
					allNodes = true
				}
			}
		}
		r.Check(allNodes, "isSucceed: result true only via loop exhaustion", e.InstrPos(qc), "the search does not cover all nodes of the graph")
		// every way the predicate says "not a counter-example" has the node finished or skipped
		alts, okA := e.boolHelperReturns(pred, false)
		if !okA {
			r.Unknown("isSucceed: the predicate of the search", e.Pos(pred.Pos()), "not a boolean function")
			return
		}
		set := ir.EnumSet{}
		for _, a := range alts {
			for v := range e.restrictWays(a, isElemStatus, s.NS) {
				set[v] = true
			}
		}
		ok := len(set) > 0
		for v := range set {
			if n := s.name(v); n != "NodeStatusSuccess" && n != "NodeStatusSkipped" {
				ok = false
			}
		}
		r.Check(ok, "isSucceed: next node only when this one ∈ {"+strings.Join(set.Names(s.NS), ",")+"}", e.Pos(pred.Pos()),
			"isSucceed moves on to the next node although this one is neither finished nor skipped")
		return
	}
	if neg {
		r.Unknown("isSucceed: forwarded with a negation", e.Pos(fn.Pos()), "shape not understood")
		return
	}
	fn = walkFn
	loops := ir.Loops(fn)
	if len(loops) != 1 {
		r.Unknown("isSucceed: one loop over the nodes", e.Pos(fn.Pos()), sprintf("found %d loops", len(loops)))
		return
	}
	l := loops[0]
	// back edges: node must be Success or Skipped
	for k, p := range l.Header.Preds {
		if !l.Blocks[p] {
			continue
		}
		lits := e.DCSPhiEdge(l.Header, k)
		set := ir.Restrict(lits, isElemStatus, s.NS)
		ok := true
		for v := range set {
			if n := s.name(v); n != "NodeStatusSuccess" && n != "NodeStatusSkipped" {
				ok = false
			}
		}
		r.Check(ok, "isSucceed: next node only when this one ∈ {"+strings.Join(set.Names(s.NS), ",")+"}", e.InstrPos(p.Instrs[len(p.Instrs)-1]),
			"isSucceed moves on to the next node although this one is neither finished nor skipped", e.FactsStr("edge conditions: ", lits))
	}
	exitIdx, okExit := l.ExitEdge()
	for _, b := range fn.Blocks {
		for _, in := range b.Instrs {
			rt, ok := in.(*ssa.Return)
			if !ok || !e.Facts(fn).Reachable(b) {
				continue
			}
			v := ir.Resolve(rt.Results[0])
			var vals []ssa.Value
			if u, ok := v.(*ssa.UnOp); ok && u.Op == token.MUL {
				vals = ir.StoresTo(u.X)
			} else {
				vals = []ssa.Value{v}
			}
			_ = vals
		}
	}
	// stores of true into the result (or returns of true): only outside the loop via the exit edge
	check := func(site ssa.Instruction, val ssa.Value) {
		bv, isC := ir.ConstBool(val)
		if !isC {
			r.Unknown("isSucceed: non-constant result", e.InstrPos(site), e.C.Render(val))
			return
		}
		if !bv {
			r.OK("isSucceed: result false", e.InstrPos(site), "")
			return
		}
		ok := false
		if okExit {
			reach := ir.BlocksReachableFrom(fn.Blocks[0], func(from *ssa.BasicBlock, idx int) bool { return from == l.Header && idx == exitIdx })
			ok = !reach[site.Block()] && site.Block() != fn.Blocks[0]
		}
		r.Check(ok, "isSucceed: result true only via loop exhaustion", e.InstrPos(site), "isSucceed can answer true before every node has been examined")
	}
	for _, b := range fn.Blocks {
		if !e.Facts(fn).Reachable(b) {
			continue
		}
		for _, in := range b.Instrs {
			switch x := in.(type) {
			case *ssa.Return:
				if _, isLoad := ir.Resolve(x.Results[0]).(*ssa.UnOp); !isLoad {
					check(x, x.Results[0])
				}
			case *ssa.Store:
				if al, ok := x.Addr.(*ssa.Alloc); ok && al.Type().String() == "*bool" {
					check(x, x.Val)
				}
			}
		}
	}
}

func c04ErrorPairing(e *Env, s *Sched) {
	r := e.R
	r.Rule("C04.error-pairing", "MPT", "status:=Error paired with a lastError write", 3)
	// the worker, and the scheduling thread itself (a step can also be failed before
	// it is launched: a precondition that cannot be evaluated, a refused slot)
	fns := []*ssa.Function{s.Worker}
	for _, lf := range sortedFns(s.LoopFns) {
		if lf != s.Worker {
			fns = append(fns, lf)
		}
	}
	for _, w := range fns {
		who := "worker"
		if w != s.Worker {
			who = "loop " + shortName(w)
		}
		var lastErrStores []ssa.Instruction
		for _, ev := range e.C.FieldStores(w, e.schedFields().LastError) {
			if ev.Val != nil && ir.IsNilConst(ev.Val) {
				continue
			}
			lastErrStores = append(lastErrStores, ev.Site)
		}
		if w != s.Worker && s.IsReady != nil && (w == s.IsReady || e.inlinedSet(s.IsReady, nil)[w]) {
			continue // the readiness function's marks follow an upstream failure that was recorded (C02.mark-table)
		}
		for _, ev := range s.statusEvents(w) {
			k, ok := s.constOf(ev)
			// the scheduling thread labelling a step failed - or canceled, which the outcome
			// only shows when the cancel flag is up
			if !ok || (k != s.val("NodeStatusError") && !(w != s.Worker && k == s.val("NodeStatusCancel"))) {
				continue
			}
			viaReady := false
			for _, v := range ev.Via {
				if s.IsReady != nil && (v == s.IsReady || e.inlinedSet(s.IsReady, nil)[v]) {
					viaReady = true
				}
			}
			if viaReady {
				continue
			}
			if k == s.val("NodeStatusCancel") && HasVal(e.DCS(ev.Site), isCanceledCall, true) {
				continue // under the cancel flag the run is reported canceled
			}
			if w == s.Worker {
				if !sameNode(ev.Root, s.WorkerNode) {
					continue
				}
			} else if s.isHandlerNode(ir.Deep(ev.Root)) || s.isHandlerNode(ev.Root) || !strings.HasSuffix(ir.NamedType(ev.Root.Type()), ".Node") {
				continue // a failing handler does not change the run's outcome (C04.handler-no-lasterror)
			}
			paired := false
			for _, ls := range lastErrStores {
				if ls.Block() == ev.Site.Block() {
					paired = true
				}
				if ir.Precedes(ls, ev.Site) && sameGuards(e, ls, ev.Site) {
					paired = true
				}
			}
			if !paired {
				bad, _ := ir.Bypass(ev.Site, nil, ir.PathQuery{
					Stop: func(in ssa.Instruction) bool {
						for _, ls := range lastErrStores {
							if ls == in {
								return true
							}
						}
						return false
					},
					Bad: func(in ssa.Instruction) bool {
						_, isSend := in.(*ssa.Send)
						if w != s.Worker {
							// the scheduling thread: the next iteration, a launch, the end of the loop
							if _, isGo := in.(*ssa.Go); isGo {
								return true
							}
							if j, isJ := in.(*ssa.Jump); isJ && j.Block().Succs[0].Dominates(j.Block()) {
								return true
							}
						}
						return ir.IsReturn(in) || isSend
					}})
				paired = bad == nil
			}
			label := "Error"
			if k == s.val("NodeStatusCancel") {
				label = "Cancel"
			}
			r.Check(paired, who+": status:="+label+" paired with lastError ["+shortSite(e, ev)+"]", e.InstrPos(ev.Site),
				"a step is labelled failed / canceled on a path that neither records an error in lastError nor runs under the cancel flag: the run would be reported finished (and the success handler run) although a step did not succeed")
		}
	}
}

// appendedConsts returns the constant elements appended by a builtin append
// call with a variadic literal.
func appendedElems(c *ssa.Call) []ssa.Value {
	bi, ok := c.Call.Value.(*ssa.Builtin)
	if !ok || bi.Name() != "append" || len(c.Call.Args) != 2 {
		return nil
	}
	sl, ok := c.Call.Args[1].(*ssa.Slice)
	if !ok {
		return nil
	}
	al, ok := sl.X.(*ssa.Alloc)
	if !ok {
		return nil
	}
	var out []ssa.Value
	for _, ref := range *al.Referrers() {
		if ia, ok := ref.(*ssa.IndexAddr); ok {
			for _, r2 := range *ia.Referrers() {
				if st, ok := r2.(*ssa.Store); ok {
					out = append(out, st.Val)
				}
			}
		}
	}
	return out
}

func c04Handlers(e *Env, s *Sched) {
	r := e.R
	r.Rule("C04.after-wait", "MPT", "handler selection after wg.Wait(), outside the loop", 2)
	loopFn := s.Loop
	loopFns := sortedFns(s.LoopFns)
	var wait ssa.Instruction
	for _, lf := range loopFns {
		for _, ci := range ir.CallsIn(lf, func(c *ssa.CallCommon) bool { return ir.IsCallTo(c, "(*sync.WaitGroup).Wait") }) {
			wait = ci
		}
	}
	if wait == nil {
		r.Bad("loop: wg.Wait()", e.Pos(loopFn.Pos()), "the scheduling function never waits for its workers")
		return
	}
	// not inside a loop (in its own function or, lifted through single-call-site helpers, in a caller), and after the launch
	inLoop := false
	for cur := wait; cur != nil; {
		if ir.InnermostLoop(ir.Loops(cur.Parent()), cur.Block()) != nil {
			inLoop = true
		}
		us := ir.UniqueSite(cur.Parent())
		if us == nil || !s.inLoop(us.Parent()) {
			break
		}
		cur = us
	}
	r.Check(!inLoop && !s.after(wait, s.Launch), "loop: wg.Wait() after the scheduling loop", e.InstrPos(wait),
		"wg.Wait() is inside the scheduling loop or before the launch")
	statusFn := e.FnQuiet(schedRel, "(*Scheduler).Status")
	var statusCalls []*ssa.Call
	for _, lf := range loopFns {
		for _, ci := range ir.CallsIn(lf, func(c *ssa.CallCommon) bool { return c.StaticCallee() == statusFn && statusFn != nil }) {
			if c, ok := ci.(*ssa.Call); ok {
				statusCalls = append(statusCalls, c)
			}
		}
	}
	for _, sc := range statusCalls {
		r.Check(s.after(wait, sc), "loop: Status(g) that selects handlers after wg.Wait()", e.InstrPos(sc),
			"the outcome used to select handlers is computed before all workers have finished")
	}

	r.Rule("C04.handler-table", "DCS+VF", "handler ↔ outcome table; onExit last and unconditional; one run per element", 5)
	_, hnames := e.EnumOfString("internal/dag", "HandlerType")
	want := map[string]string{"HandlerOnSuccess": "StatusSuccess", "HandlerOnFailure": "StatusError", "HandlerOnCancel": "StatusCancel"}
	isStatusCall := func(v ssa.Value) bool {
		c, ok := ir.Deep(v).(*ssa.Call)
		return ok && c.Call.StaticCallee() == statusFn && statusFn != nil
	}
	// the handler loop, by role: a loop of the scheduling function (or one of its
	// helpers) whose body runs sc.handlers[element] through a function that reaches Execute
	var hl *ir.Loop
	var hlLoops []*ir.Loop
	var runnerCalls []*ssa.Call
	for _, lf := range loopFns {
		ls := ir.Loops(lf)
		for _, l := range ls {
			if l.Ranged == nil || l.Elem == nil {
				continue
			}
			var calls []*ssa.Call
			for b := range l.Blocks {
				for _, in := range b.Instrs {
					c, ok := in.(*ssa.Call)
					if !ok || c.Call.StaticCallee() == nil || !e.ReachesRepo(c.Call.StaticCallee(), func(x *ssa.Function) bool { return x == s.Execute }) {
						continue
					}
					calls = append(calls, c)
				}
			}
			if len(calls) > 0 && strings.HasSuffix(ir.NamedType(l.Elem.Type()), "internal/dag.HandlerType") {
				hl, hlLoops, runnerCalls = l, ls, calls
			}
		}
	}
	if hl == nil {
		r.Bad("loop: handlers run by ranging over the slice that ends with onExit", e.InstrPos(wait),
			"no loop over handler types that runs the selected handlers was found after the workers were awaited")
		return
	}
	// every way the ranged list can be produced: its elements in order, and the conditions of that way
	type alt struct {
		lits []ir.NLit
		seq  []string
		pos  string
		ok   bool
	}
	var alts func(v ssa.Value, lits []ir.NLit, depth int) []alt
	constsOf := func(vals []ssa.Value) ([]string, bool) {
		var out []string
		for _, el := range vals {
			str, isS := ir.ConstString(el)
			if !isS || !strings.HasSuffix(ir.NamedType(el.Type()), "internal/dag.HandlerType") {
				return nil, false
			}
			out = append(out, hnames[str])
		}
		return out, true
	}
	alts = func(v ssa.Value, lits []ir.NLit, depth int) []alt {
		v = ir.Resolve(v)
		if depth > 8 {
			return []alt{{lits: lits, pos: "-"}}
		}
		if ir.IsNilConst(v) {
			return []alt{{lits: lits, ok: true, pos: "-"}}
		}
		switch x := v.(type) {
		case *ssa.Phi:
			var out []alt
			for k, ed := range x.Edges {
				el := append(append([]ir.NLit{}, lits...), e.DCSPhiEdge(x.Block(), k)...)
				out = append(out, alts(ed, el, depth+1)...)
			}
			return out
		case *ssa.Slice:
			// a slice literal: []T{a, b}
			if al, isA := x.X.(*ssa.Alloc); isA {
				type st struct {
					idx int64
					v   ssa.Value
				}
				var stores []st
				for _, ref := range *al.Referrers() {
					if ia, isIA := ref.(*ssa.IndexAddr); isIA {
						k, _ := ir.ConstInt(ia.Index)
						for _, r2 := range *ia.Referrers() {
							if sto, isS := r2.(*ssa.Store); isS && sto.Addr == ia {
								stores = append(stores, st{k, sto.Val})
							}
						}
					}
				}
				sort.Slice(stores, func(i, j int) bool { return stores[i].idx < stores[j].idx })
				var vals []ssa.Value
				for _, q := range stores {
					vals = append(vals, q.v)
				}
				seq, ok := constsOf(vals)
				return []alt{{lits: append(append([]ir.NLit{}, lits...), e.DCS(x)...), seq: seq, ok: ok, pos: e.InstrPos(x)}}
			}
		case *ssa.Call:
			if els := appendedElems(x); len(els) == 1 {
				// the element looked up in a constant table (`h, ok := handlerByStatus[status]`):
				// one way per entry
				if lk, which, field, ents, okT := e.tableLookup(els[0]); okT && which == 0 && field == "" {
					var here []ir.NLit
					for _, l := range e.DCS(x) {
						if l.Kind == "val" && l.Pol {
							if lk2, w2, _, _, ok2 := e.tableLookup(l.V); ok2 && lk2 == lk && w2 == 1 {
								continue // `ok` holds by construction in every entry's case
							}
						}
						here = append(here, l)
					}
					var out []alt
					for _, tc := range tableCases(lk, ents) {
						if tc.Entry == nil {
							continue
						}
						seq, ok := constsOf([]ssa.Value{tc.Value("")})
						for _, a := range alts(x.Call.Args[0], append(append(append([]ir.NLit{}, lits...), here...), tc.Lits...), depth+1) {
							out = append(out, alt{lits: a.lits, seq: append(append([]string{}, a.seq...), seq...), ok: a.ok && ok, pos: e.InstrPos(x)})
						}
					}
					return out
				}
			}
			if els := appendedElems(x); els != nil {
				seq, ok := constsOf(els)
				here := e.DCS(x)
				var out []alt
				for _, a := range alts(x.Call.Args[0], append(append([]ir.NLit{}, lits...), here...), depth+1) {
					out = append(out, alt{lits: a.lits, seq: append(append([]string{}, a.seq...), seq...), ok: a.ok && ok, pos: e.InstrPos(x)})
				}
				return out
			}
			if h := x.Call.StaticCallee(); h != nil && s.inLoop(h) {
				var out []alt
				for _, b := range h.Blocks {
					for _, in := range b.Instrs {
						if rt, isR := in.(*ssa.Return); isR && len(rt.Results) == 1 && e.Facts(h).Reachable(b) {
							for _, rv := range RetVals(rt, 0) {
								out = append(out, alts(rv, append(append([]ir.NLit{}, lits...), e.DCS(rt)...), depth+1)...)
							}
						}
					}
				}
				return out
			}
		}
		return []alt{{lits: lits, pos: e.InstrPos(hl.Header.Instrs[0])}}
	}
	all := alts(hl.Ranged, nil, 0)
	seenH := map[string]bool{}
	okExit, okShape := true, true
	var exitPos string
	bad := map[string][]string{}
	for _, a := range all {
		if !a.ok {
			okShape = false
			continue
		}
		if len(a.seq) == 0 || a.seq[len(a.seq)-1] != "HandlerOnExit" {
			okExit = false
		}
		exitPos = a.pos
		set := ir.EnumSet{}
		for _, tl := range e.expandTableLits(a.lits) {
			for v := range ir.Restrict(tl, isStatusCall, s.SS) {
				set[v] = true
			}
		}
		if len(set) == 0 {
			continue // infeasible combination of branches
		}
		has := map[string]bool{}
		for i, hn := range a.seq {
			has[hn] = true
			seenH[hn] = true
			if hn == "HandlerOnExit" {
				if i != len(a.seq)-1 {
					okExit = false
				}
				continue
			}
			st, known := want[hn]
			if !known || !(len(set) == 1 && set[ConstVal(s.SS, st)]) || i != 0 {
				bad[hn] = append(bad[hn], "selected under outcome(s) {"+strings.Join(set.Names(s.SS), ",")+"}")
			}
		}
		// and the other way round: an outcome's handler is in every list produced under that outcome
		for hn, st := range want {
			if set[ConstVal(s.SS, st)] && !has[hn] {
				bad[hn] = append(bad[hn], "not selected on a way taken under "+st)
			}
		}
	}
	if !okShape {
		r.Unknown("loop: the list of handlers to run", e.InstrPos(hl.Header.Instrs[0]), "the list the handler loop ranges over is not built from handler-type constants (appends, slice literals, selection helpers)")
		return
	}
	var hns []string
	for hn := range want {
		hns = append(hns, hn)
	}
	sort.Strings(hns)
	for _, hn := range hns {
		if !seenH[hn] {
			r.Bad("loop: "+hn+" appended only under "+want[hn], e.InstrPos(wait), "handler "+hn+" is never selected")
			continue
		}
		r.Check(len(bad[hn]) == 0, "loop: "+hn+" appended only under "+want[hn], e.InstrPos(hl.Header.Instrs[0]),
			"handler "+hn+" does not run exactly for outcome "+want[hn]+": "+strings.Join(dedupe(bad[hn]), "; "))
	}
	r.Check(okExit && s.after(wait, hl.Header.Instrs[0]), "loop: onExit appended unconditionally after Wait", exitPos,
		"the exit handler is not the last element of every list of handlers that is run (it would be skipped for some outcome, or not run last)")
	r.OK("loop: handlers run by ranging over the slice that ends with onExit", e.InstrPos(hl.Header.Instrs[0]), "onExit is the last element of the ranged slice")
	// one runner call per element, on sc.handlers[h]
	for _, c := range runnerCalls {
		okArg := false
		for _, a := range c.Call.Args {
			if lk, isL := ir.Resolve(a).(*ssa.Lookup); isL {
				if p, okp := e.C.PathOf(lk.X); okp && p.Suffix(e.schedFields().Handlers) && ir.Resolve(lk.Index) == ir.Resolve(hl.Elem) {
					okArg = true
				}
			}
		}
		inner := ir.InnermostLoop(hlLoops, c.Block())
		r.Check(okArg && inner == hl, "handler loop: run sc.handlers[h] once for the current element", e.InstrPos(c),
			"the handler runner is not applied to the handler of the current slice element exactly once per element")
	}
	if len(runnerCalls) != 1 {
		r.Bad("handler loop: exactly one runner call", e.InstrPos(hl.Header.Instrs[0]), sprintf("found %d calls that execute a handler inside the handler loop", len(runnerCalls)))
	}

	r.Rule("C04.handler-no-lasterror", "VF", "no possibly non-nil lastError write after handler selection", 0)
	var lastErrEvs []ir.StoreEvent
	for _, lf := range loopFns {
		for _, ev := range e.C.FieldStores(lf, e.schedFields().LastError) {
			if len(ev.Via) > 0 && s.inLoop(ev.Via[0]) {
				continue
			}
			lastErrEvs = append(lastErrEvs, ev)
		}
	}
	for _, ev := range lastErrEvs {
		if !s.after(wait, ev.Site) {
			continue
		}
		fl := &ir.Flow{C: e.C, Source: func(v ssa.Value) bool {
			if ir.IsNilConst(v) {
				return true
			}
			c, ok := v.(*ssa.Call)
			return ok && c.Call.StaticCallee() != nil && returnsOnlyNil(c.Call.StaticCallee())
		}}
		ok := ev.Val != nil && fl.All(ev.Val)
		r.Check(ok, "loop: lastError written after handler selection is always nil", e.InstrPos(ev.Site),
			"a handler's failure is recorded in lastError after the handlers were selected: a run whose steps all succeeded would be reported failed although onSuccess ran and onFailure did not",
			"value: "+e.C.Render(ev.Val))
	}
}

// returnsOnlyNil: every return of the (single error result) function is the nil constant.
func returnsOnlyNil(fn *ssa.Function) bool {
	if fn.Blocks == nil || fn.Signature.Results().Len() != 1 {
		return false
	}
	for _, b := range fn.Blocks {
		for _, in := range b.Instrs {
			rt, ok := in.(*ssa.Return)
			if !ok {
				continue
			}
			v := rt.Results[0]
			if u, ok := v.(*ssa.UnOp); ok && u.Op == token.MUL {
				for _, st := range ir.StoresTo(u.X) {
					if !ir.IsNilConst(st) {
						return false
					}
				}
				continue
			}
			if !ir.IsNilConst(v) {
				return false
			}
		}
	}
	return true
}

func c04PrecondFirst(e *Env, s *Sched) {
	r := e.R
	r.Rule("C04.precond-first", "DCS", "Agent.Run: acts only after the DAG's preconditions were found met", 4)
	a := e.agentRoles()
	if a.Run == nil {
		return
	}
	agentOrdered(e, "the preconditions were met", a.PassedGuard(apiEval),
		[]string{apiSchedule, apiHistory, apiServe},
		"runs / records / binds although the DAG's own preconditions were not (yet) found to be met",
		// a DAG without preconditions has none to meet
		func(lits []ir.NLit) bool {
			for _, l := range lits {
				if l.Kind != "cmp" {
					continue
				}
				if x, isLen := lenArg(l.X); isLen && e.IsFieldRead(x, nil, "Preconditions") {
					if k, isC := ir.ConstInt(l.Y); isC && ((l.Op == token.LEQ || l.Op == token.EQL) && k == 0 || l.Op == token.LSS && k == 1) {
						return true
					}
				}
			}
			return false
		})
	// the preconditions check itself evaluates the DAG's preconditions and returns the error
	holders := a.Holders(apiEval)
	if len(holders) != 1 {
		r.Unknown("the agent's precondition check", e.Pos(a.Run.Pos()), sprintf("%d functions of the agent package call dag.EvalConditions", len(holders)))
		return
	}
	cp := holders[0]
	{
		ok := false
		for _, ci := range ir.CallsIn(cp, func(c *ssa.CallCommon) bool { return ir.IsCallTo(c, apiEval) }) {
			if e.IsFieldRead(ci.Common().Args[0], nil, "dag.Preconditions") {
				ok = true
			}
		}
		r.Check(ok, "checkPreconditions: evaluates dag.Preconditions", e.Pos(cp.Pos()), "the agent no longer evaluates the DAG's preconditions")
		// returns non-nil when EvalConditions != nil
		okRet := true
		for _, b := range cp.Blocks {
			for _, in := range b.Instrs {
				rt, isR := in.(*ssa.Return)
				if !isR || !e.Facts(cp).Reachable(b) || len(rt.Results) == 0 {
					continue
				}
				lits := e.DCS(rt)
				failed := false
				for _, l := range lits {
					if l.Kind == "cmp" && l.Op == token.NEQ && ir.IsNilConst(l.Y) && calleeIs(l.X, "dag.EvalConditions") {
						failed = true
					}
				}
				if failed && ir.IsNilConst(rt.Results[len(rt.Results)-1]) {
					okRet = false
				}
			}
		}
		r.Check(okRet, "checkPreconditions: unmet preconditions return the error", e.Pos(cp.Pos()), "unmet DAG preconditions are reported as met (nil returned on the failure edge)")
	}
}

// agentOrdered checks that every call of the agent's Run (closures included,
// judged at their creation site; go and defer statements included) that performs
// one of the outside calls `apis` - itself or through helpers of the package,
// whatever they are called - is dominated by the guard. `allow` names the
// documented exceptions.
func agentOrdered(e *Env, guardName string, guard func([]ir.NLit) bool, apis []string, why string, allow func([]ir.NLit) bool) {
	r := e.R
	a := e.agentRoles()
	fn := a.Run
	if fn == nil {
		return
	}
	// Run and the helpers of the agent package only it calls (`Run` = `setup` + `execute`):
	// a call of such a helper is not itself an effect site, its body is looked at with the
	// call's conditions (DCS carries the call-site context)
	body := e.inlinedSet(fn, nil)
	var hosts []*ssa.Function
	for _, g := range sortedFns(body) {
		if g == fn || (a.inPkg(g) && g.Parent() == nil) {
			hosts = append(hosts, ir.WithClosures(g)...)
		}
	}
	seenHost := map[*ssa.Function]bool{}
	for _, f := range hosts {
		if seenHost[f] {
			continue
		}
		seenHost[f] = true
		for _, ci := range ir.CallsIn(f, func(c *ssa.CallCommon) bool { return len(a.Does(c, apis)) > 0 }) {
			if g := ci.Common().StaticCallee(); g != nil && g != fn && body[g] && a.inPkg(g) && g.Parent() == nil {
				if _, plain := ci.(*ssa.Call); plain {
					continue // examined inside
				}
			}
			site := ssa.Instruction(ci)
			host := f
			for d := 0; d < 6; d++ {
				if host.Parent() != nil {
					// a closure: the place it is created at
					var mcSite ssa.Instruction
					for _, b := range host.Parent().Blocks {
						for _, in := range b.Instrs {
							if mc, ok := in.(*ssa.MakeClosure); ok && mc.Fn == host {
								mcSite = mc
							}
						}
					}
					if mcSite == nil {
						break
					}
					site, host = mcSite, host.Parent()
					continue
				}
				// a helper that is deferred or started with go (`defer a.closeHistory()`): the
				// conditions are those of the defer / go statement (a plain call is followed by DCS itself)
				us := ir.UniqueSite(host)
				if host == fn || us == nil {
					break
				}
				if _, plain := us.(*ssa.Call); plain {
					break
				}
				site, host = us, us.Parent()
			}
			lits := e.DCS(site)
			via := ""
			if g := ci.Common().StaticCallee(); a.inPkg(g) {
				via = " (through " + shortName(g) + ")"
			}
			// every way of reaching the site passes the guard: judged on the dominating
			// conditions, else on each reaching path with the agent's helpers expanded
			// (a guard written in place, `if len(pre) > 0 { if err := eval(pre); err != nil { return } }`,
			// is a disjunction no single dominating edge carries)
			accepted := func(l []ir.NLit) bool { return guard(l) || (allow != nil && allow(l)) }
			okSite := accepted(lits)
			// a site inside one of Run's helpers: the ways of reaching the helper's call in Run
			top := site
			for d := 0; d < 4 && top.Parent() != fn; d++ {
				us := ir.UniqueSite(top.Parent())
				if us == nil {
					break
				}
				top = us
			}
			if !okSite {
				okSite = true
				for _, way := range e.waysTo(top) {
					way = append(append([]ir.NLit{}, way...), lits...)
					if accepted(way) {
						continue
					}
					for _, alt := range e.expandHelperCalls(way, 0) {
						if !accepted(alt) {
							okSite = false
						}
					}
				}
			}
			for _, api := range a.Does(ci.Common(), apis) {
				r.Check(okSite, "Agent.Run: "+apiShort(api)+" only after "+guardName, e.InstrPos(ci),
					"this call"+via+" "+why, e.FactsStr("dominating conditions: ", lits))
			}
		}
	}
}

func c04HandlerStatus(e *Env, s *Sched) {
	r := e.R
	r.Rule("C04.handler-status", "DCS", "runHandlerNode: Success only under Execute()==nil", 2)
	fn := s.handlerRunner()
	if fn == nil {
		r.Unknown("the handler runner", schedRel, "no function called on a handler-table node after the workers were awaited reaches Execute")
		return
	}
	isDry := func(v ssa.Value) bool {
		p, ok := e.C.PathOf(v)
		return (ok && p.Dotted() == e.schedFields().Dry) || e.isDryFlag(v, 0)
	}
	var evs []ir.StoreEvent
	for _, g := range sortedFns(e.inlinedSet(fn, nil)) {
		evs = append(evs, s.statusEvents(g)...)
	}
	type hcase struct {
		ev   ir.StoreEvent
		k    int64
		lits []ir.NLit
	}
	var hcases []hcase
	for _, ev := range evs {
		// a store made inside a helper that belongs to the runner is examined there
		if len(ev.Via) > 0 && e.inlinedSet(fn, nil)[ev.Via[0]] {
			continue
		}
		cs, ok := s.cases(ev)
		if !ok {
			r.Unknown("runHandlerNode: status store of a computed value", e.InstrPos(ev.Site), "value written: "+e.C.Render(ev.Val))
			continue
		}
		for _, c := range cs {
			hcases = append(hcases, hcase{ev, c.K, c.Lits})
		}
	}
	for _, hc := range hcases {
		ev, k, lits := hc.ev, hc.k, hc.lits
		execNil, execErr, setupErr := false, false, false
		for _, l := range lits {
			if l.Kind == "cmp" && ir.IsNilConst(l.Y) {
				isExec := func(x ssa.Value) bool { return s.errSource(x) == "exec" }
				isSetup := func(x ssa.Value) bool { return s.errSource(x) == "setup" }
				if l.Op == token.EQL && (isExec(l.X) || allNonNil(l.X, isExec)) {
					execNil = true
				}
				if l.Op == token.NEQ && allNonNil(l.X, isExec) {
					execErr = true
				}
				if l.Op == token.NEQ && allNonNil(l.X, isSetup) {
					setupErr = true
				}
			}
		}
		switch s.name(k) {
		case "NodeStatusSuccess":
			r.Check(execNil || HasVal(lits, isDry, true), "runHandlerNode: Success under Execute()==nil (or dry)", e.InstrPos(ev.Site),
				"a handler is labelled finished although its execution did not succeed", e.FactsStr("dominating conditions: ", lits))
		case "NodeStatusError":
			r.Check(execErr || setupErr, "runHandlerNode: Error under a setup/Execute error", e.InstrPos(ev.Site),
				"a handler is labelled failed without an error", e.FactsStr("dominating conditions: ", lits))
		}
	}
}
