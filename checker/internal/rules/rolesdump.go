package rules

import (
	"fmt"
	"go/types"
	"sort"

	"golang.org/x/tools/go/ssa"

	"bdcheck/internal/ir"
	"bdcheck/internal/load"
	"bdcheck/internal/report"
)

// DumpRoles prints what the role resolution finds on a tree (debug aid).
func DumpRoles(p *load.Program) {
	e := NewEnv(p, report.New("roles", "debug", 0))
	s := e.resolveSched()
	fn := func(f *ssa.Function) string {
		if f == nil {
			return "<nil>"
		}
		return ShortFn(f)
	}
	set := func(m map[*ssa.Function]bool) []string {
		var out []string
		for f := range m {
			out = append(out, fn(f))
		}
		sort.Strings(out)
		return out
	}
	fmt.Println("sched.ok", s.ok)
	fmt.Println("Loop", fn(s.Loop), "LaunchFn", fn(s.LaunchFn), "GateFn", fn(s.GateFn), "Worker", fn(s.Worker), "IsReady", fn(s.IsReady))
	fmt.Println("LoopFns", set(s.LoopFns))
	fmt.Println("WorkerFns", set(s.WorkerFns))
	if s.LoopNode != nil {
		fmt.Println("LoopNode", e.C.Render(s.LoopNode), "WorkerNode", e.C.Render(s.WorkerNode))
	}
	for _, f := range e.RepoFuncsSorted() {
		if f.Package() == e.P.Pkg(schedRel) && f.Signature.Results().Len() >= 1 && len(f.Blocks) >= 1 && f.Parent() == nil {
			if t, ok := f.Signature.Results().At(0).Type().Underlying().(*types.Basic); ok && t.Kind() == types.Bool {
				fmt.Println("  bool fn", fn(f), "blocks", len(f.Blocks), "uniqueSite", ir.UniqueSite(f) != nil, "callsites", len(e.StaticCallSites(f)))
			}
		}
	}
	g := e.graphRoles()
	fmt.Println("graph: AddEdge", fn(g.AddEdge), "EdgeLoop", fn(g.EdgeLoop), "Setup", fn(g.Setup), "HasCycle", fn(g.HasCycle), "Reset", fn(g.Reset), "Pred", g.Pred, "Succ", g.Succ, "AllNodes", g.AllNodes, "ok", g.ok, g.why)
	n := e.nodeRoles()
	fmt.Printf("node: %+v\n", *n)
	a := e.agentRoles()
	fmt.Println("agent: Run", fn(a.Run))
	for _, api := range []string{apiEval, apiProbe, apiSchedule, apiHistory + "Open", apiServe, apiNewGraph} {
		var hs []string
		for _, h := range a.Holders(api) {
			hs = append(hs, fn(h))
		}
		fmt.Println("  holders of", api, hs)
	}
}
