// Package rules holds the repository-specific rule instances, one file per
// property (DESIGN.md section 4).
package rules

import (
	"fmt"
	"go/constant"
	"go/token"
	"go/types"
	"sort"
	"strings"

	"golang.org/x/tools/go/callgraph"
	"golang.org/x/tools/go/ssa"

	"bdcheck/internal/ir"
	"bdcheck/internal/load"
	"bdcheck/internal/report"
)

// Env is what a rule sees.
type Env struct {
	P             *load.Program
	C             *ir.Ctx
	R             *report.Report
	facts         map[*ssa.Function]*ir.FuncFacts
	groles        *GraphRoles
	nroles        *NodeRoles
	aroles        *AgentRoles
	sfields       *SchedFields
	noEvalT       string
	sinkFields    map[string]string
	fieldStoreIdx map[string][]ssa.Value
	inWays        bool
	noEvalF       string
	tables        map[*ssa.Global][]TableEntry
	tablesOK      map[*ssa.Global]bool
	anySite       bool // splitOnCall accepts helpers with several call sites (expandBound)
}

func NewEnv(p *load.Program, r *report.Report) *Env {
	e := &Env{P: p, C: ir.NewCtx(), R: r, facts: map[*ssa.Function]*ir.FuncFacts{}}
	ir.SetUniqueSites(e.uniqueSites())
	hookEnv = e
	return e
}

// uniqueSites: repository functions with exactly one static call site, never
// used as a value, without dynamic callers in the call graph (the virtual
// inlining view, ir/inline.go).
func (e *Env) uniqueSites() map[*ssa.Function]ssa.CallInstruction {
	sites := map[*ssa.Function][]ssa.CallInstruction{}
	taken := map[*ssa.Function]bool{}
	for f := range e.P.Funcs {
		if f.Synthetic != "" && f.Parent() == nil && !strings.HasPrefix(f.Name(), "init") {
			continue // compiler-made wrappers (pointer-receiver thunks, bound methods) are not call sites of the program text
		}
		for _, b := range f.Blocks {
			for _, in := range b.Instrs {
				var callee *ssa.Function
				if ci, ok := in.(ssa.CallInstruction); ok {
					callee = ci.Common().StaticCallee()
					if callee != nil && e.P.Funcs[callee] {
						sites[callee] = append(sites[callee], ci)
					}
				}
				for _, op := range in.Operands(nil) {
					if op == nil || *op == nil {
						continue
					}
					g, isF := (*op).(*ssa.Function)
					if !isF {
						if mc, isMC := (*op).(*ssa.MakeClosure); isMC {
							g, isF = mc.Fn.(*ssa.Function)
							_ = g
							isF = false // a closure value: its creation is not a use of a named function
						}
					}
					if isF && g != callee {
						taken[g] = true
					}
				}
				// a closure that is created but not called right where it is created is a value
				if mc, ok := in.(*ssa.MakeClosure); ok {
					if g, ok := mc.Fn.(*ssa.Function); ok {
						called := false
						if refs := mc.Referrers(); refs != nil {
							for _, ref := range *refs {
								if ci, ok := ref.(ssa.CallInstruction); ok && ci.Common().Value == ssa.Value(mc) {
									called = true
								} else {
									taken[g] = true
								}
							}
						}
						if !called {
							taken[g] = true
						}
					}
				}
			}
		}
	}
	out := map[*ssa.Function]ssa.CallInstruction{}
	for f, ss := range sites {
		if len(ss) != 1 || taken[f] {
			continue
		}
		// dynamic callers (interface dispatch, function tables) in the call graph
		// (only a method can be called dynamically without being used as a value:
		// for plain functions the address-taken test above is exact, and the
		// signature-based call graph would only add spurious callers)
		if n := e.P.CG.Nodes[f]; n != nil && f.Signature.Recv() != nil {
			dyn := false
			for _, ed := range n.In {
				if ed.Site != nil && ed.Site != ss[0] && e.P.Funcs[ed.Caller.Func] && ed.Caller.Func.Synthetic == "" {
					dyn = true
				}
			}
			if dyn {
				continue
			}
		}
		out[f] = ss[0]
	}
	return out
}

// Prop is one property's rule set.
type Prop struct {
	ID        string
	Run       func(*Env)
	Technique string // names the deciding method (MANIFEST technique)
	Decided   []string
	NotDec    []string
	Assume    []string
	Stub      bool // registered but not claimed yet
	NeedDeps  bool // the rules look into dependency code: load the whole program in every tier
}

var Props = map[string]*Prop{}

func register(p *Prop) { Props[p.ID] = p }

func (e *Env) Facts(fn *ssa.Function) *ir.FuncFacts {
	if f, ok := e.facts[fn]; ok {
		return f
	}
	f := ir.Facts(fn)
	e.facts[fn] = f
	return f
}

// Fn resolves a function by package (relative to the module) and name; an
// unresolved anchor is an undecided obligation (fails the check).
func (e *Env) Fn(rel, name string) *ssa.Function {
	f := e.P.Func(rel, name)
	if f == nil || f.Blocks == nil {
		f = e.methodByRole(rel, name)
	}
	if f == nil || f.Blocks == nil {
		e.R.Unknown("anchor "+rel+"."+name, "-", "anchor function not found in the current tree (renamed or removed?): the rule cannot be evaluated")
		return nil
	}
	return f
}

// FnQuiet resolves without recording anything.
func (e *Env) FnQuiet(rel, name string) *ssa.Function {
	f := e.P.Func(rel, name)
	if f == nil || f.Blocks == nil {
		f = e.methodByRole(rel, name)
	}
	if f == nil || f.Blocks == nil {
		return nil
	}
	return f
}

// methodByRole: an exported method of an unexported type is part of an
// interface's implementation; the type's own name is not part of any contract.
// "(*impl).Method" that is not found under that type name is the one exported
// method of that name on an unexported type of the package, if there is exactly one.
func (e *Env) methodByRole(rel, name string) *ssa.Function {
	i := strings.Index(name, ").")
	if !strings.HasPrefix(name, "(") || i < 0 {
		return nil
	}
	recv, m := strings.Trim(name[:i], "(*"), name[i+2:]
	if m == "" || !token.IsExported(m) || token.IsExported(recv) {
		return nil
	}
	sp := e.P.Pkg(rel)
	if sp == nil {
		return nil
	}
	var found *ssa.Function
	n := 0
	for f := range e.P.Funcs {
		if f.Package() != sp || f.Parent() != nil || f.Name() != m || f.Signature.Recv() == nil || f.Blocks == nil {
			continue
		}
		rn := typesName(derefT(f.Signature.Recv().Type()))
		if rn == "" || token.IsExported(rn) {
			continue
		}
		found = f
		n++
	}
	if n != 1 {
		return nil
	}
	return found
}

func (e *Env) Pos(p token.Pos) string { return e.P.Pos(p) }

// InstrPos gives the best position for an instruction.
func (e *Env) InstrPos(in ssa.Instruction) string {
	if in == nil {
		return "-"
	}
	if in.Pos().IsValid() {
		return e.P.Pos(in.Pos())
	}
	// search neighbours in the block for a position
	b := in.Block()
	if b != nil {
		idx := ir.InstrIndex(in)
		for d := 1; d < len(b.Instrs); d++ {
			for _, j := range []int{idx - d, idx + d} {
				if j >= 0 && j < len(b.Instrs) && b.Instrs[j].Pos().IsValid() {
					return e.P.Pos(b.Instrs[j].Pos()) + "~"
				}
			}
		}
		return e.P.Pos(b.Parent().Pos()) + "~"
	}
	return "-"
}

// DCS of an instruction, normalised: the dominating conditions inside its
// function, extended with those of the call site when the function has a
// single (plain) call site - the virtual inlining view.
func (e *Env) DCS(in ssa.Instruction) []ir.NLit {
	lits := e.DCSBlock(in.Block())
	f := in.Parent()
	for d := 0; d < 4 && f != nil; d++ {
		site := ir.UniqueSite(f)
		if site == nil {
			break
		}
		if _, isCall := site.(*ssa.Call); !isCall {
			break // go / defer: the callee does not run under the caller's conditions at that moment
		}
		lits = append(lits, e.DCSBlock(site.Block())...)
		f = site.Parent()
	}
	return lits
}

// DCSBlock is the expanded, normalised dominating-condition set of a block.
func (e *Env) DCSBlock(b *ssa.BasicBlock) []ir.NLit {
	ff := e.Facts(b.Parent())
	return ir.NormalizeAll(ff.Expand(ff.DCS(b)))
}

// DCSPhiEdge is the expanded, normalised condition set of the k-th incoming
// edge of a block.
func (e *Env) DCSPhiEdge(b *ssa.BasicBlock, k int) []ir.NLit {
	ff := e.Facts(b.Parent())
	return ir.NormalizeAll(ff.Expand(ff.DCSPhiEdge(b, k)))
}

// DCSEdgeTo is the expanded, normalised condition set of the CFG edge p→s.
func (e *Env) DCSEdgeTo(p, s *ssa.BasicBlock) []ir.NLit {
	ff := e.Facts(p.Parent())
	for i, x := range p.Succs {
		if x == s {
			return ir.NormalizeAll(ff.Expand(ff.DCSEdge(p, i)))
		}
	}
	return nil
}

func (e *Env) RenderN(ls []ir.NLit) []string {
	var out []string
	for _, l := range ls {
		out = append(out, e.C.RenderLit(l))
	}
	sort.Strings(out)
	return out
}

func (e *Env) FactsStr(prefix string, ls []ir.NLit) string {
	return prefix + "{" + strings.Join(e.RenderN(ls), " ; ") + "}"
}

// ---------------------------------------------------------------------------
// literal matchers

// IsFieldRead reports whether v reads the access path `<root>.<dotted suffix>`;
// root==nil accepts any root.
func (e *Env) IsFieldRead(v ssa.Value, root ssa.Value, suffix string) bool {
	p, ok := e.pathThroughParams(v)
	if !ok || !p.Suffix(suffix) {
		return false
	}
	return root == nil || SameValue(p.Root, root)
}

// pathThroughParams is PathOf in the virtual inlining view: a path rooted at a
// parameter of a single-call-site helper continues with the path of the argument
// (`name` inside `find(nodes, name)` called as `find(x.Nodes, req.Body.Step)` is
// req.Body.Step).
func (e *Env) pathThroughParams(v ssa.Value) (ir.Path, bool) {
	var fields []string
	for d := 0; d < 5; d++ {
		p, ok := e.C.PathOf(v)
		root := v
		if ok {
			fields = append(append([]string{}, p.Fields...), fields...)
			root = p.Root
		}
		nr := ir.Deep(root)
		if nr == ir.Resolve(root) || nr == root {
			if len(fields) == 0 {
				return ir.Path{}, false
			}
			return ir.Path{Root: root, Fields: fields}, true
		}
		v = nr
	}
	return ir.Path{}, false
}

// SameValue compares two SSA values, looking through loads of the same
// single-assignment cell.
func SameValue(a, b ssa.Value) bool {
	a, b = ir.Deep(a), ir.Deep(b)
	if a == b {
		return true
	}
	ua, oka := a.(*ssa.UnOp)
	ub, okb := b.(*ssa.UnOp)
	if oka && okb && ua.Op == token.MUL && ub.Op == token.MUL && ua.X == ub.X {
		return true
	}
	// two reads of the same field of the same object (`g.succ` read twice)
	if oka && okb && ua.Op == token.MUL && ub.Op == token.MUL {
		fa, ok1 := ua.X.(*ssa.FieldAddr)
		fb, ok2 := ub.X.(*ssa.FieldAddr)
		if ok1 && ok2 && fa.Field == fb.Field && types.Identical(fa.X.Type(), fb.X.Type()) {
			return sameValueD(fa.X, fb.X, 1)
		}
	}
	return false
}

func sameValueD(a, b ssa.Value, depth int) bool {
	if depth > 4 {
		return false
	}
	a, b = ir.Deep(a), ir.Deep(b)
	if a == b {
		return true
	}
	ua, oka := a.(*ssa.UnOp)
	ub, okb := b.(*ssa.UnOp)
	if oka && okb && ua.Op == token.MUL && ub.Op == token.MUL {
		if ua.X == ub.X {
			return true
		}
		fa, ok1 := ua.X.(*ssa.FieldAddr)
		fb, ok2 := ub.X.(*ssa.FieldAddr)
		if ok1 && ok2 && fa.Field == fb.Field && types.Identical(fa.X.Type(), fb.X.Type()) {
			return sameValueD(fa.X, fb.X, depth+1)
		}
	}
	return false
}

// HasCmp looks for a literal `subject op const` in a normalised literal list.
func HasCmp(ls []ir.NLit, isSubject func(ssa.Value) bool, op token.Token, k int64) bool {
	return impliedBy(ls, func(ls []ir.NLit) bool { return hasCmp(ls, isSubject, op, k) })
}

func hasCmp(ls []ir.NLit, isSubject func(ssa.Value) bool, op token.Token, k int64) bool {
	for _, l := range ls {
		if l.Kind == "cmp" && l.Op == op && isSubject(l.X) {
			if c, ok := ir.ConstInt(l.Y); ok && c == k {
				return true
			}
		}
	}
	return false
}

// HasVal looks for a boolean literal whose value satisfies pred with the polarity.
func HasVal(ls []ir.NLit, pred func(ssa.Value) bool, pol bool) bool {
	return impliedBy(ls, func(ls []ir.NLit) bool { return hasVal(ls, pred, pol) })
}

func hasVal(ls []ir.NLit, pred func(ssa.Value) bool, pol bool) bool {
	for _, l := range ls {
		if l.Kind == "val" && l.Pol == pol && pred(l.V) {
			return true
		}
	}
	return false
}

// HasNilCmp looks for `x != nil` (nonNil=true) or `x == nil`.
func HasNilCmp(ls []ir.NLit, isSubject func(ssa.Value) bool, nonNil bool) bool {
	return impliedBy(ls, func(ls []ir.NLit) bool { return hasNilCmp(ls, isSubject, nonNil) })
}

func hasNilCmp(ls []ir.NLit, isSubject func(ssa.Value) bool, nonNil bool) bool {
	want := token.EQL
	if nonNil {
		want = token.NEQ
	}
	for _, l := range ls {
		if l.Kind == "cmp" && l.Op == want {
			if ir.IsNilConst(l.Y) && isSubject(l.X) {
				return true
			}
			if ir.IsNilConst(l.X) && isSubject(l.Y) {
				return true
			}
		}
	}
	return false
}

// IsCallOf returns a predicate: v is a call whose static callee is fn (or, when
// fn is nil, whose callee name equals name).
func IsCallOf(fn *ssa.Function) func(ssa.Value) bool {
	return func(v ssa.Value) bool {
		c, ok := v.(*ssa.Call)
		return ok && fn != nil && c.Call.StaticCallee() == fn
	}
}

func IsCallNamed(names ...string) func(ssa.Value) bool {
	return func(v ssa.Value) bool {
		c, ok := v.(*ssa.Call)
		return ok && ir.IsCallTo(&c.Call, names...)
	}
}

// CallArgIs reports whether v is a call of fn whose i-th argument is arg.
func CallArgIs(v ssa.Value, fn *ssa.Function, i int, arg ssa.Value) bool {
	c, ok := v.(*ssa.Call)
	if !ok || c.Call.StaticCallee() != fn || i >= len(c.Call.Args) {
		return false
	}
	return SameValue(c.Call.Args[i], arg)
}

// ---------------------------------------------------------------------------
// call graph helpers

// Callers returns the call-graph in-edges of fn that originate in repository code.
func (e *Env) Callers(fn *ssa.Function) []*callgraph.Edge {
	n := e.P.CG.Nodes[fn]
	if n == nil {
		return nil
	}
	var out []*callgraph.Edge
	for _, ed := range n.In {
		if e.P.Funcs[ed.Caller.Func] {
			out = append(out, ed)
		}
	}
	sort.Slice(out, func(i, j int) bool { return out[i].Site.Pos() < out[j].Site.Pos() })
	return out
}

// StaticCallSites returns every call instruction in repository code whose
// static callee is fn (including go/defer), sorted by position.
func (e *Env) StaticCallSites(fn *ssa.Function) []ssa.CallInstruction {
	var out []ssa.CallInstruction
	for f := range e.P.Funcs {
		for _, b := range f.Blocks {
			for _, in := range b.Instrs {
				if ci, ok := in.(ssa.CallInstruction); ok && ci.Common().StaticCallee() == fn {
					out = append(out, ci)
				}
			}
		}
	}
	sort.Slice(out, func(i, j int) bool { return out[i].Pos() < out[j].Pos() })
	return out
}

// Reaches reports whether `to` is reachable from `from` in the call graph
// (through repository and, in the whole-program tier, dependency functions).
func (e *Env) Reaches(from *ssa.Function, to func(*ssa.Function) bool) bool {
	seen := map[*ssa.Function]bool{}
	stack := []*ssa.Function{from}
	for len(stack) > 0 {
		f := stack[len(stack)-1]
		stack = stack[:len(stack)-1]
		if seen[f] {
			continue
		}
		seen[f] = true
		if to(f) {
			return true
		}
		// closures created inside f are considered reachable from f
		for _, a := range f.AnonFuncs {
			stack = append(stack, a)
		}
		// (only a method can be called dynamically without being used as a value:
		// for plain functions the address-taken test above is exact, and the
		// signature-based call graph would only add spurious callers)
		if n := e.P.CG.Nodes[f]; n != nil && f.Signature.Recv() != nil {
			for _, ed := range n.Out {
				stack = append(stack, ed.Callee.Func)
			}
		}
	}
	return false
}

// Contradicts reports whether taking the CFG edge from->Succs[idx] contradicts
// one of the known literals (same SSA operands, complementary test). SSA values
// are fixed within one loop iteration, so this pruning is only valid for path
// searches that do not follow back edges.
func (e *Env) Contradicts(known []ir.NLit, from *ssa.BasicBlock, idx int) bool {
	i, ok := from.Instrs[len(from.Instrs)-1].(*ssa.If)
	if !ok || len(from.Succs) != 2 {
		return false
	}
	alts := e.Facts(from.Parent()).Alternatives(ir.Lit{Cond: i.Cond, Pol: idx == 0, If: i})
	if len(alts) == 0 {
		return false
	}
	for _, a := range alts {
		l := ir.Normalize(a)
		contra := false
		for _, k := range known {
			if l.Kind != k.Kind {
				continue
			}
			if l.Kind == "val" && ir.Resolve(l.V) == ir.Resolve(k.V) && l.Pol != k.Pol {
				contra = true
			}
			if l.Kind == "cmp" && sameOperand(l.X, k.X) && sameOperand(l.Y, k.Y) {
				if (l.Op == token.EQL && k.Op == token.NEQ) || (l.Op == token.NEQ && k.Op == token.EQL) {
					contra = true
				}
			}
		}
		if !contra {
			return false
		}
	}
	return true
}

func sameOperand(a, b ssa.Value) bool {
	a, b = ir.Resolve(a), ir.Resolve(b)
	if a == b {
		return true
	}
	ca, oka := a.(*ssa.Const)
	cb, okb := b.(*ssa.Const)
	if oka && okb {
		if ca.Value == nil || cb.Value == nil {
			return ca.Value == nil && cb.Value == nil
		}
		return ca.Value.ExactString() == cb.Value.ExactString()
	}
	return false
}

// ReachesRepo is call-graph reachability restricted to edges whose resolution
// does not depend on the over-approximation of library interfaces: static
// calls, closures created in a function, and invocations of interfaces that
// the repository itself declares (HistoryStore, DAGStore, Client, Executor ...).
// Calls through library interfaces (io.Closer, slog.Handler ...) and through
// function values other than local closures are not followed.
func (e *Env) ReachesRepo(from *ssa.Function, to func(*ssa.Function) bool) bool {
	seen := map[*ssa.Function]bool{}
	stack := []*ssa.Function{from}
	for len(stack) > 0 {
		f := stack[len(stack)-1]
		stack = stack[:len(stack)-1]
		if f == nil || seen[f] {
			continue
		}
		seen[f] = true
		if to(f) {
			return true
		}
		if !e.P.Funcs[f] {
			continue
		}
		for _, a := range f.AnonFuncs {
			stack = append(stack, a)
		}
		for _, b := range f.Blocks {
			for _, in := range b.Instrs {
				ci, ok := in.(ssa.CallInstruction)
				if !ok {
					continue
				}
				c := ci.Common()
				if sc := c.StaticCallee(); sc != nil {
					stack = append(stack, sc)
					continue
				}
				if c.IsInvoke() && strings.HasPrefix(ir.NamedType(c.Value.Type()), load.ModulePath) {
					// (only a method can be called dynamically without being used as a value:
					// for plain functions the address-taken test above is exact, and the
					// signature-based call graph would only add spurious callers)
					if n := e.P.CG.Nodes[f]; n != nil && f.Signature.Recv() != nil {
						for _, ed := range n.Out {
							if ed.Site == ci {
								stack = append(stack, ed.Callee.Func)
							}
						}
					}
				}
			}
		}
	}
	return false
}

// RepoFuncsSorted returns repository functions in a deterministic order.
func (e *Env) RepoFuncsSorted() []*ssa.Function {
	var out []*ssa.Function
	for f := range e.P.Funcs {
		out = append(out, f)
	}
	sort.Slice(out, func(i, j int) bool {
		if out[i].Pos() != out[j].Pos() {
			return out[i].Pos() < out[j].Pos()
		}
		return out[i].String() < out[j].String()
	})
	return out
}

// ShortFn renders a function name without the module prefix.
func ShortFn(f *ssa.Function) string {
	if f == nil {
		return "?"
	}
	return strings.ReplaceAll(f.String(), load.ModulePath+"/", "")
}

// EnumOf returns the named type and constants of a "pkg/rel".Type.
func (e *Env) EnumOf(rel, typ string) (types.Type, map[int64]string) {
	sp := e.P.Pkg(rel)
	if sp == nil {
		return nil, nil
	}
	t := sp.Type(typ)
	if t == nil {
		return nil, nil
	}
	return t.Type(), ir.EnumConsts(t.Type())
}

// ConstVal looks up an enum constant by name.
func ConstVal(names map[int64]string, name string) int64 {
	for k, n := range names {
		if n == name {
			return k
		}
	}
	return -999
}

func sprintf(f string, a ...any) string { return fmt.Sprintf(f, a...) }

// EnumOfString returns the constants of a named string type: value -> name.
func (e *Env) EnumOfString(rel, typ string) (types.Type, map[string]string) {
	sp := e.P.Pkg(rel)
	out := map[string]string{}
	if sp == nil {
		return nil, out
	}
	t := sp.Type(typ)
	if t == nil {
		return nil, out
	}
	sc := sp.Pkg.Scope()
	for _, name := range sc.Names() {
		if c, ok := sc.Lookup(name).(*types.Const); ok && types.Identical(c.Type(), t.Type()) {
			if c.Val().Kind() == constant.String {
				out[constant.StringVal(c.Val())] = name
			}
		}
	}
	return t.Type(), out
}

// RetVals returns the value(s) a Return yields for result i, looking through
// defer-spilled result cells: the store into the cell in the return's own block
// when there is one, otherwise every store into the cell.
func RetVals(rt *ssa.Return, i int) []ssa.Value {
	v := rt.Results[i]
	u, ok := v.(*ssa.UnOp)
	if !ok || u.Op != token.MUL {
		return []ssa.Value{v}
	}
	al, ok := u.X.(*ssa.Alloc)
	if !ok {
		return []ssa.Value{v}
	}
	var last ssa.Value
	for _, in := range rt.Block().Instrs {
		if st, ok := in.(*ssa.Store); ok && st.Addr == ssa.Value(al) {
			last = st.Val
		}
	}
	if last != nil {
		return []ssa.Value{last}
	}
	// walk up single-predecessor chains
	b := rt.Block()
	for len(b.Preds) == 1 {
		b = b.Preds[0]
		for _, in := range b.Instrs {
			if st, ok := in.(*ssa.Store); ok && st.Addr == ssa.Value(al) {
				last = st.Val
			}
		}
		if last != nil {
			return []ssa.Value{last}
		}
	}
	return ir.StoresTo(al)
}

// impliedBy: the conjunction contains the wanted literal - as written, or in
// every way it can hold once the helpers, one-expression predicates and constant
// tables it mentions are expanded (`n.hasStatus(None)` contains `status == None`).
// The bindings of a predicate's parameters are in force while `has` looks.
func impliedBy(ls []ir.NLit, has func([]ir.NLit) bool) bool {
	if has(ls) {
		return true
	}
	e := hookEnv
	if e == nil || e.inWays || len(ls) == 0 {
		return false
	}
	e.inWays = true
	defer func() { e.inWays = false }()
	all, n := true, 0
	changed := false
	e.ways(ls, func(alt []ir.NLit) {
		n++
		if len(alt) != len(ls) {
			changed = true
		} else {
			for i := range alt {
				if alt[i] != ls[i] {
					changed = true
				}
			}
		}
		if !has(alt) {
			all = false
		}
	})
	return changed && all && n > 0
}

// hookEnv is the environment the literal predicates use for expansion.
var hookEnv *Env

// callSitesAll: the call sites of f in the repository: the static ones and the
// dynamic calls the call graph resolves to f (a handler kept in a dispatch table
// and called through the looked-up function value). Compiler-made thunks are
// call sites like any other here: their parameters map one to one.
func (e *Env) callSitesAll(f *ssa.Function) []ssa.CallInstruction {
	out := e.StaticCallSites(f)
	seen := map[ssa.CallInstruction]bool{}
	for _, ci := range out {
		seen[ci] = true
	}
	if n := e.P.CG.Nodes[f]; n != nil {
		for _, ed := range n.In {
			if ed.Site == nil || seen[ed.Site] || ed.Caller == nil || !e.P.Funcs[ed.Caller.Func] {
				continue
			}
			c := ed.Site.Common()
			if c.IsInvoke() || c.StaticCallee() != nil {
				continue
			}
			// the called value has exactly f's signature (the signature-based graph offers more)
			if !types.Identical(c.Value.Type().Underlying(), f.Signature) {
				continue
			}
			seen[ed.Site] = true
			out = append(out, ed.Site)
		}
	}
	return out
}

// argEverywhere: v satisfies pred - itself, or, being a parameter, at every call
// site of its function (followed a few levels up).
func (e *Env) argEverywhere(v ssa.Value, depth int, pred func(ssa.Value) bool) bool {
	v = ir.Deep(v)
	if pred(v) {
		return true
	}
	p, ok := v.(*ssa.Parameter)
	if !ok || depth > 3 {
		return false
	}
	idx := -1
	for i, q := range p.Parent().Params {
		if q == p {
			idx = i
		}
	}
	sites := e.callSitesAll(p.Parent())
	if len(sites) == 0 || idx < 0 {
		return false
	}
	for _, cs := range sites {
		if idx >= len(cs.Common().Args) || !e.argEverywhere(cs.Common().Args[idx], depth+1, pred) {
			return false
		}
	}
	return true
}

// IsFieldReadAll: IsFieldRead, for a parameter at every call site of its function.
func (e *Env) IsFieldReadAll(v ssa.Value, suffix string) bool {
	if e.argEverywhere(v, 0, func(x ssa.Value) bool { return e.IsFieldRead(x, nil, suffix) }) {
		return true
	}
	// through the fields of a small request object the value was packed into
	// (`req.body.RequestID` with `req.body = params.Body`): every alternative of the deep
	// path ends in the wanted fields
	ps, ok := e.DeepPaths(v)
	if !ok || len(ps) == 0 {
		return false
	}
	for _, p := range ps {
		d := p.Dotted()
		if d != suffix && !strings.HasSuffix(d, "."+suffix) {
			return false
		}
	}
	return true
}
