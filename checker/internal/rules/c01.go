package rules

import (
	"go/token"
	"go/types"
	"strings"

	"golang.org/x/tools/go/ssa"

	"bdcheck/internal/ir"
)

func init() {
	register(&Prop{ID: "C01", Run: runC01,
		Technique: "static analysis: edge-dominance condition sets + enum table on go/ssa, who-may-call/who-may-write over the call graph",
		Decided: []string{
			"the single goroutine launch that can execute a step is dominated by `status==not-started` and `isReady(g,node)` for the node being launched (C01.gate)",
			"isReady's accumulator can only stay true across a dependency in the three licensed cells {finished}, {failed & continueOn.failure}, {skipped & continueOn.skipped}, for every NodeStatus constant and the default branch; it is never overwritten with another value (C01.ready-table)",
			"isReady returns non-false only after the range over all dependencies is exhausted (C01.ready-all-deps)",
			"every Depends entry becomes an edge in both adjacency maps or the lookup error is returned; isReady iterates g.to[node.id]; a Depends entry is resolved to the node whose Step.Name equals it (string equality, or a map lookup under the entry) (C01.edges)",
			"the loop goroutine itself flips the node to running between the gate and the go statement (C01.flip-first)",
			"on the retry path the step returns to not-started only after sleeping RetryPolicy.Interval (C01.retry-reset-late)",
			"after that hand-back the old worker stores no further status of the node on its way out, so a relaunched attempt cannot be labelled finished by the previous attempt's goroutine (C01.no-status-after-handback)",
			"no call path reaches (*Node).Execute except through the gated launch and the post-Wait handler runner (C01.single-launch)",
			"Node.Execute invokes the executor's Run itself and returns after it, so the worker's `finished` is written after the command ended (C01.exec-awaited)",
			"finished is written to a graph node only by the worker after its exec loop and under status==running; failed only under an error from setup/exec/teardown (C01.finish-writes)",
			"the edge writer records every pair it is called with: a return that skips the adjacency updates is taken only under a hit in a set keyed by a composite of the two ids or by a text in which a non-digit separates them (C01.edge-every-pair)",
		},
		NotDec: []string{
			"races on the status word between the loop, workers and Signal",
			"that the executor's Run really waits for the child process (os/exec semantics)",
			"timing of the 100 ms poll; correctness over concrete DAG shapes / outcome scripts is implied only through the per-path facts above",
		},
		Assume: []string{"go/types, go/ssa and the edge-dominance computation are correct", "Node.data is reached only through *Node (field is unexported; all stores enumerated)"},
	})
}

func runC01(e *Env) {
	r := e.R
	r.Rule("C01.anchors", "anchor resolution", "launch site, scheduling loop, worker, isReady, NodeStatus", 0)
	s := e.resolveSched()
	if !s.ok {
		return
	}
	c01Gate(e, s)
	c01ReadyTable(e, s, true)
	c01Edges(e, s)
	c01EdgeEveryPair(e, "C01.edge-every-pair")
	c01FlipFirst(e, s)
	c01RetryResetLate(e, s)
	c03Handback(e, s, "C01.no-status-after-handback", false)
	c01SingleLaunch(e, s)
	c01FinishWrites(e, s)
	cSyncRun(e, s, "C01.exec-awaited")
}

// ---------------------------------------------------------------------------

func c01Gate(e *Env, s *Sched) {
	e.R.Rule("C01.gate", "DCS", "launch dominated by status==None and isReady(g,node)", 1)
	lits := e.DCS(s.Launch)
	none := s.val("NodeStatusNone")
	okStatus := HasCmp(lits, s.isStatusOf(s.LoopNode), token.EQL, none)
	okReady := HasVal(lits, func(v ssa.Value) bool {
		c, ok := v.(*ssa.Call)
		if !ok || c.Call.StaticCallee() != s.IsReady {
			return false
		}
		for _, a := range c.Call.Args {
			if sameNode(a, s.LoopNode) {
				return true
			}
		}
		return false
	}, true)
	pos := e.InstrPos(s.Launch)
	cons := "func " + ShortFn(s.Loop) + ": go→worker"
	e.R.Check(okStatus, cons+" under status==NodeStatusNone", pos,
		"the goroutine launch is not dominated by a test that the launched node is in state not-started", e.FactsStr("dominating conditions: ", lits))
	e.R.Check(okReady, cons+" under isReady(g,node)", pos,
		"the goroutine launch is not dominated by isReady(g, node)==true for the launched node", e.FactsStr("dominating conditions: ", lits))
}

// c01ReadyTable checks isReady's accumulator discipline. withReturn also checks
// the return discipline (C01.ready-all-deps).
func c01ReadyTable(e *Env, s *Sched, withReturn bool) {
	r := e.R
	r.Rule("C01.ready-table", "DCS+ENUM", "ready survives a dependency only in a licensed cell", 3)
	fn := s.IsReady
	if len(fn.Params) < 2 {
		r.Unknown("isReady signature", e.Pos(fn.Pos()), "expected (graph, node)")
		return
	}
	var nodeParam ssa.Value
	for _, p := range fn.Params {
		if strings.HasSuffix(ir.NamedType(p.Type()), ".Node") {
			nodeParam = p
		}
	}
	// the loop over dependencies
	loops := ir.Loops(fn)
	var loop *ir.Loop
	for _, l := range loops {
		if l.Ranged == nil {
			continue
		}
		// ranged value must be g.to[node.id]
		if lk, ok := ir.Resolve(l.Ranged).(*ssa.Lookup); ok {
			mp, ok1 := e.C.PathOf(lk.X)
			ip, ok2 := e.C.PathOf(lk.Index)
			if ok1 && ok2 && mp.Suffix(e.graphRoles().Pred) && ip.Suffix("id") && SameValue(ip.Root, nodeParam) {
				loop = l
			}
		}
	}
	if loop == nil {
		r.Bad("isReady: loop over g.to[node.id]", e.Pos(fn.Pos()), "the readiness function no longer iterates the incoming-edge list of the node being tested (the adjacency map addEdge fills with a node's dependencies)")
		return
	}
	r.OK("isReady: loop over g.to[node.id]", e.Pos(fn.Pos()), "dependencies are read from the `to` adjacency of the tested node")

	// returns
	var rets []*ssa.Return
	for _, b := range fn.Blocks {
		for _, in := range b.Instrs {
			if rt, ok := in.(*ssa.Return); ok && e.Facts(fn).Reachable(b) {
				rets = append(rets, rt)
			}
		}
	}
	// accumulator: a bool phi at the loop header
	// accumulator: a bool phi at the loop header (`ready`), or an int phi counting the
	// dependencies that hold the node back (`blocked++`; the verdict is `blocked == 0`)
	var acc *ssa.Phi
	counting := false
	for _, in := range loop.Header.Instrs {
		if p, ok := in.(*ssa.Phi); ok {
			if p.Type().String() == "bool" {
				acc = p
			}
		}
	}
	if acc == nil {
		for _, in := range loop.Header.Instrs {
			if p, ok := in.(*ssa.Phi); ok && p.Type().String() == "int" && p.Comment != "rangeindex" {
				acc, counting = p, true
			}
		}
	}
	if acc == nil {
		// no accumulator: acceptable only if every return inside/after the loop is handled below
		r.Unknown("isReady: accumulator", e.Pos(fn.Pos()), "cannot find the boolean accumulator (phi at the dependency loop header); shape not understood")
		return
	}
	// initial value(s): from outside the loop
	covered := map[int64]bool{}
	var walk func(v ssa.Value, blk *ssa.BasicBlock, k int, depth int)
	var checkKeepLits func(blk *ssa.BasicBlock, k int, lits []ir.NLit)
	checkKeep := func(blk *ssa.BasicBlock, k int) {
		// the accumulator is kept across this edge: the dependency must be in a licensed cell
		for _, lits := range e.expandHelperCalls(e.DCSPhiEdge(blk, k), 0) {
			// a table of per-status rules (possibly with functions as entries) is a case distinction
			for _, ta := range e.expandTableFields(lits) {
				undo := ir.SetOverride(ta.Bind)
				checkKeepLits(blk, k, ta.Lits)
				undo()
			}
		}
	}
	checkKeepLits = func(blk *ssa.BasicBlock, k int, lits []ir.NLit) {
		// subject: status read of some node that is not the tested node
		var depRoot ssa.Value
		isDepStatus := func(v ssa.Value) bool {
			p, ok := e.pathThroughParams(v)
			if !ok || !p.Suffix("State.Status") || sameNode(p.Root, nodeParam) {
				return false
			}
			depRoot = p.Root
			return true
		}
		set := ir.Restrict(lits, isDepStatus, s.NS)
		names := set.Names(s.NS)
		pos := e.InstrPos(blk.Preds[k].Instrs[len(blk.Preds[k].Instrs)-1])
		cons := "isReady: ready kept when dependency status ∈ {" + strings.Join(names, ",") + "}"
		if len(set) == 0 {
			return // infeasible edge
		}
		okAll := true
		why := ""
		for v := range set {
			covered[v] = true
			switch s.name(v) {
			case "NodeStatusSuccess":
			case "NodeStatusError":
				if !HasVal(lits, func(x ssa.Value) bool { return e.IsFieldRead(x, depRoot, "ContinueOn.Failure") }, true) {
					okAll, why = false, "a failed dependency lets the dependent proceed without its ContinueOn.Failure being true"
				}
			case "NodeStatusSkipped":
				if !HasVal(lits, func(x ssa.Value) bool { return e.IsFieldRead(x, depRoot, "ContinueOn.Skipped") }, true) {
					okAll, why = false, "a skipped dependency lets the dependent proceed without its ContinueOn.Skipped being true"
				}
			default:
				okAll = false
				if v == ir.OtherEnum {
					why = "a dependency whose status is outside the declared constants leaves `ready` true (no default branch clearing it)"
				} else {
					why = "a dependency in state " + s.name(v) + " leaves `ready` true"
				}
			}
			if !okAll {
				break
			}
		}
		r.Check(okAll, cons, pos, why, e.FactsStr("edge conditions: ", lits))
	}
	// the accumulator may be kept the other way round: `blocked := false … blocked = true …
	// return !blocked` - it starts false, only ever becomes true, and the answer is its negation
	inverted := false
	if !counting {
		startsFalse := false
		for k, ed := range acc.Edges {
			if !loop.Blocks[loop.Header.Preds[k]] {
				if b, ok := ir.ConstBool(ed); ok && !b {
					startsFalse = true
				}
			}
		}
		if startsFalse {
			for _, rt := range rets {
				if len(rt.Results) == 1 {
					if u, isU := ir.Resolve(rt.Results[0]).(*ssa.UnOp); isU && u.Op == token.NOT && ir.Resolve(u.X) == ssa.Value(acc) {
						inverted = true
					}
				}
			}
		}
	}
	seenPhi := map[*ssa.Phi]bool{}
	walk = func(v ssa.Value, blk *ssa.BasicBlock, k int, depth int) {
		// v flows into a phi of block blk over incoming edge k
		if v == acc {
			checkKeep(blk, k)
			return
		}
		if counting {
			// blocked+1: this dependency holds the node back - always allowed
			if bo, ok := v.(*ssa.BinOp); ok && bo.Op == token.ADD && bo.X == ssa.Value(acc) {
				if c, isK := ir.ConstInt(bo.Y); isK && c > 0 {
					return
				}
			}
			if p, ok := v.(*ssa.Phi); ok && loop.Blocks[p.Block()] && depth < 12 {
				if seenPhi[p] {
					return
				}
				seenPhi[p] = true
				for i, ed := range p.Edges {
					walk(ed, p.Block(), i, depth+1)
				}
				return
			}
			r.Bad("isReady: accumulator overwritten with a computed value", e.InstrPos(blk.Preds[k].Instrs[len(blk.Preds[k].Instrs)-1]),
				"the count of blocking dependencies is assigned "+e.C.Render(v)+" inside the dependency loop instead of only growing")
			return
		}
		if b, ok := ir.ConstBool(v); ok {
			if b == inverted {
				return // cleared (or, kept the other way round, raised): always allowed
			}
			r.Bad("isReady: accumulator set to true inside the loop", e.InstrPos(blk.Preds[k].Instrs[len(blk.Preds[k].Instrs)-1]),
				"`ready` is set back to true inside the dependency loop, discarding the verdict of earlier dependencies")
			return
		}
		if p, ok := v.(*ssa.Phi); ok && loop.Blocks[p.Block()] && depth < 12 {
			if seenPhi[p] {
				return
			}
			seenPhi[p] = true
			for i, ed := range p.Edges {
				walk(ed, p.Block(), i, depth+1)
			}
			return
		}
		r.Bad("isReady: accumulator overwritten with a computed value", e.InstrPos(blk.Preds[k].Instrs[len(blk.Preds[k].Instrs)-1]),
			"`ready` is assigned "+e.C.Render(v)+" inside the dependency loop instead of being and-ed: a later dependency can reset the verdict of an earlier one")
	}
	for k, ed := range acc.Edges {
		if !loop.Blocks[loop.Header.Preds[k]] {
			// entry edge: initial value must be the constant true (or false); a counter starts at a constant
			if counting {
				if c, ok := ir.ConstInt(ed); !ok || c < 0 {
					r.Unknown("isReady: accumulator initial value", e.Pos(fn.Pos()), "the counter of blocking dependencies does not start at a non-negative constant: "+e.C.Render(ed))
				}
				continue
			}
			if _, ok := ir.ConstBool(ed); !ok {
				r.Unknown("isReady: accumulator initial value", e.Pos(fn.Pos()), "initial value of the accumulator is not a constant: "+e.C.Render(ed))
			}
			continue
		}
		walk(ed, loop.Header, k, 0)
	}
	// every enum constant must have been seen on some keep edge or be cleared:
	// a constant that appears on no keep edge is cleared on every path (fine).
	r.Info["C01.ready-table.kept_under"] = ir.EnumSet(covered).Names(s.NS)

	if !withReturn {
		return
	}
	r.Rule("C01.ready-all-deps", "MPT", "non-false return only after the range is exhausted", 1)
	exitIdx, okExit := loop.ExitEdge()
	for _, rt := range rets {
		if len(rt.Results) != 1 {
			continue
		}
		v := ir.Resolve(rt.Results[0])
		pos := e.InstrPos(rt)
		if b, ok := ir.ConstBool(v); ok && !b {
			r.OK("isReady: return false", pos, "returning false is always allowed")
			continue
		}
		if counting {
			n := ir.Normalize(ir.Lit{Cond: rt.Results[0], Pol: true})
			zero := false
			if n.Kind == "cmp" && n.Op == token.EQL {
				if c, isK := ir.ConstInt(n.Y); isK && c == 0 && ir.Resolve(n.X) == ssa.Value(acc) {
					zero = true
				}
				if c, isK := ir.ConstInt(n.X); isK && c == 0 && ir.Resolve(n.Y) == ssa.Value(acc) {
					zero = true
				}
			}
			if !zero {
				r.Bad("isReady: return of a value other than the accumulator", pos,
					"isReady returns "+e.C.Render(v)+": not `no dependency holds the node back` over all dependencies")
				continue
			}
			v = acc
		}
		if inverted {
			if u, isU := v.(*ssa.UnOp); isU && u.Op == token.NOT && ir.Resolve(u.X) == ssa.Value(acc) {
				v = acc
			} else if v == ssa.Value(acc) {
				v = rt.Results[0] // the raw `blocked` flag is not the verdict
				r.Bad("isReady: return of a value other than the accumulator", pos, "isReady returns the `held back` flag itself instead of its negation")
				continue
			}
		}
		if v != acc {
			r.Bad("isReady: return of a value other than the accumulator", pos,
				"isReady returns "+e.C.Render(v)+": a non-false result that is not the verdict accumulated over all dependencies (early exit / break?)")
			continue
		}
		// the return block must only be reachable through the header's exit edge
		ok := false
		if okExit {
			ff := e.Facts(fn)
			reach := ir.BlocksReachableFrom(fn.Blocks[0], func(from *ssa.BasicBlock, idx int) bool {
				return from == loop.Header && idx == exitIdx
			})
			_ = ff
			ok = !reach[rt.Block()] && rt.Block() != fn.Blocks[0]
		}
		r.Check(ok, "isReady: return ready only via loop exhaustion", pos,
			"the block returning `ready` is reachable without passing the dependency loop's exhaustion edge (break / early return while dependencies remain)")
	}
}

func c01Edges(e *Env, s *Sched) {
	r := e.R
	r.Rule("C01.edges", "MPT+WMW", "every Depends entry becomes an edge or an error", 3)
	gr := e.graphRoles()
	if gr.AddEdge == nil || gr.EdgeLoop == nil {
		r.Unknown("edge writer / loop over Step.Depends", schedRel, gr.why)
		return
	}
	addEdge, setup := gr.AddEdge, gr.EdgeLoop
	predF, succF := gr.Pred, gr.Succ
	// who writes the adjacency maps
	writers := map[string][]string{}
	for _, f := range e.RepoFuncsSorted() {
		if rootFn(f).Package() != e.P.Pkg(schedRel) {
			continue
		}
		for _, b := range f.Blocks {
			for _, in := range b.Instrs {
				if mu, ok := in.(*ssa.MapUpdate); ok {
					if p, ok := e.C.PathOf(mu.Map); ok && len(p.Fields) == 1 && strings.HasSuffix(ir.NamedType(p.Root.Type()), ".ExecutionGraph") {
						for _, u := range gr.Updates {
							if u.Field == p.Fields[0] {
								writers[u.Field] = append(writers[u.Field], ShortFn(f))
								break
							}
						}
					}
				}
			}
		}
	}
	okW := true
	for _, ws := range writers {
		for _, w := range ws {
			if w != ShortFn(addEdge) {
				okW = false
			}
		}
	}
	r.Check(okW, "adjacency maps written only by the edge writer", e.Pos(addEdge.Pos()),
		"another function also writes an adjacency map", sprintf("writers: %v", writers))
	// one update per direction: pred[dependent.id] += dependency.id ; succ[dependency.id] += dependent.id
	nP, nS, nOther := 0, 0, 0
	for _, u := range gr.Updates {
		switch {
		case u.Field == predF && u.KeyDependent && u.AppDependency:
			nP++
		case u.Field == succF && u.KeyDependency && u.AppDependent:
			nS++
		default:
			nOther++
		}
	}
	r.Check(gr.ok && nP == 1 && nS == 1 && nOther == 0, "edge writer: pred[dependent.id]+=dependency.id and succ[dependency.id]+=dependent.id", e.Pos(addEdge.Pos()),
		"the edge writer does not record the edge in both directions with the expected orientation (the dependent is the node whose Depends list is read)", gr.why)
	// both directions are recorded under the same conditions: the two maps stay
	// inverse to each other as multisets (a de-duplication or filter applied to
	// one side only makes the readiness gate, the cycle test and the retry walk
	// disagree about the edge set)
	type lk struct {
		i   *ssa.If
		pol bool
	}
	var sets []map[lk]bool
	var sites []ssa.Instruction
	for _, u := range gr.Updates {
		m := map[lk]bool{}
		for _, l := range e.Facts(addEdge).DCS(u.Site.Block()) {
			m[lk{l.If, l.Pol}] = true
		}
		sets = append(sets, m)
		sites = append(sites, u.Site)
	}
	same := len(sets) == 2
	if same {
		for k := range sets[0] {
			if !sets[1][k] {
				same = false
			}
		}
		for k := range sets[1] {
			if !sets[0][k] {
				same = false
			}
		}
	}
	pos := e.Pos(addEdge.Pos())
	if len(sites) > 0 {
		pos = e.InstrPos(sites[len(sites)-1])
	}
	r.Check(same, "edge writer: both adjacency maps are updated under the same conditions", pos,
		"an edge is recorded in one adjacency map but (under some condition) not in the other: the two maps are no longer inverse to each other, so the readiness gate / in-degree count and the relaxation / retry walk see different edge sets - e.g. a dependency listed twice makes the cycle test subtract an edge it never counted")
	// in the edge loop: from the first body block, every path back to the header adds the edge or returns
	dl := gr.DepLoop
	var body *ssa.BasicBlock
	for _, sb := range dl.Header.Succs {
		if dl.Blocks[sb] {
			body = sb
		}
	}
	if body == nil {
		r.Unknown("graph setup: body of the loop over Step.Depends", e.Pos(setup.Pos()), "not found")
		return
	}
	errReturn := func(in ssa.Instruction) bool {
		rt, ok := in.(*ssa.Return)
		if !ok || len(rt.Results) == 0 {
			return false
		}
		for _, v := range RetVals(rt, len(rt.Results)-1) {
			for _, x := range phiLeaves(v) {
				if ir.IsNilConst(x) {
					return false
				}
			}
		}
		return true
	}
	bad, _ := ir.Bypass(nil, body, ir.PathQuery{
		Stop: func(in ssa.Instruction) bool { return gr.isEdgeSite(in) || errReturn(in) },
		Bad: func(in ssa.Instruction) bool {
			return ir.IsReturn(in) || (in.Block() == dl.Header && in == dl.Header.Instrs[0])
		},
	})
	r.Check(bad == nil, "graph setup: each Depends entry → edge or error return", e.InstrPos(body.Instrs[0]),
		"an iteration over Depends can finish without adding the edge or returning the lookup error (dependency silently dropped, or the setup stops there and reports success)")
	c01Resolver(e, setup, dl)
}

// c01Resolver: the step a Depends entry is resolved to is the step of exactly that
// name. By role the resolver is the function of the scheduler package that the loop
// over Step.Depends calls with the entry and that answers with a *Node (or the entry
// indexes a map directly). Every way it answers with a node has `node…Step.Name ==
// entry` (string equality) among its conditions, or the node is what a map holds
// under the entry as key. A looser match (case folding, prefix, trimmed) binds an
// entry to another step when two names differ only in what the match ignores: the
// dependent then waits for the wrong step.
func c01Resolver(e *Env, setup *ssa.Function, dl *ir.Loop) {
	r := e.R
	isNodePtr := func(t types.Type) bool {
		_, isP := t.(*types.Pointer)
		return isP && strings.HasSuffix(ir.NamedType(t), schedRel+".Node")
	}
	entry := dl.Elem
	if entry == nil {
		r.Unknown("graph setup: the Depends entry being resolved", e.Pos(setup.Pos()), "loop element not identified")
		return
	}
	isEntry := func(v ssa.Value) bool { return SameValue(ir.Resolve(v), ir.Resolve(entry)) }
	n := 0
	for _, b := range sortedBlocks(dl.Blocks) {
		for _, in := range b.Instrs {
			switch x := in.(type) {
			case *ssa.Lookup:
				if isEntry(x.Index) {
					n++
					r.OK("graph setup: a Depends entry is resolved to the step of exactly that name", e.InstrPos(x), "map lookup under the entry as key")
				}
			case *ssa.Call:
				g := x.Call.StaticCallee()
				if g == nil || !e.P.Funcs[g] || g.Blocks == nil {
					continue
				}
				pi := -1
				for k, a := range x.Call.Args {
					if isEntry(a) {
						pi = k
					}
				}
				res := g.Signature.Results()
				if pi < 0 || res.Len() == 0 || !isNodePtr(res.At(0).Type()) {
					continue
				}
				n++
				name := g.Params[pi]
				isName := func(v ssa.Value) bool {
					return ir.Resolve(v) == ssa.Value(name) || ir.Deep(v) == ir.Deep(name)
				}
				okAll := true
				var facts []string
				nRet := 0
				for _, bb := range g.Blocks {
					rt, isR := bb.Instrs[len(bb.Instrs)-1].(*ssa.Return)
					if !isR || !e.Facts(g).Reachable(bb) {
						continue
					}
					for _, v := range RetVals(rt, 0) {
						for _, leaf := range phiLeaves(v) {
							if ir.IsNilConst(ir.Resolve(leaf)) {
								continue
							}
							nRet++
							// a node taken from a map under the name
							if lk, isL := lookupOf(leaf); isL && isName(lk.Index) {
								continue
							}
							okWay := true
							nw := 0
							e.ways(e.DCS(rt), func(alt []ir.NLit) {
								nw++
								has := false
								for _, l := range alt {
									if l.Kind != "cmp" || l.Op != token.EQL {
										continue
									}
									for _, sw := range [2]bool{false, true} {
										a, bv := l.X, l.Y
										if sw {
											a, bv = l.Y, l.X
										}
										if pa, okp := e.C.PathOf(a); okp && pa.Suffix("Step.Name") && isName(bv) {
											has = true
										}
									}
								}
								if !has {
									okWay = false
								}
							})
							if nw == 0 || !okWay {
								okAll = false
								facts = append(facts, "node returned at "+e.InstrPos(rt)+" "+e.FactsStr("under: ", e.DCS(rt)))
							}
						}
					}
				}
				if nRet == 0 {
					okAll = false
					facts = append(facts, "no return of a node found")
				}
				r.Check(okAll, "graph setup: a Depends entry is resolved to the step of exactly that name", e.InstrPos(x),
					"the lookup that turns a `depends` entry into a node does not require the step's name to equal the entry: with two steps whose names differ only in what the match ignores, the dependent is wired to (and waits for) the wrong step", facts...)
			}
		}
	}
	if n == 0 {
		// the lookup written in place: a walk over the nodes that keeps the candidate whose
		// name equals the entry (`for _, c := range g.byID { if c…Name == name { dep = c; break } }`)
		okInline, nPhi := true, 0
		for _, b := range sortedBlocks(dl.Blocks) {
			for _, in := range b.Instrs {
				ph, ok := in.(*ssa.Phi)
				if !ok || !isNodePtr(ph.Type()) {
					continue
				}
				for k, ed := range ph.Edges {
					ev := ir.Resolve(ed)
					if ir.IsNilConst(ev) {
						continue
					}
					if _, isPhi := ev.(*ssa.Phi); isPhi {
						continue
					}
					nPhi++
					has := false
					for _, l := range e.DCSPhiEdge(b, k) {
						if l.Kind != "cmp" || l.Op != token.EQL {
							continue
						}
						for _, sw := range [2]bool{false, true} {
							x, y := l.X, l.Y
							if sw {
								x, y = l.Y, l.X
							}
							if pa, okp := e.C.PathOf(x); okp && pa.Suffix("Step.Name") && isEntry(y) {
								has = true
							}
						}
					}
					if !has {
						okInline = false
					}
				}
			}
		}
		if nPhi > 0 {
			r.Check(okInline, "graph setup: a Depends entry is resolved to the step of exactly that name", e.Pos(setup.Pos()),
				"the walk that turns a `depends` entry into a node keeps a candidate without its name being equal to the entry")
			return
		}
		r.Unknown("graph setup: a Depends entry is resolved to the step of exactly that name", e.Pos(setup.Pos()), "no call or map lookup in the loop over Step.Depends takes the entry and yields a node")
	}
}

// lookupOf: v is (an extract of / a load of) a map lookup.
func lookupOf(v ssa.Value) (*ssa.Lookup, bool) {
	v = ir.Resolve(v)
	if ex, ok := v.(*ssa.Extract); ok {
		v = ex.Tuple
	}
	lk, ok := v.(*ssa.Lookup)
	return lk, ok
}

func c01FlipFirst(e *Env, s *Sched) {
	r := e.R
	r.Rule("C01.flip-first", "MPT+WMW", "loop goroutine stores Running before go", 1)
	running := s.val("NodeStatusRunning")
	found := false
	var facts []string
	var evs []ir.StoreEvent
	for _, f := range sortedFns(s.LoopFns) {
		evs = append(evs, s.statusEvents(f)...)
	}
	for _, ev := range evs {
		k, ok := s.constOf(ev)
		facts = append(facts, sprintf("%s: status:=%s root=%s", e.InstrPos(ev.Site), e.C.Render(ev.Val), e.C.Render(ev.Root)))
		if !ok || k != running || !sameNode(ev.Root, s.LoopNode) || ev.InCond {
			continue
		}
		if ev.Site.Parent() == s.LaunchFn && ir.Precedes(ev.Site, s.Launch) {
			// after the gate: dominated by the same status==None literal
			if HasCmp(e.DCS(ev.Site), s.isStatusOf(s.LoopNode), token.EQL, s.val("NodeStatusNone")) {
				found = true
			}
		}
	}
	r.Check(found, "func "+ShortFn(s.Loop)+": node.status:=Running between gate and go", e.InstrPos(s.Launch),
		"the scheduling loop does not itself mark the node running before starting the worker goroutine (a second poll could launch it again, dependents could see a stale state)", facts...)
}

func c01RetryResetLate(e *Env, s *Sched) {
	r := e.R
	r.Rule("C01.retry-reset-late", "MPT+VF", "reset to None only after sleeping RetryPolicy.Interval", 1)
	none := s.val("NodeStatusNone")
	n := 0
	var wevs []ir.StoreEvent
	for _, f := range sortedFns(s.WorkerFns) {
		for _, ev := range s.statusEvents(f) {
			if len(ev.Via) > 0 && s.inWorker(ev.Via[0]) {
				continue // seen again in the helper itself
			}
			wevs = append(wevs, ev)
		}
	}
	for _, ev := range wevs {
		k, ok := s.constOf(ev)
		if !ok || k != none || !sameNode(ev.Root, s.WorkerNode) {
			continue
		}
		n++
		// a dominating time.Sleep(node...RetryPolicy.Interval) in the same function
		okSleep := false
		for _, ci := range ir.CallsIn(ev.Site.Parent(), func(c *ssa.CallCommon) bool { return ir.IsCallTo(c, "time.Sleep") }) {
			if !ir.Precedes(ci, ev.Site) {
				continue
			}
			if e.IsFieldRead(ci.Common().Args[0], nil, "RetryPolicy.Interval") {
				p, _ := e.C.PathOf(ci.Common().Args[0])
				if sameNode(p.Root, s.WorkerNode) {
					// and the sleep is on the retry path itself: same dominating retry guard
					okSleep = true
				}
			}
		}
		r.Check(okSleep, "worker: status:=None preceded by Sleep(RetryPolicy.Interval)", e.InstrPos(ev.Site),
			"the retried step is handed back to the loop (status not-started) before its retry interval has been slept")
	}
	if n == 0 {
		r.Unknown("worker: retry reset site", e.Pos(s.Worker.Pos()), "no store of NodeStatusNone found in the worker (retry path not recognised)")
	}
}

func c01SingleLaunch(e *Env, s *Sched) {
	r := e.R
	r.Rule("C01.single-launch", "WMC", "Execute reachable only through gated launch / post-Wait handlers", 2)
	// reverse closure over static call edges, stopping at the scheduling loop
	inR := map[*ssa.Function]bool{s.Execute: true}
	work := []*ssa.Function{s.Execute}
	type site struct {
		caller *ssa.Function
		in     ssa.CallInstruction
		callee *ssa.Function
	}
	var sites []site
	for len(work) > 0 {
		f := work[len(work)-1]
		work = work[:len(work)-1]
		if s.inLoop(f) {
			continue
		}
		callers := e.StaticCallSites(f)
		for _, ci := range callers {
			cf := ci.Parent()
			if cf.Synthetic != "" && cf.Origin() == nil && cf.Parent() == nil {
				continue // the compiler's pointer-receiver wrapper of a value method: not a caller of its own
			}
			sites = append(sites, site{cf, ci, f})
			if !inR[cf] {
				inR[cf] = true
				work = append(work, cf)
			}
		}
		// a closure is "called" by its parent when it is only created there
		if f.Parent() != nil && len(callers) == 0 {
			if !inR[f.Parent()] {
				inR[f.Parent()] = true
				work = append(work, f.Parent())
			}
			sites = append(sites, site{f.Parent(), nil, f})
		}
	}
	// roots other than the loop: functions in R with no caller in R
	for f := range inR {
		if s.inLoop(f) || f == s.Execute {
			continue
		}
		hasCaller := false
		for _, st := range sites {
			if st.callee == f {
				hasCaller = true
			}
		}
		if !hasCaller {
			r.Bad("entry "+ShortFn(f)+" reaches (*Node).Execute outside the scheduling loop", e.Pos(f.Pos()),
				"a function that is not called from the scheduling loop can execute a step's command directly, bypassing the readiness gate")
		}
	}
	// address-taken uses of Execute (method values) are not call edges: forbid them
	// call sites inside the loop function: launch, or post-Wait
	var wait ssa.Instruction
	for _, lf := range sortedFns(s.LoopFns) {
		for _, ci := range ir.CallsIn(lf, func(c *ssa.CallCommon) bool { return ir.IsCallTo(c, "(*sync.WaitGroup).Wait") }) {
			wait = ci
		}
	}
	for _, st := range sites {
		if !s.inLoop(st.caller) || st.in == nil {
			continue
		}
		if st.in == ssa.CallInstruction(s.Launch) {
			r.OK("loop→worker via the gated go statement", e.InstrPos(st.in), "the launch site (see C01.gate)")
			continue
		}
		ok := wait != nil && s.after(wait, st.in)
		r.Check(ok, "loop→"+ShortFn(st.callee)+" only after wg.Wait()", e.InstrPos(st.in),
			"the scheduling loop reaches a function that executes a step command without passing the readiness gate and before all workers have finished")
	}
	// calls from the worker into R
	for _, st := range sites {
		if s.inWorker(st.caller) && st.in != nil {
			r.OK("worker→"+ShortFn(st.callee), e.InstrPos(st.in), "execution path inside the launched worker")
		}
	}
	var names []string
	for f := range inR {
		names = append(names, ShortFn(f))
	}
	r.Info["C01.single-launch.functions_reaching_Execute"] = sortedStrings(names)
}

func c01FinishWrites(e *Env, s *Sched) {
	r := e.R
	r.Rule("C01.finish-writes", "WMW+DCS", "Success/Error written only where the attempt has ended", 3)
	succ, errc := s.val("NodeStatusSuccess"), s.val("NodeStatusError")
	sp := e.P.Pkg(schedRel)
	execLike := func(v ssa.Value) bool {
		c, ok := v.(*ssa.Call)
		if !ok {
			return false
		}
		cal := c.Call.StaticCallee()
		if cal == nil {
			return false
		}
		// a function through which setup / Execute / teardown of the node is reached
		return e.ReachesRepo(cal, func(x *ssa.Function) bool {
			nr := e.nodeRoles()
			return x == s.Execute || (nr.Setup != nil && x == nr.Setup) || (nr.Teardown != nil && x == nr.Teardown)
		})
	}
	isExecCall := func(in ssa.Instruction) bool {
		c, ok := in.(*ssa.Call)
		return ok && execLike(c) && e.ReachesRepo(c.Call.StaticCallee(), func(x *ssa.Function) bool { return x == s.Execute })
	}
	// no (re-)execution after the store: in the function of the store and, when that
	// is a single-call-site helper of the worker, after its call site, and so on up
	noLaterExec := func(site ssa.Instruction) bool {
		cur := site
		for d := 0; d < 5; d++ {
			bad, _ := ir.Bypass(cur, nil, ir.PathQuery{Bad: isExecCall})
			if bad != nil {
				return false
			}
			f := cur.Parent()
			if f == s.Worker || !s.inWorker(f) {
				return true
			}
			us := ir.UniqueSite(f)
			if us == nil {
				return true
			}
			cur = us
		}
		return true
	}
	for _, f := range e.RepoFuncsSorted() {
		if rootFn(f).Package() != sp {
			continue
		}
		for _, ev := range s.statusEvents(f) {
			k, ok := s.constOf(ev)
			if !ok {
				continue
			}
			// a store made inside a helper that belongs to the worker / the loop (virtual
			// inlining view) is examined in that helper, not again at its call site
			if len(ev.Via) > 0 && (s.inWorker(ev.Via[0]) || s.inLoop(ev.Via[0])) && ir.UniqueSite(ev.Via[0]) != nil {
				continue
			}
			pos := e.InstrPos(ev.Site)
			lits := e.DCS(ev.Site)
			inW := s.inWorker(f) && sameNode(ev.Root, s.WorkerNode)
			switch {
			case k == succ && inW:
				ok1 := HasCmp(lits, s.isStatusOf(s.WorkerNode), token.EQL, s.val("NodeStatusRunning"))
				r.Check(ok1 && noLaterExec(ev.Site), "worker: status:=Success under status==Running, after the exec loop", pos,
					"the worker marks the step finished without checking it is still running, or can execute the command again afterwards", e.FactsStr("dominating conditions: ", lits))
			case k == errc && inW:
				ok1 := false
				for _, l := range lits {
					if l.Kind == "cmp" && l.Op == token.NEQ && ir.IsNilConst(l.Y) && allNonNil(l.X, execLike) {
						ok1 = true
					}
				}
				r.Check(ok1, "worker: status:=Error under an error from setup/exec/teardown ["+shortSite(e, ev)+"]", pos,
					"the worker marks the step failed on a path where no setup/exec/teardown error was observed", e.FactsStr("dominating conditions: ", lits))
			case (k == succ || k == errc) && !inW:
				// other writers of a terminal label: plain accessors (reported at
				// their call sites) and the handler runner, applied to handler
				// nodes only.
				if isAccessor(f) {
					continue
				}
				if s.inLoop(f) {
					where := "loop"
					if f != s.Loop {
						where = "loop (" + shortName(f) + ")"
					}
					r.Check(s.isHandlerNode(ir.Deep(ev.Root)), where+": "+s.name(k)+" written only to a handler node ["+shortSite(e, ev)+"]", pos,
						"the scheduling loop itself labels a graph step finished/failed")
					continue
				}
				okH := false
				if prm, isParam := ev.Root.(*ssa.Parameter); isParam {
					idx := -1
					for i, p := range f.Params {
						if p == prm {
							idx = i
						}
					}
					callers := e.StaticCallSites(f)
					okH = len(callers) > 0 && idx >= 0
					for _, ci := range callers {
						if !s.inLoop(ci.Parent()) || idx >= len(ci.Common().Args) || !s.isHandlerNode(ir.Deep(ci.Common().Args[idx])) {
							okH = false
						}
					}
				}
				r.Check(okH, ShortFn(f)+": writes "+s.name(k)+" to a handler node only ["+shortSite(e, ev)+"]", pos,
					"a function other than the worker labels a node finished/failed, and it is not (only) applied to handler nodes by the scheduling loop")
			}
		}
	}
}

// isAccessor: a method that stores its own parameter/constant into its receiver.
func isAccessor(f *ssa.Function) bool {
	if f.Signature.Recv() == nil || len(f.Blocks) > 2 {
		return false
	}
	for _, b := range f.Blocks {
		for _, in := range b.Instrs {
			ci, ok := in.(ssa.CallInstruction)
			if !ok {
				continue
			}
			if _, isGo := in.(*ssa.Go); isGo {
				return false
			}
			switch ir.CalleeName(ci.Common()) {
			case "(*sync.Mutex).Lock", "(*sync.Mutex).Unlock", "(*sync.RWMutex).Lock", "(*sync.RWMutex).Unlock", "(*sync.RWMutex).RLock", "(*sync.RWMutex).RUnlock", "time.Now":
			default:
				return false
			}
		}
	}
	return true
}

func shortSite(e *Env, ev ir.StoreEvent) string {
	if len(ev.Via) > 0 {
		return "via " + ev.Via[0].Name()
	}
	return "direct store"
}

func sortedStrings(s []string) []string {
	out := append([]string{}, s...)
	for i := range out {
		for j := i + 1; j < len(out); j++ {
			if out[j] < out[i] {
				out[i], out[j] = out[j], out[i]
			}
		}
	}
	return out
}
