package rules

import (
	"go/token"
	"go/types"

	"golang.org/x/tools/go/ssa"

	"bdcheck/internal/ir"
)

// Constant tables. A switch or if-chain over an enum is often written as a
// package-level map literal (`var handlerByStatus = map[Status]HandlerType{…}`,
// `var blocks = map[NodeStatus]block{Error: {status: Cancel, err: …}}`). Such a
// table is a finite case distinction like any other: a lookup `v, ok := t[k]`
// is split into one case per entry (k == key_i, v = value_i, ok) plus the miss
// (k differs from every key, !ok), provided the table is written only by its
// initialiser.

// TableEntry is one `key: value` of a constant table; for a struct value the
// fields given in the literal.
type TableEntry struct {
	Key    ssa.Value
	Val    ssa.Value
	Fields map[string]ssa.Value
}

func (e *Env) constTable(g *ssa.Global) ([]TableEntry, bool) {
	if e.tables == nil {
		e.tables = map[*ssa.Global][]TableEntry{}
		e.tablesOK = map[*ssa.Global]bool{}
	}
	if ok, seen := e.tablesOK[g]; seen {
		return e.tables[g], ok
	}
	e.tablesOK[g] = false
	if g.Pkg == nil {
		return nil, false
	}
	init := g.Pkg.Func("init")
	if init == nil {
		return nil, false
	}
	// the only store to the global is in init, of a MakeMap
	var mm *ssa.MakeMap
	for _, f := range e.RepoFuncsSorted() {
		for _, b := range f.Blocks {
			for _, in := range b.Instrs {
				if st, ok := in.(*ssa.Store); ok && st.Addr == ssa.Value(g) {
					if f != init {
						return nil, false
					}
					m, isMM := st.Val.(*ssa.MakeMap)
					if !isMM || mm != nil {
						return nil, false
					}
					mm = m
				}
			}
		}
	}
	if mm == nil {
		// init is synthetic and may not be among the repository functions
		for _, b := range init.Blocks {
			for _, in := range b.Instrs {
				if st, ok := in.(*ssa.Store); ok && st.Addr == ssa.Value(g) {
					m, isMM := st.Val.(*ssa.MakeMap)
					if !isMM || mm != nil {
						return nil, false
					}
					mm = m
				}
			}
		}
	}
	if mm == nil {
		return nil, false
	}
	// no function updates the map through the global (m[k] = v, delete)
	for _, f := range e.RepoFuncsSorted() {
		if f == init {
			continue
		}
		for _, b := range f.Blocks {
			for _, in := range b.Instrs {
				switch x := in.(type) {
				case *ssa.MapUpdate:
					if u, ok := x.Map.(*ssa.UnOp); ok && u.X == ssa.Value(g) {
						return nil, false
					}
				case *ssa.Call:
					if bi, ok := x.Call.Value.(*ssa.Builtin); ok && (bi.Name() == "delete" || bi.Name() == "clear") && len(x.Call.Args) > 0 {
						if u, ok := x.Call.Args[0].(*ssa.UnOp); ok && u.X == ssa.Value(g) {
							return nil, false
						}
					}
				}
			}
		}
	}
	var out []TableEntry
	for _, ref := range *mm.Referrers() {
		mu, ok := ref.(*ssa.MapUpdate)
		if !ok {
			continue
		}
		if _, isC := mu.Key.(*ssa.Const); !isC {
			return nil, false
		}
		ent := TableEntry{Key: mu.Key, Val: mu.Value}
		if u, isU := mu.Value.(*ssa.UnOp); isU && u.Op == token.MUL {
			if al, isA := u.X.(*ssa.Alloc); isA {
				ent.Fields = map[string]ssa.Value{}
				for _, r2 := range *al.Referrers() {
					if fa, isFA := r2.(*ssa.FieldAddr); isFA {
						for _, r3 := range *fa.Referrers() {
							if st, isS := r3.(*ssa.Store); isS && st.Addr == ssa.Value(fa) {
								ent.Fields[ir.FieldNameOf(fa.X.Type(), fa.Field)] = st.Val
							}
						}
					}
				}
			}
		}
		out = append(out, ent)
	}
	e.tables[g], e.tablesOK[g] = out, len(out) > 0
	return out, len(out) > 0
}

// tableLookup: v is (a field of) the value, or the ok result, of a lookup in a
// constant table. which is 0 for the value, 1 for ok; field names a struct
// field of the value ("" for the value itself).
func (e *Env) tableLookup(v ssa.Value) (lk *ssa.Lookup, which int, field string, entries []TableEntry, ok bool) {
	v = ir.Resolve(v)
	if f, isF := v.(*ssa.Field); isF {
		field = ir.FieldNameOf(f.X.Type(), f.Field)
		v = ir.Resolve(f.X)
	}
	// the value kept in a local (`block, ok := table[k]; … block.status`)
	if u, isU := v.(*ssa.UnOp); isU && u.Op == token.MUL {
		if fa, isFA := u.X.(*ssa.FieldAddr); isFA {
			if al, isA := fa.X.(*ssa.Alloc); isA {
				if st := ir.StoresTo(al); len(st) == 1 {
					field = ir.FieldNameOf(fa.X.Type(), fa.Field)
					v = ir.Resolve(st[0])
				}
			}
		}
	}
	// the looked-up row handed to a method or helper as a parameter (`rule.blocks(dep)`,
	// `node.markBlocked(rule)`): the argument it is bound to, or - for a helper with a
	// single call site - the argument of that call
	for d := 0; d < 3; d++ {
		pr, isP := v.(*ssa.Parameter)
		if !isP {
			break
		}
		if b := ir.Bound(pr); b != nil {
			v = ir.Resolve(b)
		} else if dv := ir.Deep(pr); dv != ssa.Value(pr) {
			v = ir.Resolve(dv)
		} else {
			break
		}
		// the argument may itself be the local the row is kept in
		if u, isU := v.(*ssa.UnOp); isU && u.Op == token.MUL {
			if al, isA := u.X.(*ssa.Alloc); isA {
				if st := ir.StoresTo(al); len(st) == 1 {
					v = ir.Resolve(st[0])
				}
			}
		}
	}
	if ex, isE := v.(*ssa.Extract); isE {
		which = ex.Index
		v = ex.Tuple
	}
	l, isL := v.(*ssa.Lookup)
	if !isL {
		return nil, 0, "", nil, false
	}
	u, isU := l.X.(*ssa.UnOp)
	if !isU || u.Op != token.MUL {
		return nil, 0, "", nil, false
	}
	g, isG := u.X.(*ssa.Global)
	if !isG {
		return nil, 0, "", nil, false
	}
	ents, okT := e.constTable(g)
	if !okT {
		return nil, 0, "", nil, false
	}
	return l, which, field, ents, true
}

// TableCase is one case of a lookup: the entry hit (nil for the miss) and the
// literals that say so.
type TableCase struct {
	Entry *TableEntry
	Lits  []ir.NLit
}

// tableCases enumerates the cases of a lookup in a constant table.
func tableCases(lk *ssa.Lookup, entries []TableEntry) []TableCase {
	var out []TableCase
	var miss []ir.NLit
	for i := range entries {
		out = append(out, TableCase{Entry: &entries[i], Lits: []ir.NLit{{Kind: "cmp", Op: token.EQL, X: lk.Index, Y: entries[i].Key}}})
		miss = append(miss, ir.NLit{Kind: "cmp", Op: token.NEQ, X: lk.Index, Y: entries[i].Key})
	}
	out = append(out, TableCase{Lits: miss})
	return out
}

// Value returns what the lookup yields in this case for the given field ("" =
// the value itself); nil for the miss or an unknown field.
func (c TableCase) Value(field string) ssa.Value {
	if c.Entry == nil {
		return nil
	}
	if field == "" {
		return c.Entry.Val
	}
	return c.Entry.Fields[field]
}

// expandTableLits splits a conjunction on the constant-table lookups whose ok
// result it mentions: `ok` becomes one alternative per entry, `!ok` the miss.
func (e *Env) expandTableLits(lits []ir.NLit) [][]ir.NLit {
	for i, l := range lits {
		if l.Kind != "val" {
			continue
		}
		lk, which, field, ents, ok := e.tableLookup(l.V)
		if !ok || which != 1 || field != "" || !lk.CommaOk {
			continue
		}
		rest := append(append([]ir.NLit{}, lits[:i]...), lits[i+1:]...)
		var out [][]ir.NLit
		for _, c := range tableCases(lk, ents) {
			if (c.Entry != nil) != l.Pol {
				continue
			}
			out = append(out, e.expandTableLits(append(append([]ir.NLit{}, rest...), c.Lits...))...)
		}
		return out
	}
	return [][]ir.NLit{lits}
}

// constArrayTable: the entries of a package-level array literal of structs that
// only the package initialiser writes (`var ops = [...]struct{…}{k1: {…}, …}`),
// keyed by constant index.
func (e *Env) constArrayTable(g *ssa.Global) (map[int64]map[string]ssa.Value, bool) {
	if g.Pkg == nil {
		return nil, false
	}
	init := g.Pkg.Func("init")
	if init == nil {
		return nil, false
	}
	out := map[int64]map[string]ssa.Value{}
	// written by init only
	for _, f := range e.RepoFuncsSorted() {
		if f == init {
			continue
		}
		for _, b := range f.Blocks {
			for _, in := range b.Instrs {
				if ia, ok := in.(*ssa.IndexAddr); ok && ia.X == ssa.Value(g) && ia.Referrers() != nil {
					for _, r := range *ia.Referrers() {
						if st, isS := r.(*ssa.Store); isS && st.Addr == ssa.Value(ia) {
							return nil, false
						}
						if fa, isF := r.(*ssa.FieldAddr); isF && fa.Referrers() != nil {
							for _, r2 := range *fa.Referrers() {
								if st, isS := r2.(*ssa.Store); isS && st.Addr == ssa.Value(fa) {
									return nil, false
								}
							}
						}
					}
				}
			}
		}
	}
	for _, b := range init.Blocks {
		for _, in := range b.Instrs {
			ia, ok := in.(*ssa.IndexAddr)
			if !ok || ia.X != ssa.Value(g) || ia.Referrers() == nil {
				continue
			}
			k, isC := ir.ConstInt(ia.Index)
			if !isC {
				return nil, false
			}
			for _, r := range *ia.Referrers() {
				fa, isF := r.(*ssa.FieldAddr)
				if !isF || fa.Referrers() == nil {
					continue
				}
				for _, r2 := range *fa.Referrers() {
					if st, isS := r2.(*ssa.Store); isS && st.Addr == ssa.Value(fa) {
						if out[k] == nil {
							out[k] = map[string]ssa.Value{}
						}
						out[k][ir.FieldNameOf(fa.X.Type(), fa.Field)] = st.Val
					}
				}
			}
		}
	}
	return out, len(out) > 0
}

// arrayTableRead: v = table[idx].field for a constant array table; returns the
// index value, the field name and the entries.
func (e *Env) arrayTableRead(v ssa.Value) (idx ssa.Value, field string, entries map[int64]map[string]ssa.Value, ok bool) {
	u, isU := ir.Resolve(v).(*ssa.UnOp)
	if !isU || u.Op != token.MUL {
		return nil, "", nil, false
	}
	fa, isF := u.X.(*ssa.FieldAddr)
	if !isF {
		return nil, "", nil, false
	}
	ia, isI := fa.X.(*ssa.IndexAddr)
	if !isI {
		return nil, "", nil, false
	}
	g, isG := ia.X.(*ssa.Global)
	if !isG {
		return nil, "", nil, false
	}
	ents, okT := e.constArrayTable(g)
	if !okT {
		return nil, "", nil, false
	}
	return ia.Index, ir.FieldNameOf(fa.X.Type(), fa.Field), ents, true
}

// methodOfFuncValue: the method a function value stands for - a method
// expression on an interface (`job.Start`, a compiler-made thunk that invokes the
// method) or a concrete method.
func methodOfFuncValue(v ssa.Value) string {
	v = ir.Resolve(v)
	if mc, ok := v.(*ssa.MakeClosure); ok {
		v = mc.Fn
	}
	f, ok := v.(*ssa.Function)
	if !ok {
		return ""
	}
	if f.Synthetic != "" {
		for _, b := range f.Blocks {
			for _, in := range b.Instrs {
				if c, isC := in.(ssa.CallInstruction); isC {
					if c.Common().IsInvoke() {
						return c.Common().Method.Name()
					}
					if g := c.Common().StaticCallee(); g != nil {
						return g.Name()
					}
				}
			}
		}
	}
	return f.Name()
}

// TableAlt is one way a conjunction that mentions a constant-table lookup can hold:
// the literals with the lookup resolved to one entry (or the miss), and the binding of
// the parameters of entry functions that were called through the table.
type TableAlt struct {
	Lits    []ir.NLit
	Bind    map[ssa.Value]ssa.Value
	Entries map[*ssa.Lookup]*TableEntry // the entry chosen for each resolved lookup (nil: the miss)
}

// expandTableFields resolves, case by case, the literals that speak about a
// constant-table lookup: the `ok` result, comparisons of a field of the looked-up
// value (`rule.tolerated != nil`), and calls of a function-valued field
// (`rule.tolerated(upstream)`), which become the called entry function's own return
// conditions with its parameters bound to the call's arguments. Literals about
// other things are kept. A table whose entries are functions is a switch whose
// branches are those functions' bodies.
func (e *Env) expandTableFields(lits []ir.NLit) []TableAlt {
	return e.expandTableFieldsX(TableAlt{Lits: lits, Bind: map[ssa.Value]ssa.Value{}, Entries: map[*ssa.Lookup]*TableEntry{}}, 0)
}

func (e *Env) expandTableFieldsX(in TableAlt, depth int) []TableAlt {
	if depth > 3 {
		return []TableAlt{in}
	}
	// the first lookup some literal mentions
	var lk *ssa.Lookup
	var ents []TableEntry
	mention := func(v ssa.Value) (*ssa.Lookup, int, string, []TableEntry, bool) {
		if v == nil {
			return nil, 0, "", nil, false
		}
		if l, w, f, en, ok := e.tableLookup(v); ok {
			return l, w, f, en, true
		}
		// a call of a function-valued field
		if c, isC := ir.Resolve(v).(*ssa.Call); isC && c.Call.StaticCallee() == nil && !c.Call.IsInvoke() {
			if l, w, f, en, ok := e.tableLookup(c.Call.Value); ok && w == 0 {
				return l, 2, f, en, true
			}
		}
		return nil, 0, "", nil, false
	}
	for _, l := range in.Lits {
		for _, v := range []ssa.Value{l.V, l.X, l.Y} {
			if x, _, _, en, ok := mention(v); ok && lk == nil {
				if _, done := in.Entries[x]; !done {
					lk, ents = x, en
				}
			}
		}
	}
	if lk == nil {
		return []TableAlt{in}
	}
	var out []TableAlt
	for _, c := range tableCases(lk, ents) {
		ents2 := map[*ssa.Lookup]*TableEntry{}
		for k, v := range in.Entries {
			ents2[k] = v
		}
		ents2[lk] = c.Entry
		alts := []TableAlt{{Lits: append([]ir.NLit{}, c.Lits...), Bind: copyBind(in.Bind), Entries: ents2}}
		feasible := true
		for _, l := range in.Lits {
			if !feasible {
				break
			}
			handled := false
			switch l.Kind {
			case "val":
				if x, w, f, _, ok := mention(l.V); ok && x == lk {
					handled = true
					switch w {
					case 1: // the ok result
						if (c.Entry != nil) != l.Pol {
							feasible = false
						}
					case 2: // a call of the entry's function
						var target *ssa.Function
						switch t := c.Value(f).(type) {
						case *ssa.MakeClosure:
							target, _ = t.Fn.(*ssa.Function)
						case *ssa.Function:
							target = t
						}
						if target == nil {
							feasible = false // nil function: the call cannot be reached in this case
							break
						}
						call := ir.Resolve(l.V).(*ssa.Call)
						inner, okR := e.boolHelperReturns(target, l.Pol)
						if !okR {
							handled = false
							break
						}
						var next []TableAlt
						for _, a := range alts {
							for _, conj := range inner {
								nb := copyBind(a.Bind)
								for i, p := range target.Params {
									if i < len(call.Call.Args) {
										nb[p] = call.Call.Args[i]
									}
								}
								next = append(next, TableAlt{Lits: append(append([]ir.NLit{}, a.Lits...), conj...), Bind: nb, Entries: a.Entries})
							}
						}
						if len(inner) == 0 {
							feasible = false
						}
						alts = next
					default: // a boolean field of the value
						handled = false
					}
				}
			case "cmp":
				for _, side := range [2]bool{false, true} {
					xv, yv := l.X, l.Y
					if side {
						xv, yv = l.Y, l.X
					}
					x, w, f, _, ok := mention(xv)
					if !ok || x != lk || w != 0 {
						continue
					}
					val := c.Value(f)
					// comparison with nil: decided by what the entry holds (the miss yields the zero value)
					if ir.IsNilConst(yv) {
						isNil := val == nil || ir.IsNilConst(val)
						truth := isNil
						if l.Op == token.NEQ {
							truth = !isNil
						}
						if !truth {
							feasible = false
						}
						handled = true
						break
					}
					if val != nil {
						nl := l
						if side {
							nl.Y = val
						} else {
							nl.X = val
						}
						for i := range alts {
							alts[i].Lits = append(alts[i].Lits, nl)
						}
						handled = true
					}
					break
				}
			}
			if !handled && feasible {
				for i := range alts {
					alts[i].Lits = append(alts[i].Lits, l)
				}
			}
		}
		if !feasible {
			continue
		}
		for _, a := range alts {
			out = append(out, e.expandTableFieldsX(a, depth+1)...)
		}
	}
	return out
}

func copyBind(m map[ssa.Value]ssa.Value) map[ssa.Value]ssa.Value {
	out := map[ssa.Value]ssa.Value{}
	for k, v := range m {
		out[k] = v
	}
	return out
}

// constStringSlice: the elements of a package-level []string that is assigned once,
// in the package initialiser, from a literal of constants, and whose elements are never
// assigned afterwards.
func (e *Env) constStringSlice(g *ssa.Global) ([]string, bool) {
	if g.Pkg == nil {
		return nil, false
	}
	init := g.Pkg.Func("init")
	if init == nil {
		return nil, false
	}
	var lit *ssa.Slice
	for _, f := range e.RepoFuncsSorted() {
		for _, b := range f.Blocks {
			for _, in := range b.Instrs {
				switch x := in.(type) {
				case *ssa.Store:
					if x.Addr == ssa.Value(g) {
						sl, isSl := x.Val.(*ssa.Slice)
						if f != init || !isSl || lit != nil {
							return nil, false
						}
						lit = sl
					}
					// an element assigned through a load of the global
					if ia, isIA := x.Addr.(*ssa.IndexAddr); isIA {
						if u, isU := ir.Resolve(ia.X).(*ssa.UnOp); isU && u.X == ssa.Value(g) {
							return nil, false
						}
					}
				}
			}
		}
	}
	if lit == nil {
		return nil, false
	}
	al, ok := lit.X.(*ssa.Alloc)
	if !ok {
		return nil, false
	}
	at, ok := al.Type().Underlying().(*types.Pointer).Elem().Underlying().(*types.Array)
	if !ok {
		return nil, false
	}
	out := make([]string, at.Len())
	set := make([]bool, at.Len())
	for _, ref := range *al.Referrers() {
		ia, isIA := ref.(*ssa.IndexAddr)
		if !isIA {
			continue
		}
		k, isK := ir.ConstInt(ia.Index)
		if !isK || k < 0 || k >= at.Len() {
			return nil, false
		}
		for _, r2 := range *ia.Referrers() {
			if st, isSt := r2.(*ssa.Store); isSt {
				s, isS := ir.ConstString(st.Val)
				if !isS {
					return nil, false
				}
				out[k], set[k] = s, true
			}
		}
	}
	for _, s := range set {
		if !s {
			return nil, false
		}
	}
	return out, true
}
