package rules

import (
	"fmt"
	"strings"

	"golang.org/x/tools/go/ssa"

	"bdcheck/internal/ir"
	"bdcheck/internal/load"
	"bdcheck/internal/report"
)

// Dump prints the SSA of "pkg/rel:Func" (closures included) with the
// dominating-condition set of every block. Debug aid only.
func Dump(p *load.Program, spec string) {
	i := strings.LastIndex(spec, ":")
	if i < 0 {
		fmt.Println("want pkg/rel:Func")
		return
	}
	fn := p.Func(spec[:i], spec[i+1:])
	if fn == nil {
		fmt.Println("not found")
		return
	}
	e := NewEnv(p, report.New("dump", "quick", 0))
	for _, f := range ir.WithClosures(fn) {
		fmt.Printf("=== %s\n", f)
		ff := e.Facts(f)
		for _, b := range f.Blocks {
			fmt.Printf(" block %d (%s) preds=%v succs=%v\n", b.Index, b.Comment, idx(b.Preds), idx(b.Succs))
			fmt.Printf("   DCS: %s\n", strings.Join(e.C.RenderLits(ff.DCS(b)), " ; "))
			for _, in := range b.Instrs {
				if v, ok := in.(ssa.Value); ok {
					fmt.Printf("   %s = %s   [%s]\n", v.Name(), in.String(), p.Pos(in.Pos()))
				} else {
					fmt.Printf("   %s   [%s]\n", in.String(), p.Pos(in.Pos()))
				}
			}
		}
	}
}

func idx(bs []*ssa.BasicBlock) []int {
	var out []int
	for _, b := range bs {
		out = append(out, b.Index)
	}
	return out
}
