package rules

import (
	"go/token"
	"sort"
	"strings"

	"golang.org/x/tools/go/ssa"

	"bdcheck/internal/ir"
	"bdcheck/internal/load"
)

// libIndexChecked: the loader hands user-written text to third-party parsers (cron,
// shell words, ...). A panic in there is a panic of the loader: neither "rejected" nor
// "a DAG". One panic class is visible in the shape of the code: the result of a
// strings.Index-like search (-1 when nothing is found) used as a slice bound or an
// index without any test of it. In the third-party functions the loader packages
// reach through static calls (bounded depth) every such use is dominated by a
// comparison of the result, or by a constant-pattern test that implies the search
// succeeds (HasPrefix(s, "TZ=") for Index(s, "=")). Requires the dependencies' bodies
// (whole-program load).
func (c *c13) libIndexChecked() {
	e, r := c.e, c.e.R
	r.Rule("C13.lib-index-checked", "DCS (unchecked-result, in dependencies)", "third-party code reached from the loaders does not slice by an untested search result", 0)
	if !e.P.Whole {
		r.Unknown("dependencies' bodies", "-", "the program was loaded without the dependencies' source")
		return
	}
	std := func(f *ssa.Function) bool {
		p := load.FuncPkgPath(f)
		return p == "" || !strings.Contains(strings.SplitN(p, "/", 2)[0], ".")
	}
	// third-party functions reached from the loader scope, with the way there
	type reach struct {
		f    *ssa.Function
		from string
	}
	seen := map[*ssa.Function]bool{}
	var libs []reach
	var scope []*ssa.Function
	for f := range c.scope {
		scope = append(scope, f)
	}
	sort.Slice(scope, func(i, j int) bool { return scope[i].String() < scope[j].String() })
	type item struct {
		f     *ssa.Function
		depth int
		from  string
	}
	var work []item
	for _, f := range scope {
		for _, ci := range ir.CallsIn(f, func(cc *ssa.CallCommon) bool { return cc.StaticCallee() != nil }) {
			g := ci.Common().StaticCallee()
			if g.Blocks == nil || e.P.Funcs[g] || std(g) || seen[g] {
				continue
			}
			seen[g] = true
			work = append(work, item{g, 0, shortName(f)})
		}
	}
	for len(work) > 0 {
		it := work[0]
		work = work[1:]
		libs = append(libs, reach{it.f, it.from})
		if it.depth >= 3 {
			continue
		}
		for _, h := range ir.WithClosures(it.f) {
			for _, ci := range ir.CallsIn(h, func(cc *ssa.CallCommon) bool { return cc.StaticCallee() != nil }) {
				g := ci.Common().StaticCallee()
				if g.Blocks == nil || e.P.Funcs[g] || std(g) || seen[g] {
					continue
				}
				seen[g] = true
				work = append(work, item{g, it.depth + 1, it.from})
			}
		}
	}
	isSearch := func(v ssa.Value) (*ssa.Call, bool) {
		cc, ok := ir.Resolve(v).(*ssa.Call)
		if !ok {
			return nil, false
		}
		switch ir.CalleeName(&cc.Call) {
		case "strings.Index", "strings.IndexByte", "strings.IndexRune", "strings.IndexAny", "strings.LastIndex", "strings.LastIndexByte", "strings.LastIndexAny",
			"bytes.Index", "bytes.IndexByte", "bytes.IndexRune", "bytes.IndexAny", "bytes.LastIndex", "bytes.LastIndexByte":
			return cc, true
		}
		return nil, false
	}
	// the search result, possibly shifted by a constant
	var searchOf func(v ssa.Value, d int) (*ssa.Call, bool)
	searchOf = func(v ssa.Value, d int) (*ssa.Call, bool) {
		if v == nil || d > 2 {
			return nil, false
		}
		if cc, ok := isSearch(v); ok {
			return cc, true
		}
		if bo, ok := ir.Resolve(v).(*ssa.BinOp); ok && (bo.Op == token.ADD || bo.Op == token.SUB) {
			if _, isK := ir.ConstInt(bo.Y); isK {
				return searchOf(bo.X, d+1)
			}
		}
		return nil, false
	}
	mentions := func(l ir.NLit, cc *ssa.Call) bool {
		for _, v := range []ssa.Value{l.X, l.Y, l.V} {
			if v == nil {
				continue
			}
			if x, ok := searchOf(v, 0); ok && x == cc {
				return true
			}
		}
		return false
	}
	// a dominating constant-pattern test that implies the search finds something
	implied := func(lits []ir.NLit, cc *ssa.Call) bool {
		if len(cc.Call.Args) < 2 {
			return false
		}
		sub, okS := ir.ConstString(cc.Call.Args[1])
		if !okS {
			if k, isK := ir.ConstInt(cc.Call.Args[1]); isK && k > 0 && k < 128 {
				sub, okS = string(rune(k)), true
			}
		}
		if !okS || sub == "" {
			return false
		}
		for _, l := range lits {
			if l.Kind != "val" || !l.Pol {
				continue
			}
			tc, ok := ir.Resolve(l.V).(*ssa.Call)
			if !ok || !ir.IsCallTo(&tc.Call, "strings.HasPrefix", "strings.HasSuffix", "strings.Contains") {
				continue
			}
			if p, okP := ir.ConstString(tc.Call.Args[1]); okP && strings.Contains(p, sub) && ir.Resolve(tc.Call.Args[0]) == ir.Resolve(cc.Call.Args[0]) {
				return true
			}
		}
		return false
	}
	nUses := 0
	for _, lr := range libs {
		for _, h := range ir.WithClosures(lr.f) {
			for _, b := range h.Blocks {
				for _, in := range b.Instrs {
					var bounds []ssa.Value
					switch x := in.(type) {
					case *ssa.Slice:
						bounds = append(bounds, x.Low, x.High)
					case *ssa.IndexAddr:
						bounds = append(bounds, x.Index)
					case *ssa.Index:
						bounds = append(bounds, x.Index)
					}
					for _, bv := range bounds {
						cc, ok := searchOf(bv, 0)
						if !ok {
							continue
						}
						nUses++
						// every way of reaching the use: the result is compared there, or a constant-pattern
						// test implies the search succeeds
						libWays := e.waysTo(in)
						tested := true
						var open [][]ir.NLit
						for _, way := range libWays {
							okWay := implied(way, cc)
							for _, l := range way {
								if mentions(l, cc) {
									okWay = true
								}
							}
							if !okWay {
								tested = false
								open = append(open, way)
							}
						}
						// what the library leaves open may be closed by the repository's callers: at every
						// call of this function the argument that is searched is known to contain the
						// pattern, or the caller's conditions contradict the way that leads to the use
						if !tested && h == lr.f {
							if closed := c.callersClose(h, cc, open, implied); closed {
								tested = true
							}
						}
						r.Check(tested, ShortFn(rootFn(h))+": the result of "+ir.CalleeName(&cc.Call)+" is tested before it is used as a bound / index ["+e.C.Render(cc)+"]", e.InstrPos(in),
							"a dependency the loader hands user text to slices by a search result that is -1 when nothing is found: such text makes the loader panic instead of rejecting the definition", "reached from "+lr.from)
					}
				}
			}
		}
	}
	r.Info["C13.lib.functions_examined"] = len(libs)
	r.Info["C13.lib.search_results_used_as_bounds"] = nUses
	if nUses == 0 {
		r.OK("third-party functions reached from the loaders: no search result used as a bound", "-", sprintf("%d functions examined", len(libs)))
	}
}

// callersClose: the searched string is a parameter of the library function f; at every
// call of f from the repository, each open way (a way to the use on which the library
// itself does not test the result) is either contradicted by the caller's conditions
// (the same constant-pattern test on the argument with the other outcome) or the caller
// has established that the argument contains the pattern.
func (c *c13) callersClose(f *ssa.Function, search *ssa.Call, open [][]ir.NLit, implied func([]ir.NLit, *ssa.Call) bool) bool {
	e := c.e
	pi := -1
	for k, p := range f.Params {
		if ir.Resolve(search.Call.Args[0]) == ssa.Value(p) {
			pi = k
		}
	}
	if pi < 0 {
		return false
	}
	var sites []ssa.CallInstruction
	for g := range e.P.Funcs {
		for _, ci := range ir.CallsIn(g, func(cc *ssa.CallCommon) bool { return cc.StaticCallee() == f }) {
			sites = append(sites, ci)
		}
	}
	if len(sites) == 0 {
		return false
	}
	// a constant-pattern test on a string, in any of its spellings: HasPrefix /
	// HasSuffix / Contains, or a search result compared with -1 / 0
	// (`strings.IndexByte(s, ' ') < 0` is !Contains(s, " ")); pol is the test's outcome
	patTest := func(l ir.NLit) (name, pat string, subj ssa.Value, pol, ok bool) {
		switch l.Kind {
		case "val":
			tc, isC := ir.Resolve(l.V).(*ssa.Call)
			if !isC || !ir.IsCallTo(&tc.Call, "strings.HasPrefix", "strings.HasSuffix", "strings.Contains") {
				return "", "", nil, false, false
			}
			p, okP := ir.ConstString(tc.Call.Args[1])
			if !okP {
				return "", "", nil, false, false
			}
			return ir.CalleeName(&tc.Call), p, ir.Deep(tc.Call.Args[0]), l.Pol, true
		case "cmp":
			for _, sw := range [2]bool{false, true} {
				x, y, op := l.X, l.Y, l.Op
				if sw {
					x, y, op = l.Y, l.X, swapOp(l.Op)
				}
				tc, isC := ir.Resolve(x).(*ssa.Call)
				if !isC || !ir.IsCallTo(&tc.Call, "strings.Index", "strings.IndexByte", "strings.IndexRune", "strings.LastIndex", "strings.LastIndexByte") {
					continue
				}
				k, isK := ir.ConstInt(y)
				if !isK {
					continue
				}
				p, okP := ir.ConstString(tc.Call.Args[1])
				if !okP {
					if ch, isCh := ir.ConstInt(tc.Call.Args[1]); isCh && ch > 0 && ch < 128 {
						p, okP = string(rune(ch)), true
					}
				}
				if !okP {
					continue
				}
				found, decided := false, true
				switch {
				case op == token.LSS && k == 0, op == token.LEQ && k == -1, op == token.EQL && k == -1:
					found = false
				case op == token.GEQ && k == 0, op == token.GTR && k == -1, op == token.NEQ && k == -1:
					found = true
				default:
					decided = false
				}
				if decided {
					return "strings.Contains", p, ir.Deep(tc.Call.Args[0]), found, true
				}
			}
		}
		return "", "", nil, false, false
	}
	// `!hasPrefixOfSet(s)`: a negative answer of slices.ContainsFunc over a constant
	// string list with strings.HasPrefix/HasSuffix/Contains(s, element) as predicate
	// (directly, or as the single result of a package predicate) is one negative test
	// per element
	type ptest struct {
		name, pat string
		subj      ssa.Value
		pol       bool
	}
	setTests := func(l ir.NLit) []ptest {
		if l.Kind != "val" || l.Pol {
			return nil
		}
		call, isC := ir.Resolve(l.V).(*ssa.Call)
		if !isC {
			return nil
		}
		argOf := map[ssa.Value]ssa.Value{}
		for d := 0; d < 3 && !strings.HasPrefix(ir.CalleeName(&call.Call), "slices.ContainsFunc"); d++ {
			h := call.Call.StaticCallee()
			if h == nil || !e.P.Funcs[h] || len(h.Blocks) != 1 {
				return nil
			}
			rt, isR := h.Blocks[0].Instrs[len(h.Blocks[0].Instrs)-1].(*ssa.Return)
			if !isR || len(rt.Results) != 1 {
				return nil
			}
			inner, isI := ir.Resolve(rt.Results[0]).(*ssa.Call)
			if !isI {
				return nil
			}
			for i, p := range h.Params {
				if i < len(call.Call.Args) {
					a := ir.Resolve(call.Call.Args[i])
					if prev, ok := argOf[a]; ok {
						a = prev
					}
					argOf[p] = a
				}
			}
			call = inner
		}
		if !strings.HasPrefix(ir.CalleeName(&call.Call), "slices.ContainsFunc") || len(call.Call.Args) != 2 {
			return nil
		}
		u, isU := ir.Resolve(call.Call.Args[0]).(*ssa.UnOp)
		if !isU {
			return nil
		}
		g, isG := u.X.(*ssa.Global)
		if !isG {
			return nil
		}
		elems, okE := e.constStringSlice(g)
		if !okE {
			return nil
		}
		mc, isMC := ir.Resolve(call.Call.Args[1]).(*ssa.MakeClosure)
		if !isMC {
			return nil
		}
		cl := mc.Fn.(*ssa.Function)
		if len(cl.Blocks) != 1 || len(cl.Params) != 1 {
			return nil
		}
		rt, isR := cl.Blocks[0].Instrs[len(cl.Blocks[0].Instrs)-1].(*ssa.Return)
		if !isR || len(rt.Results) != 1 {
			return nil
		}
		tc, isT := ir.Resolve(rt.Results[0]).(*ssa.Call)
		if !isT || !ir.IsCallTo(&tc.Call, "strings.HasPrefix", "strings.HasSuffix", "strings.Contains") || ir.Resolve(tc.Call.Args[1]) != ssa.Value(cl.Params[0]) {
			return nil
		}
		// the string tested: a free variable of the closure, bound to a value of the predicate
		subj := ir.Resolve(tc.Call.Args[0])
		if fv, isFV := subj.(*ssa.FreeVar); isFV {
			for i, f := range cl.FreeVars {
				if f == fv && i < len(mc.Bindings) {
					subj = ir.Resolve(mc.Bindings[i])
				}
			}
		}
		if u2, isU2 := subj.(*ssa.UnOp); isU2 && u2.Op == token.MUL {
			// captured by reference: the cell holds the parameter
			if al, isAl := u2.X.(*ssa.Alloc); isAl {
				for _, ref := range *al.Referrers() {
					if st, isSt := ref.(*ssa.Store); isSt && st.Addr == ssa.Value(al) {
						subj = ir.Resolve(st.Val)
					}
				}
			}
			if fv, isFV := u2.X.(*ssa.FreeVar); isFV {
				for i, f := range cl.FreeVars {
					if f == fv && i < len(mc.Bindings) {
						if al, isAl := mc.Bindings[i].(*ssa.Alloc); isAl {
							for _, ref := range *al.Referrers() {
								if st, isSt := ref.(*ssa.Store); isSt && st.Addr == ssa.Value(al) {
									subj = ir.Resolve(st.Val)
								}
							}
						}
					}
				}
			}
		}
		if a, ok := argOf[subj]; ok {
			subj = a
		}
		var out []ptest
		for _, el := range elems {
			out = append(out, ptest{ir.CalleeName(&tc.Call), el, ir.Deep(subj), false})
		}
		return out
	}
	sub, _ := ir.ConstString(search.Call.Args[1])
	for _, cs := range sites {
		if pi >= len(cs.Common().Args) {
			return false
		}
		arg := ir.Deep(cs.Common().Args[pi])
		for _, cw0 := range e.waysTo(cs) {
			allClosed := true
			// the caller's conditions with its predicates opened (`hasZonePrefix(spec)`)
			e.ways(cw0, func(cw []ir.NLit) {
				for _, lw := range open {
					closed := false
					var facts []ptest
					for _, cl := range cw {
						if cn, cp, csub, cpol, okc := patTest(cl); okc {
							facts = append(facts, ptest{cn, cp, csub, cpol})
						}
						facts = append(facts, setTests(cl)...)
					}
					for _, ft := range facts {
						cn, cp, csub, cpol := ft.name, ft.pat, ft.subj, ft.pol
						if csub != arg && ir.Deep(csub) != arg {
							continue
						}
						// the caller knows the argument contains the pattern searched for
						if cpol && sub != "" && strings.Contains(cp, sub) {
							closed = true
						}
						// or it took the other outcome of a test the library's way depends on
						for _, ll := range lw {
							ln, lp, lsub, lpol, okl := patTest(ll)
							if okl && ln == cn && lp == cp && ir.Resolve(lsub) == ssa.Value(f.Params[pi]) && lpol != cpol {
								closed = true
							}
						}
					}
					if !closed {
						allClosed = false
					}
				}
			})
			if !allClosed {
				return false
			}
		}
	}
	return true
}
