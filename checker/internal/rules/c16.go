package rules

import (
	"go/token"
	"go/types"
	"strings"

	"golang.org/x/tools/go/ssa"

	"bdcheck/internal/ir"
)

func init() {
	register(&Prop{ID: "C16", Run: runC16,
		Technique: "static analysis: dominance of the already-running probe over every effect of Agent.Run, decision table of the probe and of the status getter (error value-flow), ordering of unlink and bind in the socket server (go/ssa)",
		Decided: []string{
			"every non-nil error of the socket client's request wraps a library call's error or is the timeout sentinel under a Timeout() test (C16.client-errors-are-transport)",
			"every address handed to the socket constructors is the result of one repository function that reads nothing but the DAG: no environment, pid, host, clock, random or reassigned package variable (C16.address-function)",
			"DAG.Location (from which the socket address, the only lock, is derived) is on every way the result of filepath.Abs/Clean/EvalSymlinks/Join (C16.canonical-location); the accept loop of the run's socket is left only under the server's shutdown flag (C16.serve-until-shutdown)",
			"Agent.Run reaches history open/write, socket creation and Schedule only on the success edge of the already-running probe (C16.probe-first)",
			"the probe refuses unless the current status is `not started`; the status getter turns only a timeout of the socket request into an error (refusal), tests the request's own error for that, and maps every other failure to `not started` (C16.probe-table)",
			"a live agent never answers `not started`: the /status handler overwrites the status with running before encoding (C08.live-is-running, shared)",
			"between the probe and the bind there is an exclusive claim (C16.atomic-claim) — violated today: the server unlinks the socket path unconditionally before listening; known finding F19",
			"the agent's socket handler produces JSON (json.Marshal / Encoder.Encode in its closure inside the package) only from a model.Status: an error answer never decodes as a status (C16.socket-json-is-status)",
		},
		NotDec: []string{"the instants of the first run's life at which the second start arrives", "two starts racing between probe and bind (that is exactly F19)"},
	})
}

func runC16(e *Env) {
	c16ProbeFirst(e)
	c16ProbeTable(e)
	c08LiveIsRunning(e)
	c08ServeUntilShutdown(e, "C16.serve-until-shutdown")
	c16CanonicalLocation(e)
	c16AddressFunction(e)
	c16ClientErrors(e, "C16.client-errors-are-transport")
	c16AtomicClaim(e)
	c16SocketJSONIsStatus(e, "C16.socket-json-is-status")
}

func c16ProbeFirst(e *Env) {
	r := e.R
	r.Rule("C16.probe-first", "DCS", "Agent.Run: effects only after the already-running probe passed", 4)
	a := e.agentRoles()
	run := a.Run
	if run == nil {
		return
	}
	isDry := func(v ssa.Value) bool {
		p, ok := e.C.PathOf(v)
		return ok && p.Dotted() == e.agentDryField()
	}
	agentOrdered(e, "the already-running probe passed", a.PassedGuard(apiProbe),
		[]string{apiSchedule, apiHistory, apiServe},
		"records / binds / executes although the already-running probe has not (successfully) passed: a refused start would record a run or unlink the live run's socket",
		// the only exception: dry runs (C03) schedule without the probe
		func(lits []ir.NLit) bool { return HasVal(lits, isDry, true) })
	// the probe's refusal edge returns the error
	ok := false
	for _, ci := range a.Sites(run, apiProbe) {
		call, isC := ci.(*ssa.Call)
		if !isC || call.Parent() != run {
			continue
		}
		for _, b := range run.Blocks {
			for _, in := range b.Instrs {
				if rt, isR := in.(*ssa.Return); isR {
					for _, v := range RetVals(rt, 0) {
						rv := ir.Resolve(v)
						if ex, isE := rv.(*ssa.Extract); isE {
							rv = ex.Tuple
						}
						if rv == ssa.Value(call) {
							ok = true
						}
					}
				}
			}
		}
	}
	r.Check(ok, "Agent.Run: the probe's error is returned", e.Pos(run.Pos()), "the refusal of the already-running probe is not returned to the caller")
}

func isSentinel(v ssa.Value, pkgSuffix, name string) bool {
	u, ok := ir.Resolve(v).(*ssa.UnOp)
	if !ok || u.Op != token.MUL {
		return false
	}
	g, ok := u.X.(*ssa.Global)
	return ok && g.Name() == name && strings.HasSuffix(g.Pkg.Pkg.Path(), pkgSuffix)
}

// c16ProbeRefusals: the dual of the probe's pass condition. A start or retry is
// refused by the already-running probe only on live evidence - the status
// getter failed, or the live status is not `not started`. A refusal for any
// other reason (what a *recorded* run says, a pid that happens to exist, ...)
// blocks runs that must be startable / retryable: a run whose agent was killed
// is recorded as running for ever.
func c16ProbeRefusals(e *Env, probe *ssa.Function, none int64, within func(*ssa.Return) bool) {
	r := e.R
	ff := e.Facts(probe)
	n := 0
	for _, b := range probe.Blocks {
		rt, ok := b.Instrs[len(b.Instrs)-1].(*ssa.Return)
		if !ok || !ff.Reachable(b) {
			continue
		}
		if within != nil && !within(rt) {
			continue
		}
		allNil := true
		for _, v := range RetVals(rt, 0) {
			if !ir.IsNilConst(ir.Resolve(v)) {
				allNil = false
			}
		}
		if allNil {
			continue
		}
		n++
		dnf, okRC := ir.ReachingCondition(probe.Blocks[0], b, 32)
		if !okRC {
			r.Unknown("checkIsAlreadyRunning: reasons for refusing", e.InstrPos(rt), "reaching condition too large")
			continue
		}
		var bad []string
		for _, cj := range dnf {
			for _, conj := range ff.ExpandDNFRegion(probe.Blocks[0], []ir.Lit(cj)) {
				lits := ir.NormalizeAll(conj)
				live := false
				for _, l := range lits {
					if l.Kind != "cmp" || l.Op != token.NEQ {
						continue
					}
					// GetCurrentStatus err != nil
					if ir.IsNilConst(l.Y) {
						if ex, isE := ir.Resolve(l.X).(*ssa.Extract); isE && ex.Index == 1 {
							if c, isC := ex.Tuple.(*ssa.Call); isC && c.Call.IsInvoke() && c.Call.Method.Name() == "GetCurrentStatus" {
								live = true
							}
						}
					}
					// live status != not started
					if k, isC := ir.ConstInt(l.Y); isC && k == none {
						if p, okp := e.C.PathOf(l.X); okp && p.Suffix("Status") {
							if ex, isE := ir.Resolve(p.Root).(*ssa.Extract); isE && ex.Index == 0 {
								if c, isC := ex.Tuple.(*ssa.Call); isC && c.Call.IsInvoke() && c.Call.Method.Name() == "GetCurrentStatus" {
									live = true
								}
							}
						}
					}
				}
				if !live {
					bad = append(bad, "{"+strings.Join(e.RenderN(lits), " ; ")+"}")
				}
			}
		}
		r.Check(len(dnf) > 0 && len(bad) == 0, "checkIsAlreadyRunning: refuses only when the live status could not be read or is not `not started`", e.InstrPos(rt),
			"a start or retry is refused although the live probe found nothing running (e.g. because a recorded run still says `running`, which is what a killed agent leaves behind for ever): the interrupted run can never be retried",
			"ways to this refusal without live evidence: "+strings.Join(bad, " | "))
	}
	if n == 0 {
		r.Unknown("checkIsAlreadyRunning: refusal return", e.Pos(probe.Pos()), "no non-nil return")
	}
}

func c16ProbeTable(e *Env) {
	r := e.R
	r.Rule("C16.probe-table", "DCS+VF", "probe and status getter decision tables", 4)
	var probe *ssa.Function
	inRun := false
	if hs := e.agentRoles().Holders(apiProbe); len(hs) == 1 {
		probe = hs[0]
		inRun = probe == e.agentRoles().Run
	} else {
		r.Unknown("the agent's already-running probe", "internal/agent", sprintf("%d functions of the agent package call GetCurrentStatus", len(hs)))
	}
	getter := e.Fn("internal/client", "(*client).GetCurrentStatus")
	_, ss := e.EnumOf(schedRel, "Status")
	none := ConstVal(ss, "StatusNone")
	// the points at which the probe has passed: its nil returns - or, for a probe
	// written into Run itself, the first things Run does afterwards (opening the
	// history)
	var passPoints []ssa.Instruction
	var probeCall, firstEffect ssa.Instruction
	if probe != nil && inRun {
		for _, ci := range ir.CallsIn(probe, func(c *ssa.CallCommon) bool { return c.IsInvoke() && c.Method.Name() == "GetCurrentStatus" }) {
			probeCall = ci
		}
		for _, ci := range e.agentRoles().Sites(probe, apiHistory+"Open") {
			if ci.Parent() == probe {
				passPoints = append(passPoints, ci)
				firstEffect = ci
			}
		}
		if probeCall == nil || firstEffect == nil {
			r.Unknown("the agent's already-running probe (in Run)", e.Pos(probe.Pos()), "the probe call or the opening of the history after it was not found")
			probe = nil
		}
	} else if probe != nil {
		for _, b := range probe.Blocks {
			for _, in := range b.Instrs {
				rt, ok := in.(*ssa.Return)
				if !ok || !e.Facts(probe).Reachable(b) {
					continue
				}
				allNil := true
				for _, v := range RetVals(rt, 0) {
					if !ir.IsNilConst(ir.Resolve(v)) {
						allNil = false
					}
				}
				if allNil {
					passPoints = append(passPoints, rt)
				}
			}
		}
	}
	if probe != nil {
		for _, pp := range passPoints {
			{
				rt := pp
				lits := e.DCS(rt)
				okNone, okErr := false, false
				for _, l := range lits {
					if l.Kind == "cmp" && l.Op == token.EQL {
						if k, isC := ir.ConstInt(l.Y); isC && k == none && e.IsFieldRead(l.X, nil, "Status") {
							okNone = true
						}
						if ir.IsNilConst(l.Y) {
							if ex, isE := ir.Resolve(l.X).(*ssa.Extract); isE && ex.Index == 1 {
								if c, isC := ex.Tuple.(*ssa.Call); isC && c.Call.IsInvoke() && c.Call.Method.Name() == "GetCurrentStatus" {
									okErr = true
								}
							}
						}
					}
				}
				r.Check(okNone && okErr, "checkIsAlreadyRunning: passes only under GetCurrentStatus err==nil ∧ status == not started", e.InstrPos(rt),
					"the already-running probe lets a start proceed although the DAG's current status is not `not started` (or could not be determined)", e.FactsStr("dominating conditions: ", lits))
			}
		}
	}
	if probe != nil {
		var within func(*ssa.Return) bool
		if inRun {
			// the refusals of the probe: the returns between the probe and what follows it
			within = func(rt *ssa.Return) bool {
				return ir.Precedes(probeCall, rt) && !ir.Precedes(firstEffect, rt)
			}
		}
		c16ProbeRefusals(e, probe, none, within)
	}
	if getter == nil {
		return
	}
	// the socket request: performed by the getter itself, or by a helper that
	// hands the request's error on unchanged or wrapped with %w
	// the request, or a forwarder of it (`return client.Request(method, path)`: one
	// block that hands both results back as they are)
	var isRequest func(c *ssa.CallCommon, d int) bool
	isRequest = func(c *ssa.CallCommon, d int) bool {
		if ir.CalleeName(c) == "(*internal/sock.Client).Request" {
			return true
		}
		h := c.StaticCallee()
		if h == nil || !e.P.Funcs[h] || len(h.Blocks) != 1 || d > 3 || h.Signature.Results().Len() != 2 {
			return false
		}
		rt, ok := h.Blocks[0].Instrs[len(h.Blocks[0].Instrs)-1].(*ssa.Return)
		if !ok || len(rt.Results) != 2 {
			return false
		}
		var inner *ssa.Call
		for i, rv := range rt.Results {
			ex, isE := rv.(*ssa.Extract)
			if !isE || ex.Index != i {
				return false
			}
			ic, isC := ex.Tuple.(*ssa.Call)
			if !isC || (inner != nil && ic != inner) {
				return false
			}
			inner = ic
		}
		return inner != nil && isRequest(&inner.Call, d+1)
	}
	direct := func(f *ssa.Function) (*ssa.Call, ssa.Value) {
		for _, ci := range ir.CallsIn(f, func(c *ssa.CallCommon) bool { return isRequest(c, 0) }) {
			if c, ok := ci.(*ssa.Call); ok {
				for _, ref := range *c.Referrers() {
					if ex, ok := ref.(*ssa.Extract); ok && ex.Index == 1 {
						return c, ex
					}
				}
			}
		}
		return nil, nil
	}
	req, reqErr := direct(getter)
	if req == nil {
		for _, ci := range ir.CallsIn(getter, func(c *ssa.CallCommon) bool { return c.StaticCallee() != nil && e.P.Funcs[c.StaticCallee()] }) {
			g := ci.Common().StaticCallee()
			gReq, gErr := direct(g)
			if gReq == nil {
				continue
			}
			preserved := true
			why := ""
			for _, b := range g.Blocks {
				for _, in := range b.Instrs {
					rt, ok := in.(*ssa.Return)
					if !ok || len(rt.Results) < 2 {
						continue
					}
					onSuccess := false
					for _, l := range e.DCS(rt) {
						if l.Kind == "cmp" && l.Op == token.EQL && ir.IsNilConst(l.Y) && ir.Resolve(l.X) == gErr {
							onSuccess = true // the request itself succeeded: not part of the failure table
						}
					}
					if onSuccess {
						continue
					}
					for _, v := range RetVals(rt, len(rt.Results)-1) {
						v = ir.Resolve(v)
						if ir.IsNilConst(v) || v == gErr {
							continue
						}
						if fc, isC := v.(*ssa.Call); isC && ir.IsCallTo(&fc.Call, "fmt.Errorf") {
							f, _ := ir.ConstString(fc.Call.Args[0])
							// position of %w among the verbs
							idx, n := -1, 0
							for i := 0; i+1 < len(f); i++ {
								if f[i] == '%' {
									if f[i+1] == '%' {
										i++
										continue
									}
									if f[i+1] == 'w' {
										idx = n
									}
									n++
								}
							}
							okW := false
							if idx >= 0 {
								tr := &ir.Tracer{C: e.C}
								if sl, isS := fc.Call.Args[1].(*ssa.Slice); isS {
									if al, isA := sl.X.(*ssa.Alloc); isA {
										for _, ref := range *al.Referrers() {
											if ia, isIA := ref.(*ssa.IndexAddr); isIA {
												if k, isK := ir.ConstInt(ia.Index); isK && int(k) == idx {
													for _, r2 := range *ia.Referrers() {
														if st, isSt := r2.(*ssa.Store); isSt {
															for _, l := range tr.Trace(st.Val) {
																if l.V == gErr {
																	okW = true
																}
															}
															if ir.Resolve(stripIface(st.Val)) == gErr {
																okW = true
															}
														}
													}
												}
											}
										}
									}
								}
							}
							if !okW {
								preserved = false
								why = "helper " + shortName(g) + " formats the request's error with " + f + ": the %w verb does not apply to it, so errors.Is(err, sock.ErrTimeout) can never match"
							}
							continue
						}
						preserved = false
						why = "helper " + shortName(g) + " returns an error that is not the request's error: " + e.C.Render(v)
					}
				}
			}
			if !preserved {
				r.Bad("GetCurrentStatus: the socket request's own error chain reaches the timeout test", e.InstrPos(ci),
					"the status getter used by the already-running probe loses the timeout sentinel: a live run that is slow to answer is taken for `not started` and a second run is admitted", why)
				return
			}
			if c, ok := ci.(*ssa.Call); ok {
				req = c
				for _, ref := range *c.Referrers() {
					if ex, ok := ref.(*ssa.Extract); ok && ex.Index == ex.Tuple.Type().(*types.Tuple).Len()-1 {
						reqErr = ex
					}
				}
			}
		}
	}
	if req == nil || reqErr == nil {
		r.Bad("GetCurrentStatus: asks the DAG's socket", e.Pos(getter.Pos()), "the status getter used by the already-running probe performs no socket request")
		return
	}
	r.OK("GetCurrentStatus: the socket request's own error chain reaches the timeout test", e.InstrPos(req), "")
	isTimeoutTest := func(v ssa.Value) bool {
		c, ok := ir.Resolve(v).(*ssa.Call)
		return ok && ir.IsCallTo(&c.Call, "errors.Is") && ir.Resolve(c.Call.Args[0]) == reqErr && isSentinel(c.Call.Args[1], "internal/sock", "ErrTimeout")
	}
	reqFailed := func(lits []ir.NLit) bool {
		for _, l := range lits {
			if l.Kind == "cmp" && l.Op == token.NEQ && ir.IsNilConst(l.Y) && ir.Resolve(l.X) == reqErr {
				return true
			}
		}
		return false
	}
	nTimeout, nDefault := 0, 0
	for _, b := range getter.Blocks {
		for _, in := range b.Instrs {
			rt, ok := in.(*ssa.Return)
			if !ok || !e.Facts(getter).Reachable(b) {
				continue
			}
			lits := e.DCS(rt)
			if !reqFailed(lits) {
				continue
			}
			errVals := RetVals(rt, 1)
			nonNilErr := false
			for _, v := range errVals {
				if !ir.IsNilConst(ir.Resolve(v)) {
					nonNilErr = true
				}
			}
			if nonNilErr {
				nTimeout++
				r.Check(HasVal(lits, isTimeoutTest, true), "GetCurrentStatus: an error is returned only for a timeout of the socket request", e.InstrPos(rt),
					"a socket failure other than a timeout (e.g. connection refused on the stale socket of a killed run) is reported as an error: the probe then refuses every later start and the socket is never cleaned up", e.FactsStr("dominating conditions: ", lits))
			} else {
				nDefault++
				// the default status
				okDef := false
				for _, v := range RetVals(rt, 0) {
					if c, isC := ir.Resolve(v).(*ssa.Call); isC && strings.HasSuffix(ir.CalleeName(&c.Call), "model.NewStatusDefault") {
						okDef = true
					}
				}
				r.Check(okDef && HasVal(lits, isTimeoutTest, false), "GetCurrentStatus: any non-timeout failure means `not started`", e.InstrPos(rt),
					"a failed socket request that is (or may be) a timeout is mapped to `not started`: a run that is alive but slow to answer would be started twice", e.FactsStr("dominating conditions: ", lits))
			}
		}
	}
	if nTimeout == 0 {
		r.Bad("GetCurrentStatus: an error is returned only for a timeout of the socket request", e.Pos(getter.Pos()), "a timeout of the socket request is not reported as an error: the probe would admit a second start while the live run is merely slow")
	}
	if nDefault == 0 {
		r.Bad("GetCurrentStatus: any non-timeout failure means `not started`", e.Pos(getter.Pos()), "no path maps an unanswered socket to `not started`: a DAG whose run died could never be started again")
	}
	// NewStatusDefault yields StatusNone
	nsd := e.Fn("internal/persistence/model", "NewStatusDefault")
	if nsd != nil {
		ok := false
		for _, ci := range ir.CallsIn(nsd, func(c *ssa.CallCommon) bool { return strings.HasSuffix(ir.CalleeName(c), "model.NewStatus") }) {
			for _, a := range ci.Common().Args {
				if k, isC := ir.ConstInt(a); isC && k == none && strings.HasSuffix(ir.NamedType(a.Type()), "scheduler.Status") {
					ok = true
				}
			}
		}
		r.Check(ok, "NewStatusDefault: status is `not started`", e.Pos(nsd.Pos()), "the default status is not `not started`")
	}
	// the sock client wraps its timeout with %w ErrTimeout
	cr := e.Fn("internal/sock", "(*Client).Request")
	if cr != nil {
		ok := false
		helpers := e.withPkgHelpers(cr)
		underTimeout := func(ci ssa.Instruction) bool {
			return HasVal(e.DCS(ci), func(v ssa.Value) bool {
				c, isC := ir.Resolve(v).(*ssa.Call)
				return isC && c.Call.IsInvoke() && c.Call.Method.Name() == "Timeout"
			}, true)
		}
		// sentinelAt: the value wrapped at `site` is ErrTimeout under a Timeout() test -
		// directly, or as the argument a wrapping helper of the package is called with
		var sentinelAt func(v ssa.Value, site ssa.Instruction, d int) bool
		sentinelAt = func(v ssa.Value, site ssa.Instruction, d int) bool {
			if d > 4 {
				return false
			}
			tr := &ir.Tracer{C: e.C}
			for _, l := range tr.Trace(v) {
				if l.Kind == "global" && l.Name == "ErrTimeout" && underTimeout(site) {
					return true
				}
				p, isP := l.V.(*ssa.Parameter)
				if l.Kind != "param" || !isP || !ir.IsErrorType(p.Type()) {
					continue
				}
				idx := -1
				for i, q := range p.Parent().Params {
					if q == p {
						idx = i
					}
				}
				for _, g := range helpers {
					for _, ci := range ir.CallsIn(g, func(c *ssa.CallCommon) bool { return c.StaticCallee() == p.Parent() }) {
						if idx >= 0 && idx < len(ci.Common().Args) && sentinelAt(ci.Common().Args[idx], ci, d+1) {
							return true
						}
					}
				}
			}
			return false
		}
		for _, g := range helpers {
			for _, ci := range ir.CallsIn(g, func(c *ssa.CallCommon) bool { return ir.IsCallTo(c, "fmt.Errorf") }) {
				f, _ := ir.ConstString(ci.Common().Args[0])
				if strings.Contains(f, "%w") && sentinelAt(ci.Common().Args[1], ci, 0) {
					ok = true
				}
			}
		}
		r.Check(ok, "sock.Client.Request: a read timeout is wrapped (%w) as ErrTimeout", e.Pos(cr.Pos()), "a timed-out status request is not recognisable as ErrTimeout by errors.Is")
	}
}

func c08LiveIsRunning(e *Env) {
	r := e.R
	r.Rule("C08.live-is-running", "VF", "/status answers running", 1)
	h := e.Fn("internal/agent", "(*Agent).HandleHTTP")
	if h == nil {
		return
	}
	_, ss := e.EnumOf(schedRel, "Status")
	running := ConstVal(ss, "StatusRunning")
	ok := false
	// the /status branch may live in a helper of the handler (virtual inlining view), or
	// in a function of the agent package the handler reaches through a routing table
	// (a dynamic call; callees by the call graph)
	hset := e.inlinedSet(h, nil)
	for _, hf := range sortedFns(hset) {
		if n := e.P.CG.Nodes[hf]; n != nil {
			for _, ed := range n.Out {
				if ed.Site == nil || ed.Site.Common().StaticCallee() != nil || ed.Site.Common().IsInvoke() {
					continue
				}
				targets := []*ssa.Function{ed.Callee.Func}
				if c := ed.Callee.Func; c.Synthetic != "" { // a method expression's thunk: what it calls
					for _, ci := range ir.CallsIn(c, func(cc *ssa.CallCommon) bool { return cc.StaticCallee() != nil }) {
						targets = append(targets, ci.Common().StaticCallee())
					}
				}
				for _, c := range targets {
					if e.P.Funcs[c] && c.Synthetic == "" && rootFn(c).Package() == rootFn(h).Package() {
						for g := range e.inlinedSet(c, nil) {
							hset[g] = true
						}
					}
				}
			}
		}
	}
	for _, hf := range sortedFns(hset) {
		for _, ci := range ir.CallsIn(hf, func(c *ssa.CallCommon) bool { return strings.HasSuffix(ir.CalleeName(c), "model.Status).ToJSON") }) {
			recv := ir.Resolve(ci.Common().Args[0])
			for _, b := range hf.Blocks {
				for _, in := range b.Instrs {
					st, isS := in.(*ssa.Store)
					if !isS {
						continue
					}
					fa, isFA := st.Addr.(*ssa.FieldAddr)
					if !isFA || ir.FieldNameOf(fa.X.Type(), fa.Field) != "Status" || ir.Resolve(fa.X) != recv {
						continue
					}
					if k, isC := ir.ConstInt(st.Val); isC && k == running && ir.Precedes(st, ci) {
						ok = true
					}
				}
			}
		}
	}
	r.Check(ok, "HandleHTTP /status: status := running before encoding", e.Pos(h.Pos()),
		"a live agent can answer with a status other than running (e.g. `not started` right after start): the already-running probe of a second start would pass and latest-status would report a live run as not running")
}

func c16AtomicClaim(e *Env) {
	r := e.R
	r.Rule("C16.atomic-claim", "MPT", "exclusive claim between probe and bind", 1)
	serve := e.Fn("internal/sock", "(*Server).Serve")
	if serve == nil {
		return
	}
	// the bind and the unlink may sit in Serve or in helpers of its package
	var listen ssa.Instruction
	body := e.withPkgHelpers(serve)
	for _, f := range body {
		for _, ci := range ir.CallsIn(f, func(c *ssa.CallCommon) bool { return ir.IsCallTo(c, "net.Listen", "(*net.ListenConfig).Listen") }) {
			listen = ci
		}
	}
	if listen == nil {
		r.Unknown("sock.Server.Serve: bind", e.Pos(serve.Pos()), "no net.Listen call")
		return
	}
	addrArg := listen.(ssa.CallInstruction).Common().Args[len(listen.(ssa.CallInstruction).Common().Args)-1]
	sameAddr := func(v ssa.Value) bool {
		pa, ok1 := e.C.PathOf(v)
		pb, ok2 := e.C.PathOf(addrArg)
		return ok1 && ok2 && pa.Dotted() == pb.Dotted() && ir.NamedType(pa.Root.Type()) == ir.NamedType(pb.Root.Type())
	}
	// an unconditional unlink of the socket path before the bind defeats bind's own exclusivity
	unlinked := false
	var pos string
	for _, f := range body {
		for _, ci := range ir.CallsIn(f, func(c *ssa.CallCommon) bool { return ir.IsCallTo(c, "os.Remove", "os.RemoveAll", "syscall.Unlink") }) {
			if liftedPrecedes(ci, listen) && sameAddr(ci.Common().Args[0]) {
				// conditional on a liveness test?
				guarded := false
				for _, l := range e.DCS(ci) {
					if l.Kind == "cmp" || l.Kind == "val" {
						guarded = true
					}
				}
				if !guarded {
					unlinked = true
					pos = e.InstrPos(ci)
				}
			}
		}
	}
	// other exclusive primitives: flock / O_EXCL lock file
	excl := false
	for _, f := range e.RepoFuncsSorted() {
		p := ShortFn(rootFn(f))
		if !strings.Contains(p, "internal/sock") && !strings.Contains(p, "internal/agent") {
			continue
		}
		for _, ci := range ir.CallsIn(f, func(c *ssa.CallCommon) bool { return ir.IsCallTo(c, "syscall.Flock", "golang.org/x/sys/unix.Flock") }) {
			_ = ci
			excl = true
		}
		for _, ci := range ir.CallsIn(f, func(c *ssa.CallCommon) bool { return ir.IsCallTo(c, "os.OpenFile") }) {
			if fl, ok := ir.ConstInt(ci.Common().Args[1]); ok && fl&0x80 != 0 {
				excl = true
			}
		}
	}
	if pos == "" {
		pos = e.InstrPos(listen)
	}
	r.Check(!unlinked || excl, "sock.Server.Serve: the socket path is not unlinked unconditionally before the bind (or another exclusive claim exists)", pos,
		"the listener removes whatever is at the socket path and then binds, in a different function from the probe: two simultaneous starts both pass the probe, the later one unlinks the earlier one's socket, and both execute steps")
}

func stripIface(v ssa.Value) ssa.Value {
	for {
		switch x := v.(type) {
		case *ssa.MakeInterface:
			v = x.X
			continue
		case *ssa.ChangeInterface:
			v = x.X
			continue
		}
		return v
	}
}
