package rules

import (
	"go/token"
	"go/types"
	"sort"
	"strconv"
	"strings"

	"golang.org/x/tools/go/ssa"

	"bdcheck/internal/ir"
)

// ---------------------------------------------------------------------------
// C03.executor-single-shot

// effectOf names the externally visible effect a call performs on behalf of a
// step (process start, request sent, remote command, container start, mail), or "".
// The table is frozen from the executors of the tree: os/exec, resty, x/crypto/ssh,
// the docker client and net/smtp are the only ways a step's command leaves the
// process.
func effectOf(c *ssa.CallCommon) string {
	typ, meth := "", ""
	if c.IsInvoke() {
		typ, meth = ir.NamedType(c.Value.Type()), c.Method.Name()
	} else if f := c.StaticCallee(); f != nil {
		meth = f.Name()
		if rv := f.Signature.Recv(); rv != nil {
			typ = ir.NamedType(rv.Type())
		} else if f.Pkg != nil {
			typ = f.Pkg.Pkg.Path()
		}
	}
	in := func(s string, list ...string) bool {
		for _, x := range list {
			if s == x {
				return true
			}
		}
		return false
	}
	switch {
	case typ == "os/exec.Cmd" && in(meth, "Start", "Run", "Output", "CombinedOutput"):
	case strings.HasSuffix(typ, "go-resty/resty/v2.Request") && in(meth, "Execute", "Send", "Get", "Post", "Put", "Patch", "Delete", "Head", "Options"):
	case strings.HasSuffix(typ, "golang.org/x/crypto/ssh.Session") && in(meth, "Run", "Start", "Output", "CombinedOutput", "Shell"):
	case strings.HasSuffix(typ, "docker/client.Client") && in(meth, "ContainerCreate", "ContainerStart", "ContainerExecCreate", "ContainerExecStart"):
	case typ == "net/smtp" && meth == "SendMail":
	case typ == "net/smtp.Client" && in(meth, "Data", "Mail"):
	default:
		return ""
	}
	return typ + "." + meth
}

// c03ExecutorSingleShot: the retry bound counts the scheduler's attempts; it bounds
// the executions of the step only if one attempt - one call of Executor.Run - performs
// the step's effect once. Decided on the shape of the executors: (a) in everything a
// Run method reaches inside the repository, an effect call (effectOf) is not inside a
// loop, nor is any call that leads to one; (b) no HTTP client of the repository is
// configured to re-send on its own (resty's SetRetryCount with a value other than 0):
// such hidden attempts multiply with the scheduler's and are not counted anywhere.
func c03ExecutorSingleShot(e *Env) {
	r := e.R
	r.Rule("C03.executor-single-shot", "effect table + loop membership", "one Executor.Run performs the step's effect once: effect calls outside loops, no client-level retry", 6)
	sp := e.P.Pkg("internal/dag/executor")
	if sp == nil {
		r.Unknown("executor package", "-", "internal/dag/executor not loaded")
		return
	}
	var iface *types.Interface
	names := make([]string, 0, len(sp.Members))
	for n := range sp.Members {
		names = append(names, n)
	}
	sort.Strings(names)
	for _, n := range names {
		t, ok := sp.Members[n].(*ssa.Type)
		if !ok {
			continue
		}
		it, ok := t.Type().Underlying().(*types.Interface)
		if !ok {
			continue
		}
		hasRun, hasKill := false, false
		for i := 0; i < it.NumMethods(); i++ {
			switch it.Method(i).Name() {
			case "Run":
				hasRun = true
			case "Kill":
				hasKill = true
			}
		}
		if hasRun && hasKill {
			iface = it
		}
	}
	if iface == nil {
		r.Unknown("the executor interface (Run, Kill)", "-", "no interface with Run and Kill in the executor package")
		return
	}
	var runs []*ssa.Function
	for _, f := range e.RepoFuncsSorted() {
		if f.Name() != "Run" || f.Parent() != nil || f.Synthetic != "" || f.Blocks == nil || f.Signature.Recv() == nil {
			continue
		}
		if types.Implements(f.Signature.Recv().Type(), iface) {
			runs = append(runs, f)
		}
	}
	if len(runs) == 0 {
		r.Unknown("implementations of the executor interface", "-", "none found")
		return
	}
	// effectful(f): f performs an effect itself or through repository callees
	memo := map[*ssa.Function]int{} // 1 yes, 2 no, 3 in progress
	var effectful func(f *ssa.Function) bool
	effectful = func(f *ssa.Function) bool {
		if f == nil || f.Blocks == nil || !e.P.Funcs[f] {
			return false
		}
		switch memo[f] {
		case 1:
			return true
		case 2, 3:
			return false
		}
		memo[f] = 3
		res := false
		for _, g := range ir.WithClosures(f) {
			for _, b := range g.Blocks {
				for _, in := range b.Instrs {
					ci, ok := in.(ssa.CallInstruction)
					if !ok {
						continue
					}
					if effectOf(ci.Common()) != "" || effectful(ci.Common().StaticCallee()) {
						res = true
					}
				}
			}
		}
		if res {
			memo[f] = 1
		} else {
			memo[f] = 2
		}
		return res
	}
	seen := map[*ssa.Function]bool{}
	for _, run := range runs {
		for _, g := range e.staticClosure(run) {
			if seen[g] || g.Blocks == nil {
				continue
			}
			seen[g] = true
			loops := ir.Loops(g)
			for _, b := range g.Blocks {
				for _, in := range b.Instrs {
					ci, ok := in.(ssa.CallInstruction)
					if !ok {
						continue
					}
					eff := effectOf(ci.Common())
					what := eff
					if eff == "" {
						c := ci.Common().StaticCallee()
						if !effectful(c) {
							continue
						}
						what = "call of " + shortName(c) + " (which performs the effect)"
					}
					l := ir.InnermostLoop(loops, b)
					r.Check(l == nil, shortName(g)+": "+what+" is not repeated within one Run", e.InstrPos(in),
						"the step's effect is performed inside a loop of the executor: one attempt of the scheduler executes the step several times, and the retry bound 1+limit no longer bounds the executions")
				}
			}
		}
	}
	// (b) client-level retry
	n := 0
	for _, f := range e.RepoFuncsSorted() {
		for _, b := range f.Blocks {
			for _, in := range b.Instrs {
				ci, ok := in.(ssa.CallInstruction)
				if !ok {
					continue
				}
				c := ci.Common().StaticCallee()
				if c == nil || c.Signature.Recv() == nil || !strings.Contains(ir.NamedType(c.Signature.Recv().Type()), "go-resty/resty/") {
					continue
				}
				n++
				if c.Name() != "SetRetryCount" {
					continue
				}
				k, isC := ir.ConstInt(ci.Common().Args[len(ci.Common().Args)-1])
				r.Check(isC && k == 0, shortName(f)+": the HTTP client does not re-send requests on its own", e.InstrPos(in),
					"the HTTP client is configured to retry: within one scheduler attempt the request is sent up to 1+count times (also after the server acted on it), so a step runs more often than 1+retryPolicy.limit and the recorded retry count is not the number of extra attempts")
			}
		}
	}
	r.Check(n > 0, "the HTTP executor's client configuration was inspected", e.Pos(sp.Pkg.Scope().Pos()), "no call of a resty method found in the repository (HTTP executor not recognised)")
}

// ---------------------------------------------------------------------------
// C12.flush-independent

// c12FlushIndependent: every installed writer is flushed at teardown whatever
// happened to the other sinks. (a) no Flush in teardown (or the call leading to it,
// up to teardown itself) is conditional on the error result of another flush / sync /
// close or of a teardown helper; (b) a loop in teardown that flushes is not left
// (break / return) on such a result.
func c12FlushIndependent(e *Env) {
	r := e.R
	r.Rule("C12.flush-independent", "DCS", "no flush at teardown depends on another sink's flush/sync/close result", 1)
	td := e.nodeRoles().Teardown
	if td == nil {
		r.Unknown("the node's teardown function", "-", "not found")
		return
	}
	sp := rootFn(td).Package()
	inTd := map[*ssa.Function]bool{}
	var tdFns []*ssa.Function
	for _, g := range e.staticClosure(td) {
		if rootFn(g).Package() == sp && g.Blocks != nil {
			tdFns = append(tdFns, g)
			inTd[g] = true
		}
	}
	isSinkOp := func(c *ssa.CallCommon) bool {
		return ir.IsCallTo(c, "(*bufio.Writer).Flush", "(*os.File).Sync", "(*os.File).Close")
	}
	isFlush := func(c *ssa.CallCommon) bool { return ir.IsCallTo(c, "(*bufio.Writer).Flush") }
	// flushes(f): f flushes a writer itself or through a teardown helper
	flMemo := map[*ssa.Function]int{}
	var flushes func(f *ssa.Function) bool
	flushes = func(f *ssa.Function) bool {
		if f == nil || !inTd[f] {
			return false
		}
		if flMemo[f] != 0 {
			return flMemo[f] == 1
		}
		flMemo[f] = 2
		for _, g := range ir.WithClosures(f) {
			for _, ci := range ir.CallsIn(g, func(*ssa.CallCommon) bool { return true }) {
				if isFlush(ci.Common()) || flushes(ci.Common().StaticCallee()) {
					flMemo[f] = 1
				}
			}
		}
		return flMemo[f] == 1
	}
	// sink-derived: the error of a sink operation or of a teardown helper
	var derived func(v ssa.Value, d int) bool
	derived = func(v ssa.Value, d int) bool {
		if v == nil || d > 6 {
			return false
		}
		v = ir.Resolve(v)
		switch x := v.(type) {
		case *ssa.Extract:
			return derived(x.Tuple, d+1)
		case *ssa.Call:
			if isSinkOp(&x.Call) {
				return true
			}
			if c := x.Call.StaticCallee(); c != nil && inTd[c] && c != td {
				res := c.Signature.Results()
				for i := 0; i < res.Len(); i++ {
					if res.At(i).Type().String() == "error" {
						return true
					}
				}
			}
		case *ssa.Phi:
			for _, ed := range x.Edges {
				if derived(ed, d+1) {
					return true
				}
			}
		case *ssa.UnOp:
			if x.Op == token.MUL {
				if al, ok := x.X.(*ssa.Alloc); ok {
					for _, ref := range *al.Referrers() {
						if st, ok := ref.(*ssa.Store); ok && st.Addr == ssa.Value(al) && derived(st.Val, d+1) {
							return true
						}
					}
				}
			}
		}
		return false
	}
	litDerived := func(l ir.NLit) bool {
		switch l.Kind {
		case "cmp":
			return derived(l.X, 0) || derived(l.Y, 0)
		case "val":
			return derived(l.V, 0)
		}
		return false
	}
	// (a)
	n := 0
	for _, g := range tdFns {
		for _, ci := range ir.CallsIn(g, isFlush) {
			n++
			var bad []string
			var site ssa.Instruction = ci
			seen := map[*ssa.Function]bool{}
			for depth := 0; site != nil && depth < 6; depth++ {
				for _, l := range e.DCS(site) {
					if litDerived(l) {
						bad = append(bad, e.InstrPos(site)+": "+strings.Join(e.RenderN([]ir.NLit{l}), ""))
					}
				}
				f := rootFn(site.Parent())
				if f == td || seen[f] {
					break
				}
				seen[f] = true
				// closures: continue at the statement of the parent that creates/uses them
				var next ssa.Instruction
				if site.Parent() != f {
					next = closureSite(site.Parent())
				} else {
					var up []ssa.CallInstruction
					for _, cs := range e.StaticCallSites(f) {
						if inTd[cs.Parent()] {
							up = append(up, cs)
						}
					}
					if len(up) == 1 {
						next = up[0]
					} else {
						for _, cs := range up {
							for _, l := range e.DCS(cs) {
								if litDerived(l) {
									bad = append(bad, e.InstrPos(cs)+": "+strings.Join(e.RenderN([]ir.NLit{l}), ""))
								}
							}
						}
					}
				}
				site = next
			}
			r.Check(len(bad) == 0, shortName(g)+": the flush does not depend on the outcome of another sink ["+e.C.Render(ci.Common().Args[0])+"]", e.InstrPos(ci),
				"a writer is flushed at teardown only when an earlier flush / sync / close succeeded: one sink that cannot be written (disk full on the redirect target) leaves what the step printed last in the other writers' buffers, and the step's log is truncated exactly when it is needed", bad...)
		}
	}
	if n == 0 {
		r.Unknown("flush calls of teardown", e.Pos(td.Pos()), "teardown and its helpers contain no bufio Flush")
	}
	// (b)
	for _, g := range tdFns {
		loops := ir.Loops(g)
		for _, l := range loops {
			has := false
			for b := range l.Blocks {
				for _, in := range b.Instrs {
					if ci, ok := in.(ssa.CallInstruction); ok && (isFlush(ci.Common()) || flushes(ci.Common().StaticCallee())) {
						has = true
					}
				}
			}
			if !has {
				continue
			}
			okLoop := true
			var facts []string
			for _, b := range sortedBlocks(l.Blocks) {
				iff, isIf := b.Instrs[len(b.Instrs)-1].(*ssa.If)
				if !isIf || b == l.Header {
					continue
				}
				leaves := false
				for _, sx := range b.Succs {
					if !l.Blocks[sx] {
						leaves = true
					}
				}
				if !leaves {
					continue
				}
				cond := ir.Resolve(iff.Cond)
				dv := derived(cond, 0)
				if bo, isB := cond.(*ssa.BinOp); isB {
					dv = derived(bo.X, 0) || derived(bo.Y, 0)
				}
				if dv {
					okLoop = false
					facts = append(facts, "loop left at "+e.InstrPos(iff)+" on "+e.C.Render(cond))
				}
			}
			r.Check(okLoop, shortName(g)+": the flushing loop is not left on a sink's error", e.Pos(l.Header.Instrs[0].Pos()),
				"the loop that flushes the writers stops at the first sink that fails: the writers behind it are never flushed", facts...)
		}
	}
}

// closureSite: the MakeClosure (or the go/defer/call using it) of an anonymous
// function in its parent.
func closureSite(cl *ssa.Function) ssa.Instruction {
	p := cl.Parent()
	if p == nil {
		return nil
	}
	for _, b := range p.Blocks {
		for _, in := range b.Instrs {
			if mc, ok := in.(*ssa.MakeClosure); ok && mc.Fn == ssa.Value(cl) {
				// the instruction that runs it, when it is in the same block
				for _, ref := range *mc.Referrers() {
					switch ref.(type) {
					case *ssa.Defer, *ssa.Go, *ssa.Call:
						return ref
					}
				}
				return mc
			}
		}
	}
	return nil
}

// ---------------------------------------------------------------------------
// C16.address-function

// c16AddressFunction: the lock of a DAG file is the socket address; every process
// that starts, probes or controls a run of that file must compute the same address
// from the file's location alone. (a) every address handed to the socket server and
// socket client constructors is the result of one and the same repository function;
// (b) nothing that function reaches inside the repository reads the process
// environment (temp dir, environment variables, pid, host name, working directory,
// home, clock, random numbers) or a package-level variable.
func c16AddressFunction(e *Env) {
	r := e.R
	r.Rule("C16.address-function", "VF+effect table", "socket addresses come from one function of the DAG's location only", 3)
	sockp := e.P.Pkg("internal/sock")
	if sockp == nil {
		r.Unknown("socket package", "-", "internal/sock not loaded")
		return
	}
	var addrFn *ssa.Function
	nSites := 0
	for _, f := range e.RepoFuncsSorted() {
		if rootFn(f).Package() == sockp {
			continue
		}
		for _, b := range f.Blocks {
			for _, in := range b.Instrs {
				ci, ok := in.(ssa.CallInstruction)
				if !ok {
					continue
				}
				c := ci.Common().StaticCallee()
				if c == nil || c.Package() != sockp || c.Parent() != nil || c.Signature.Recv() != nil || !strings.HasPrefix(c.Name(), "New") {
					continue
				}
				// the string parameter(s) of the constructor
				for k, a := range ci.Common().Args {
					if bt, isB := c.Params[k].Type().Underlying().(*types.Basic); !isB || bt.Kind() != types.String {
						continue
					}
					nSites++
					v := ir.Deep(a)
					call, isCall := v.(*ssa.Call)
					var g *ssa.Function
					if isCall {
						g = call.Call.StaticCallee()
					}
					if g == nil || !e.P.Funcs[g] {
						r.Bad(shortName(f)+": the socket address is computed by the DAG's address function", e.InstrPos(in),
							"the address handed to "+c.Name()+" is "+e.C.Render(v)+", not the result of a repository function: server and clients may not agree on the lock")
						continue
					}
					if addrFn == nil {
						addrFn = g
					}
					r.Check(g == addrFn, shortName(f)+": the socket address is computed by the DAG's address function", e.InstrPos(in),
						"two different functions compute socket addresses ("+shortName(addrFn)+", "+shortName(g)+"): the process that owns the lock and the one probing it may use different names")
				}
			}
		}
	}
	if addrFn == nil {
		r.Unknown("the address function", "-", sprintf("%d socket constructor call sites, none with a repository function as address", nSites))
		return
	}
	envDep := func(c *ssa.CallCommon) string {
		n := ir.CalleeName(c)
		switch n {
		case "os.TempDir", "os.Getenv", "os.LookupEnv", "os.Environ", "os.ExpandEnv", "os.Getpid", "os.Getppid", "os.Hostname", "os.Getwd",
			"os.UserHomeDir", "os.UserCacheDir", "os.UserConfigDir", "os.Getuid", "os.Geteuid", "os.Getgid", "os.Executable", "time.Now", "os/user.Current":
			return n
		}
		if strings.HasPrefix(n, "math/rand") || strings.HasPrefix(n, "crypto/rand.") || strings.Contains(n, "github.com/google/uuid.") {
			return n
		}
		return ""
	}
	okPure := true
	var facts []string
	for _, g := range e.staticClosure(addrFn) {
		for _, h := range ir.WithClosures(g) {
			for _, b := range h.Blocks {
				for _, in := range b.Instrs {
					if ci, ok := in.(ssa.CallInstruction); ok {
						if n := envDep(ci.Common()); n != "" {
							okPure = false
							facts = append(facts, n+" at "+e.InstrPos(in))
						}
					}
					if u, ok := in.(*ssa.UnOp); ok && u.Op == token.MUL {
						if gl, isG := u.X.(*ssa.Global); isG && gl.Pkg != nil && strings.HasPrefix(gl.Pkg.Pkg.Path(), modPrefix()) && e.globalReassigned(gl) {
							okPure = false
							facts = append(facts, "package variable "+gl.Name()+" (assigned outside the package initialiser) read at "+e.InstrPos(in))
						}
					}
				}
			}
		}
	}
	r.Check(okPure, shortName(addrFn)+": the address depends on nothing but the DAG", e.Pos(addrFn.Pos()),
		"the socket address depends on the environment of the process that computes it (TMPDIR, an environment variable, pid, clock ...): an agent started from a shell with another environment gets another address, the already-running probe finds nothing and a second run of the same file starts; status and stop requests go to the wrong socket", facts...)
}

func modPrefix() string { return "github.com/ErdemOzgen/blackdagger" }

// ---------------------------------------------------------------------------
// C18.delete-needs-location

// c18DeleteNeedsLocation: the history of a DAG is keyed by its absolute location;
// the client's DeleteDAG removes the history under the location it is given and then
// the file. A status lookup that failed hands back a placeholder whose Location is
// not the file's: wherever the location argument of DeleteDAG is read out of the
// result of a call that also returns an error, the delete is reached only when that
// error was nil.
func c18DeleteNeedsLocation(e *Env) {
	r := e.R
	r.Rule("C18.delete-needs-location", "DCS/nil-reachability", "DeleteDAG gets a location that came out of a successful lookup", 1)
	n := 0
	for _, f := range e.RepoFuncsSorted() {
		if strings.Contains(ShortFn(rootFn(f)), "internal/client.") {
			continue
		}
		for _, b := range f.Blocks {
			for _, in := range b.Instrs {
				ci, ok := in.(ssa.CallInstruction)
				if !ok {
					continue
				}
				c := ci.Common()
				isDel := false
				if c.IsInvoke() {
					isDel = c.Method.Name() == "DeleteDAG" && strings.HasSuffix(ir.NamedType(c.Value.Type()), "internal/client.Client")
				} else if g := c.StaticCallee(); g != nil && g.Name() == "DeleteDAG" && strings.Contains(ShortFn(g), "internal/client.") {
					isDel = true
				}
				if !isDel || len(c.Args) < 2 {
					continue
				}
				loc := c.Args[len(c.Args)-1]
				p, okP := e.pathThroughParams(loc)
				if !okP {
					continue // not read out of a looked-up object
				}
				root := ir.Deep(p.Root)
				for {
					u, isU := root.(*ssa.UnOp)
					if !isU || u.Op != token.MUL {
						break
					}
					root = ir.Deep(u.X)
				}
				var errv ssa.Value
				var call *ssa.Call
				if ex, isEx := root.(*ssa.Extract); isEx {
					if cl, isC := ex.Tuple.(*ssa.Call); isC {
						call = cl
						tup := cl.Type().(*types.Tuple)
						for i := 0; i < tup.Len(); i++ {
							if tup.At(i).Type().String() == "error" {
								for _, ref := range *cl.Referrers() {
									if ex2, ok := ref.(*ssa.Extract); ok && ex2.Index == i {
										errv = ex2
									}
								}
								if errv == nil {
									errv = cl // error result dropped: never tested
								}
							}
						}
					}
				}
				if call == nil || errv == nil {
					continue
				}
				n++
				ok2 := false
				if errv != ssa.Value(call) && call.Parent() == in.Parent() {
					for _, l := range e.DCS(in) {
						if l.Kind == "cmp" && l.Op == token.EQL && ir.IsNilConst(l.Y) && ir.Resolve(l.X) == errv {
							ok2 = true
						}
					}
					if !ok2 && ir.Precedes(call, in) {
						ok2 = !ir.ReachableAssuming(call, in, map[ssa.Value]bool{errv: true})
					}
				}
				r.Check(ok2, shortName(f)+": DeleteDAG is reached only when the lookup of its location succeeded", e.InstrPos(in),
					"the definition is deleted with the Location of a lookup that failed: the placeholder returned with the error carries the bare id instead of the absolute path, the history keyed by the path is not removed and the file is - definition and history go out of step, a DAG created later under the name inherits the old runs",
					"location read from the result of "+ir.CalleeName(&call.Call)+" at "+e.InstrPos(call))
			}
		}
	}
	if n == 0 {
		r.Unknown("callers of the client's DeleteDAG that look the location up", "-", "no DeleteDAG call whose location is read out of a (value, error) lookup")
	}
}

// ---------------------------------------------------------------------------
// C07.rename-file-by-file

// cHistoryRenameSingly: renaming a DAG migrates its history with one atomic rename
// per run file, so that after a kill at any point every run is visible under exactly
// one of the two names (and repeating the rename finishes the job). Every os.Rename
// the history store's Rename reaches moves an element of a directory listing (a glob
// result or ReadDir entries) - never a directory, never a computed name.
func cHistoryRenameSingly(e *Env, rule string) {
	r := e.R
	r.Rule(rule, "VF", "history Rename moves the run files one by one, each with a single os.Rename of a listed file", 1)
	fn := e.Fn(jsondbRel, "(*JSONDB).Rename")
	if fn == nil {
		return
	}
	var listed func(v ssa.Value, d int) bool
	var elemOfListing func(v ssa.Value, d int) bool
	// listed: v is (a part of) a directory listing
	listed = func(v ssa.Value, d int) bool {
		if d > 8 {
			return false
		}
		v = ir.Deep(v)
		switch x := v.(type) {
		case *ssa.Extract:
			if c, ok := x.Tuple.(*ssa.Call); ok && x.Index == 0 {
				if ir.IsCallTo(&c.Call, "path/filepath.Glob", "os.ReadDir", "io/ioutil.ReadDir") {
					return true
				}
				if g := c.Call.StaticCallee(); g != nil && e.P.Funcs[g] && g.Blocks != nil {
					n, all := 0, true
					for _, b := range g.Blocks {
						if rt, isR := b.Instrs[len(b.Instrs)-1].(*ssa.Return); isR && len(rt.Results) > 0 {
							for _, rv := range RetVals(rt, 0) {
								if ir.IsNilConst(ir.Resolve(rv)) {
									continue
								}
								n++
								if !listed(rv, d+1) {
									all = false
								}
							}
						}
					}
					return all && n > 0
				}
			}
		case *ssa.Call:
			if g := x.Call.StaticCallee(); g != nil && e.P.Funcs[g] && g.Blocks != nil && g.Signature.Results().Len() == 1 {
				n, all := 0, true
				for _, b := range g.Blocks {
					if rt, isR := b.Instrs[len(b.Instrs)-1].(*ssa.Return); isR {
						for _, rv := range RetVals(rt, 0) {
							if ir.IsNilConst(ir.Resolve(rv)) {
								continue
							}
							n++
							if !listed(rv, d+1) {
								all = false
							}
						}
					}
				}
				return all && n > 0
			}
		case *ssa.Slice:
			return listed(x.X, d+1)
		case *ssa.Phi:
			n := 0
			for _, ed := range x.Edges {
				if ir.IsNilConst(ir.Resolve(ed)) {
					continue
				}
				n++
				if !listed(ed, d+1) {
					return false
				}
			}
			return n > 0
		}
		return false
	}
	// elemOfListing: v is one listed file: an element of a listing, or a path put
	// together (Join, Name()) from one
	elemOfListing = func(v ssa.Value, d int) bool {
		if d > 8 {
			return false
		}
		v = ir.Deep(v)
		switch x := v.(type) {
		case *ssa.UnOp:
			if x.Op == token.MUL {
				if ia, ok := x.X.(*ssa.IndexAddr); ok {
					return listed(ia.X, d+1)
				}
			}
		case *ssa.Index:
			return listed(x.X, d+1)
		case *ssa.Call:
			if x.Call.IsInvoke() && x.Call.Method.Name() == "Name" {
				return elemOfListing(x.Call.Value, d+1)
			}
			if ir.IsCallTo(&x.Call, "path/filepath.Join") {
				for _, a := range variadicElems(x.Call.Args[len(x.Call.Args)-1]) {
					if elemOfListing(a, d+1) {
						return true
					}
				}
			}
		case *ssa.Phi:
			for _, ed := range x.Edges {
				if !elemOfListing(ed, d+1) {
					return false
				}
			}
			return len(x.Edges) > 0
		}
		return false
	}
	n := 0
	for _, g := range e.staticClosure(fn) {
		if rootFn(g).Package() != fn.Package() {
			continue
		}
		for _, ci := range ir.CallsIn(g, func(c *ssa.CallCommon) bool { return ir.IsCallTo(c, "os.Rename") }) {
			n++
			src := ci.Common().Args[0]
			r.Check(elemOfListing(src, 0), "history Rename: os.Rename moves one listed run file ["+e.C.Render(ir.Deep(src))+"]", e.InstrPos(ci),
				"the history is migrated by renaming something that is not a single listed run file (the directory itself, a computed name): between that step and the per-file renames the completed runs are found under neither the old nor the new name, and a repeated Rename does not repair it")
		}
	}
	if n == 0 {
		r.Unknown("history Rename: the move of the run files", e.Pos(fn.Pos()), "no os.Rename reached from the history store's Rename")
	}
}

// variadicElems: the values stored into the backing array of a variadic argument
// (`f(a, b)` for `f(xs ...T)`), or the slice itself when it is not built in place.
func variadicElems(v ssa.Value) []ssa.Value {
	sl, ok := v.(*ssa.Slice)
	if !ok {
		return []ssa.Value{v}
	}
	al, ok := sl.X.(*ssa.Alloc)
	if !ok {
		return []ssa.Value{v}
	}
	var out []ssa.Value
	for _, ref := range *al.Referrers() {
		if ia, ok := ref.(*ssa.IndexAddr); ok {
			for _, r2 := range *ia.Referrers() {
				if st, ok := r2.(*ssa.Store); ok {
					out = append(out, st.Val)
				}
			}
		}
	}
	return out
}

// ---------------------------------------------------------------------------
// C11.outputs-last

// c11OutputsLast: a child process sees the value a step captured: exec.Cmd keeps the
// LAST entry of a duplicated name, so in the environment a process executor puts
// together nothing static (the step's load-time Variables, the agent's own
// environment) is appended after the captured outputs.
func c11OutputsLast(e *Env) {
	r := e.R
	r.Rule("C11.outputs-last", "MPT", "process executors append the captured outputs after the static variables", 2)
	sp := e.P.Pkg("internal/dag/executor")
	if sp == nil {
		r.Unknown("executor package", "-", "not loaded")
		return
	}
	isStatic := func(v ssa.Value) string {
		v = ir.Resolve(v)
		if sl, ok := v.(*ssa.Slice); ok {
			v = ir.Resolve(sl.X)
		}
		if e.IsFieldRead(v, nil, "Variables") {
			return "the step's static Variables"
		}
		if c, ok := v.(*ssa.Call); ok && ir.IsCallTo(&c.Call, "os.Environ") {
			return "the agent's own environment"
		}
		return ""
	}
	n := 0
	for _, f := range e.procCtors() {
		inCtor := map[*ssa.Function]bool{}
		var ctorFns []*ssa.Function
		for _, g := range e.staticClosure(f) {
			if rootFn(g).Package() == sp && g.Blocks != nil {
				ctorFns = append(ctorFns, g)
				inCtor[g] = true
			}
		}
		for _, g := range ctorFns {
			for _, ci := range ir.CallsIn(g, func(c *ssa.CallCommon) bool { return ir.IsCallTo(c, "(*sync.Map).Range") }) {
				fa, isFA := ci.Common().Args[0].(*ssa.FieldAddr)
				if !isFA || !e.IsFieldRead(fa.X, nil, "OutputVariables") {
					continue
				}
				n++
				// the environment as a table of layers (`[][]string{os.Environ(), step.Variables,
				// …, outputsOf(step)}` appended front to back by a range loop): the order of the
				// appends is the order of the literal's elements
				if rootFn(g) != f {
					layered := false
					var facts []string
					for _, cs := range e.StaticCallSites(rootFn(g)) {
						cv, isV := cs.(ssa.Value)
						if !isV || !inCtor[cs.Parent()] || cv.Referrers() == nil {
							continue
						}
						for _, ref := range *cv.Referrers() {
							st, isSt := ref.(*ssa.Store)
							if !isSt {
								continue
							}
							ia, isIA := st.Addr.(*ssa.IndexAddr)
							if !isIA {
								continue
							}
							k, isK := ir.ConstInt(ia.Index)
							arr, isAl := ia.X.(*ssa.Alloc)
							if !isK || !isAl || arr.Referrers() == nil {
								continue
							}
							layered = true
							for _, r2 := range *arr.Referrers() {
								ia2, ok2 := r2.(*ssa.IndexAddr)
								if !ok2 || ia2.Referrers() == nil {
									continue
								}
								j, isJ := ir.ConstInt(ia2.Index)
								for _, r3 := range *ia2.Referrers() {
									if st2, isSt2 := r3.(*ssa.Store); isSt2 && isJ && j > k {
										if w := isStatic(st2.Val); w != "" {
											facts = append(facts, w+" is layer "+strconv.Itoa(int(j))+", the captured outputs layer "+strconv.Itoa(int(k))+" ("+e.InstrPos(st2)+")")
										}
									}
								}
							}
						}
					}
					if layered {
						// the table is walked by a range loop (front to back) in the constructor's closure
						walked := false
						for _, h := range ctorFns {
							if len(e.C.FieldStores(h, "Env")) == 0 {
								continue
							}
							for _, b := range h.Blocks {
								for _, in := range b.Instrs {
									if ph, isPhi := in.(*ssa.Phi); isPhi && ph.Comment == "rangeindex" {
										walked = true
									}
								}
							}
						}
						if walked {
							r.Check(len(facts) == 0, shortName(f)+": nothing static is appended to the child's environment after the captured outputs", e.InstrPos(ci),
								"a static list is appended to the child's environment after the captured outputs: when an output's name also occurs there (an `env:` start value, a named parameter) the child process sees the load-time value instead of what the producing step printed", facts...)
							continue
						}
					}
				}
				// the point from which the outputs are in the environment: the Range, or -
				// when the callback only collects them into a local list - the append of that list
				var point ssa.Instruction = ci
				if mc, isMC := ci.Common().Args[1].(*ssa.MakeClosure); isMC {
					for _, bind := range mc.Bindings {
						al, isAl := bind.(*ssa.Alloc)
						if !isAl {
							continue
						}
						for _, ap := range ir.CallsIn(g, func(c *ssa.CallCommon) bool { _, isA := isAppendCommon(c); return isA }) {
							if len(ap.Common().Args) != 2 || !ir.Precedes(ci, ap) {
								continue
							}
							src := ir.Resolve(ap.Common().Args[1])
							if sl, ok := src.(*ssa.Slice); ok {
								src = ir.Resolve(sl.X)
							}
							if u, ok := src.(*ssa.UnOp); ok && u.Op == token.MUL && u.X == ssa.Value(al) {
								point = ap
							}
						}
					}
				}
				var facts []string
				check := func(from ssa.Instruction) {
					bad, _ := ir.Bypass(from, nil, ir.PathQuery{Bad: func(in ssa.Instruction) bool {
						c, ok := in.(*ssa.Call)
						if !ok {
							return false
						}
						if _, isA := isAppendCommon(&c.Call); !isA || len(c.Call.Args) != 2 {
							return false
						}
						if w := isStatic(c.Call.Args[1]); w != "" {
							facts = append(facts, w+" appended at "+e.InstrPos(c))
							return true
						}
						return false
					}})
					_ = bad
				}
				check(point)
				// a helper that adds the outputs: what its callers (inside the constructor) append afterwards
				for h, depth := g, 0; h != f && depth < 4; depth++ {
					var up []ssa.CallInstruction
					for _, cs := range e.StaticCallSites(rootFn(h)) {
						if inCtor[cs.Parent()] {
							up = append(up, cs)
						}
					}
					if len(up) == 0 {
						break
					}
					for _, cs := range up {
						check(cs)
					}
					h = up[0].Parent()
				}
				r.Check(len(facts) == 0, shortName(f)+": nothing static is appended to the child's environment after the captured outputs", e.InstrPos(ci),
					"a static list is appended to the child's environment after the captured outputs: when an output's name also occurs there (an `env:` start value, a named parameter) the child process sees the load-time value instead of what the producing step printed", facts...)
			}
		}
	}
	if n == 0 {
		r.Unknown("process executors exporting the output map", "-", "no constructor of a process executor ranges over OutputVariables")
	}
}

// procCtors: the constructors of the executors that run a local process - functions of
// the executor package whose closure inside the package creates an exec.Cmd and that no
// other function of the package calls (they are reached through the registry).
func (e *Env) procCtors() []*ssa.Function {
	sp := e.P.Pkg("internal/dag/executor")
	if sp == nil {
		return nil
	}
	isCmd := func(c *ssa.CallCommon) bool { return ir.IsCallTo(c, "os/exec.CommandContext", "os/exec.Command") }
	var out []*ssa.Function
	for _, f := range e.RepoFuncsSorted() {
		if f.Package() != sp || f.Parent() != nil || f.Synthetic != "" || f.Blocks == nil {
			continue
		}
		makes := len(ir.CallsIn(f, isCmd)) > 0
		for _, g := range e.staticClosure(f) {
			if g.Blocks != nil && rootFn(g).Package() == sp && len(ir.CallsIn(g, isCmd)) > 0 {
				makes = true
			}
		}
		if !makes {
			continue
		}
		called := false
		for _, cs := range e.StaticCallSites(f) {
			if rootFn(cs.Parent()).Package() == sp && rootFn(cs.Parent()) != f {
				called = true
			}
		}
		if !called {
			out = append(out, f)
		}
	}
	return out
}

// ---------------------------------------------------------------------------
// correct-table (C08, C20)

// cCorrectTable: the view-level correction of a persisted status relabels the RUN
// (running -> failed) and nothing else: every store it makes goes to the Status /
// StatusText of its receiver, under receiver.Status == running. Whatever it changed
// besides would be persisted by the next accepted manual edit of that run.
func cCorrectTable(e *Env, rule string) {
	r := e.R
	r.Rule(rule, "DCS+WMW", "CorrectRunningStatus: running→failed on the run itself and nothing else", 1)
	cr := e.Fn("internal/persistence/model", "(*Status).CorrectRunningStatus")
	if cr == nil {
		return
	}
	_, ss := e.EnumOf(schedRel, "Status")
	type glit struct {
		l    ir.NLit
		recv ssa.Value
	}
	n := 0
	// the correction with the package helpers it hands its receiver to, inlined
	var walk func(f *ssa.Function, recv ssa.Value, bind map[ssa.Value]ssa.Value, outer []glit, depth int)
	walk = func(f *ssa.Function, recv ssa.Value, bind map[ssa.Value]ssa.Value, outer []glit, depth int) {
		isRecv := func(v ssa.Value) bool { return ir.Resolve(v) == recv }
		val := func(v ssa.Value) ssa.Value {
			v = ir.Resolve(v)
			if b, ok := bind[v]; ok {
				return b
			}
			return v
		}
		for _, g := range ir.WithClosures(f) {
			for _, b := range g.Blocks {
				for _, in := range b.Instrs {
					switch x := in.(type) {
					case *ssa.Store:
						fa, ok := x.Addr.(*ssa.FieldAddr)
						if !ok {
							if _, isAl := x.Addr.(*ssa.Alloc); isAl {
								continue // a local
							}
							r.Bad("CorrectRunningStatus: writes through "+e.C.Render(x.Addr), e.InstrPos(x), "the correction writes to memory that is not a field of the run's status")
							continue
						}
						field := ir.FieldNameOf(fa.X.Type(), fa.Field)
						if !isRecv(fa.X) {
							r.Bad("CorrectRunningStatus: writes "+field+" of "+e.C.Render(fa.X), e.InstrPos(x),
								"the correction changes something other than the run's own label (a step's recorded state): a later accepted edit of that run persists the rewritten steps together with the addressed one")
							continue
						}
						lits := append([]glit{}, outer...)
						for _, l := range e.DCS(x) {
							lits = append(lits, glit{l, recv})
						}
						underRunning := false
						var plain []ir.NLit
						for _, gl := range lits {
							l := gl.l
							plain = append(plain, l)
							// the test itself, or a predicate of the package that makes it
							// (`st.recordedAsRunning()`): every way the predicate holds
							alts := e.expandBound([]ir.NLit{l})
							all := len(alts) > 0
							for _, alt := range alts {
								found := false
								for _, bl := range alt {
									if bl.Kind != "cmp" || bl.Op != token.EQL {
										continue
									}
									pth, okP := e.C.PathOf(bl.X)
									if !okP || !pth.Suffix("Status") || len(pth.Fields) != 1 || bl.Val(pth.Root) != ir.Resolve(gl.recv) {
										continue
									}
									if k, isC := ir.ConstInt(bl.Val(bl.Y)); isC && k == ConstVal(ss, "StatusRunning") {
										found = true
									}
								}
								all = all && found
							}
							if all {
								underRunning = true
							}
						}
						switch field {
						case "Status":
							n++
							k, isC := ir.ConstInt(val(x.Val))
							r.Check(underRunning && isC && k == ConstVal(ss, "StatusError"), "CorrectRunningStatus: Status := failed only under Status == running", e.InstrPos(x),
								"the correction relabels something other than a stale `running`, or relabels it as something other than failed (a run cut short must count as failed, never as finished)", e.FactsStr("dominating conditions: ", plain))
						case "StatusText":
							r.Check(underRunning, "CorrectRunningStatus: StatusText changed only with the status", e.InstrPos(x), "")
						default:
							r.Bad("CorrectRunningStatus: writes "+field, e.InstrPos(x), "the correction changes a field other than the status label")
						}
					case ssa.CallInstruction:
						c := x.Common().StaticCallee()
						if c == nil || !e.P.Funcs[c] || c.Blocks == nil {
							continue
						}
						// handed the receiver: inlined
						recvIdx := -1
						for i, a := range x.Common().Args {
							if isRecv(a) {
								recvIdx = i
							}
						}
						if recvIdx >= 0 && depth < 3 && rootFn(c).Package() == cr.Package() && recvIdx < len(c.Params) {
							nb := map[ssa.Value]ssa.Value{}
							for i, a := range x.Common().Args {
								if i < len(c.Params) {
									nb[c.Params[i]] = val(a)
								}
							}
							lits := append([]glit{}, outer...)
							for _, l := range e.DCS(in) {
								lits = append(lits, glit{l, recv})
							}
							walk(c, c.Params[recvIdx], nb, lits, depth+1)
							continue
						}
						// a repository function handed a part of the run could write to it
						for _, a := range x.Common().Args {
							if _, isPtr := a.Type().Underlying().(*types.Pointer); !isPtr {
								if _, isSl := a.Type().Underlying().(*types.Slice); !isSl {
									continue
								}
							}
							writes := false
							for _, h := range e.staticClosure(c) {
								for _, hb := range h.Blocks {
									for _, hin := range hb.Instrs {
										if st, ok := hin.(*ssa.Store); ok {
											if _, isAl := st.Addr.(*ssa.Alloc); !isAl {
												writes = true
											}
										}
									}
								}
							}
							if writes {
								r.Bad("CorrectRunningStatus: hands "+e.C.Render(a)+" to "+shortName(c)+", which writes", e.InstrPos(in),
									"the correction passes the status to a function that modifies memory: what it changes besides the run's label cannot be bounded here")
							}
						}
					}
				}
			}
		}
	}
	walk(cr, cr.Params[0], map[ssa.Value]ssa.Value{}, nil, 0)
	if n == 0 {
		r.Bad("CorrectRunningStatus: Status := failed only under Status == running", e.Pos(cr.Pos()), "the correction no longer relabels a stale running status")
	}
}

// ---------------------------------------------------------------------------
// C06.day-is-calendar-day

// c06CalendarDay: run files carry the wall clock of the process in their names
// (time.Format), so "today" in the latest-status query is the calendar day of that
// same clock. A day boundary computed in absolute time - Truncate / Round to 24h or
// more (which rounds to UTC midnight), or a conversion with UTC() / In() - differs
// from it in every zone but UTC: the history store formats and compares the times it
// is given, it never truncates them to days or moves them to another zone.
func c06CalendarDay(e *Env, rule string) {
	r := e.R
	r.Rule(rule, "effect table", "the history store derives days from the wall clock (Format), never from absolute-time truncation or zone conversion", 1)
	sp := e.P.Pkg(jsondbRel)
	if sp == nil {
		r.Unknown("history store package", "-", "not loaded")
		return
	}
	n, bad := 0, 0
	for _, f := range e.RepoFuncsSorted() {
		if rootFn(f).Package() != sp {
			continue
		}
		for _, b := range f.Blocks {
			for _, in := range b.Instrs {
				ci, ok := in.(ssa.CallInstruction)
				if !ok {
					continue
				}
				name := ir.CalleeName(ci.Common())
				if !strings.HasPrefix(name, "(time.Time).") {
					continue
				}
				n++
				switch name {
				case "(time.Time).Truncate", "(time.Time).Round":
					k, isC := ir.ConstInt(ci.Common().Args[1])
					if isC && k < int64(24*3600*1e9) {
						continue
					}
					bad++
					r.Bad(shortName(f)+": a time is cut to whole days in absolute time", e.InstrPos(in),
						"Truncate/Round to 24h rounds to UTC midnight, not to midnight of the clock the run files are stamped with: outside UTC the latest-status-of-today query returns yesterday's last run after local midnight, or drops runs started earlier on the same local day")
				case "(time.Time).UTC", "(time.Time).In":
					bad++
					r.Bad(shortName(f)+": a time is moved to another zone", e.InstrPos(in),
						"the history store converts a time to another zone before formatting or comparing it, while run files are stamped with the process's wall clock: day selection and ordering disagree with the file names outside that zone")
				}
			}
		}
	}
	// the times the rest of the repository hands to the store (the start time that goes
	// into a run's file name): not moved to another zone or cut to days either
	for _, f := range e.RepoFuncsSorted() {
		if rootFn(f).Package() == sp {
			continue
		}
		for _, ci := range ir.CallsIn(f, func(c *ssa.CallCommon) bool {
			return c.IsInvoke() && strings.HasSuffix(ir.NamedType(c.Value.Type()), "persistence.HistoryStore")
		}) {
			for _, a := range ci.Common().Args {
				if ir.NamedType(a.Type()) != "time.Time" {
					continue
				}
				n++
				if c, isC := ir.Resolve(a).(*ssa.Call); isC && ir.IsCallTo(&c.Call, "(time.Time).UTC", "(time.Time).In", "(time.Time).Truncate", "(time.Time).Round") {
					bad++
					r.Bad(shortName(f)+": the time handed to the history store is the process's own wall clock", e.InstrPos(ci),
						"the start time that names a run's history file is converted ("+ir.CalleeName(&c.Call)+") before it reaches the store, while the store selects `today` by the local calendar day: where the converted date differs from the local one the finished run is not found and the latest status is reported as `not started`")
				}
			}
		}
	}
	if bad == 0 {
		r.OK("history store: no absolute-time day arithmetic", e.Pos(sp.Pkg.Scope().Pos()), sprintf("%d time.Time method calls inspected", n))
	}
}

// globalReassigned: the package-level variable is stored to (or has its address
// taken for something other than a load) outside its package's initialiser.
func (e *Env) globalReassigned(g *ssa.Global) bool {
	var init *ssa.Function
	if g.Pkg != nil {
		init = g.Pkg.Func("init")
	}
	for _, f := range e.RepoFuncsSorted() {
		if f == init {
			continue
		}
		for _, b := range f.Blocks {
			for _, in := range b.Instrs {
				switch x := in.(type) {
				case *ssa.Store:
					if x.Addr == ssa.Value(g) || x.Val == ssa.Value(g) {
						return true
					}
				case ssa.CallInstruction:
					for _, a := range x.Common().Args {
						if a == ssa.Value(g) {
							return true
						}
					}
				}
			}
		}
	}
	return false
}
