package rules

import (
	"go/token"
	"go/types"
	"sort"
	"strings"

	"golang.org/x/tools/go/ssa"

	"bdcheck/internal/ir"
)

func init() {
	register(&Prop{ID: "C10", Run: runC10,
		Technique: "static analysis: reaching condition + enum coverage of the retry reset, must-pass-through in the propagation loop, value-flow of recorded parameters / request ids / node tables, field coverage of the recorder and restorer (go/ssa)",
		Decided: []string{
			"the recorded node carries the step as it ran: every store into model.Node.Step takes a parameter or a Step field read (C10.record-keeps-step)",
			"the retry constructor reads a node's recorded outputs before that node's Step.OutputVariables is re-pointed to the graph's shared map (C10.outputs-restored)",
			"the already-running probe refuses a retry only when the live status could not be read or is not `not started` - never on what the recorded run says (C16.probe-table, shared)",
			"the set of recorded states under which a node is reset, united with the kept states {finished, skipped} and the already-runnable state {not started}, covers every NodeStatus constant (C10.reset-exhaustive)",
			"the downstream mark is applied for every out-edge of a node marked for retry and every out-neighbour is re-queued (C10.propagate)",
			"the retry graph runs the same edge/cycle setup before the reset and returns its error (C10.same-checks)",
			"retry: the loader's parameter string is the recorded Status.Params, RetryTarget is that same status, the agent's request id comes from the generator and not from --req, nodes are rebuilt from retryTarget.Nodes; restart: parameters come from GetLatestStatus(...).Params; the retry command reaches Agent.Run under no condition on the record's own fields (what is re-run is decided per step) (C10.flows)",
			"every NodeState field the status names is copied out by FromNode and back by ToNode (C08.persisted-fields shared); kept steps cannot be launched (C01.gate shared)",
		},
		NotDec: []string{"the parameter string round trip itself (C11 / F22)", "termination of the retry beyond the reset coverage", "dependency order over concrete graphs"},
	})
}

func runC10(e *Env) {
	r := e.R
	r.Rule("C10.anchors", "anchor resolution", "scheduler anchors", 0)
	s := e.resolveSched()
	if !s.ok {
		return
	}
	c10Reset(e, s)
	c10SameChecks(e, s)
	c10OutputsRestored(e, s)
	c10Flows(e, s)
	c08PersistedFields(e, s)
	c01Gate(e, s)
	c16ProbeTable(e) // a retry is refused only on live evidence, never because the recorded run says `running`
	cFieldVerbatim(e, "C10.record-keeps-step", "the recorded node carries the step exactly as it ran", "internal/persistence/model", "internal/persistence/model.Node", "Step", "Step", "the step written into the run's record is a rewritten copy of the step that ran (masked, normalised): a retry rebuilds its steps from the record, so the re-executed steps no longer run with the recorded variables, parameters and executor options", 1)
}

func c10Reset(e *Env, s *Sched) {
	r := e.R
	r.Rule("C10.reset-exhaustive", "RC+ENUM", "reset ∪ kept ∪ runnable covers the status enum", 1)
	fn := e.graphRoles().Reset
	if fn == nil {
		r.Unknown("the retry reset: the function of the retry constructor that zeroes node states", "-", "not found")
		return
	}
	// the whole-state reset site
	var reset ssa.Instruction
	for _, ev := range s.statusEvents(fn) {
		if ev.Zero {
			reset = ev.Site
		}
	}
	if reset == nil {
		r.Bad("setupRetry: whole-state reset of a node", e.Pos(fn.Pos()), "the retry-graph builder no longer resets any node")
		return
	}
	loops := ir.Loops(fn)
	inner := ir.InnermostLoop(loops, reset.Block())
	if inner == nil {
		r.Unknown("setupRetry: reset inside the frontier loop", e.InstrPos(reset), "reset is not inside a loop")
		return
	}
	var body *ssa.BasicBlock
	for _, sb := range inner.Header.Succs {
		if inner.Blocks[sb] {
			body = sb
		}
	}
	dnf, ok := ir.ReachingCondition(body, reset.Block(), 32)
	if !ok || len(dnf) == 0 {
		r.Unknown("setupRetry: reaching condition of the reset", e.InstrPos(reset), "could not be computed")
		return
	}
	// subject: a lookup in the recorded-status map (map[int]NodeStatus)
	isRecorded := func(v ssa.Value) bool {
		if lk, ok := ir.Deep(v).(*ssa.Lookup); ok {
			mt, ok := lk.X.Type().Underlying().(*types.Map)
			return ok && strings.HasSuffix(ir.NamedType(mt.Elem()), ".NodeStatus")
		}
		// or the node's status read in place (not yet reset when it is tested)
		p, ok := e.pathThroughParams(v)
		return ok && p.Suffix("State.Status")
	}
	ff := e.Facts(fn)
	resetSet := ir.EnumSet{}
	var facts []string
	var expanded [][]ir.NLit
	for _, cj := range dnf {
		for _, conj := range ff.ExpandDNFRegion(body, []ir.Lit(cj)) {
			// a status test extracted into a boolean helper (`needsRerun(status)`) is expanded
			expanded = append(expanded, e.expandHelperCalls(ir.NormalizeAll(conj), 0)...)
		}
	}
	for _, lits := range expanded {
		set := ir.Restrict(lits, isRecorded, s.NS)
		// a disjunct forced by the upstream mark (retry[u]) says nothing about the node's own recorded state
		var markLk *ssa.Lookup
		forced := HasVal(lits, func(v ssa.Value) bool {
			lk, ok := ir.Resolve(v).(*ssa.Lookup)
			if !ok {
				return false
			}
			mt, ok := lk.X.Type().Underlying().(*types.Map)
			if ok && mt.Elem().String() == "bool" {
				markLk = lk
				return true
			}
			return false
		}, true)
		// ... and the mark itself may have been set, earlier in the same iteration, from
		// the node's own recorded state (`switch recorded[u] { case failed, ...: mark[u] =
		// true }; if mark[u] { reset }`): the states under which that update is made are
		// states under which the node is reset
		if forced && markLk != nil {
			for _, b := range fn.Blocks {
				if !inner.Blocks[b] {
					continue
				}
				for _, in := range b.Instrs {
					mu, isMU := in.(*ssa.MapUpdate)
					if !isMU || ir.Resolve(mu.Map) != ir.Resolve(markLk.X) || ir.Resolve(mu.Key) != ir.Resolve(markLk.Index) {
						continue
					}
					if bv, isC := ir.ConstBool(mu.Value); !isC || !bv {
						continue
					}
					// made earlier in the same iteration: the test is reachable from the
					// update without going round the loop
					reach := false
					seenB := map[*ssa.BasicBlock]bool{}
					work := []*ssa.BasicBlock{mu.Block()}
					for len(work) > 0 {
						x := work[0]
						work = work[1:]
						if seenB[x] {
							continue
						}
						seenB[x] = true
						if x == markLk.Block() && (x != mu.Block() || ir.Precedes(mu, markLk)) {
							reach = true
						}
						for _, sx := range x.Succs {
							if sx != inner.Header && inner.Blocks[sx] {
								work = append(work, sx)
							}
						}
					}
					if !reach {
						continue
					}
					mdnf, okM := ir.ReachingCondition(body, mu.Block(), 32)
					if !okM {
						continue
					}
					for _, cj := range mdnf {
						for _, conj := range ff.ExpandDNFRegion(body, []ir.Lit(cj)) {
							for _, ml := range e.expandHelperCalls(ir.NormalizeAll(conj), 0) {
								st := ir.Restrict(ml, isRecorded, s.NS)
								if len(st) == len(s.NS)+1 || len(st) == 0 {
									continue // says nothing about the recorded state
								}
								facts = append(facts, "mark set under: {"+strings.Join(e.RenderN(ml), " ; ")+"}")
								for v := range st {
									resetSet[v] = true
								}
							}
						}
					}
				}
			}
		}
		facts = append(facts, "disjunct: {"+strings.Join(e.RenderN(lits), " ; ")+"}")
		if !forced {
			for v := range set {
				resetSet[v] = true
			}
		}
	}
	keptOK := !resetSet[s.val("NodeStatusSuccess")] && !resetSet[s.val("NodeStatusSkipped")]
	r.Check(keptOK, "setupRetry: finished / skipped nodes are reset only when an upstream node is re-executed", e.InstrPos(reset),
		"a step that completed successfully (or was skipped) in the recorded run is reset although nothing upstream of it is re-executed: the retry re-runs steps it must keep", append([]string{"reset under: {" + strings.Join(resetSet.Names(s.NS), ",") + "}"}, facts...)...)
	covered := ir.EnumSet{}
	for v := range resetSet {
		covered[v] = true
	}
	for _, k := range []string{"NodeStatusSuccess", "NodeStatusSkipped", "NodeStatusNone"} {
		covered[s.val(k)] = true
	}
	var missing []string
	for v, n := range s.NS {
		if !covered[v] {
			missing = append(missing, n)
		}
	}
	sort.Strings(missing)
	r.Check(len(missing) == 0, "setupRetry: every recorded state is reset, kept (finished/skipped) or already runnable", e.InstrPos(reset),
		"a node recorded in state {"+strings.Join(missing, ",")+"} is neither reset nor runnable: the retry never re-executes it and the scheduling loop never finishes (e.g. `running` left behind by a killed process)",
		append([]string{"reset under: {" + strings.Join(resetSet.Names(s.NS), ",") + "}"}, facts...)...)

	r.Rule("C10.propagate", "MPT", "downstream mark for every out-edge; every out-neighbour re-queued", 2)
	// the edge loop: innermost loop ranging over g.from[u]
	var el *ir.Loop
	for _, l := range loops {
		if l.Ranged == nil {
			continue
		}
		if lk, ok := ir.Resolve(l.Ranged).(*ssa.Lookup); ok {
			if p, ok := e.C.PathOf(lk.X); ok && p.Suffix(e.graphRoles().Succ) {
				el = l
			}
		}
	}
	if el == nil {
		r.Bad("setupRetry: loop over the out-edges g.from[u]", e.Pos(fn.Pos()), "the propagation no longer ranges over the out-edges of each frontier node")
		return
	}
	var ebody *ssa.BasicBlock
	for _, sb := range el.Header.Succs {
		if el.Blocks[sb] {
			ebody = sb
		}
	}
	header0 := el.Header.Instrs[0]
	isBoolMap := func(v ssa.Value) bool {
		mt, ok := v.Type().Underlying().(*types.Map)
		return ok && mt.Elem().String() == "bool"
	}
	// (1) mark
	bad, _ := ir.Bypass(nil, ebody, ir.PathQuery{
		Stop: func(in ssa.Instruction) bool {
			mu, ok := in.(*ssa.MapUpdate)
			if !ok || !isBoolMap(mu.Map) {
				return false
			}
			bv, isC := ir.ConstBool(mu.Value)
			return isC && bv && ir.Resolve(mu.Key) == ir.Resolve(el.Elem)
		},
		SkipEdge: func(from *ssa.BasicBlock, idx int) bool {
			i, ok := from.Instrs[len(from.Instrs)-1].(*ssa.If)
			if !ok {
				return false
			}
			l := ir.Normalize(ir.Lit{Cond: i.Cond, Pol: idx == 0})
			if l.Kind == "val" && !l.Pol {
				if lk, ok := ir.Resolve(l.V).(*ssa.Lookup); ok && isBoolMap(lk.X) {
					return true // retry[u] is false: nothing to propagate
				}
			}
			return false
		},
		Bad: func(in ssa.Instruction) bool { return in == header0 },
	})
	r.Check(bad == nil, "setupRetry: retry[v]=true for every out-edge of a node marked for retry", e.InstrPos(ebody.Instrs[0]),
		"an out-edge of a node marked for retry can be passed without marking the downstream node: a step downstream of a re-executed step keeps its stale result")
	// (2) re-queue
	bad2, _ := ir.Bypass(nil, ebody, ir.PathQuery{
		Stop: func(in ssa.Instruction) bool {
			c, ok := in.(*ssa.Call)
			if !ok {
				return false
			}
			for _, el2 := range appendedElems(c) {
				if ir.Resolve(el2) == ir.Resolve(el.Elem) {
					return true
				}
			}
			return false
		},
		Bad: func(in ssa.Instruction) bool { return in == header0 },
	})
	if bad2 != nil {
		// the other form: the whole out-edge list is appended to the next frontier at
		// once (`next = append(next, succ[u]...)`), on every iteration of the loop
		// over the frontier
		var outer *ir.Loop
		for _, l := range loops {
			if l != el && l.Blocks[el.Header] && (outer == nil || len(l.Blocks) < len(outer.Blocks)) {
				outer = l
			}
		}
		if outer != nil {
			var obody *ssa.BasicBlock
			for _, sb := range outer.Header.Succs {
				if outer.Blocks[sb] {
					obody = sb
				}
			}
			if obody != nil {
				bad2, _ = ir.Bypass(nil, obody, ir.PathQuery{
					Stop: func(in ssa.Instruction) bool {
						c, ok := in.(*ssa.Call)
						if !ok {
							return false
						}
						bi, isB := c.Call.Value.(*ssa.Builtin)
						if !isB || bi.Name() != "append" || len(c.Call.Args) != 2 {
							return false
						}
						a, b := ir.Resolve(c.Call.Args[1]), ir.Resolve(el.Ranged)
						if a == b {
							return true
						}
						// the same out-edge list looked up again
						la, okA := a.(*ssa.Lookup)
						lb, okB := b.(*ssa.Lookup)
						return okA && okB && SameValue(la.X, lb.X) && SameValue(la.Index, lb.Index)
					},
					Bad: func(in ssa.Instruction) bool { return in == outer.Header.Instrs[0] },
				})
			}
		}
	}
	r.Check(bad2 == nil, "setupRetry: every out-neighbour is re-queued unconditionally", e.InstrPos(ebody.Instrs[0]),
		"an out-neighbour can be left out of the next frontier (e.g. de-duplicated): a join reached first through a kept parent is never re-examined when a longer path later marks it for retry")
}

func c10SameChecks(e *Env, s *Sched) {
	r := e.R
	r.Rule("C10.same-checks", "MPT", "retry graph: setup() before setupRetry(), error returned", 1)
	fn := e.Fn(schedRel, "NewExecutionGraphForRetry")
	setup := e.graphRoles().Setup
	sr := e.graphRoles().Reset
	if fn == nil || setup == nil || sr == nil {
		return
	}
	// the call through which the edge/cycle setup runs: setup() itself, or a helper
	// of the package (a constructor shared with the normal graph) that runs it and
	// reports nil only when it succeeded
	var carrier func(f *ssa.Function, d int) []*ssa.Call
	carrier = func(f *ssa.Function, d int) []*ssa.Call {
		var out []*ssa.Call
		for _, ci := range ir.CallsIn(f, func(c *ssa.CallCommon) bool { return c.StaticCallee() != nil }) {
			c, isC := ci.(*ssa.Call)
			if !isC {
				continue
			}
			g := c.Call.StaticCallee()
			if g == setup {
				out = append(out, c)
				continue
			}
			if d > 2 || g == sr || g.Blocks == nil || !e.P.Funcs[g] || rootFn(g).Package() != fn.Package() || g == f {
				continue
			}
			if !e.reachesStatic(g, func(x *ssa.Function) bool { return x == setup }) {
				continue
			}
			inner := carrier(g, d+1)
			if len(inner) != 1 {
				continue
			}
			// g hands back a nil error only after the inner call succeeded
			errIdx := -1
			for i := 0; i < g.Signature.Results().Len(); i++ {
				if g.Signature.Results().At(i).Type().String() == "error" {
					errIdx = i
				}
			}
			if errIdx < 0 {
				continue
			}
			good := true
			for _, blk := range g.Blocks {
				rt, isR := blk.Instrs[len(blk.Instrs)-1].(*ssa.Return)
				if !isR || !e.Facts(g).Reachable(blk) {
					continue
				}
				for _, rv := range RetVals(rt, errIdx) {
					if ir.Resolve(rv) == ssa.Value(inner[0]) || errOfCall(inner[0]) != nil && ir.Resolve(rv) == errOfCall(inner[0]) {
						continue // the setup's own verdict is handed on
					}
					if e.mayBeNil(rt, rv) && !e.onlyAfterOK(inner[0], rt) {
						good = false
					}
				}
			}
			if good {
				out = append(out, c)
			}
		}
		return out
	}
	a := carrier(fn, 0)
	b := ir.CallsIn(fn, func(c *ssa.CallCommon) bool { return c.StaticCallee() == sr })
	ok := len(a) == 1 && len(b) == 1
	if ok {
		ok = e.onlyAfterOK(a[0], b[0])
	}
	r.Check(ok, "NewExecutionGraphForRetry: setupRetry() only after setup()==nil", e.Pos(fn.Pos()),
		"the retry graph is reset / returned without the dependency and cycle checks of the normal constructor having succeeded")
	// a graph is returned only when both succeeded
	for _, blk := range fn.Blocks {
		for _, in := range blk.Instrs {
			rt, isR := in.(*ssa.Return)
			if !isR || !e.Facts(fn).Reachable(blk) {
				continue
			}
			nonNil := false
			for _, v := range RetVals(rt, 0) {
				if !ir.IsNilConst(ir.Resolve(v)) {
					nonNil = true
				}
			}
			if !nonNil {
				continue
			}
			okb := false
			if len(a) == 1 {
				okb = e.onlyAfterOK(a[0], rt)
			}
			r.Check(okb, "NewExecutionGraphForRetry: a graph is returned only when setup() succeeded", e.InstrPos(rt), "a graph with dangling dependencies or a cycle is admitted for retry")
		}
	}
}

// errOfCall: the error result of a call: the call itself (single error result) or
// the extract of the error component of its tuple; nil when there is none (or it
// is dropped).
func errOfCall(c *ssa.Call) ssa.Value {
	if tup, isT := c.Type().(*types.Tuple); isT {
		for i := 0; i < tup.Len(); i++ {
			if tup.At(i).Type().String() != "error" {
				continue
			}
			for _, ref := range *c.Referrers() {
				if ex, ok := ref.(*ssa.Extract); ok && ex.Index == i {
					return ex
				}
			}
		}
		return nil
	}
	if c.Type().String() == "error" {
		return c
	}
	return nil
}

// onlyAfterOK: onlyAfterNil for calls that report their error next to other results.
func (e *Env) onlyAfterOK(call *ssa.Call, target ssa.Instruction) bool {
	ev := errOfCall(call)
	if ev == nil {
		return false
	}
	if ev == ssa.Value(call) {
		return e.onlyAfterNil(call, target)
	}
	for _, l := range e.DCS(target) {
		if l.Kind == "cmp" && l.Op == token.EQL && ir.IsNilConst(l.Y) && ir.Resolve(l.X) == ev {
			return true
		}
	}
	if call.Parent() != target.Parent() || !ir.Precedes(call, target) {
		return false
	}
	return !ir.ReachableAssuming(call, target, map[ssa.Value]bool{ev: true})
}

// c10OutputsRestored: a retry runs with the outputs the kept steps recorded. The
// retry constructor reads each node's recorded map (the Range whose callback stores
// into the graph's shared map) BEFORE that node's Step.OutputVariables is re-pointed
// to the shared map; read afterwards, the "recorded" map is the fresh, empty shared one
// and nothing is restored.
func c10OutputsRestored(e *Env, s *Sched) {
	r := e.R
	r.Rule("C10.outputs-restored", "MPT", "retry constructor: the recorded outputs are read before the node is re-pointed to the shared map", 1)
	fn := e.Fn(schedRel, "NewExecutionGraphForRetry")
	if fn == nil {
		return
	}
	outMap := e.schedOutputMapField()
	inTree := map[*ssa.Function]bool{}
	var tree []*ssa.Function
	for _, g := range e.staticClosure(fn) {
		if rootFn(g).Package() == fn.Package() && g.Blocks != nil {
			for _, h := range ir.WithClosures(g) {
				if !inTree[h] {
					inTree[h] = true
					tree = append(tree, h)
				}
			}
		}
	}
	// lift an instruction of the tree to the statement of fn that leads to it
	var lift func(in ssa.Instruction, d int) ssa.Instruction
	lift = func(in ssa.Instruction, d int) ssa.Instruction {
		if in == nil || d > 5 {
			return nil
		}
		f := in.Parent()
		if f == fn {
			return in
		}
		if f.Parent() != nil {
			return lift(closureSite(f), d+1)
		}
		var up []ssa.CallInstruction
		for _, cs := range e.StaticCallSites(f) {
			if inTree[cs.Parent()] {
				up = append(up, cs)
			}
		}
		if len(up) != 1 {
			return nil
		}
		return lift(up[0], d+1)
	}
	// the restoring Range: over a node's Step.OutputVariables, with a callback that
	// stores into the graph's map
	var ranges []ssa.CallInstruction
	for _, g := range tree {
		for _, ci := range ir.CallsIn(g, func(c *ssa.CallCommon) bool {
			return ir.IsCallTo(c, "(*sync.Map).Range") || strings.HasSuffix(ir.CalleeName(c), "SyncMap).Range")
		}) {
			recvv := ci.Common().Args[0]
			if fa, isFA := recvv.(*ssa.FieldAddr); isFA {
				recvv = fa.X
			}
			if !e.IsFieldRead(recvv, nil, "Step.OutputVariables") && !e.IsFieldRead(ir.Deep(recvv), nil, "Step.OutputVariables") {
				continue
			}
			stores := false
			if mc, isMC := ir.Resolve(ci.Common().Args[len(ci.Common().Args)-1]).(*ssa.MakeClosure); isMC {
				for _, h := range e.callbackBodies(mc.Fn.(*ssa.Function)) {
					for _, sc := range ir.CallsIn(h, func(c *ssa.CallCommon) bool { return strings.HasSuffix(ir.CalleeName(c), "Map).Store") }) {
						a0 := sc.Common().Args[0]
						if fa, isFA := a0.(*ssa.FieldAddr); isFA {
							a0 = fa.X
						}
						if outMap == "" || e.IsFieldRead(a0, nil, outMap) || e.IsFieldRead(ir.Deep(a0), nil, outMap) {
							stores = true
						}
					}
				}
			}
			if stores {
				ranges = append(ranges, ci)
			}
		}
	}
	if len(ranges) == 0 {
		r.Bad("NewExecutionGraphForRetry: the recorded outputs are copied into the graph's shared map", e.Pos(fn.Pos()),
			"the retry constructor no longer ranges over the nodes' recorded output maps: re-executed steps run without the outputs of the kept steps")
		return
	}
	// the re-pointing stores
	type site struct{ at, lifted ssa.Instruction }
	var repoints []site
	for _, g := range tree {
		if g.Parent() != nil {
			continue
		}
		for _, ev := range e.C.FieldStores(g, "Step.OutputVariables") {
			if ev.Site == nil || len(ev.Via) > 0 || ev.Init {
				continue
			}
			repoints = append(repoints, site{ev.Site, lift(ev.Site, 0)})
		}
	}
	// what matters is where the recorded map is READ: the load that yields the Range's
	// receiver (`recorded := node…OutputVariables` may come well before the Range)
	readPoint := func(rg ssa.CallInstruction) ssa.Instruction {
		v := rg.Common().Args[0]
		if fa, isFA := v.(*ssa.FieldAddr); isFA {
			v = fa.X // the embedded sync.Map of the loaded *SyncMap
		}
		for d := 0; d < 3; d++ {
			u, isU := v.(*ssa.UnOp)
			if !isU || u.Op != token.MUL {
				break
			}
			if al, isAl := u.X.(*ssa.Alloc); isAl {
				if st := ir.StoresTo(al); len(st) == 1 {
					v = st[0]
					continue
				}
				break
			}
			if _, isFA := u.X.(*ssa.FieldAddr); isFA {
				return u
			}
			break
		}
		return rg
	}
	for _, rg := range ranges {
		lr := lift(readPoint(rg), 0)
		if lr == nil {
			r.Unknown("NewExecutionGraphForRetry: position of the restoring Range", e.InstrPos(rg), "the Range is in a helper with several call sites")
			continue
		}
		okOrder := true
		var facts []string
		for _, rp := range repoints {
			if rp.lifted == nil {
				continue
			}
			from := rp.lifted
			// same iteration only: the back edges of the loops around the store are not followed
			loops := ir.Loops(fn)
			bad, _ := ir.Bypass(from, nil, ir.PathQuery{
				Bad: func(in ssa.Instruction) bool { return in == lr },
				SkipEdge: func(b *ssa.BasicBlock, k int) bool {
					sx := b.Succs[k]
					for _, l := range loops {
						if l.Header == sx && l.Blocks[b] && l.Blocks[from.Block()] && l.Blocks[lr.Block()] {
							return true
						}
					}
					return false
				}})
			if bad != nil || from == lr {
				okOrder = false
				facts = append(facts, "Step.OutputVariables re-pointed at "+e.InstrPos(rp.at)+" (reached from "+e.InstrPos(from)+") before the Range")
			}
		}
		r.Check(okOrder, "NewExecutionGraphForRetry: the recorded outputs are read before the node's map is replaced", e.InstrPos(rg),
			"the node's Step.OutputVariables is re-pointed to the graph's fresh shared map before the recorded map is read: the restoring Range walks the empty shared map, nothing is restored, and on retry a step whose precondition or command uses a kept step's output is skipped or runs with an empty value", facts...)
	}
}

func c10Flows(e *Env, s *Sched) {
	r := e.R
	r.Rule("C10.flows", "VF", "retry/restart re-use the recorded parameters, status and nodes; new request id; run regardless of the run-level status", 6)
	loadFn := e.FnQuiet(dagRel, "Load")
	agentNew := e.FnQuiet("internal/agent", "New")
	sp := e.P.Pkg("cmd")
	if sp == nil || loadFn == nil || agentNew == nil {
		r.Unknown("cmd package / dag.Load / agent.New", "-", "not found")
		return
	}
	// the recorded run: result #0 of HistoryStore.FindByRequestID, taken directly or
	// handed back by helpers of the command
	recorded := func(v ssa.Value, dotted string) bool {
		ps, ok := e.DeepPaths(v)
		if !ok || len(ps) == 0 {
			return false
		}
		for _, p := range ps {
			if p.Dotted() != dotted || !invokeResult(p.Root, "FindByRequestID", 0) {
				return false
			}
		}
		return true
	}
	uuidNew := func(v ssa.Value) bool {
		v = ir.Resolve(v)
		if ex, isE := v.(*ssa.Extract); isE {
			v = ex.Tuple
		}
		c, isC := v.(*ssa.Call)
		return isC && strings.HasPrefix(ir.CalleeName(&c.Call), "github.com/google/uuid.New")
	}
	// a fresh id: a UUID generated now (directly or handed back by a helper), nothing read back
	freshID := func(v ssa.Value) bool {
		ps, ok := e.DeepPaths(v)
		if !ok || len(ps) == 0 {
			return false
		}
		for _, p := range ps {
			okU := false
			if len(p.Fields) == 0 {
				if uuidNew(p.Root) {
					okU = true
				}
				if c, isC := p.Root.(*ssa.Call); isC && strings.HasSuffix(ir.CalleeName(&c.Call), "uuid.UUID).String") && len(c.Call.Args) == 1 && uuidNew(c.Call.Args[0]) {
					okU = true
				}
			}
			if !okU {
				return false
			}
		}
		return true
	}
	// ---- retry
	retryFns := e.cobraBody("retry")
	nLoad, nNew := 0, 0
	for _, f := range retryFns {
		for _, ci := range ir.CallsIn(f, func(c *ssa.CallCommon) bool { return c.StaticCallee() == loadFn }) {
			nLoad++
			arg := ci.Common().Args[2]
			r.Check(recorded(arg, "Status.Params"), "retry: dag.Load(…, params = FindByRequestID(…).Status.Params)", e.InstrPos(ci),
				"the retry does not load the DAG with the parameter values of the recorded run: "+e.C.Render(arg))
		}
		for _, ci := range ir.CallsIn(f, func(c *ssa.CallCommon) bool { return c.StaticCallee() == agentNew }) {
			nNew++
			id := ci.Common().Args[0]
			r.Check(freshID(id), "retry: the agent's request id is freshly generated", e.InstrPos(ci),
				"the retry is recorded under the request id of the run being retried (or another non-fresh id) instead of as a new run")
			// options.RetryTarget
			opts := ci.Common().Args[len(ci.Common().Args)-1]
			okT := false
			if al, ok := ir.Resolve(opts).(*ssa.Alloc); ok {
				for _, ref := range *al.Referrers() {
					if fa, ok := ref.(*ssa.FieldAddr); ok && ir.FieldNameOf(fa.X.Type(), fa.Field) == "RetryTarget" {
						for _, r2 := range *fa.Referrers() {
							if st, ok := r2.(*ssa.Store); ok && recorded(st.Val, "Status") {
								okT = true
							}
						}
					}
				}
			}
			r.Check(okT, "retry: Options.RetryTarget = FindByRequestID(…).Status", e.InstrPos(ci), "the agent is not given the recorded run as its retry target")
		}
	}
	if nLoad == 0 || nNew == 0 {
		r.Unknown("retry command body", "-", sprintf("dag.Load calls=%d agent.New calls=%d in the body of the command whose usage starts with `retry`", nLoad, nNew))
	}
	// the retry runs whatever the record says about the run as a whole: which steps are
	// re-executed is decided per step from the recorded node states (C10.reset-exhaustive);
	// a run-level "finished" is also what a record looks like between two steps, and after
	// a step of a finished run was marked failed
	fromRecord := func(v ssa.Value) bool {
		if v == nil {
			return false
		}
		ps, ok := e.DeepPaths(v)
		if !ok {
			return false
		}
		for _, p := range ps {
			if len(p.Fields) > 0 && invokeResult(p.Root, "FindByRequestID", 0) {
				return true
			}
		}
		return false
	}
	nRun := 0
	for _, f := range retryFns {
		for _, ci := range ir.CallsIn(f, func(c *ssa.CallCommon) bool {
			return strings.HasSuffix(ir.CalleeName(c), "internal/agent.Agent).Run")
		}) {
			nRun++
			var about []ir.NLit
			for _, way := range e.waysTo(ci) {
				for _, l := range way {
					if l.Kind == "cmp" && (ir.IsNilConst(l.Y) || ir.IsNilConst(l.X)) {
						continue
					}
					if fromRecord(l.X) || fromRecord(l.Y) || fromRecord(l.V) {
						about = append(about, l)
					}
				}
			}
			r.Check(len(about) == 0, "retry: the agent runs whatever the recorded run-level outcome is", e.InstrPos(ci),
				"the retry command decides from the recorded run's own fields whether anything is re-run: a record whose run-level status says finished while steps are not started (crash between two steps) or failed (marked by hand) is then not re-executed", e.FactsStr("conditions about the record: ", about))
		}
	}
	if nRun == 0 {
		r.Unknown("retry: the agent runs whatever the recorded run-level outcome is", "-", "no call of Agent.Run in the body of the retry command")
	}
	// ---- agent: the retry graph is built by the retry constructor from retryTarget.Nodes, each through ToNode
	a := e.agentRoles()
	var retryCtor []ssa.CallInstruction
	fset := map[*ssa.Function]bool{}
	for _, h := range a.Holders(apiNewGraph + "ForRetry") {
		retryCtor = append(retryCtor, ir.CallsIn(h, func(c *ssa.CallCommon) bool {
			return strings.Contains(ir.CalleeName(c), apiNewGraph+"ForRetry")
		})...)
		fset[h] = true
		for _, g := range e.staticClosure(h) {
			if a.inPkg(g) {
				fset[g] = true
			}
		}
	}
	r.Check(len(retryCtor) > 0, "agent: a retry uses the retry graph constructor", "internal/agent", "the retry does not use NewExecutionGraphForRetry (no reset of the unfinished part)")
	okNodes := false
	// the agent's field holding the run being retried: what agent.New fills from Options.RetryTarget
	retryField := "retryTarget"
	if an := e.FnQuiet("internal/agent", "New"); an != nil {
		if f := fieldFilledFrom(e, an, "Agent", "RetryTarget"); f != "" {
			retryField = f
		}
	}
	isRecordedNodes := func(v ssa.Value) bool {
		ps, ok := e.DeepPaths(v)
		if !ok || len(ps) == 0 {
			return false
		}
		for _, p := range ps {
			if !strings.HasSuffix(p.Dotted(), retryField+".Nodes") {
				return false
			}
		}
		return true
	}
	for _, f := range sortedFns(fset) {
		for _, l := range ir.Loops(f) {
			if l.Ranged == nil || !isRecordedNodes(l.Ranged) {
				continue
			}
			for b := range l.Blocks {
				for _, in := range b.Instrs {
					c, isC := in.(*ssa.Call)
					if !isC || c.Call.StaticCallee() == nil || c.Call.StaticCallee().Name() != "ToNode" || len(c.Call.Args) == 0 {
						continue
					}
					recv := ir.Resolve(c.Call.Args[0])
					if l.Elem != nil && recv == ir.Resolve(l.Elem) {
						okNodes = true
					}
					if u, isU := recv.(*ssa.UnOp); isU && u.Op == token.MUL {
						if ia, isI := u.X.(*ssa.IndexAddr); isI && isRecordedNodes(ia.X) {
							okNodes = true
						}
					}
				}
			}
		}
	}
	r.Check(okNodes, "agent: the retry graph's nodes are rebuilt from retryTarget.Nodes via ToNode", "internal/agent",
		"the retry graph is not built from the recorded node table (steps and states of the run being retried)")
	cRestartParams(e, "")
}

// cRestartParams: the restart command re-loads the DAG with the parameters of the run
// it repeats - GetLatestStatus(…).Params (the persisted record; the live answer alone
// knows nothing about a run that has ended), taken directly or through a helper of
// the command that returns exactly that. rule == "": part of the caller's rule.
func cRestartParams(e *Env, rule string) {
	r := e.R
	if rule != "" {
		r.Rule(rule, "VF", "restart re-loads the DAG with the persisted parameters of the run it repeats", 1)
	}
	loadFn := e.FnQuiet(dagRel, "Load")
	if loadFn == nil {
		r.Unknown("dag.Load", dagRel, "not found")
		return
	}
	// ---- restart: the parameters the DAG is re-loaded with are GetLatestStatus(…).Params,
	// taken directly or through a helper of the command that returns exactly that
	var latestParams func(v ssa.Value, d int) bool
	latestParams = func(v ssa.Value, d int) bool {
		v = ir.Resolve(v)
		if d > 4 {
			return false
		}
		if p, okp := e.C.PathOf(v); okp && p.Dotted() == "Params" {
			if ex, isE := ir.Resolve(p.Root).(*ssa.Extract); isE {
				if c, isC := ex.Tuple.(*ssa.Call); isC && c.Call.IsInvoke() && c.Call.Method.Name() == "GetLatestStatus" {
					return true
				}
			}
		}
		var call *ssa.Call
		switch x := v.(type) {
		case *ssa.Call:
			call = x
		case *ssa.Extract:
			if c, isC := x.Tuple.(*ssa.Call); isC && x.Index == 0 {
				call = c
			}
		case *ssa.Phi:
			for _, ed := range x.Edges {
				if !latestParams(ed, d+1) {
					return false
				}
			}
			return len(x.Edges) > 0
		}
		if call == nil || call.Call.StaticCallee() == nil || !e.P.Funcs[call.Call.StaticCallee()] {
			return false
		}
		n := 0
		for _, b := range call.Call.StaticCallee().Blocks {
			for _, in := range b.Instrs {
				if rt, isR := in.(*ssa.Return); isR && len(rt.Results) > 0 {
					// error returns with a zero value do not count
					if len(rt.Results) > 1 {
						if !ir.IsNilConst(ir.Resolve(rt.Results[len(rt.Results)-1])) {
							continue
						}
					}
					for _, rv := range RetVals(rt, 0) {
						n++
						if !latestParams(rv, d+1) {
							return false
						}
					}
				}
			}
		}
		return n > 0
	}
	nRestart := 0
	for _, f := range e.cobraBody("restart") {
		for _, g := range []*ssa.Function{f} {
			for _, ci := range ir.CallsIn(g, func(c *ssa.CallCommon) bool { return c.StaticCallee() == loadFn }) {
				arg := ci.Common().Args[2]
				if s, isC := ir.ConstString(arg); isC && s == "" {
					continue // the first load (to find the running instance) uses default params
				}
				nRestart++
				r.Check(latestParams(arg, 0), "restart: dag.Load(…, params = getPreviousExecutionParams(…))", e.InstrPos(ci),
					"the restart does not load the DAG with the parameters of the run it repeats: "+e.C.Render(arg))
			}
		}
	}
	if nRestart == 0 {
		r.Unknown("restart command: re-load of the DAG with the previous parameters", "-", "no dag.Load with non-default parameters in the restart command")
	}
}

// c08PersistedFields: the NodeState fields the status names are read by the
// recorder (FromNode) and written back by the restorer (ToNode).
func c08PersistedFields(e *Env, s *Sched) {
	r := e.R
	r.Rule("C08.persisted-fields", "COV", "FromNode reads and ToNode restores every persisted NodeState field", 2)
	from := e.Fn("internal/persistence/model", "FromNode")
	to := e.Fn("internal/persistence/model", "(*Node).ToNode")
	if from == nil || to == nil {
		return
	}
	want := []string{"Status", "Log", "StartedAt", "FinishedAt", "RetryCount", "DoneCount", "Error"}
	// read set of FromNode: NodeState fields read
	read := map[string]bool{}
	// the recorder and the helpers of its package it is made of
	var fromBlocks []*ssa.BasicBlock
	fromBlocks = append(fromBlocks, from.Blocks...)
	for _, g := range e.staticClosure(from) {
		if g != from && g.Blocks != nil && rootFn(g).Package() == from.Package() {
			fromBlocks = append(fromBlocks, g.Blocks...)
		}
	}
	for _, b := range fromBlocks {
		for _, in := range b.Instrs {
			switch x := in.(type) {
			case *ssa.Field:
				if strings.HasSuffix(ir.NamedType(x.X.Type()), ".NodeState") {
					read[ir.FieldNameOf(x.X.Type(), x.Field)] = true
				}
			case *ssa.FieldAddr:
				if strings.HasSuffix(ir.NamedType(x.X.Type()), ".NodeState") {
					read[ir.FieldNameOf(x.X.Type(), x.Field)] = true
				}
			}
		}
	}
	// model.Node fields written by FromNode from those reads
	// ToNode: NodeState fields written (composite literal stores)
	written := map[string]bool{}
	// the restorer and the helpers of its package it is made of
	toFns := []*ssa.Function{to}
	for _, g := range e.staticClosure(to) {
		if g != to && rootFn(g).Package() == to.Package() {
			toFns = append(toFns, g)
		}
	}
	var toBlocks []*ssa.BasicBlock
	for _, g := range toFns {
		toBlocks = append(toBlocks, g.Blocks...)
	}
	for _, b := range toBlocks {
		for _, in := range b.Instrs {
			if st, ok := in.(*ssa.Store); ok {
				if fa, ok := st.Addr.(*ssa.FieldAddr); ok && strings.HasSuffix(ir.NamedType(fa.X.Type()), ".NodeState") {
					written[ir.FieldNameOf(fa.X.Type(), fa.Field)] = true
				}
			}
		}
	}
	for _, f := range want {
		r.Check(read[f], "FromNode: records NodeState."+f, e.Pos(from.Pos()), "the persisted status does not record the step's "+f)
		r.Check(written[f], "ToNode: restores NodeState."+f, e.Pos(to.Pos()), "a retry does not restore the step's recorded "+f)
	}
	// the restored value of each field comes from the same-named recorded field
	for _, b := range toBlocks {
		for _, in := range b.Instrs {
			st, ok := in.(*ssa.Store)
			if !ok {
				continue
			}
			fa, ok := st.Addr.(*ssa.FieldAddr)
			if !ok || !strings.HasSuffix(ir.NamedType(fa.X.Type()), ".NodeState") {
				continue
			}
			name := ir.FieldNameOf(fa.X.Type(), fa.Field)
			tr := &ir.Tracer{C: e.C, Through: map[string]bool{"internal/util.ParseTime": true, "internal/persistence/model.errFromText": true, "fmt.Errorf": true}}
			okf := false
			for _, l := range tr.Trace(st.Val) {
				if l.Kind == "field" && l.Name == name {
					okf = true
				}
			}
			r.Check(okf, "ToNode: NodeState."+name+" restored from the recorded "+name, e.InstrPos(st), "the restored "+name+" does not come from the recorded "+name)
		}
	}
}

// onlyAfterNil: the target is executed only when the (error) result of the call was
// nil: `call == nil` dominates it, or - for the accumulate-the-first-error style
// (`err := a(); if err == nil { err = b() }; if err != nil { return }`) - the target
// cannot be reached from the call once the result is assumed non-nil.
func (e *Env) onlyAfterNil(call *ssa.Call, target ssa.Instruction) bool {
	for _, l := range e.DCS(target) {
		if l.Kind == "cmp" && l.Op == token.EQL && ir.IsNilConst(l.Y) && ir.Resolve(l.X) == ssa.Value(call) {
			return true
		}
	}
	if call.Parent() != target.Parent() || !ir.Precedes(call, target) {
		return false
	}
	return !ir.ReachableAssuming(call, target, map[ssa.Value]bool{call: true})
}

// schedOutputMapField: the ExecutionGraph field holding the shared output map (by its type).
func (e *Env) schedOutputMapField() string {
	outMap := "outputVariables"
	if sp := e.P.Pkg(schedRel); sp != nil {
		if gt := sp.Type("ExecutionGraph"); gt != nil {
			if st, ok := gt.Type().Underlying().(*types.Struct); ok {
				for i := 0; i < st.NumFields(); i++ {
					if strings.HasSuffix(ir.NamedType(st.Field(i).Type()), "dag.SyncMap") {
						outMap = st.Field(i).Name()
					}
				}
			}
		}
	}
	return outMap
}

// callbackBodies: the code a callback value runs: the closure with its own closures
// and the package functions it calls; for a bound method value (`obj.method`) the
// method behind the synthetic wrapper.
func (e *Env) callbackBodies(cb *ssa.Function) []*ssa.Function {
	var roots []*ssa.Function
	if cb.Synthetic != "" {
		for _, ci := range ir.CallsIn(cb, func(c *ssa.CallCommon) bool { return c.StaticCallee() != nil }) {
			roots = append(roots, ci.Common().StaticCallee())
		}
	} else {
		roots = append(roots, cb)
	}
	seen := map[*ssa.Function]bool{}
	var out []*ssa.Function
	for _, rt := range roots {
		for _, h := range ir.WithClosures(rt) {
			if !seen[h] {
				seen[h] = true
				out = append(out, h)
			}
		}
		if e.P.Funcs[rt] {
			for _, g := range e.withPkgHelpers(rt) {
				if !seen[g] {
					seen[g] = true
					out = append(out, g)
				}
			}
		}
	}
	return out
}
