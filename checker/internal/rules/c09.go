package rules

import (
	"go/token"
	"strings"

	"golang.org/x/tools/go/ssa"

	"bdcheck/internal/ir"
)

const dschedRel = "internal/scheduler"

// c09StartGuard: jobImpl.Start issues the start only when the DAG is not
// running and its last start (truncated to the minute) is before the scheduled minute.
func c09StartGuard(e *Env) {
	r := e.R
	r.Rule("C09.start-guard", "DCS", "daemon start guard", 2)
	fn := e.Fn(dschedRel, "(*jobImpl).Start")
	if fn == nil {
		return
	}
	_, ss := e.EnumOf(schedRel, "Status")
	running := ConstVal(ss, "StatusRunning")
	n := 0
	for _, ci := range ir.CallsIn(fn, func(c *ssa.CallCommon) bool { return c.IsInvoke() && c.Method.Name() == "Start" }) {
		n++
		lits := e.DCS(ci)
		okRun, okErr := false, false
		for _, l := range lits {
			if l.Kind == "cmp" && l.Op == token.NEQ && e.IsFieldRead(l.X, nil, "Status") {
				if k, isC := ir.ConstInt(l.Y); isC && k == running {
					okRun = true
				}
			}
			if l.Kind == "cmp" && l.Op == token.EQL && ir.IsNilConst(l.Y) {
				if ex, isE := ir.Resolve(l.X).(*ssa.Extract); isE && ex.Index == 1 {
					if c, isC := ex.Tuple.(*ssa.Call); isC && c.Call.IsInvoke() && c.Call.Method.Name() == "GetLatestStatus" {
						okErr = true
					}
				}
			}
		}
		r.Check(okRun && okErr, "jobImpl.Start: Client.Start only under latest status != running", e.InstrPos(ci),
			"the daemon starts a DAG that is (or may be) already running", e.FactsStr("dominating conditions: ", lits))
		// the same-minute guard: on the parse-success edge, not (last.After(Next) || Next.Equal(last))
		ff := e.Facts(fn)
		dnf, ok := ir.ReachingCondition(fn.Blocks[0], ci.Block(), 32)
		okMinute := ok && len(dnf) > 0
		for _, cj := range dnf {
			for _, conj := range ff.ExpandDNFRegion(fn.Blocks[0], []ir.Lit(cj)) {
				lits := ir.NormalizeAll(conj)
				parsedOK := false
				for _, l := range lits {
					if l.Kind == "cmp" && l.Op == token.EQL && ir.IsNilConst(l.Y) {
						if ex, isE := ir.Resolve(l.X).(*ssa.Extract); isE && ex.Index == 1 {
							if c, isC := ex.Tuple.(*ssa.Call); isC && strings.HasSuffix(ir.CalleeName(&c.Call), "util.ParseTime") {
								parsedOK = true
							}
						}
					}
				}
				if !parsedOK {
					continue // no previous start time: nothing to compare
				}
				notAfter, notEqual := false, false
				for _, l := range lits {
					if l.Kind == "val" && !l.Pol {
						if c, isC := ir.Resolve(l.V).(*ssa.Call); isC {
							if ir.IsCallTo(&c.Call, "(time.Time).After") && e.IsFieldRead(c.Call.Args[1], nil, "Next") && truncatedToMinute(c.Call.Args[0]) {
								notAfter = true
							}
							if ir.IsCallTo(&c.Call, "(time.Time).Before") && e.IsFieldRead(c.Call.Args[0], nil, "Next") && truncatedToMinute(c.Call.Args[1]) {
								notAfter = true
							}
							if ir.IsCallTo(&c.Call, "(time.Time).Equal") && (e.IsFieldRead(c.Call.Args[0], nil, "Next") && truncatedToMinute(c.Call.Args[1]) || e.IsFieldRead(c.Call.Args[1], nil, "Next") && truncatedToMinute(c.Call.Args[0])) {
								notEqual = true
							}
						}
					}
					if l.Kind == "val" && l.Pol {
						// positive form: last.Before(Next)
						if c, isC := ir.Resolve(l.V).(*ssa.Call); isC && ir.IsCallTo(&c.Call, "(time.Time).Before") && e.IsFieldRead(c.Call.Args[1], nil, "Next") && truncatedToMinute(c.Call.Args[0]) {
							notAfter, notEqual = true, true
						}
					}
				}
				if !notAfter || !notEqual {
					okMinute = false
				}
			}
		}
		r.Check(okMinute, "jobImpl.Start: Client.Start only when the last start (truncated to the minute) is before the scheduled minute", e.InstrPos(ci),
			"a DAG whose latest run started in (or after) the scheduled minute is started again: a minute can run twice (late tick, daemon restart)")
	}
	if n == 0 {
		r.Unknown("jobImpl.Start: Client.Start site", e.Pos(fn.Pos()), "not found")
	}
}

// truncatedToMinute: v = x.Truncate(60s)
func truncatedToMinute(v ssa.Value) bool {
	c, ok := ir.Resolve(v).(*ssa.Call)
	if !ok || !ir.IsCallTo(&c.Call, "(time.Time).Truncate") {
		return false
	}
	k, isC := ir.ConstInt(c.Call.Args[1])
	return isC && k == 60_000_000_000
}
