package rules

import (
	"go/token"
	"go/types"
	"strings"

	"golang.org/x/tools/go/ssa"

	"bdcheck/internal/ir"
)

const dschedRel = "internal/scheduler"

func init() {
	register(&Prop{ID: "C09", Run: runC09,
		Technique: "static analysis: constant / value-flow agreement of the tick arithmetic and the cron parser's granularity, dominance guards of start / stop / invoke, enum table of entry kinds, must-pass-through of error isolation and lock release in the directory loaders (go/ssa)",
		Decided: []string{
			"the daemon's DAG map is keyed the same way (base name or path) at every write and delete (C09.dag-map-key)",
			"a tick at t reads entries as Next(t+c) with a constant -60s ≤ c < 0 and invokes an entry only when its Next is not after t, and every entry that is due: besides the due test, the loop bound and nil tests the launch depends on nothing that varies from entry to entry, and every path of a due iteration reaches it; a `break` on the first future entry is preceded by sorting on Next; the next tick is computed from the previous tick (not from the wall clock) as +1 minute truncated to the minute; the cron parser has no seconds field (C09.tick)",
			"the start guard: not running, and last start truncated to the minute before the scheduled minute (C09.start-guard); stop only when running, restart unconditionally (C09.stop-guard)",
			"entries built from Schedule / StopSchedule / RestartSchedule carry the matching kind, Invoke maps each kind to the same-named job method, suspended DAGs contribute no entry (C09.entry-table); the suspend flag is looked up with the key it is written with: the file id derived from the definition's Location, never DAG.Name (C09.suspend-key)",
			"a file that fails to load neither ends directory initialisation nor the watcher loop, and the watcher releases its mutex on every way round the loop (C09.bad-file-isolation); the metadata loader is panic-free for decoded pointers (C13, shared obligation evaluated there)",
			"every value the flag store's IsSuspended returns is the result of a call it makes to the storage layer in that invocation - the answer is never remembered inside one process (C09.suspend-flag-read-through)",
		},
		NotDec: []string{"cron matching over the calendar (robfig/cron)", "that no minute is missed or doubled over whole tick sequences and restarts", "fsnotify delivery; timer behaviour under clock jumps"},
	})
}

func runC09(e *Env) {
	c09Tick(e)
	c09DagMapKey(e)
	c09StartGuard(e)
	c09StopGuard(e)
	c09EntryTable(e)
	c09SuspendKey(e)
	c09SuspendReadThrough(e, "C09.suspend-flag-read-through")
	c09BadFile(e)
}

func timeAddConst(v ssa.Value, recv func(ssa.Value) bool) (int64, bool) {
	c, ok := ir.Resolve(v).(*ssa.Call)
	if !ok || !ir.IsCallTo(&c.Call, "(time.Time).Add") || !recv(c.Call.Args[0]) {
		return 0, false
	}
	return ir.ConstInt(c.Call.Args[1])
}

func c09Tick(e *Env) {
	r := e.R
	r.Rule("C09.tick", "AGR+VF", "tick arithmetic and invocation guard", 5)
	// by role: the tick body is the function of the daemon that asks the entry
	// reader for the entries; the daemon loop is its caller; the logical time is
	// the tick body's time parameter
	var run *ssa.Function
	sp0 := e.P.Pkg(dschedRel)
	isRead := func(c *ssa.CallCommon) bool {
		return c.IsInvoke() && c.Method.Name() == "Read" && strings.HasSuffix(ir.NamedType(c.Value.Type()), "scheduler.entryReader")
	}
	nRun := 0
	for _, f := range e.RepoFuncsSorted() {
		if sp0 != nil && rootFn(f).Package() == sp0 && f.Parent() == nil && len(ir.CallsIn(f, isRead)) > 0 {
			run = f
			nRun++
		}
	}
	if run == nil || nRun != 1 {
		r.Unknown("the daemon's tick body (the function reading the entries)", dschedRel, sprintf("%d functions call entryReader.Read", nRun))
		return
	}
	var nowP ssa.Value
	for _, p := range run.Params {
		if ir.NamedType(p.Type()) == "time.Time" {
			nowP = p
		}
	}
	if nowP == nil {
		r.Unknown("tick body: logical time parameter", e.Pos(run.Pos()), "no time.Time parameter")
		return
	}
	isNow := func(v ssa.Value) bool { return ir.Resolve(v) == nowP }
	isNowD := func(v ssa.Value) bool { return ir.Resolve(v) == nowP || ir.Deep(v) == ir.Deep(nowP) } // also through a predicate's parameter
	// (a) Read(now + c)
	n := 0
	for _, ci := range ir.CallsIn(run, isRead) {
		n++
		c, ok := timeAddConst(ci.Common().Args[0], isNow)
		r.Check(ok && c < 0 && c >= -60_000_000_000, "run: entries read at tick + c with -60s ≤ c < 0", e.InstrPos(ci),
			sprintf("the entry reader is asked for Next(tick%+dns): with c ≥ 0 the tick's own minute is never returned, with c < -60s earlier minutes are replayed", c))
	}
	// (b) invocation guard: the Invoke call of the tick body, of a goroutine it
	// starts or of a helper, judged at the statement of the tick body that leads to it
	var invoke ssa.Instruction
	isInvoke := func(c *ssa.CallCommon) bool { return strings.HasSuffix(ir.CalleeName(c), "entry).Invoke") }
	type isite struct{ call, site ssa.Instruction }
	var isites []isite
	for _, b := range run.Blocks {
		for _, in := range b.Instrs {
			switch x := in.(type) {
			case *ssa.MakeClosure:
				for _, h := range ir.WithClosures(x.Fn.(*ssa.Function)) {
					for _, ci := range ir.CallsIn(h, isInvoke) {
						isites = append(isites, isite{ci, in})
					}
				}
			case ssa.CallInstruction:
				if isInvoke(x.Common()) {
					isites = append(isites, isite{in, in})
				} else if g := x.Common().StaticCallee(); g != nil && g.Parent() == nil && e.P.Funcs[g] && rootFn(g).Package() == sp0 {
					for _, h := range e.withPkgHelpers(g) {
						for _, ci := range ir.CallsIn(h, isInvoke) {
							isites = append(isites, isite{ci, in})
						}
					}
				}
			}
		}
	}
	for _, is := range isites {
		{
			invoke = is.call
			site := is.site
			lits := e.DCS(site)
			allFound := true
			ok, nWays := true, 0
			e.ways(lits, func(lits []ir.NLit) {
				nWays++
				ok := false
				_ = ok
				found := false
				for _, l := range lits {
					if l.Kind == "val" && !l.Pol {
						if c, isC := ir.Resolve(l.V).(*ssa.Call); isC && ir.IsCallTo(&c.Call, "(time.Time).After") && e.IsFieldRead(c.Call.Args[0], nil, "Next") && isNowD(c.Call.Args[1]) {
							found = true
						}
						// the same test written from the tick's side: !tick.Before(entry.Next)
						if c, isC := ir.Resolve(l.V).(*ssa.Call); isC && ir.IsCallTo(&c.Call, "(time.Time).Before") && isNowD(c.Call.Args[0]) && e.IsFieldRead(c.Call.Args[1], nil, "Next") {
							found = true
						}
					}
					if l.Kind == "val" && l.Pol {
						if c, isC := ir.Resolve(l.V).(*ssa.Call); isC && ir.IsCallTo(&c.Call, "(time.Time).Before") && isNowD(c.Call.Args[0]) && e.IsFieldRead(c.Call.Args[1], nil, "Next") {
							found = false // strictly before would skip the tick's own minute
						}
					}
				}
				if !found {
					allFound = false
				}
			})
			ok = allFound && nWays > 0
			loops := ir.Loops(run)
			l := ir.InnermostLoop(loops, site.Block())
			// the due test applied beforehand: the loop ranges over what a helper of the
			// package cut out of the entries - the prefix before the first entry that is not due
			prefixCut := false
			if !ok && l != nil && l.Ranged != nil {
				prefixCut = c09DuePrefix(e, l.Ranged, isNowD)
				ok = prefixCut
			}
			r.Check(ok, "run: an entry is invoked only when !entry.Next.After(tick)", e.InstrPos(site),
				"entries are invoked although their next time is after the tick (future minutes run early), or the guard uses another comparison", e.FactsStr("dominating conditions: ", lits))
			// break on the first future entry needs the entries sorted by Next
			if l != nil {
				// every due entry is invoked: besides the due test and the loop's own
				// bound, the launch depends on nothing that varies from entry to entry
				// (a lookup in a set filled by the loop, a filter on the entry's kind)
				var extra []string
				isDueDirect := func(lt ir.NLit) bool {
					if lt.Kind != "val" {
						return false
					}
					c, isC := ir.Resolve(lt.V).(*ssa.Call)
					return isC && ir.IsCallTo(&c.Call, "(time.Time).After", "(time.Time).Before")
				}
				// the due test itself, or a predicate of the package that is one (`e.isDue(tick)`)
				isDue := func(lt ir.NLit) bool {
					if isDueDirect(lt) {
						return true
					}
					if lt.Kind != "val" {
						return false
					}
					c, isC := ir.Resolve(lt.V).(*ssa.Call)
					if !isC || c.Call.StaticCallee() == nil || !e.P.Funcs[c.Call.StaticCallee()] {
						return false
					}
					all, nAlt := true, 0
					e.ways([]ir.NLit{lt}, func(alt []ir.NLit) {
						nAlt++
						found := false
						for _, x := range alt {
							if isDueDirect(x) {
								found = true
							}
						}
						if !found {
							all = false
						}
					})
					return all && nAlt > 0
				}
				var variant func(v ssa.Value, d int) bool
				variant = func(v ssa.Value, d int) bool {
					if v == nil || d > 6 {
						return false
					}
					in, isIn := v.(ssa.Instruction)
					if !isIn || in.Block() == nil || in.Parent() != run {
						return false
					}
					return l.Blocks[in.Block()]
				}
				for _, lt := range lits {
					if isDue(lt) {
						continue
					}
					switch lt.Kind {
					case "cmp":
						// the loop's bound: index < len
						if isLoopCounter(lt.X, l) || isLoopCounter(lt.Y, l) {
							continue
						}
						if ir.IsNilConst(lt.Y) || ir.IsNilConst(lt.X) {
							continue // an entry without a job cannot be invoked at all
						}
						if variant(ir.Resolve(lt.X), 0) || variant(ir.Resolve(lt.Y), 0) {
							extra = append(extra, strings.Join(e.RenderN([]ir.NLit{lt}), ""))
						}
					case "val":
						v := ir.Resolve(lt.V)
						if ex, isEx := v.(*ssa.Extract); isEx {
							if _, isNext := ex.Tuple.(*ssa.Next); isNext {
								continue // the range's own ok
							}
						}
						if variant(v, 0) {
							extra = append(extra, strings.Join(e.RenderN([]ir.NLit{lt}), ""))
						}
					}
				}
				// ... and once the due test has passed, every path of that iteration
				// reaches the launch (a `continue` behind a join is not a dominating condition)
				for _, lt := range lits {
					if !isDue(lt) || lt.Src.If == nil || !l.Blocks[lt.Src.If.Block()] {
						continue
					}
					k := 1
					if lt.Src.Pol {
						k = 0
					}
					bad, _ := ir.Bypass(nil, lt.Src.If.Block().Succs[k], ir.PathQuery{
						Stop: func(in ssa.Instruction) bool { return in == site },
						Bad: func(in ssa.Instruction) bool {
							b := in.Block()
							if in != b.Instrs[len(b.Instrs)-1] {
								return false
							}
							if ir.IsReturn(in) {
								return true
							}
							for _, sx := range b.Succs {
								if sx == l.Header || !l.Blocks[sx] {
									return true
								}
							}
							return false
						}})
					if bad != nil {
						extra = append(extra, "the iteration of a due entry can end at "+e.InstrPos(bad)+" without the launch")
					}
				}
				r.Check(len(extra) == 0, "run: every due entry is invoked (the launch depends only on the entry's time)", e.InstrPos(site),
					"an entry whose time has come is launched only under a further per-entry condition: due operations are dropped (two schedules of one workflow firing in the same minute, a stop and a start of the same tick), although each is a scheduled minute that must run exactly once", extra...)
			}
			if l != nil {
				breaks := false
				for b := range l.Blocks {
					if b == l.Header {
						continue
					}
					for _, sx := range b.Succs {
						if !l.Blocks[sx] {
							breaks = true
						}
					}
				}
				if breaks || prefixCut {
					sorted := false
					var sorts []ssa.CallInstruction
					for _, h := range e.withPkgHelpers(run) {
						sorts = append(sorts, ir.CallsIn(h, func(c *ssa.CallCommon) bool { return ir.IsCallTo(c, "sort.SliceStable", "sort.Slice") })...)
					}
					for _, h := range e.withPkgHelpers(run) {
						for _, sc := range ir.CallsIn(h, func(c *ssa.CallCommon) bool {
							n := ir.CalleeName(c)
							return strings.HasPrefix(n, "slices.SortFunc") || strings.HasPrefix(n, "slices.SortStableFunc")
						}) {
							var cmp *ssa.Function
							switch x := ir.Resolve(sc.Common().Args[1]).(type) {
							case *ssa.MakeClosure:
								cmp, _ = x.Fn.(*ssa.Function)
							case *ssa.Function:
								cmp = x
							}
							if cmp == nil || len(cmp.Params) != 2 {
								continue
							}
							// ascending by Next: cmp(a, b) = a.Next.Compare(b.Next)
							for _, b := range cmp.Blocks {
								if rt, isR := b.Instrs[len(b.Instrs)-1].(*ssa.Return); isR && len(rt.Results) == 1 {
									if c, isC := ir.Resolve(rt.Results[0]).(*ssa.Call); isC && ir.IsCallTo(&c.Call, "(time.Time).Compare") {
										p0, ok0 := e.C.PathOf(c.Call.Args[0])
										p1, ok1 := e.C.PathOf(c.Call.Args[1])
										if ok0 && ok1 && p0.Suffix("Next") && p1.Suffix("Next") && ir.Resolve(p0.Root) == ssa.Value(cmp.Params[0]) && ir.Resolve(p1.Root) == ssa.Value(cmp.Params[1]) {
											sorted = true
										}
									}
								}
							}
						}
					}
					for _, sc := range sorts {
						if mc, isMC := sc.Common().Args[1].(*ssa.MakeClosure); isMC {
							less := mc.Fn.(*ssa.Function)
							for _, b := range less.Blocks {
								for _, in := range b.Instrs {
									if rt, isR := in.(*ssa.Return); isR {
										if c, isC := ir.Resolve(rt.Results[0]).(*ssa.Call); isC && ir.IsCallTo(&c.Call, "(time.Time).Before") &&
											e.IsFieldRead(c.Call.Args[0], nil, "Next") && e.IsFieldRead(c.Call.Args[1], nil, "Next") {
											sorted = true
										}
									}
								}
							}
						}
					}
					r.Check(sorted, "run: the loop stops at the first future entry only after sorting by Next", e.InstrPos(site),
						"the invocation loop breaks at the first entry whose time is in the future but the entries are not sorted by time: due entries behind it are skipped (missed minute)")
				}
			}
		}
	}
	if invoke == nil {
		r.Unknown("run: Invoke site", e.Pos(run.Pos()), "not found")
	}
	// (c) the daemon loop: run(t); t = next(t), t carried round the loop
	var tick *ssa.Phi
	var start *ssa.Function
	timeIdx := -1
	for i, p := range run.Params {
		if ssa.Value(p) == nowP {
			timeIdx = i
		}
	}
	for _, ci := range e.StaticCallSites(run) {
		if ph, ok := ir.Resolve(ci.Common().Args[timeIdx]).(*ssa.Phi); ok {
			tick, start = ph, ci.Parent()
		}
	}
	const minute = 60_000_000_000
	// v is prev + 1 minute truncated to the minute
	nextExpr := func(v, prev ssa.Value) bool {
		c, isC := ir.Resolve(v).(*ssa.Call)
		if !isC || !ir.IsCallTo(&c.Call, "(time.Time).Truncate") {
			return false
		}
		k, _ := ir.ConstInt(c.Call.Args[1])
		add, okA := timeAddConst(c.Call.Args[0], func(x ssa.Value) bool { return ir.Resolve(x) == ir.Resolve(prev) })
		return okA && add == minute && k == minute
	}
	if tick == nil {
		r.Bad("start: run(t) with the loop-carried logical tick", e.Pos(run.Pos()), "the daemon does not run ticks from a loop-carried logical time")
	} else {
		okNext, okInit, okNT, sawNT := false, false, false, false
		for _, ed := range tick.Edges {
			c, isC := ir.Resolve(ed).(*ssa.Call)
			if !isC {
				continue
			}
			if g := c.Call.StaticCallee(); g != nil && e.P.Funcs[g] && g.Blocks != nil {
				// a helper computing the next tick from one of its parameters
				for k, p := range g.Params {
					if ir.NamedType(p.Type()) != "time.Time" {
						continue
					}
					sawNT = true
					all := true
					nr := 0
					for _, b := range g.Blocks {
						if rt, isR := b.Instrs[len(b.Instrs)-1].(*ssa.Return); isR {
							nr++
							if !nextExpr(RetVals(rt, 0)[0], p) {
								all = false
							}
						}
					}
					okNT = all && nr > 0
					okNext = ir.Resolve(c.Call.Args[k]) == ssa.Value(tick)
					if !okNext {
						r.Bad("start: next tick computed from the previous tick", e.InstrPos(c),
							"the next tick is computed from "+e.C.Render(c.Call.Args[k])+" instead of the previous logical tick: after a late tick every minute boundary crossed in between is skipped (scheduled minutes missed)")
					}
					r.Check(okNT, "nextTick: previous + 1 minute, truncated to the minute", e.Pos(g.Pos()), "ticks do not advance minute by minute")
				}
			} else if ir.IsCallTo(&c.Call, "(time.Time).Truncate") {
				if nextExpr(c, tick) {
					// the next tick computed in place from the previous one
					sawNT, okNT, okNext = true, true, true
					r.OK("nextTick: previous + 1 minute, truncated to the minute", e.InstrPos(c), "")
				} else if k2, ok := ir.ConstInt(c.Call.Args[1]); ok && k2 == minute {
					if _, isAdd := timeAddConst(c.Call.Args[0], func(ssa.Value) bool { return true }); !isAdd {
						okInit = true
					}
				}
			}
		}
		if okNext {
			r.OK("start: next tick computed from the previous tick", e.Pos(start.Pos()), "")
		}
		if !sawNT {
			r.Bad("nextTick: previous + 1 minute, truncated to the minute", e.Pos(start.Pos()), "the daemon loop does not advance its logical tick by a recognisable computation")
		}
		r.Check(okInit, "start: first tick = now() truncated to the minute", e.Pos(start.Pos()), "the first logical tick is not minute-aligned")
	}
	// (d) cron parser granularity
	sp := e.P.Pkg(dagRel)
	okCron, found := false, false
	if sp != nil && sp.Func("init") != nil {
		for _, ci := range ir.CallsIn(sp.Func("init"), func(c *ssa.CallCommon) bool { return ir.IsCallTo(c, "github.com/robfig/cron/v3.NewParser") }) {
			found = true
			if k, ok := ir.ConstInt(ci.Common().Args[0]); ok {
				okCron = k&3 == 0 && k&4 != 0
			}
		}
	}
	if !found {
		r.Unknown("dag: cron parser options", "-", "cron.NewParser call not found in package initialisation")
	} else {
		r.Check(okCron, "dag: cron parser has a minute field and no seconds field", "internal/dag/parser.go", "the cron parser accepts a seconds field while the daemon ticks once a minute: expressions with seconds would be missed")
	}
}

func c09StopGuard(e *Env) {
	r := e.R
	r.Rule("C09.stop-guard", "DCS", "stop only when running; restart unconditional", 2)
	_, ss := e.EnumOf(schedRel, "Status")
	running := ConstVal(ss, "StatusRunning")
	if fn := e.daemonJobMethod("Stop"); fn != nil {
		n := 0
		for _, ci := range ir.CallsIn(fn, func(c *ssa.CallCommon) bool { return c.IsInvoke() && c.Method.Name() == "Stop" }) {
			n++
			ok, nWays := true, 0
			e.ways(e.DCS(ci), func(lits []ir.NLit) {
				nWays++
				found := false
				for _, l := range lits {
					if l.Kind == "cmp" && l.Op == token.EQL && e.IsFieldRead(l.X, nil, "Status") {
						if k, isC := ir.ConstInt(l.Y); isC && k == running {
							found = true
						}
					}
				}
				if !found {
					ok = false
				}
			})
			ok = ok && nWays > 0
			r.Check(ok, "jobImpl.Stop: Client.Stop only under latest status == running", e.InstrPos(ci), "a stop schedule acts on a DAG that is not running", e.FactsStr("dominating conditions: ", e.DCS(ci)))
		}
		if n == 0 {
			r.Bad("jobImpl.Stop: Client.Stop only under latest status == running", e.Pos(fn.Pos()), "the stop schedule never stops the DAG")
		}
	}
	if fn := e.daemonJobMethod("Restart"); fn != nil {
		ok := false
		for _, ci := range ir.CallsIn(fn, func(c *ssa.CallCommon) bool { return c.IsInvoke() && c.Method.Name() == "Restart" }) {
			if len(e.DCS(ci)) == 0 {
				ok = true
			}
		}
		r.Check(ok, "jobImpl.Restart: Client.Restart unconditionally", e.Pos(fn.Pos()), "a restart schedule does not issue a restart at each matching minute")
	}
}

func c09EntryTable(e *Env) {
	r := e.R
	r.Rule("C09.entry-table", "VF+ENUM", "schedule kind ↔ entry type ↔ job method", 6)
	rd := e.Fn(dschedRel, "(*entryReaderImpl).Read")
	inv := e.Fn(dschedRel, "(*entry).Invoke")
	_, et := e.EnumOf(dschedRel, "entryType")
	if rd == nil || inv == nil || len(et) == 0 {
		return
	}
	want := map[string]string{"Schedule": "entryTypeStart", "StopSchedule": "entryTypeStop", "RestartSchedule": "entryTypeRestart"}
	seen := map[string]bool{}
	schedOf := func(v ssa.Value) string {
		if p, ok := e.C.PathOf(v); ok && len(p.Fields) >= 1 && want[p.Fields[len(p.Fields)-1]] != "" {
			return p.Fields[len(p.Fields)-1]
		}
		return ""
	}
	type pair struct{ sched, typ string }
	var rdCalls []ssa.CallInstruction
	for _, g := range e.withPkgHelpers(rd) {
		rdCalls = append(rdCalls, ir.CallsIn(g, func(c *ssa.CallCommon) bool { return len(c.Args) >= 3 })...)
	}
	for _, ci := range rdCalls {
		var pairs []pair
		var sched, typ string
		for _, a := range ci.Common().Args {
			if sn := schedOf(a); sn != "" && len(mustPath(e, a).Fields) == 1 {
				sched = sn
			}
			if k, ok := ir.ConstInt(a); ok && strings.HasSuffix(ir.NamedType(a.Type()), ".entryType") {
				typ = et[k]
			}
			// the kind taken from a row of a literal table (`for _, row := range []struct{schedules; typ}{…}`):
			// one pair per row, the schedule list being the row's other column
			if strings.HasSuffix(ir.NamedType(a.Type()), ".entryType") {
				if rows, fld, _, okR := ir.LiteralRows(ir.Resolve(a)); okR {
					for _, row := range rows {
						p := pair{}
						if k, isC := ir.ConstInt(row[fld]); isC {
							p.typ = et[k]
						}
						for f2, v2 := range row {
							if f2 != fld {
								if sn := schedOf(v2); sn != "" {
									p.sched = sn
								}
							}
						}
						if p.sched != "" {
							pairs = append(pairs, p)
						}
					}
				}
			}
		}
		if sched != "" {
			pairs = append(pairs, pair{sched, typ})
		}
		if len(pairs) == 0 {
			continue
		}
		for _, p := range pairs {
			seen[p.sched] = true
			r.Check(p.typ == want[p.sched], "Read: entries from "+p.sched+" carry "+want[p.sched], e.InstrPos(ci), "entries built from "+p.sched+" carry "+p.typ)
		}
		sched = pairs[0].sched
		// not for suspended DAGs
		okS := HasVal(e.DCS(ci), func(v ssa.Value) bool {
			c, ok := ir.Resolve(v).(*ssa.Call)
			return ok && c.Call.IsInvoke() && c.Call.Method.Name() == "IsSuspended"
		}, false)
		r.Check(okS, "Read: "+sched+" entries only for DAGs that are not suspended", e.InstrPos(ci), "a suspended DAG still contributes schedule entries")
	}
	for k := range want {
		if !seen[k] {
			r.Bad("Read: entries from "+k+" carry "+want[k], e.Pos(rd.Pos()), "no entries are built from "+k)
		}
	}
	// entries are created with Next = Parsed.Next(now) and the type parameter
	// Invoke: type → method
	wantM := map[string]string{"entryTypeStart": "Start", "entryTypeStop": "Stop", "entryTypeRestart": "Restart"}
	isType := func(v ssa.Value) bool { return e.IsFieldRead(v, nil, "EntryType") }
	// the dispatch written as a table indexed by the entry type (`ops[e.EntryType].invoke(e.Job)`)
	for _, b := range inv.Blocks {
		for _, in := range b.Instrs {
			c, ok := in.(*ssa.Call)
			if !ok || c.Call.IsInvoke() || c.Call.StaticCallee() != nil {
				continue
			}
			idx, fld, ents, okT := e.arrayTableRead(c.Call.Value)
			if !okT || !isType(idx) {
				continue
			}
			for k, row := range ents {
				m := methodOfFuncValue(row[fld])
				r.Check(et[k] != "" && wantM[et[k]] == m, "Invoke: Job."+wantM[et[k]]+" only for "+et[k], e.InstrPos(c),
					"the operation table maps "+et[k]+" to job method "+m)
			}
			for name := range wantM {
				if _, has := ents[ConstVal(et, name)]; !has {
					r.Bad("Invoke: Job."+wantM[name]+" only for "+name, e.InstrPos(c), "the operation table has no entry for "+name)
				}
			}
		}
	}
	// the operation chosen by a helper of the package as a method value (`op := e.operation(); op()`
	// with `return e.Job.Start` under the entry type): the place the method value is made
	for _, g := range e.withPkgHelpers(inv) {
		for _, b := range g.Blocks {
			for _, in := range b.Instrs {
				mc, ok := in.(*ssa.MakeClosure)
				if !ok {
					continue
				}
				w, isF := mc.Fn.(*ssa.Function)
				if !isF || !strings.HasSuffix(w.Name(), "$bound") {
					continue
				}
				m := ""
				for _, ci := range ir.CallsIn(w, func(c *ssa.CallCommon) bool { return c.IsInvoke() && wantM["entryType"+c.Method.Name()] != "" }) {
					m = ci.Common().Method.Name()
				}
				if m == "" {
					continue
				}
				set := e.restrictWays(e.DCS(mc), isType, et)
				ok2 := len(set) == 1 && set[ConstVal(et, "entryType"+m)]
				r.Check(ok2, "Invoke: Job."+m+" only for entryType"+m, e.InstrPos(mc), "job method "+m+" is chosen for entry kinds {"+strings.Join(set.Names(et), ",")+"}")
			}
		}
	}
	for _, ci := range ir.CallsIn(inv, func(c *ssa.CallCommon) bool { return c.IsInvoke() && wantM["entryType"+c.Method.Name()] != "" }) {
		set := ir.Restrict(e.DCS(ci), isType, et)
		m := ci.Common().Method.Name()
		ok := len(set) == 1 && set[ConstVal(et, "entryType"+m)]
		r.Check(ok, "Invoke: Job."+m+" only for entryType"+m, e.InstrPos(ci), "job method "+m+" is invoked for entry kinds {"+strings.Join(set.Names(et), ",")+"}")
	}
}

// c09SuspendKey: the suspend flag is written keyed by the DAG's file id (the
// API's dagId path parameter); every reader must ask with a key derived the
// same way - the base name of the definition's Location without extension -
// never with DAG.Name, which a definition may override with `name:`.
func c09SuspendKey(e *Env) {
	r := e.R
	r.Rule("C09.suspend-key", "AGR/VF", "suspend flag read with the key it is written with (file id, not DAG.Name)", 3)
	tr := &ir.Tracer{C: e.C, Through: ir.StringThrough, Descend: e.repoDescend, Fields: e.helperObjectFields}
	n := 0
	for _, f := range e.RepoFuncsSorted() {
		for _, ci := range ir.CallsIn(f, func(c *ssa.CallCommon) bool {
			return c.IsInvoke() && (c.Method.Name() == "IsSuspended" || c.Method.Name() == "ToggleSuspend") &&
				strings.HasPrefix(ir.NamedType(c.Value.Type()), e.P.Pkg(dschedRel).Pkg.Path()[:strings.Index(e.P.Pkg(dschedRel).Pkg.Path(), "/internal/")])
		}) {
			n++
			var bad []string
			fromLocation := false
			for _, l := range tr.Trace(ci.Common().Args[0]) {
				switch l.Kind {
				case "const", "param":
				case "field":
					switch {
					case strings.HasSuffix(l.Name, "Location"):
						fromLocation = true
					case strings.HasSuffix(l.Name, "DagID"):
					default:
						bad = append(bad, "field "+l.Name)
					}
				default:
					bad = append(bad, l.Kind+" "+l.Name)
				}
			}
			okKey := len(bad) == 0
			if rootFn(f).Package() == e.P.Pkg(dschedRel) {
				okKey = okKey && fromLocation // the daemon has only the loaded DAG to derive the id from
			}
			r.Check(okKey, ShortFn(f)+": "+ci.Common().Method.Name()+" keyed by the DAG's file id", e.InstrPos(ci),
				"the suspend flag is looked up with a key that is not the DAG's file id (base name of its Location): a DAG whose definition sets its own `name:` and was suspended through the UI/API is still scheduled (or a different DAG's flag is honoured)",
				"key sources other than id parameters / Location / dagId: "+strings.Join(bad, ", "))
		}
	}
	if n == 0 {
		r.Unknown("suspend flag accesses", "-", "no IsSuspended / ToggleSuspend call found")
	}
}

func c09BadFile(e *Env) {
	r := e.R
	r.Rule("C09.bad-file-isolation", "DCS+MPT", "a file that fails to load does not stop the others; the watcher's lock is released", 3)
	sp := e.P.Pkg(dschedRel)
	inPkg := func(f *ssa.Function) bool {
		return f != nil && sp != nil && f.Blocks != nil && rootFn(f).Package() == sp
	}
	isMetaLoad := func(f *ssa.Function) bool {
		return len(ir.CallsIn(f, func(c *ssa.CallCommon) bool { return strings.HasSuffix(ir.CalleeName(c), "internal/dag.LoadMetadata") })) > 0
	}
	// the loader: dag.LoadMetadata itself, or a helper of the daemon that hands its result on
	loads := func(c *ssa.CallCommon) bool {
		if strings.HasSuffix(ir.CalleeName(c), "internal/dag.LoadMetadata") {
			return true
		}
		g := c.StaticCallee()
		return inPkg(g) && g.Signature.Results().Len() >= 2 && e.ReachesRepo(g, isMetaLoad)
	}
	isLoadErr := func(i *ssa.If, idx int) (bool, bool) {
		l := ir.Normalize(ir.Lit{Cond: i.Cond, Pol: idx == 0})
		if l.Kind != "cmp" || (l.Op != token.NEQ && l.Op != token.EQL) || !ir.IsNilConst(l.Y) {
			return false, false
		}
		ex, ok := ir.Resolve(l.X).(*ssa.Extract)
		if !ok {
			return false, false
		}
		c, ok := ex.Tuple.(*ssa.Call)
		if !ok || !loads(&c.Call) || ex.Index != c.Call.Signature().Results().Len()-1 {
			return false, false
		}
		return true, l.Op == token.NEQ
	}
	// continues: from block `from` of fn, control always comes back to the head of
	// the enclosing loop - that of fn, or (when fn is a helper called from one place)
	// that of its caller
	var continues func(fn *ssa.Function, fromBlock *ssa.BasicBlock, fromInstr ssa.Instruction, depth int) (bool, bool)
	continues = func(fn *ssa.Function, fromBlock *ssa.BasicBlock, fromInstr ssa.Instruction, depth int) (ok, inLoop bool) {
		loops := ir.Loops(fn)
		at := fromBlock
		if at == nil {
			at = fromInstr.Block()
		}
		l := ir.InnermostLoop(loops, at)
		if l != nil {
			bad, _ := ir.Bypass(fromInstr, fromBlock, ir.PathQuery{
				Stop: func(in ssa.Instruction) bool { return in == l.Header.Instrs[0] },
				Bad: func(in ssa.Instruction) bool {
					if ir.IsReturn(in) {
						return true
					}
					return !l.Blocks[in.Block()]
				}})
			return bad == nil, true
		}
		us := ir.UniqueSite(fn)
		if us == nil || depth > 3 {
			return false, false
		}
		// inside the helper nothing but returning happens (no exit of the process)
		bad, _ := ir.Bypass(fromInstr, fromBlock, ir.PathQuery{
			Stop: ir.IsReturn,
			Bad: func(in ssa.Instruction) bool {
				c, isC := in.(*ssa.Call)
				if _, isP := in.(*ssa.Panic); isP {
					return true
				}
				return isC && (ir.IsCallTo(&c.Call, "os.Exit") || strings.HasSuffix(ir.CalleeName(&c.Call), ".Fatal") || strings.HasSuffix(ir.CalleeName(&c.Call), ".Fatalf"))
			}})
		if bad != nil {
			return false, true
		}
		return continues(us.Parent(), nil, us, depth+1)
	}
	n := 0
	var fns []*ssa.Function
	for _, fn := range e.RepoFuncsSorted() {
		if !inPkg(fn) {
			continue
		}
		for _, b := range fn.Blocks {
			i, ok := b.Instrs[len(b.Instrs)-1].(*ssa.If)
			if !ok {
				continue
			}
			for idx := 0; idx < 2; idx++ {
				is, errEdge := isLoadErr(i, idx)
				if !is || !errEdge {
					continue
				}
				n++
				fns = append(fns, fn)
				okC, inLoop := continues(fn, b.Succs[idx], nil, 0)
				if !inLoop {
					r.Bad(shortName(fn)+": files are loaded inside a loop", e.InstrPos(i), "the loader is not called per file in a loop")
					continue
				}
				r.Check(okC, shortName(fn)+": a load error continues with the next file / event", e.InstrPos(i),
					"a malformed or unloadable file ends the directory scan / the watcher: the other DAGs are not (or no longer) scheduled")
			}
		}
	}
	if n < 2 {
		r.Unknown("daemon: the load-error tests of the directory scan and of the watcher", dschedRel, sprintf("%d found", n))
	}
	// a lock taken by the functions that load files is released on every way to a
	// return and on every way round their loop
	seen := map[*ssa.Function]bool{}
	for _, wd := range fns {
		if seen[wd] {
			continue
		}
		seen[wd] = true
		for _, ci := range ir.CallsIn(wd, func(c *ssa.CallCommon) bool { return ir.IsCallTo(c, "(*sync.Mutex).Lock", "(*sync.RWMutex).Lock") }) {
			loops := ir.Loops(wd)
			l := ir.InnermostLoop(loops, ci.Block())
			bad, _ := ir.Bypass(ci, nil, ir.PathQuery{
				Stop: func(in ssa.Instruction) bool {
					c, ok := in.(*ssa.Call)
					return ok && ir.IsCallTo(&c.Call, "(*sync.Mutex).Unlock", "(*sync.RWMutex).Unlock")
				},
				DeferStop: func(d *ssa.Defer) bool { return ir.IsCallTo(&d.Call, "(*sync.Mutex).Unlock", "(*sync.RWMutex).Unlock") },
				Bad: func(in ssa.Instruction) bool {
					if ir.IsReturn(in) {
						return true
					}
					return l != nil && in == l.Header.Instrs[0]
				}})
			r.Check(bad == nil, shortName(wd)+": the lock is released on every path round the loop / to a return", e.InstrPos(ci),
				"a path leaves the critical section without unlocking: the next event (or the next Read by the tick) blocks forever")
		}
	}
}

// c09StartGuard: jobImpl.Start issues the start only when the DAG is not
// running and its last start (truncated to the minute) is before the scheduled minute.
func c09StartGuard(e *Env) {
	r := e.R
	r.Rule("C09.start-guard", "DCS", "daemon start guard", 2)
	fn := e.daemonJobMethod("Start")
	if fn == nil {
		return
	}
	_, ss := e.EnumOf(schedRel, "Status")
	running := ConstVal(ss, "StatusRunning")
	n := 0
	// the scheduled minute: the job's time field (by type; `Next` today)
	isNext := func(v ssa.Value) bool {
		if e.IsFieldRead(v, nil, "Next") {
			return true
		}
		if ir.NamedType(v.Type()) != "time.Time" || fn.Signature.Recv() == nil {
			return false
		}
		p, ok := e.pathThroughParams(v)
		if !ok || len(p.Fields) != 1 {
			return false
		}
		return ir.NamedType(p.Root.Type()) == ir.NamedType(fn.Signature.Recv().Type())
	}
	for _, ci := range ir.CallsIn(fn, func(c *ssa.CallCommon) bool { return c.IsInvoke() && c.Method.Name() == "Start" }) {
		n++
		lits := e.DCS(ci)
		okRun, okErr, nWays := true, true, 0
		e.ways(lits, func(alt []ir.NLit) {
			nWays++
			run, er := false, false
			for _, l := range alt {
				if l.Kind == "cmp" && l.Op == token.NEQ && e.IsFieldRead(l.X, nil, "Status") {
					if k, isC := ir.ConstInt(l.Y); isC && k == running {
						run = true
					}
				}
				if l.Kind == "cmp" && l.Op == token.EQL && ir.IsNilConst(l.Y) {
					if ex, isE := ir.Resolve(l.X).(*ssa.Extract); isE && ex.Index == 1 {
						if c, isC := ex.Tuple.(*ssa.Call); isC && c.Call.IsInvoke() && c.Call.Method.Name() == "GetLatestStatus" {
							er = true
						}
					}
				}
			}
			okRun, okErr = okRun && run, okErr && er
		})
		okRun = okRun && nWays > 0
		r.Check(okRun && okErr, "jobImpl.Start: Client.Start only under latest status != running", e.InstrPos(ci),
			"the daemon starts a DAG that is (or may be) already running", e.FactsStr("dominating conditions: ", lits))
		// the same-minute guard: on the parse-success edge, not (last.After(Next) || Next.Equal(last))
		ff := e.Facts(fn)
		dnf, ok := ir.ReachingCondition(fn.Blocks[0], ci.Block(), 32)
		okMinute := ok && len(dnf) > 0
		for _, cj := range dnf {
			for _, conj := range ff.ExpandDNFRegion(fn.Blocks[0], []ir.Lit(cj)) {
				e.ways(ir.NormalizeAll(conj), func(lits []ir.NLit) {
					parsedOK := false
					for _, l := range lits {
						if l.Kind == "cmp" && l.Op == token.EQL && ir.IsNilConst(l.Y) {
							if ex, isE := ir.Resolve(l.X).(*ssa.Extract); isE && ex.Index == 1 {
								if c, isC := ex.Tuple.(*ssa.Call); isC && strings.HasSuffix(ir.CalleeName(&c.Call), "util.ParseTime") {
									parsedOK = true
								}
							}
						}
					}
					if !parsedOK {
						return // no previous start time: nothing to compare
					}
					notAfter, notEqual := false, false
					for _, l := range lits {
						if l.Kind == "val" && !l.Pol {
							if c, isC := ir.Resolve(l.V).(*ssa.Call); isC {
								if ir.IsCallTo(&c.Call, "(time.Time).After") && isNext(c.Call.Args[1]) && truncatedToMinute(c.Call.Args[0]) {
									notAfter = true
								}
								if ir.IsCallTo(&c.Call, "(time.Time).Before") && isNext(c.Call.Args[0]) && truncatedToMinute(c.Call.Args[1]) {
									notAfter = true
								}
								if ir.IsCallTo(&c.Call, "(time.Time).Equal") && (isNext(c.Call.Args[0]) && truncatedToMinute(c.Call.Args[1]) || isNext(c.Call.Args[1]) && truncatedToMinute(c.Call.Args[0])) {
									notEqual = true
								}
							}
						}
						if l.Kind == "val" && l.Pol {
							// positive form: last.Before(Next)
							if c, isC := ir.Resolve(l.V).(*ssa.Call); isC && ir.IsCallTo(&c.Call, "(time.Time).Before") && isNext(c.Call.Args[1]) && truncatedToMinute(c.Call.Args[0]) {
								notAfter, notEqual = true, true
							}
							// the same from the schedule's side: Next.After(last)
							if c, isC := ir.Resolve(l.V).(*ssa.Call); isC && ir.IsCallTo(&c.Call, "(time.Time).After") && isNext(c.Call.Args[0]) && truncatedToMinute(c.Call.Args[1]) {
								notAfter, notEqual = true, true
							}
						}
					}
					if !notAfter || !notEqual {
						okMinute = false
					}
				})
			}
		}
		r.Check(okMinute, "jobImpl.Start: Client.Start only when the last start (truncated to the minute) is before the scheduled minute", e.InstrPos(ci),
			"a DAG whose latest run started in (or after) the scheduled minute is started again: a minute can run twice (late tick, daemon restart)")
	}
	if n == 0 {
		r.Unknown("jobImpl.Start: Client.Start site", e.Pos(fn.Pos()), "not found")
	}
}

// truncatedToMinute: v = x.Truncate(60s)
func truncatedToMinute(v ssa.Value) bool {
	c, ok := ir.Resolve(v).(*ssa.Call)
	if !ok || !ir.IsCallTo(&c.Call, "(time.Time).Truncate") {
		return false
	}
	k, isC := ir.ConstInt(c.Call.Args[1])
	return isC && k == 60_000_000_000
}

// daemonJobMethod resolves a method of the daemon's job type by role: the named
// type of the daemon package whose pointer has the methods Start, Stop and
// Restart (the `job` interface the entries invoke), whatever the type is called.
func (e *Env) daemonJobMethod(name string) *ssa.Function {
	sp := e.P.Pkg(dschedRel)
	if sp == nil {
		return nil
	}
	var found *ssa.Function
	n := 0
	for _, mem := range sp.Members {
		t, ok := mem.(*ssa.Type)
		if !ok {
			continue
		}
		nt, ok := t.Type().(*types.Named)
		if !ok {
			continue
		}
		if _, isI := nt.Underlying().(*types.Interface); isI {
			continue
		}
		ms := types.NewMethodSet(types.NewPointer(nt))
		if ms.Lookup(sp.Pkg, "Start") == nil || ms.Lookup(sp.Pkg, "Stop") == nil || ms.Lookup(sp.Pkg, "Restart") == nil {
			continue
		}
		sel := ms.Lookup(sp.Pkg, name)
		if sel == nil {
			continue
		}
		if f := sp.Prog.MethodValue(sel); f != nil && f.Blocks != nil {
			found = f
			n++
		}
	}
	if n != 1 {
		e.R.Unknown("the daemon's job type (methods Start / Stop / Restart): "+name, dschedRel, sprintf("%d candidate types", n))
		return nil
	}
	return found
}

func mustPath(e *Env, v ssa.Value) ir.Path {
	p, _ := e.C.PathOf(v)
	return p
}

// isLoopCounter: v is the loop's own counter: a φ of the loop header, possibly
// advanced by a constant (`i`, `i + 1`).
func isLoopCounter(v ssa.Value, l *ir.Loop) bool {
	v = ir.Resolve(v)
	for d := 0; d < 3; d++ {
		switch x := v.(type) {
		case *ssa.Phi:
			return x.Block() == l.Header
		case *ssa.BinOp:
			if _, isC := x.Y.(*ssa.Const); isC {
				v = ir.Resolve(x.X)
				continue
			}
			if _, isC := x.X.(*ssa.Const); isC {
				v = ir.Resolve(x.Y)
				continue
			}
		}
		return false
	}
	return false
}

// c09DuePrefix: v is the result of a package helper F(entries, tick) every return of which
// is either `entries[:n]` with n = slices.IndexFunc(entries, notDue) found (n >= 0), or all
// of `entries` when nothing was found (n < 0), notDue being the negated due test against
// the helper's tick parameter. IndexFunc answers the FIRST index satisfying the predicate,
// so every element before it is due.
func c09DuePrefix(e *Env, v ssa.Value, isTick func(ssa.Value) bool) bool {
	call, ok := ir.Resolve(v).(*ssa.Call)
	if !ok || call.Call.StaticCallee() == nil || !e.P.Funcs[call.Call.StaticCallee()] {
		return false
	}
	h := call.Call.StaticCallee()
	// the helper's parameters as seen from the tick body
	undo := func() {}
	{
		bind := map[ssa.Value]ssa.Value{}
		for i, p := range h.Params {
			if i < len(call.Call.Args) {
				bind[p] = call.Call.Args[i]
			}
		}
		undo = ir.SetOverride(bind)
	}
	defer undo()
	var entriesParam *ssa.Parameter
	for _, p := range h.Params {
		if _, isSl := p.Type().Underlying().(*types.Slice); isSl {
			entriesParam = p
		}
	}
	if entriesParam == nil {
		return false
	}
	// n := slices.IndexFunc(entries, pred)
	var idx *ssa.Call
	for _, ci := range ir.CallsIn(h, func(c *ssa.CallCommon) bool { return strings.HasPrefix(ir.CalleeName(c), "slices.IndexFunc") }) {
		if c, isC := ci.(*ssa.Call); isC && ir.Resolve(c.Call.Args[0]) == ssa.Value(entriesParam) {
			idx = c
		}
	}
	if idx == nil {
		return false
	}
	pred := funcOfValue(idx.Call.Args[1])
	if pred == nil {
		return false
	}
	// pred(e) true  <=>  e is not due: every way it answers true has Next.After(tick) (or !due)
	alts, okA := e.boolHelperReturns(pred, true)
	if !okA || len(alts) == 0 {
		return false
	}
	// the tick inside the predicate: a free variable bound to the helper's time parameter
	isTickIn := func(x ssa.Value) bool {
		x = ir.Resolve(x)
		if fv, isFV := x.(*ssa.FreeVar); isFV {
			if mc, isMC := ir.Resolve(idx.Call.Args[1]).(*ssa.MakeClosure); isMC {
				for i, f := range pred.FreeVars {
					if f == fv && i < len(mc.Bindings) {
						x = ir.Resolve(mc.Bindings[i])
					}
				}
			}
		}
		if u, isU := x.(*ssa.UnOp); isU && u.Op == token.MUL {
			if al, isA := u.X.(*ssa.Alloc); isA {
				if st := ir.StoresTo(al); len(st) == 1 {
					x = ir.Resolve(st[0])
				}
			}
			if fv, isFV := u.X.(*ssa.FreeVar); isFV {
				if mc, isMC := ir.Resolve(idx.Call.Args[1]).(*ssa.MakeClosure); isMC {
					for i, f := range pred.FreeVars {
						if f == fv && i < len(mc.Bindings) {
							if al, isA := mc.Bindings[i].(*ssa.Alloc); isA {
								if st := ir.StoresTo(al); len(st) == 1 {
									x = ir.Resolve(st[0])
								}
							}
						}
					}
				}
			}
		}
		return isTick(x) || isTick(ir.Deep(x))
	}
	for _, alt := range alts {
		good := false
		e.ways(alt, func(lits []ir.NLit) {
			for _, l := range lits {
				if l.Kind != "val" {
					continue
				}
				c, isC := ir.Resolve(l.V).(*ssa.Call)
				if !isC {
					continue
				}
				if l.Pol && ir.IsCallTo(&c.Call, "(time.Time).After") && e.IsFieldRead(c.Call.Args[0], nil, "Next") && isTickIn(c.Call.Args[1]) {
					good = true
				}
				if l.Pol && ir.IsCallTo(&c.Call, "(time.Time).Before") && isTickIn(c.Call.Args[0]) && e.IsFieldRead(c.Call.Args[1], nil, "Next") {
					good = true
				}
			}
		})
		if !good {
			return false
		}
	}
	// the returns
	n := 0
	for _, b := range h.Blocks {
		rt, isR := b.Instrs[len(b.Instrs)-1].(*ssa.Return)
		if !isR || len(rt.Results) != 1 || !e.Facts(h).Reachable(b) {
			continue
		}
		n++
		rv := ir.Resolve(rt.Results[0])
		lits := e.DCS(rt)
		switch x := rv.(type) {
		case *ssa.Slice:
			// entries[:n] under 0 <= n
			if ir.Resolve(x.X) != ssa.Value(entriesParam) || x.Low != nil || x.High == nil || ir.Resolve(x.High) != ssa.Value(idx) {
				return false
			}
		case *ssa.Parameter:
			if x != entriesParam {
				return false
			}
			// all of them: only when nothing is not due (n < 0)
			neg := false
			for _, l := range lits {
				if l.Kind == "cmp" && l.Op == token.LSS && ir.Resolve(l.X) == ssa.Value(idx) {
					if k, isK := ir.ConstInt(l.Y); isK && k == 0 {
						neg = true
					}
				}
				if l.Kind == "cmp" && l.Op == token.EQL && ir.Resolve(l.X) == ssa.Value(idx) {
					if k, isK := ir.ConstInt(l.Y); isK && k == -1 {
						neg = true
					}
				}
			}
			if !neg {
				return false
			}
		default:
			return false
		}
	}
	return n > 0
}
