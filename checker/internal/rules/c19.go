package rules

import (
	"go/types"
	"regexp"
	"sort"
	"strings"

	"golang.org/x/tools/go/ssa"

	"bdcheck/internal/ir"
	"bdcheck/internal/load"
)

func init() {
	register(&Prop{ID: "C19", Run: runC19, NeedDeps: true,
		Technique: "static analysis: guard-propagating call-graph reachability (go/ssa + call graph) from the non-evaluating entry points to side-effect sinks, with boolean-parameter polarity inherited from all call sites",
		Decided: []string{
			"every value that holds its own copy of the no-evaluation switch gets that copy set where it is created (C19.licence-initialised)",
			"from LoadYAML / LoadMetadata / LoadWithoutEval, the read-only DAGStore methods and the daemon's entry reader, no call path - continued into library functions through their static calls (e.g. a shell-words parser that runs backtick substitutions) - reaches process creation, environment mutation or file-system mutation unless some call site on the path is dominated by an evaluation licence (`!noEval`, or a boolean parameter that every caller binds to `!noEval`) (C19.sinks)",
			"the evaluating loader dag.Load is called only from command bodies in package cmd (C19.eval-loader-callers)",
			"an options value built inside a loader function that itself received options is a copy of them or takes the no-evaluation switch from them (C19.licence-carried)",
		},
		NotDec: []string{
			"effects inside dependencies reached by reflection or other dynamic calls (yaml, mapstructure, mergo); library functions are followed through their static calls only",
			"calls through library interfaces; function values are followed when they are local closures, bound methods, entries of the repository's function tables (call graph) or repository functions used as a value in an unlicensed instruction (e.g. handed to os.Expand)",
		},
		Assume: []string{"the sink table (os/exec command construction and start, os.StartProcess, syscall exec, os.Setenv/Unsetenv/Clearenv/Chdir) is complete for this code base; file-system mutation (e.g. creating the DAGs directory on first listing) is outside the property's statement and not a sink"},
	})
}

var c19Sinks = map[string]string{
	"os/exec.Command": "creates a process", "os/exec.CommandContext": "creates a process",
	"(*os/exec.Cmd).Run": "runs a process", "(*os/exec.Cmd).Start": "starts a process", "(*os/exec.Cmd).Output": "runs a process", "(*os/exec.Cmd).CombinedOutput": "runs a process",
	"os.StartProcess": "starts a process", "syscall.Exec": "executes a program", "syscall.ForkExec": "starts a process",
	"os.Setenv": "changes the process environment", "os.Unsetenv": "changes the process environment", "os.Clearenv": "changes the process environment", "os.Chdir": "changes the working directory",
}

var tmpName = regexp.MustCompile(`\*?\bt\d+\b|phi:\w*`)

type c19 struct {
	e        *Env
	paramMem map[*ssa.Parameter]int // 0 unknown, 1 eval-polarity, 2 not
	pathTo   map[*ssa.Function]string
	depMem   map[*ssa.Function]*depRes
}

func isNoEvalRead(e *Env, v ssa.Value) bool {
	_, field := e.noEvalField()
	p, ok := e.C.PathOf(v)
	return ok && len(p.Fields) > 0 && p.Fields[len(p.Fields)-1] == field
}

// noEvalField: by role, the "do not evaluate" flag of the loader's options: the
// boolean field of a struct of package dag that the exported LoadWithoutEval
// (the loader whose contract is exactly that) sets to true. Returns the
// options type's name and the field's name.
func (e *Env) noEvalField() (string, string) {
	if e.noEvalT != "" {
		return e.noEvalT, e.noEvalF
	}
	e.noEvalT, e.noEvalF = "buildOpts", "noEval"
	f := e.FnQuiet("internal/dag", "LoadWithoutEval")
	if f == nil {
		return e.noEvalT, e.noEvalF
	}
	n := 0
	var tn, fn string
	for _, b := range f.Blocks {
		for _, in := range b.Instrs {
			st, ok := in.(*ssa.Store)
			if !ok {
				continue
			}
			fa, ok := st.Addr.(*ssa.FieldAddr)
			if !ok {
				continue
			}
			if bv, isC := ir.ConstBool(st.Val); isC && bv {
				n++
				tn, fn = typesName(derefT(fa.X.Type())), ir.FieldNameOf(fa.X.Type(), fa.Field)
			}
		}
	}
	if n == 1 {
		e.noEvalT, e.noEvalF = tn, fn
	}
	return e.noEvalT, e.noEvalF
}

// evalExpr: v is true only when evaluation is licensed.
func (c *c19) evalExpr(v ssa.Value, depth int) bool {
	v = ir.Resolve(v)
	switch x := v.(type) {
	case *ssa.UnOp:
		if x.Op.String() == "!" {
			return c.noEvalExpr(x.X, depth+1)
		}
	case *ssa.Call:
		// a one-expression predicate of the options (`func (o buildOpts) evaluates() bool { return !o.noEval }`)
		if rv := onlyReturn(c.e, x); rv != nil && depth < 6 {
			return c.evalExpr(rv, depth+1)
		}
	case *ssa.Parameter:
		return c.paramIsEval(x, depth+1)
	case *ssa.FreeVar:
		// captured parameter of the enclosing function
		for _, s := range ir.StoresTo(x) {
			if !c.evalExpr(s, depth+1) {
				return false
			}
		}
		return len(ir.StoresTo(x)) > 0
	}
	return false
}

// noEvalExpr: v is true only when evaluation is forbidden: the flag itself, or a
// one-expression predicate returning it.
func (c *c19) noEvalExpr(v ssa.Value, depth int) bool {
	v = ir.Resolve(v)
	if isNoEvalRead(c.e, v) {
		return true
	}
	switch x := v.(type) {
	case *ssa.UnOp:
		if x.Op.String() == "!" {
			return c.evalExpr(x.X, depth+1)
		}
	case *ssa.Call:
		if rv := onlyReturn(c.e, x); rv != nil && depth < 6 {
			return c.noEvalExpr(rv, depth+1)
		}
	}
	return false
}

// onlyReturn: the value returned by a call of a straight-line repository
// function with a single result, or nil.
func onlyReturn(e *Env, c *ssa.Call) ssa.Value {
	g := c.Call.StaticCallee()
	if g == nil || !e.P.Funcs[g] || len(g.Blocks) != 1 {
		return nil
	}
	rt, ok := g.Blocks[0].Instrs[len(g.Blocks[0].Instrs)-1].(*ssa.Return)
	if !ok || len(rt.Results) != 1 {
		return nil
	}
	return rt.Results[0]
}

func (c *c19) paramIsEval(p *ssa.Parameter, depth int) bool {
	if p.Type().String() != "bool" || depth > 6 {
		return false
	}
	if m, ok := c.paramMem[p]; ok && m != 0 {
		return m == 1
	}
	c.paramMem[p] = 2 // recursion guard: pessimistic
	f := p.Parent()
	idx := -1
	for i, q := range f.Params {
		if q == p {
			idx = i
		}
	}
	sites := c.e.StaticCallSites(f)
	ok := len(sites) > 0 && idx >= 0
	for _, ci := range sites {
		if strings.HasPrefix(ShortFn(rootFn(ci.Parent())), "internal/test") {
			continue
		}
		if idx >= len(ci.Common().Args) || !c.evalExpr(ci.Common().Args[idx], depth) {
			ok = false
		}
	}
	if ok {
		c.paramMem[p] = 1
	}
	return ok
}

// licensed: the instruction is dominated by an evaluation licence.
func (c *c19) licensed(in ssa.Instruction) bool {
	for _, l := range c.e.DCS(in) {
		if l.Kind != "val" {
			continue
		}
		if !l.Pol && c.noEvalExpr(l.V, 0) {
			return true
		}
		if l.Pol && c.evalExpr(l.V, 0) {
			// `!noEval` as a value, or an eval-polarity boolean parameter
			return true
		}
	}
	return false
}

// depReach: a sink reachable from a dependency function through static calls
// (closures included), with one path. Dynamic calls inside libraries are not
// followed (reflection-driven decoders would otherwise reach everything).
func (c *c19) depReach(from *ssa.Function) (string, []string) {
	if c.depMem == nil {
		c.depMem = map[*ssa.Function]*depRes{}
	}
	if r, ok := c.depMem[from]; ok {
		return r.sink, r.path
	}
	res := &depRes{}
	c.depMem[from] = res
	type item struct {
		f    *ssa.Function
		path []string
	}
	seen := map[*ssa.Function]bool{from: true}
	queue := []item{{from, []string{ShortFn(from)}}}
	for n := 0; len(queue) > 0 && n < 4000; n++ {
		it := queue[0]
		queue = queue[1:]
		for _, g := range ir.WithClosures(it.f) {
			for _, b := range g.Blocks {
				for _, in := range b.Instrs {
					ci, ok := in.(ssa.CallInstruction)
					if !ok {
						continue
					}
					name := ir.CalleeName(ci.Common())
					if _, isSink := c19Sinks[name]; isSink {
						res.sink, res.path = name, it.path
						return res.sink, res.path
					}
					sc := ci.Common().StaticCallee()
					if sc == nil || sc.Blocks == nil || seen[sc] || c.e.P.Funcs[sc] {
						continue
					}
					seen[sc] = true
					if len(it.path) < 8 {
						queue = append(queue, item{sc, append(append([]string{}, it.path...), ShortFn(sc))})
					}
				}
			}
		}
	}
	return "", nil
}

type depRes struct {
	sink string
	path []string
}

func runC19(e *Env) {
	c19LicenceCarried(e, "C19.licence-carried")
	r := e.R
	r.Rule("C19.sinks", "REACH", "no unlicensed path from a non-evaluating entry point to a side-effect sink", 1)
	c := &c19{e: e, paramMem: map[*ssa.Parameter]int{}, pathTo: map[*ssa.Function]string{}}
	// roots
	var roots []*ssa.Function
	addRoot := func(rel, name string) {
		if f := e.Fn(rel, name); f != nil {
			roots = append(roots, f)
		}
	}
	// the non-evaluating loaders: functions of package dag building buildOpts{noEval:true}
	dagPkg := e.P.Pkg("internal/dag")
	nLoaders := 0
	var evalLoader *ssa.Function
	if dagPkg != nil {
		for _, f := range e.RepoFuncsSorted() {
			if f.Package() != dagPkg || f.Parent() != nil {
				continue
			}
			noEval, has := buildOptsNoEval(e, f)
			if !has {
				continue
			}
			if noEval {
				roots = append(roots, f)
				nLoaders++
			} else if f.Object() != nil && f.Object().Exported() {
				evalLoader = f
			}
		}
	}
	if nLoaders < 3 {
		r.Unknown("non-evaluating loaders (buildOpts{noEval:true})", "-", sprintf("found %d, expected at least the three LoadYAML / LoadMetadata / LoadWithoutEval", nLoaders))
	}
	for _, m := range []string{"List", "ListPagination", "GetMetadata", "GetDetails", "Grep", "GetSpec", "Find", "TagList"} {
		addRoot(localRel, "(*dagStoreImpl)."+m)
	}
	addRoot("internal/scheduler", "(*entryReaderImpl).Read")
	addRoot("internal/scheduler", "(*entryReaderImpl).initDags")
	addRoot("internal/scheduler", "(*entryReaderImpl).watchDags")

	// worklist
	unguarded := map[*ssa.Function]bool{}
	var work []*ssa.Function
	inEdges := map[*ssa.Function]map[string]bool{}
	push := func(f *ssa.Function, from string) {
		if f == nil || !e.P.Funcs[f] {
			return
		}
		if inEdges[f] == nil {
			inEdges[f] = map[string]bool{}
		}
		if from == "" {
			from = "entry"
		}
		inEdges[f][from] = true
		if unguarded[f] {
			return
		}
		unguarded[f] = true
		c.pathTo[f] = from
		work = append(work, f)
	}
	// function-typed parameters: which functions the unlicensed static call sites pass
	// (`splitProgram(cmd, strings.Fields)` vs `splitProgram(cmd, shellArgs)`), so that a
	// call of the parameter is resolved per caller set instead of by signature
	paramFns := map[*ssa.Function]map[int]map[*ssa.Function]bool{}
	paramUnknown := map[*ssa.Function]map[int]bool{}
	dynOnParam := map[*ssa.Function]map[int]bool{}
	isFuncT := func(t types.Type) bool { _, ok := t.Underlying().(*types.Signature); return ok }
	markUnknown := func(f *ssa.Function) {
		again := false
		for k, p := range f.Params {
			if isFuncT(p.Type()) {
				if paramUnknown[f] == nil {
					paramUnknown[f] = map[int]bool{}
				}
				if !paramUnknown[f][k] && dynOnParam[f][k] {
					again = true // its call of the parameter was resolved from the known callers only
				}
				paramUnknown[f][k] = true
			}
		}
		if again && unguarded[f] {
			delete(unguarded, f)
			push(f, c.pathTo[f])
		}
	}
	for _, f := range roots {
		push(f, "")
		markUnknown(f)
	}
	nSites := 0
	type viol struct {
		in   ssa.CallInstruction
		what string
		f    *ssa.Function
	}
	var viols []viol
	for len(work) > 0 {
		f := work[0]
		work = work[1:]
		for _, b := range f.Blocks {
			for _, in := range b.Instrs {
				// a repository function used as a value (handed to os.Expand, stored in a
				// table, ...) may be called by whoever receives it
				if !c.licensed(in) {
					var callee ssa.Value
					if ci, isCall := in.(ssa.CallInstruction); isCall {
						callee = ci.Common().Value
					}
					for _, op := range in.Operands(nil) {
						if op == nil || *op == nil || *op == callee {
							continue
						}
						if fv, isFn := (*op).(*ssa.Function); isFn && e.P.Funcs[fv] {
							push(fv, ShortFn(f))
						}
					}
				}
				switch x := in.(type) {
				case *ssa.MakeClosure:
					if !c.licensed(x) {
						push(x.Fn.(*ssa.Function), ShortFn(f))
					}
				case ssa.CallInstruction:
					com := x.Common()
					name := ir.CalleeName(com)
					nSites++
					lic := c.licensed(x)
					if what, isSink := c19Sinks[name]; isSink {
						if !lic {
							viols = append(viols, viol{x, what, f})
						}
						continue
					}
					if lic {
						continue
					}
					if sc := com.StaticCallee(); sc != nil {
						if !e.P.Funcs[sc] {
							// a library function: does it reach a sink through static calls?
							if sink, path := c.depReach(sc); sink != "" {
								viols = append(viols, viol{x, c19Sinks[sink] + " (inside the library: " + strings.Join(path, " → ") + " → " + sink + ")", f})
							}
							continue
						}
						for k, a := range com.Args {
							if k >= len(sc.Params) || !isFuncT(sc.Params[k].Type()) {
								continue
							}
							var fv *ssa.Function
							known := false
							switch y := ir.Resolve(a).(type) {
							case *ssa.Function:
								fv, known = y, true
							case *ssa.MakeClosure:
								fv, _ = y.Fn.(*ssa.Function)
								known = fv != nil
							}
							if !known {
								if paramUnknown[sc] == nil {
									paramUnknown[sc] = map[int]bool{}
								}
								if !paramUnknown[sc][k] && dynOnParam[sc][k] && unguarded[sc] {
									paramUnknown[sc][k] = true
									delete(unguarded, sc)
								}
								paramUnknown[sc][k] = true
								continue
							}
							if paramFns[sc] == nil {
								paramFns[sc] = map[int]map[*ssa.Function]bool{}
							}
							if paramFns[sc][k] == nil {
								paramFns[sc][k] = map[*ssa.Function]bool{}
							}
							paramFns[sc][k][fv] = true
							if dynOnParam[sc][k] {
								push(fv, ShortFn(sc)) // the callee was walked before this caller was seen
							}
						}
						push(sc, ShortFn(f))
						continue
					}
					// a call of one of f's own function-typed parameters
					if pv, isP := ir.Resolve(com.Value).(*ssa.Parameter); isP && pv.Parent() == f && !com.IsInvoke() {
						k := -1
						for i, q := range f.Params {
							if q == pv {
								k = i
							}
						}
						if k >= 0 && !paramUnknown[f][k] {
							if dynOnParam[f] == nil {
								dynOnParam[f] = map[int]bool{}
							}
							dynOnParam[f][k] = true
							for fv := range paramFns[f][k] {
								push(fv, ShortFn(f))
							}
							continue
						}
					}
					// bound methods / function values passed as arguments are handled where they are created;
					// dynamic calls and invocations of repository interfaces: call graph
					follow := !com.IsInvoke() || strings.HasPrefix(ir.NamedType(com.Value.Type()), load.ModulePath)
					if follow {
						if n := e.P.CG.Nodes[f]; n != nil {
							for _, ed := range n.Out {
								if ed.Site == x && e.P.Funcs[ed.Callee.Func] {
									// restrict signature-based resolution to the same package family to avoid CHA noise
									markUnknown(ed.Callee.Func)
									push(ed.Callee.Func, ShortFn(f))
								}
							}
						}
					}
				}
			}
		}
		// method values (b.buildEnvs passed as an argument): ssa creates a $bound wrapper through MakeClosure - handled above
	}
	sort.Slice(viols, func(i, j int) bool { return viols[i].in.Pos() < viols[j].in.Pos() })
	for _, v := range viols {
		chain := []string{ShortFn(v.f)}
		for cur := v.f; c.pathTo[cur] != ""; {
			chain = append([]string{c.pathTo[cur]}, chain...)
			var next *ssa.Function
			for g := range unguarded {
				if ShortFn(g) == c.pathTo[cur] {
					next = g
				}
			}
			if next == nil || len(chain) > 12 {
				break
			}
			cur = next
		}
		arg := ""
		if len(v.in.Common().Args) > 0 {
			arg = e.C.Render(v.in.Common().Args[0])
			arg = tmpName.ReplaceAllString(arg, "_")
			if len(arg) > 48 {
				arg = arg[:48]
			}
		}
		var froms []string
		for fr := range inEdges[v.f] {
			froms = append(froms, fr)
		}
		sort.Strings(froms)
		for _, fr := range froms {
			if i := strings.LastIndex(fr, "/"); i >= 0 {
				fr = fr[i+1:]
			}
			r.Bad(fr+" → "+shortName(v.f)+": "+shortCallee(v.in.Common())+"("+arg+") reachable without an evaluation licence", e.InstrPos(v.in),
				"listing / viewing / validating a DAG "+v.what+" here: no call site on the path from a non-evaluating entry point is guarded by `!noEval` (or an equivalent parameter)",
				"one path: "+strings.Join(chain, " → "))
		}
	}
	if len(viols) == 0 {
		r.OK("all sinks reachable from non-evaluating entry points are licensed", "-", sprintf("%d call sites examined in %d unguarded-reachable functions", nSites, len(unguarded)))
	}
	r.Info["C19.unguarded_reachable_functions"] = len(unguarded)
	r.Info["C19.call_sites_examined"] = nSites
	r.Info["C19.roots"] = func() []string {
		var out []string
		for _, f := range roots {
			out = append(out, ShortFn(f))
		}
		return out
	}()

	r.Rule("C19.eval-loader-callers", "WMC", "dag.Load called only from command bodies", 1)
	if evalLoader == nil {
		r.Unknown("evaluating loader (buildOpts{noEval:false})", "-", "not found")
		return
	}
	for _, ci := range e.StaticCallSites(evalLoader) {
		host := ShortFn(rootFn(ci.Parent()))
		ok := strings.HasPrefix(host, "cmd.") || strings.HasPrefix(host, "internal/test")
		r.Check(ok, "call of "+ShortFn(evalLoader)+" from "+host, e.InstrPos(ci),
			"the evaluating loader (runs command substitutions, exports variables) is called from outside the CLI command bodies — e.g. from a store or API path that only lists/shows/validates")
	}
	c19LicenceInitialised(e)
}

func shortName(f *ssa.Function) string {
	s := ShortFn(f)
	if i := strings.LastIndex(s, "/"); i >= 0 {
		s = s[i+1:]
	}
	return s
}

// buildOptsNoEval: f stores a constant into the noEval field of a buildOpts literal.
func buildOptsNoEval(e *Env, f *ssa.Function) (noEval bool, has bool) {
	optsT, optsF := e.noEvalField()
	// a literal of the options type: the flag is what it stores there, false when it stores nothing
	lit := false
	for _, b := range f.Blocks {
		for _, in := range b.Instrs {
			if al, ok := in.(*ssa.Alloc); ok && typesName(derefT(al.Type())) == optsT && f.Object() != nil {
				lit = true
			}
		}
	}
	for _, b := range f.Blocks {
		for _, in := range b.Instrs {
			st, ok := in.(*ssa.Store)
			if !ok {
				continue
			}
			fa, ok := st.Addr.(*ssa.FieldAddr)
			if !ok || ir.FieldNameOf(fa.X.Type(), fa.Field) != optsF || typesName(derefT(fa.X.Type())) != optsT {
				continue
			}
			if bv, ok := ir.ConstBool(st.Val); ok {
				return bv, true
			}
		}
	}
	if lit {
		return false, true
	}
	return false, false
}
