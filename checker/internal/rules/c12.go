package rules

import (
	"go/token"
	"go/types"
	"sort"
	"strings"

	"golang.org/x/tools/go/ssa"

	"bdcheck/internal/ir"
)

func init() {
	register(&Prop{ID: "C12", Run: runC12,
		Technique: "static analysis: field coverage of teardown (value-flow from Flush/Close receivers to Node fields), typestate of the one-shot teardown flag, must-pass-through of teardown on every worker exit, writer wiring value-flow, sibling agreement of Executor implementations (go/ssa)",
		Decided: []string{
			"the node's buffered writers are flushed / written only inside teardown (C12.single-actor-on-writers)",
			"no flush at teardown is conditional on the result of another sink's flush/sync/close, and a flushing loop is not left on such a result (C12.flush-independent)",
			"the step's log and redirect files are opened append-only unless new, through every function the node's set-up reaches (C12.append-only); stdout and stderr handed to the executor are one writer or share no sink (C12.wiring)",
			"the output-capture pipe, which shares one MultiWriter with the step's log, is drained to EOF by a goroutine that never closes its read end (C11.pipe-drained, shared)",
			"every buffered writer a setup function installs on the node is flushed, and its file closed, by teardown (C12.teardown-coverage)",
			"the one-shot teardown flag is re-armed on the setup path, because a retried step goes through setup/teardown again (C12.teardown-rearm)",
			"every exit of the worker and of the handler runner after setup passes teardown, explicitly or deferred (C12.always-teardown); flushes precede closes (C12.flush-before-close)",
			"setupExec hands SetStdout a writer that includes the log writer (and the stdout: file when configured) and SetStderr the stderr: writer when configured, else one that includes the log writer (C12.wiring)",
			"for every Executor implementation SetStderr does not overwrite the sink SetStdout installed (C12.executor-siblings) — violated today by docker, http, ssh: known finding F11",
			"after handing the node back for a retry the old worker does not touch it again (C12.handback-last) — violated today: known finding F25",
			"every store into a *bufio.Writer field of the node installs the result of bufio.NewWriter (or nil): no two sinks share one buffered writer (C12.writer-per-sink)",
		},
		NotDec: []string{"buffer-size boundaries; bufio / os/exec copy semantics (ReadFrom bypass); disk errors", "the interleaving under which F25 actually loses bytes"},
	})
}

func runC12(e *Env) {
	r := e.R
	r.Rule("C12.anchors", "anchor resolution", "launch site, worker, Node type", 0)
	s := e.resolveSched()
	if !s.ok {
		return
	}
	c12Coverage(e, s)
	c12FlushIndependent(e)
	c12WriterPerSink(e, "C12.writer-per-sink")
	c12Rearm(e, s)
	c12AlwaysTeardown(e, s)
	c12Wiring(e, s)
	if su := e.nodeRoles().Setup; su != nil {
		// the step's log and redirect files may exist already (a retried step, two steps or
		// two streams collecting into one file): what was printed before must not be overwritten
		appendOnlyFrom(e, "C12.append-only", "the step's log and redirect files are opened append-only unless new", "node set-up", "a log / redirect file that may already hold output", []*ssa.Function{su})
	}
	c12ExecutorSiblings(e, s)
	c12HandbackLast(e, s)
	if ex := e.FnQuiet(schedRel, "(*Node).Execute"); ex != nil {
		c11Drain(e, ex) // the log shares one MultiWriter with the capture pipe: a pipe that stops being read cuts the log
	}
	c12SingleActor(e)
}

func nodeStruct(e *Env) (*types.Named, *types.Struct) {
	sp := e.P.Pkg(schedRel)
	if sp == nil || sp.Type("Node") == nil {
		return nil, nil
	}
	n := sp.Type("Node").Type().(*types.Named)
	st, _ := n.Underlying().(*types.Struct)
	return n, st
}

func c12Coverage(e *Env, s *Sched) {
	r := e.R
	r.Rule("C12.teardown-coverage", "COV", "installed writers flushed and their files closed by teardown", 2)
	td := e.nodeRoles().Teardown
	_, st := nodeStruct(e)
	if td == nil {
		r.Unknown("the node's teardown function", "-", "no Node method that flushes the installed writers and is called from the scheduler was found")
		return
	}
	if st == nil {
		return
	}
	sp := e.P.Pkg(schedRel)
	var tdFns []*ssa.Function
	for _, g := range e.staticClosure(td) {
		if rootFn(g).Package() == sp {
			tdFns = append(tdFns, g)
		}
	}
	// writers installed: Node field W := bufio.NewWriter(load Node field F)
	type inst struct {
		w, f string
		pos  string
	}
	var installs []inst
	for _, f := range e.RepoFuncsSorted() {
		if rootFn(f).Package() != sp {
			continue
		}
		for _, b := range f.Blocks {
			for _, in := range b.Instrs {
				stx, ok := in.(*ssa.Store)
				if !ok {
					continue
				}
				fa, ok := stx.Addr.(*ssa.FieldAddr)
				if !ok || !strings.HasSuffix(ir.NamedType(fa.X.Type()), schedRel+".Node") {
					continue
				}
				c, ok := stx.Val.(*ssa.Call)
				if !ok || !ir.IsCallTo(&c.Call, "bufio.NewWriter", "bufio.NewWriterSize") {
					continue
				}
				file := ""
				arg := c.Call.Args[0]
				if mi, ok := arg.(*ssa.MakeInterface); ok {
					arg = mi.X
				}
				if p, ok := e.C.PathOf(arg); ok && len(p.Fields) > 0 {
					file = p.Fields[len(p.Fields)-1]
				}
				installs = append(installs, inst{ir.FieldNameOf(fa.X.Type(), fa.Field), file, e.InstrPos(stx)})
			}
		}
	}
	// fields whose loaded value reaches a Flush / Close receiver in teardown
	reach := func(callee string) map[string]bool {
		out := map[string]bool{}
		// through the helpers teardown is made of: parameters are followed to the call sites
		tr := &ir.Tracer{C: e.C, Descend: e.repoDescend, Fields: e.helperObjectFields, Up: func(f *ssa.Function) []ssa.CallInstruction {
			if f == td {
				return nil
			}
			return e.StaticCallSites(f)
		}}
		for _, g := range tdFns {
			for _, ci := range ir.CallsIn(g, func(c *ssa.CallCommon) bool { return ir.IsCallTo(c, callee) }) {
				for _, l := range tr.Trace(ci.Common().Args[0]) {
					if l.Kind == "field" {
						name := l.Name
						if i := strings.LastIndex(name, "."); i >= 0 {
							name = name[i+1:]
						}
						out[name] = true
					}
				}
			}
		}
		return out
	}
	flushed := reach("(*bufio.Writer).Flush")
	closed := reach("(*os.File).Close")
	sort.Slice(installs, func(i, j int) bool { return installs[i].w < installs[j].w })
	for _, in := range installs {
		r.Check(flushed[in.w], "field Node."+in.w+": flushed by teardown", in.pos,
			"a buffered writer installed by setup is never flushed at teardown: what the step (or executor) wrote last stays in the user-space buffer and is missing from the file")
		if in.f != "" {
			r.Check(closed[in.f], "field Node."+in.f+": closed by teardown", in.pos,
				"the file behind an installed writer is never closed at teardown (descriptor leak per step; contents not synced)")
		}
	}
	r.Info["C12.teardown.flushed_fields"] = keys(flushed)
	r.Info["C12.teardown.closed_fields"] = keys(closed)

	r.Rule("C12.flush-before-close", "MPT", "no Flush after a Close in teardown", 1)
	var facts []string
	okOrder := true
	for _, ci := range ir.CallsIn(td, func(c *ssa.CallCommon) bool { return ir.IsCallTo(c, "(*os.File).Close") }) {
		bad, _ := ir.Bypass(ci, nil, ir.PathQuery{
			SkipEdge: func(from *ssa.BasicBlock, idx int) bool { return from.Succs[idx].Dominates(from) && false },
			Bad: func(in ssa.Instruction) bool {
				c, ok := in.(*ssa.Call)
				return ok && ir.IsCallTo(&c.Call, "(*bufio.Writer).Flush")
			}})
		if bad != nil {
			okOrder = false
			facts = append(facts, "Flush at "+e.InstrPos(bad)+" reachable after Close at "+e.InstrPos(ci))
		}
	}
	r.Check(okOrder, "teardown: all flushes precede the closes", e.Pos(td.Pos()), "a writer can be flushed after its file was closed: the flushed bytes are lost", facts...)
}

func keys(m map[string]bool) []string {
	var out []string
	for k := range m {
		out = append(out, k)
	}
	sort.Strings(out)
	return out
}

func c12Rearm(e *Env, s *Sched) {
	r := e.R
	r.Rule("C12.teardown-rearm", "ENUM typestate", "one-shot teardown flag cleared on the setup path", 1)
	td := e.nodeRoles().Teardown
	setup := e.nodeRoles().Setup
	if td == nil || setup == nil {
		r.Unknown("the node's setup / teardown functions", "-", "not found by role")
		return
	}
	// early return under a boolean Node field
	flag := ""
	for _, b := range td.Blocks {
		for _, in := range b.Instrs {
			rt, ok := in.(*ssa.Return)
			if !ok {
				continue
			}
			for _, l := range e.DCS(rt) {
				if l.Kind == "val" && l.Pol {
					if p, ok := e.C.PathOf(l.V); ok && len(p.Fields) == 1 && SameValue(p.Root, td.Params[0]) {
						// an early return: before any Flush
						early := true
						for _, ci := range ir.CallsIn(td, func(c *ssa.CallCommon) bool { return ir.IsCallTo(c, "(*bufio.Writer).Flush") }) {
							if ir.Precedes(ci, rt) {
								early = false
							}
						}
						if early {
							flag = p.Fields[0]
						}
					}
				}
			}
		}
	}
	if flag == "" {
		r.OK("teardown has no one-shot flag", e.Pos(td.Pos()), "teardown runs its flushes every time it is called")
		return
	}
	// relaunch exists: the worker can reset the node to not-started (retry), after which setup runs again
	relaunch := false
	for _, ev := range s.events(s.WorkerFns) {
		if k, ok := s.constOf(ev); ok && k == s.val("NodeStatusNone") {
			relaunch = true
		}
	}
	if !relaunch {
		r.OK("no relaunch path: teardown runs once per node", e.Pos(td.Pos()), "")
		return
	}
	cleared := false
	seen := map[*ssa.Function]bool{}
	var visit func(f *ssa.Function)
	visit = func(f *ssa.Function) {
		if seen[f] || !e.P.Funcs[f] {
			return
		}
		seen[f] = true
		for _, ev := range e.C.FieldStores(f, flag) {
			if bv, ok := ir.ConstBool(ev.Val); ok && !bv && len(ev.Via) == 0 {
				cleared = true
			}
		}
		for _, ci := range ir.CallsIn(f, func(c *ssa.CallCommon) bool { return c.StaticCallee() != nil }) {
			visit(ci.Common().StaticCallee())
		}
	}
	visit(setup)
	r.Check(cleared, "field Node."+flag+": cleared on the setup path (teardown is one-shot, steps are relaunched on retry)", e.Pos(td.Pos()),
		"teardown returns early once its flag is set and nothing on the setup path clears it: after a retry the relaunched attempt's writers are never flushed or closed (with stdout:/output: the last attempt's log is empty)")
}

func c12AlwaysTeardown(e *Env, s *Sched) {
	r := e.R
	r.Rule("C12.always-teardown", "MPT", "every exit after setup passes teardown", 2)
	td := e.nodeRoles().Teardown
	nodeSetup := e.nodeRoles().Setup
	reachesTD := func(f *ssa.Function) bool {
		return f != nil && e.ReachesRepo(f, func(x *ssa.Function) bool { return x == td })
	}
	check := func(fn *ssa.Function, name string, setupPred func(*ssa.CallCommon) bool) {
		setups := ir.CallsIn(fn, setupPred)
		if len(setups) == 0 {
			r.Unknown(name+": setup call", e.Pos(fn.Pos()), "no setup call found")
			return
		}
		for _, su := range setups {
			bad, path := ir.Bypass(su, nil, ir.PathQuery{
				Stop: func(in ssa.Instruction) bool {
					c, ok := in.(*ssa.Call)
					return ok && reachesTD(c.Call.StaticCallee())
				},
				DeferStop: func(d *ssa.Defer) bool { return reachesTD(d.Call.StaticCallee()) },
				SkipEdge: func(from *ssa.BasicBlock, idx int) bool {
					// the setup-failed edge: nothing was executed, so no output can be lost
					i, ok := from.Instrs[len(from.Instrs)-1].(*ssa.If)
					if !ok {
						return false
					}
					l := ir.Normalize(ir.Lit{Cond: i.Cond, Pol: idx == 0})
					return l.Kind == "cmp" && l.Op.String() == "!=" && ir.IsNilConst(l.Y) && ir.Resolve(l.X) == su.(ssa.Value)
				},
				Bad: ir.IsReturn,
			})
			var facts []string
			if bad != nil {
				facts = append(facts, "return at "+e.InstrPos(bad)+" reachable via blocks "+blockList(path)+" without teardown")
			}
			r.Check(bad == nil, name+": every return after setup passes teardown (explicit or deferred)", e.InstrPos(su),
				"a path leaves this function after the node's files were opened without flushing and closing them: the tail of the step's output never reaches its log / stdout file", facts...)
		}
	}
	isSetupCall := func(c *ssa.CallCommon) bool {
		sc := c.StaticCallee()
		return sc != nil && nodeSetup != nil && !reachesTD(sc) && e.ReachesRepo(sc, func(x *ssa.Function) bool { return x == nodeSetup })
	}
	// the worker: the function of the worker set that holds the setup call (the worker
	// itself or the helper its body was moved into)
	// the level at which setup and teardown are orchestrated: it calls something that
	// sets the node up (and does not tear it down) and itself reaches teardown
	orchestrates := func(f *ssa.Function) bool { return len(ir.CallsIn(f, isSetupCall)) > 0 && reachesTD(f) }
	wfn := s.Worker
	for _, f := range sortedFns(s.WorkerFns) {
		if orchestrates(f) {
			wfn = f
		}
	}
	check(wfn, "worker", isSetupCall)
	// the handler runner, by role: the function of the loop set that sets a handler node up
	var hr *ssa.Function
	for _, f := range sortedFns(s.LoopFns) {
		if orchestrates(f) {
			hr = f
		}
	}
	if hr == nil {
		hr = s.handlerRunner()
	}
	if hr != nil {
		check(hr, "handler runner", isSetupCall)
	} else {
		r.Unknown("handler runner: setup call", "-", "no function of the scheduling loop sets a handler node up")
	}
}

// includesField: on every path (nil-initialised edges excepted) the writer value includes the given Node field.
func includesField(e *Env, v ssa.Value, field string, depth int) bool {
	v = ir.Resolve(v)
	if depth > 8 {
		return false
	}
	switch x := v.(type) {
	case *ssa.MakeInterface:
		return includesField(e, x.X, field, depth+1)
	case *ssa.ChangeInterface:
		return includesField(e, x.X, field, depth+1)
	case *ssa.Phi:
		for _, ed := range x.Edges {
			if ir.IsNilConst(ed) {
				continue
			}
			if !includesField(e, ed, field, depth+1) {
				return false
			}
		}
		return true
	case *ssa.Call:
		if ir.IsCallTo(&x.Call, "io.MultiWriter") {
			tr := &ir.Tracer{C: e.C}
			for _, l := range tr.Trace(x.Call.Args[0]) {
				switch l.Kind {
				case "field":
					if l.Name == field {
						return true
					}
				}
			}
			// nested writers passed as elements
			if sl, ok := x.Call.Args[0].(*ssa.Slice); ok {
				if al, ok := sl.X.(*ssa.Alloc); ok {
					for _, ref := range *al.Referrers() {
						if ia, ok := ref.(*ssa.IndexAddr); ok {
							for _, r2 := range *ia.Referrers() {
								if st, ok := r2.(*ssa.Store); ok && includesField(e, st.Val, field, depth+1) {
									return true
								}
							}
						}
					}
				}
			}
			return false
		}
	}
	if p, ok := e.C.PathOf(v); ok && p.Dotted() == field {
		return true
	}
	return false
}

func c12Wiring(e *Env, s *Sched) {
	r := e.R
	r.Rule("C12.wiring", "VF", "setupExec wires the log / stdout / stderr writers", 4)
	fn := e.nodeRoles().Wire
	if fn == nil {
		r.Unknown("the function wiring the executor's output", "-", "no Node method invokes SetStdout")
		return
	}
	invoke := func(m string) []ssa.CallInstruction {
		return ir.CallsIn(fn, func(c *ssa.CallCommon) bool { return c.IsInvoke() && c.Method.Name() == m })
	}
	outs := invoke("SetStdout")
	if len(outs) == 0 {
		r.Bad("setupExec: SetStdout called", e.Pos(fn.Pos()), "the executor's stdout is never wired")
		return
	}
	last := outs[len(outs)-1]
	arg := last.Common().Args[0]
	r.Check(includesField(e, arg, e.nodeSinkFields()["log"], 0), "setupExec: SetStdout writer includes the log writer on every path", e.InstrPos(last),
		"on some path the step's stdout does not reach its log file")
	// includes stdoutWriter when configured: some MultiWriter dominated by stdoutWriter != nil flows in
	tr := &ir.Tracer{C: e.C, Through: map[string]bool{"io.MultiWriter": true}}
	hasStdoutFile := false
	for _, l := range tr.Trace(arg) {
		if l.Kind == "field" && l.Name == e.nodeSinkFields()["stdout"] {
			hasStdoutFile = true
		}
	}
	r.Check(hasStdoutFile, "setupExec: SetStdout writer includes the stdout: file writer when configured", e.InstrPos(last),
		"the configured stdout: file never receives the step's stdout")
	// stderr: the call that is reached last on each path; its argument may be chosen
	// before the call (a variable assigned under `stderrWriter != nil`): every way the
	// argument gets its value is looked at with that way's conditions
	errs := invoke("SetStderr")
	// a return after which the executor is used: one that does not report an error
	successReturn := func(in ssa.Instruction) bool {
		rt, ok := in.(*ssa.Return)
		if !ok {
			return false
		}
		res := rt.Parent().Signature.Results()
		if res.Len() == 0 || !ir.IsErrorType(res.At(res.Len()-1).Type()) {
			return true
		}
		for _, v := range RetVals(rt, res.Len()-1) {
			if e.mayBeNil(rt, v) {
				return true
			}
		}
		return false
	}
	isErrW := func(v ssa.Value) bool { return e.IsFieldRead(v, nil, e.nodeSinkFields()["stderr"]) }
	type valAlt struct {
		lits []ir.NLit
		v    ssa.Value
	}
	var altsOf func(v ssa.Value, lits []ir.NLit, d int) []valAlt
	altsOf = func(v ssa.Value, lits []ir.NLit, d int) []valAlt {
		if ph, ok := v.(*ssa.Phi); ok && d < 4 {
			var out []valAlt
			for k, ed := range ph.Edges {
				out = append(out, altsOf(ed, append(append([]ir.NLit{}, lits...), e.DCSPhiEdge(ph.Block(), k)...), d+1)...)
			}
			return out
		}
		return []valAlt{{lits, v}}
	}
	nCfg, nDef := 0, 0
	okCfg, okDefault := true, true
	for _, ci := range errs {
		// ignore a call that is always followed by another SetStderr
		followed, _ := ir.Bypass(ci, nil, ir.PathQuery{
			Stop: func(in ssa.Instruction) bool {
				c, ok := in.(*ssa.Call)
				return ok && c.Call.IsInvoke() && c.Call.Method.Name() == "SetStderr"
			},
			Bad: successReturn})
		if followed == nil {
			continue
		}
		for _, a := range altsOf(ci.Common().Args[0], e.DCS(ci), 0) {
			if ir.IsNilConst(a.v) {
				continue
			}
			if HasNilCmp(a.lits, isErrW, true) {
				nCfg++
				if !includesField(e, a.v, e.nodeSinkFields()["stderr"], 0) {
					okCfg = false
				}
			} else {
				nDef++
				if !includesField(e, a.v, e.nodeSinkFields()["log"], 0) {
					okDefault = false
				}
			}
		}
	}
	// stdout and stderr of the child: one writer value, or writers that share no sink.
	// os/exec copies both streams in one goroutine only when Stdout and Stderr are the
	// identical writer; two different writers over the same (unsynchronised) buffered
	// writer are written by two goroutines at once and bytes are lost or garbled.
	{
		neg := map[token.Token]token.Token{token.EQL: token.NEQ, token.NEQ: token.EQL, token.LSS: token.GEQ, token.GEQ: token.LSS, token.GTR: token.LEQ, token.LEQ: token.GTR}
		contradictory := func(a, b []ir.NLit) bool {
			for _, x := range a {
				for _, y := range b {
					if x.Kind == "cmp" && y.Kind == "cmp" && sameOperand(x.X, y.X) && sameOperand(x.Y, y.Y) && neg[x.Op] == y.Op {
						return true
					}
					if x.Kind == "val" && y.Kind == "val" && sameOperand(x.V, y.V) && x.Pol != y.Pol {
						return true
					}
				}
			}
			return false
		}
		var sinks func(v ssa.Value, out map[string]bool, d int)
		sinks = func(v ssa.Value, out map[string]bool, d int) {
			v = ir.Resolve(v)
			if d > 8 || ir.IsNilConst(v) {
				return
			}
			switch x := v.(type) {
			case *ssa.MakeInterface:
				sinks(x.X, out, d+1)
				return
			case *ssa.ChangeInterface:
				sinks(x.X, out, d+1)
				return
			case *ssa.Phi:
				for _, ed := range x.Edges {
					sinks(ed, out, d+1)
				}
				return
			case *ssa.Call:
				if ir.IsCallTo(&x.Call, "io.MultiWriter") {
					if sl, ok := x.Call.Args[0].(*ssa.Slice); ok {
						if al, ok := sl.X.(*ssa.Alloc); ok {
							for _, ref := range *al.Referrers() {
								if ia, ok := ref.(*ssa.IndexAddr); ok {
									for _, r2 := range *ia.Referrers() {
										if st, ok := r2.(*ssa.Store); ok {
											sinks(st.Val, out, d+1)
										}
									}
								}
							}
							return
						}
					}
				}
			}
			if p, ok := e.C.PathOf(v); ok && len(p.Fields) > 0 {
				out["field "+p.Dotted()] = true
				return
			}
			out["value "+v.Name()+" in "+ShortFn(fn)] = true
		}
		for _, ci := range errs {
			followed, _ := ir.Bypass(ci, nil, ir.PathQuery{
				Stop: func(in ssa.Instruction) bool {
					c, ok := in.(*ssa.Call)
					return ok && c.Call.IsInvoke() && c.Call.Method.Name() == "SetStderr"
				},
				Bad: successReturn})
			if followed == nil {
				continue
			}
			yv := ci.Common().Args[0]
			okPair := true
			var facts []string
			if ir.Resolve(yv) != ir.Resolve(arg) {
				for _, xa := range altsOf(arg, e.DCS(last), 0) {
					for _, ya := range altsOf(yv, e.DCS(ci), 0) {
						if ir.IsNilConst(xa.v) || ir.IsNilConst(ya.v) || ir.Resolve(xa.v) == ir.Resolve(ya.v) || contradictory(xa.lits, ya.lits) {
							continue
						}
						sx, sy := map[string]bool{}, map[string]bool{}
						sinks(xa.v, sx, 0)
						sinks(ya.v, sy, 0)
						for k := range sx {
							if sy[k] {
								okPair = false
								facts = append(facts, sprintf("stdout writer %s and stderr writer %s are different values over the same sink (%s)", e.C.Render(xa.v), e.C.Render(ya.v), k))
							}
						}
					}
				}
			}
			sort.Strings(facts)
			if len(facts) > 4 {
				facts = facts[:4]
			}
			r.Check(okPair, "setupExec: stdout and stderr are one writer or share no sink", e.InstrPos(ci),
				"the executor gets two different writers that end in the same buffered writer: os/exec copies the two streams in two goroutines, which write the unsynchronised buffer concurrently - output is lost, duplicated or garbled in the step's log", facts...)
		}
	}
	r.Check(okCfg && nCfg > 0, "setupExec: SetStderr gets the stderr: writer when configured", e.Pos(fn.Pos()), "the configured stderr: file never receives the step's stderr")
	r.Check(okDefault && nDef > 0, "setupExec: without stderr: the stderr writer includes the log writer", e.Pos(fn.Pos()), "without a stderr: file the step's stderr does not reach its log")
}

func c12ExecutorSiblings(e *Env, s *Sched) {
	r := e.R
	r.Rule("C12.executor-siblings", "SIB", "SetStderr does not overwrite SetStdout's sink", 5)
	sp := e.P.Pkg("internal/dag/executor")
	if sp == nil {
		r.Unknown("package internal/dag/executor", "-", "not found")
		return
	}
	type pair struct{ out, err *ssa.Function }
	byType := map[string]*pair{}
	for _, f := range e.RepoFuncsSorted() {
		if f.Package() != sp || f.Signature.Recv() == nil {
			continue
		}
		t := ir.NamedType(f.Signature.Recv().Type())
		if byType[t] == nil {
			byType[t] = &pair{}
		}
		switch f.Name() {
		case "SetStdout":
			byType[t].out = f
		case "SetStderr":
			byType[t].err = f
		}
	}
	var names []string
	for t := range byType {
		names = append(names, t)
	}
	sort.Strings(names)
	sink := func(f *ssa.Function) string {
		for _, b := range f.Blocks {
			for _, in := range b.Instrs {
				if st, ok := in.(*ssa.Store); ok && ir.Resolve(st.Val) == ssa.Value(f.Params[1]) {
					if p, ok := e.C.StorePath(st.Addr); ok {
						return p.Dotted()
					}
				}
			}
		}
		return ""
	}
	for _, t := range names {
		p := byType[t]
		if p.out == nil || p.err == nil {
			continue
		}
		so, se := sink(p.out), sink(p.err)
		short := t[strings.LastIndex(t, ".")+1:]
		if so == "" || se == "" {
			r.Unknown("executor "+short+": SetStdout/SetStderr sinks", e.Pos(p.out.Pos()), "cannot identify the field the writer is stored into")
			continue
		}
		r.Check(so != se, "executor "+short+": SetStderr keeps SetStdout's sink", e.Pos(p.err.Pos()),
			"SetStderr stores into the same field ("+se+") as SetStdout: with a stderr: file configured the executor's whole output goes to that file only and the step's log and stdout: file stay empty")
	}
}

func c12HandbackLast(e *Env, s *Sched) {
	r := e.R
	r.Rule("C12.handback-last", "MPT/ownership", "nothing touches the node after it was handed back", 1)
	w := s.Worker
	none := s.val("NodeStatusNone")
	td := e.nodeRoles().Teardown
	for _, ev := range s.statusEvents(w) {
		k, ok := s.constOf(ev)
		if !ok || k != none || !sameNode(ev.Root, s.WorkerNode) {
			continue
		}
		known := e.DCS(ev.Site)
		var touches []string
		ir.Bypass(ev.Site, nil, ir.PathQuery{
			SkipEdge: func(from *ssa.BasicBlock, idx int) bool {
				return from.Succs[idx].Dominates(from) || e.Contradicts(known, from, idx) || doneNilEdge(e, from, idx)
			},
			Bad: func(in ssa.Instruction) bool {
				switch x := in.(type) {
				case *ssa.Send:
					if sameNode(x.X, s.WorkerNode) {
						touches = append(touches, e.InstrPos(in)+": the node is published on the done channel")
					}
				case *ssa.Call:
					if sc := x.Call.StaticCallee(); sc != nil && len(x.Call.Args) > 0 && sameNode(x.Call.Args[0], s.WorkerNode) {
						writes := false
						for _, b := range sc.Blocks {
							for _, i2 := range b.Instrs {
								if st, ok := i2.(*ssa.Store); ok {
									if _, local := st.Addr.(*ssa.Alloc); !local {
										writes = true
									}
								}
							}
						}
						if writes {
							touches = append(touches, e.InstrPos(in)+": "+sc.Name()+" mutates the node")
						}
					}
				case *ssa.RunDefers:
					// deferred closures that reach teardown
					for _, b := range w.Blocks {
						for _, i2 := range b.Instrs {
							if d, ok := i2.(*ssa.Defer); ok && d.Call.StaticCallee() != nil && td != nil &&
								e.ReachesRepo(d.Call.StaticCallee(), func(f *ssa.Function) bool { return f == td }) {
								touches = append(touches, e.InstrPos(d)+": deferred teardown flushes/closes the node's files on exit")
							}
						}
					}
				}
				return false
			}})
		touches = dedupe(touches)
		r.Check(len(touches) == 0, "worker: nothing touches the node after status:=None (hand-back to the loop)", e.InstrPos(ev.Site),
			"after the retry reset the loop may relaunch the step at once; the old worker still mutates / tears down the node: its deferred teardown can flush and close the files the new attempt's setup has just opened", touches...)
	}
}
