package rules

import (
	"go/token"
	"go/types"
	"strings"

	"golang.org/x/tools/go/ssa"

	"bdcheck/internal/ir"
)

// C14.kahn — mechanism conformance of the cycle test.
//
// The property's own anchor names the mechanism: "Kahn-style in-degree
// elimination". Whether an arbitrary function decides acyclicity is an
// algorithmic question static analysis cannot answer; but IF the cycle test has
// that shape (a local degree table D: map[id]int and a work list Q drained by a
// `for len(Q) > 0` loop), each of its components has an exact, local, necessary
// condition, read off the SSA form by role:
//
//	init      D[k] = len(M1[k]) for every key of one adjacency map M1
//	seeds     every node of the graph with D[id]==0 is put on Q before the loop
//	pop       each iteration removes exactly the element it reads from Q
//	relax     for every k in M2[popped]: D[k] = D[k]-1, M2 the adjacency map
//	          inverse to M1 (the roles of the two maps are read off addEdge)
//	enqueue   k is put on Q exactly under D[k]==0, tested after the decrement
//	verdict   after Q is drained: true iff some D entry is still non-zero (or an
//	          equivalent count of node events: dequeues vs. number of nodes,
//	          resolved nodes vs. number of nodes with dependencies)
//
// A cycle test of another shape (DFS, colouring, repeated scanning) is not
// judged: the rule records "not applicable" in the evidence and the clause stays
// undecided. Within the Kahn shape an unrecognised component is undecided
// (fails), like every other rule.
func c14Kahn(e *Env, hc, addEdge *ssa.Function) {
	r := e.R
	r.Rule("C14.kahn", "roles + DCS + VF", "in-degree elimination: init / seeds / pop / relax / enqueue / verdict", 0)
	if hc == nil {
		return
	}
	k := &kahn{e: e, fn: hc}
	if !k.shape() {
		r.Info["C14.kahn"] = "the cycle test is not an in-degree elimination (no local degree table drained through a work list): algorithm not judged, clause `iff no cycle` undecided"
		return
	}
	k.adjacencyRoles(addEdge)
	k.checkPop()
	k.checkInit()
	k.checkRelax()
	k.checkSeeds()
	k.checkVerdict()
}

type kahn struct {
	e      *Env
	fn     *ssa.Function
	D      *ssa.MakeMap
	dcall  *ssa.Call     // the degree table is built by a single-call-site helper: its call in fn
	initFn *ssa.Function // where the table is filled (fn, or that helper)
	cursor *ssa.Phi      // index-cursor form of the work list: `for h := 0; h < len(q); h++ { x := q[h] … }`
	gtype  types.Type    // the graph's struct type
	loops  []*ir.Loop
	main   *ir.Loop // the work-list loop
	qphi   *ssa.Phi // the work list at the loop header
	// adjacency roles from addEdge: field index -> "A" (keyed by the first
	// parameter, holds the second) | "B" (the inverse)
	role map[int]string
	// results of the component analyses
	popped   ssa.Value // the element read from Q in an iteration
	popSlice *ssa.Slice
	initFld  int
	relaxFld int
	relaxKey ssa.Value
	relaxUpd *ssa.MapUpdate
	qAppends map[*ssa.Call]bool
}

func lenArg(v ssa.Value) (ssa.Value, bool) {
	c, ok := ir.Resolve(v).(*ssa.Call)
	if !ok {
		return nil, false
	}
	if b, ok := c.Call.Value.(*ssa.Builtin); ok && b.Name() == "len" && len(c.Call.Args) == 1 {
		return c.Call.Args[0], true
	}
	return nil, false
}

func isAppend(v ssa.Value) (*ssa.Call, bool) {
	c, ok := v.(*ssa.Call)
	if !ok {
		return nil, false
	}
	if b, ok := c.Call.Value.(*ssa.Builtin); ok && b.Name() == "append" {
		return c, true
	}
	return nil, false
}

func (k *kahn) samePath(a, b ssa.Value) bool {
	if SameValue(a, b) {
		return true
	}
	pa, oka := k.e.C.PathOf(a)
	pb, okb := k.e.C.PathOf(b)
	return oka && okb && len(pa.Fields) > 0 && pa.Dotted() == pb.Dotted() && (SameValue(pa.Root, pb.Root) || sameElem(pa.Root, pb.Root))
}

// graphField: v is a load of <graph>.<field> (the receiver's field, or - when the
// test is a plain function handed the graph's maps - the argument it was called
// with); returns the field index.
func (k *kahn) graphField(v ssa.Value) (int, bool) {
	u, ok := ir.Deep(v).(*ssa.UnOp)
	if !ok || u.Op != token.MUL {
		return 0, false
	}
	fa, ok := u.X.(*ssa.FieldAddr)
	if !ok {
		return 0, false
	}
	if !strings.HasSuffix(ir.NamedType(fa.X.Type()), ".ExecutionGraph") {
		return 0, false
	}
	if k.gtype == nil {
		k.gtype = fa.X.Type()
	}
	return fa.Field, true
}

func (k *kahn) graphStruct() (*types.Struct, bool) {
	if k.gtype == nil {
		if sp := k.e.P.Pkg(schedRel); sp != nil {
			if t := sp.Type("ExecutionGraph"); t != nil {
				k.gtype = t.Type()
			}
		}
	}
	if k.gtype == nil {
		return nil, false
	}
	return derefStruct(k.gtype)
}

func (k *kahn) fieldName(i int) string {
	st, ok := k.graphStruct()
	if !ok || i < 0 || i >= st.NumFields() {
		return "?"
	}
	return st.Field(i).Name()
}

func (k *kahn) isD(v ssa.Value) bool {
	r := ir.Resolve(v)
	return r == ssa.Value(k.D) || (k.dcall != nil && r == ssa.Value(k.dcall))
}

// shape: one local int-valued map and a loop `for len(q) > 0` over a slice phi.
func (k *kahn) shape() bool {
	var maps []*ssa.MakeMap
	for _, b := range k.fn.Blocks {
		for _, in := range b.Instrs {
			if mm, ok := in.(*ssa.MakeMap); ok {
				if mt, ok := mm.Type().Underlying().(*types.Map); ok {
					if bt, ok := mt.Elem().Underlying().(*types.Basic); ok && bt.Info()&types.IsInteger != 0 {
						maps = append(maps, mm)
					}
				}
			}
		}
	}
	k.initFn = k.fn
	if len(maps) == 0 {
		// the table built by a single-call-site helper that returns it
		for _, b := range k.fn.Blocks {
			for _, in := range b.Instrs {
				c, ok := in.(*ssa.Call)
				if !ok {
					continue
				}
				h := c.Call.StaticCallee()
				if h == nil || !k.e.P.Funcs[h] || h.Blocks == nil || ir.UniqueSite(h) == nil {
					continue
				}
				mt, isM := c.Type().Underlying().(*types.Map)
				if !isM {
					continue
				}
				if bt, isB := mt.Elem().Underlying().(*types.Basic); !isB || bt.Info()&types.IsInteger == 0 {
					continue
				}
				var hm []*ssa.MakeMap
				for _, hb := range h.Blocks {
					for _, hin := range hb.Instrs {
						if mm, isMM := hin.(*ssa.MakeMap); isMM && types.Identical(mm.Type(), c.Type()) {
							hm = append(hm, mm)
						}
					}
				}
				returnsIt := len(hm) == 1
				for _, hb := range h.Blocks {
					if rt, isR := hb.Instrs[len(hb.Instrs)-1].(*ssa.Return); isR && (len(rt.Results) != 1 || len(hm) != 1 || ir.Resolve(rt.Results[0]) != ssa.Value(hm[0])) {
						returnsIt = false
					}
				}
				if returnsIt {
					maps = append(maps, hm[0])
					k.dcall, k.initFn = c, h
				}
			}
		}
	}
	if len(maps) != 1 {
		return false
	}
	k.D = maps[0]
	k.loops = ir.Loops(k.fn)
	for _, l := range k.loops {
		i, ok := l.Header.Instrs[len(l.Header.Instrs)-1].(*ssa.If)
		if !ok {
			continue
		}
		b, ok := i.Cond.(*ssa.BinOp)
		if !ok {
			continue
		}
		for si, side := range []ssa.Value{b.X, b.Y} {
			if x, ok := lenArg(side); ok {
				if ph, ok := x.(*ssa.Phi); ok && ph.Block() == l.Header {
					if _, isSl := ph.Type().Underlying().(*types.Slice); isSl {
						k.main, k.qphi = l, ph
						// `cursor < len(q)`: the other side is an int φ of the same header
						other := []ssa.Value{b.X, b.Y}[1-si]
						if cp, isP := other.(*ssa.Phi); isP && cp.Block() == l.Header && cp.Type().String() == "int" {
							k.cursor = cp
						}
					}
				}
			}
		}
	}
	if k.main == nil {
		return false
	}
	// the appends that build Q: walk back from the phi through phis, append's
	// first argument and re-slicing
	k.qAppends = map[*ssa.Call]bool{}
	seen := map[ssa.Value]bool{}
	var walk func(v ssa.Value)
	walk = func(v ssa.Value) {
		if v == nil || seen[v] {
			return
		}
		seen[v] = true
		switch x := v.(type) {
		case *ssa.Phi:
			for _, ed := range x.Edges {
				walk(ed)
			}
		case *ssa.Slice:
			walk(x.X)
		case *ssa.Call:
			if c, ok := isAppend(x); ok {
				k.qAppends[c] = true
				walk(c.Call.Args[0])
			}
		}
	}
	walk(k.qphi)
	return true
}

func (k *kahn) adjacencyRoles(addEdge *ssa.Function) {
	// the roles of the two adjacency maps come from the graph's edge model (which
	// map is keyed by the dependent, which by the dependency), however the edge is
	// written
	k.role = map[int]string{}
	gr := k.e.graphRoles()
	if !gr.ok {
		return
	}
	st, ok := k.graphStruct()
	if !ok {
		return
	}
	for i := 0; i < st.NumFields(); i++ {
		switch st.Field(i).Name() {
		case gr.Succ:
			k.role[i] = "A"
		case gr.Pred:
			k.role[i] = "B"
		}
	}
}

func (k *kahn) exitLit() (ir.NLit, bool) {
	idx, ok := k.main.ExitEdge()
	if !ok {
		return ir.NLit{}, false
	}
	i := k.main.Header.Instrs[len(k.main.Header.Instrs)-1].(*ssa.If)
	return ir.Normalize(ir.Lit{Cond: i.Cond, Pol: idx == 0, If: i}), true
}

// isZeroTest: the literal says `D[key] == 0` (also `<= 0`, `< 1`); returns the lookup.
func (k *kahn) isZeroTest(l ir.NLit, key ssa.Value) (*ssa.Lookup, bool) {
	return k.isValTest(l, key, 0)
}

// isValTest: the literal says `D[key] == n` (for n==0 also `<= 0`, `< 1`).
func (k *kahn) isValTest(l ir.NLit, key ssa.Value, n int64) (*ssa.Lookup, bool) {
	if l.Kind != "cmp" {
		return nil, false
	}
	lk, ok := ir.Resolve(l.X).(*ssa.Lookup)
	if !ok || !k.isD(lk.X) || !k.samePath(lk.Index, key) {
		return nil, false
	}
	c, isC := ir.ConstInt(l.Y)
	if !isC {
		return nil, false
	}
	switch {
	case l.Op == token.EQL && c == n, n == 0 && l.Op == token.LEQ && c == 0, n == 0 && l.Op == token.LSS && c == 1:
		return lk, true
	}
	return nil, false
}

// checkPopCursor: the work list read through an index cursor. "Removing exactly
// the element read" becomes: the element read is q[cursor], the cursor starts at
// 0 and is advanced by exactly one on every way round the loop, the loop runs
// while cursor < len(q), and q itself only grows by appends.
func (k *kahn) checkPopCursor() {
	e, r := k.e, k.e.R
	if ex, ok := k.exitLit(); ok {
		good := false
		if ex.Kind == "cmp" && (ex.Op == token.LEQ || ex.Op == token.LSS) {
			// exit under !(cursor < len(q)): len(q) <= cursor
			if x, isLen := lenArg(ex.X); isLen && x == ssa.Value(k.qphi) && ex.Y == ssa.Value(k.cursor) && ex.Op == token.LEQ {
				good = true
			}
		}
		r.Check(good, "cycle test: the work list is processed until it is empty", e.InstrPos(k.main.Header.Instrs[len(k.main.Header.Instrs)-1]),
			"the elimination loop stops although nodes are still queued (or runs on an empty queue): nodes that could be resolved are reported as part of a cycle", "loop exit: "+e.C.RenderLit(ex))
	}
	// cursor: 0 at entry, +1 on every back edge
	okCur := true
	for i, p := range k.cursor.Block().Preds {
		ed := k.cursor.Edges[i]
		if !k.main.Blocks[p] {
			if c, isC := ir.ConstInt(ed); !isC || c != 0 {
				okCur = false
			}
			continue
		}
		var plusOne func(v ssa.Value, d int) bool
		plusOne = func(v ssa.Value, d int) bool {
			if ph, isP := v.(*ssa.Phi); isP && ph != k.cursor && d < 4 {
				for _, x := range ph.Edges {
					if !plusOne(x, d+1) {
						return false
					}
				}
				return len(ph.Edges) > 0
			}
			bo, isB := v.(*ssa.BinOp)
			if !isB || bo.Op != token.ADD || bo.X != ssa.Value(k.cursor) {
				return false
			}
			c, isC := ir.ConstInt(bo.Y)
			return isC && c == 1
		}
		if !plusOne(ed, 0) {
			okCur = false
		}
	}
	// the element read: q[cursor]
	var reads []ssa.Value
	for b := range k.main.Blocks {
		for _, in := range b.Instrs {
			ia, ok := in.(*ssa.IndexAddr)
			if !ok || ia.X != ssa.Value(k.qphi) {
				continue
			}
			if ia.Index != ssa.Value(k.cursor) {
				okCur = false
				continue
			}
			for _, ref := range *ia.Referrers() {
				if u, isU := ref.(*ssa.UnOp); isU && u.Op == token.MUL {
					reads = append(reads, u)
				}
			}
		}
	}
	ok := okCur && len(reads) == 1
	if ok {
		k.popped = reads[0]
	}
	r.Check(ok, "cycle test: each iteration removes exactly the queue element it reads", e.InstrPos(k.main.Header.Instrs[0]),
		"the element taken from the work list and the position advanced over differ (or the cursor is not advanced by exactly one): a queued node is dropped without being relaxed, or one is relaxed twice",
		sprintf("queue reads at the cursor: %d", len(reads)))
	if !ok {
		return
	}
	// the queue carried round the loop is the same queue plus appends
	leaked := false
	seen := map[ssa.Value]bool{}
	var walk func(v ssa.Value)
	walk = func(v ssa.Value) {
		if v == nil || seen[v] {
			return
		}
		seen[v] = true
		if v == ssa.Value(k.qphi) {
			return
		}
		switch x := v.(type) {
		case *ssa.Phi:
			for _, ed := range x.Edges {
				walk(ed)
			}
		case *ssa.Call:
			if c, isA := isAppend(x); isA {
				walk(c.Call.Args[0])
				return
			}
			leaked = true
		default:
			leaked = true
		}
	}
	for i, p := range k.qphi.Block().Preds {
		if k.main.Blocks[p] {
			walk(k.qphi.Edges[i])
		}
	}
	r.Check(!leaked, "cycle test: the work list carried to the next iteration is the popped one (plus newly enqueued nodes)", e.InstrPos(k.main.Header.Instrs[0]),
		"the next iteration sees a queue that is not the one being walked plus the newly enqueued nodes")
}

func (k *kahn) checkPop() {
	e, r := k.e, k.e.R
	if k.cursor != nil {
		k.checkPopCursor()
		return
	}
	// loop runs while the queue is non-empty
	if ex, ok := k.exitLit(); ok {
		good := false
		if ex.Kind == "cmp" {
			if x, isLen := lenArg(ex.X); isLen && x == ssa.Value(k.qphi) {
				c, isC := ir.ConstInt(ex.Y)
				good = isC && (ex.Op == token.LEQ && c == 0 || ex.Op == token.EQL && c == 0 || ex.Op == token.LSS && c == 1)
			}
		}
		r.Check(good, "cycle test: the work list is processed until it is empty", e.InstrPos(k.main.Header.Instrs[len(k.main.Header.Instrs)-1]),
			"the elimination loop stops although nodes are still queued (or runs on an empty queue): nodes that could be resolved are reported as part of a cycle", "loop exit: "+e.C.RenderLit(ex))
	}
	// the element read and the element removed are the same end of the queue
	type read struct {
		v     ssa.Value
		front bool
	}
	var reads []read
	var slices []*ssa.Slice
	isQ := func(v ssa.Value) bool { return v == ssa.Value(k.qphi) }
	for b := range k.main.Blocks {
		for _, in := range b.Instrs {
			switch x := in.(type) {
			case *ssa.IndexAddr:
				if !isQ(x.X) {
					continue
				}
				front, back := false, false
				if c, ok := ir.ConstInt(x.Index); ok && c == 0 {
					front = true
				}
				if bo, ok := x.Index.(*ssa.BinOp); ok && bo.Op == token.SUB {
					if la, ok := lenArg(bo.X); ok && isQ(la) {
						if c, ok := ir.ConstInt(bo.Y); ok && c == 1 {
							back = true
						}
					}
				}
				if !front && !back {
					continue
				}
				for _, ref := range *x.Referrers() {
					if u, ok := ref.(*ssa.UnOp); ok && u.Op == token.MUL {
						reads = append(reads, read{u, front})
					}
				}
			case *ssa.Slice:
				if isQ(x.X) {
					slices = append(slices, x)
				}
			}
		}
	}
	ok := len(reads) == 1 && len(slices) == 1
	if ok {
		sl := slices[0]
		if reads[0].front {
			c, isC := int64(0), false
			if sl.Low != nil {
				c, isC = ir.ConstInt(sl.Low)
			}
			ok = isC && c == 1 && sl.High == nil
		} else {
			ok = sl.Low == nil && sl.High != nil
			if ok {
				bo, isB := sl.High.(*ssa.BinOp)
				ok = isB && bo.Op == token.SUB
				if ok {
					la, isL := lenArg(bo.X)
					c, isC := ir.ConstInt(bo.Y)
					ok = isL && isQ(la) && isC && c == 1
				}
			}
		}
		if ok {
			k.popped, k.popSlice = reads[0].v, sl
		}
	}
	r.Check(ok, "cycle test: each iteration removes exactly the queue element it reads", e.InstrPos(k.main.Header.Instrs[0]),
		"the element taken from the work list and the element removed from it differ (or several are removed): a queued node is dropped without being relaxed, or one is relaxed twice",
		sprintf("queue reads found: %d, re-slicings found: %d", len(reads), len(slices)))
	if !ok {
		return
	}
	// the queue carried round the loop derives from the re-sliced queue only
	leaked := false
	seen := map[ssa.Value]bool{}
	var walk func(v ssa.Value)
	walk = func(v ssa.Value) {
		if v == nil || seen[v] {
			return
		}
		seen[v] = true
		if v == ssa.Value(k.popSlice) {
			return
		}
		if v == ssa.Value(k.qphi) {
			leaked = true
			return
		}
		switch x := v.(type) {
		case *ssa.Phi:
			for _, ed := range x.Edges {
				walk(ed)
			}
		case *ssa.Call:
			if c, isA := isAppend(x); isA {
				walk(c.Call.Args[0])
				return
			}
			leaked = true
		default:
			leaked = true
		}
	}
	for i, p := range k.qphi.Block().Preds {
		if k.main.Blocks[p] {
			walk(k.qphi.Edges[i])
		}
	}
	r.Check(!leaked, "cycle test: the work list carried to the next iteration is the popped one (plus newly enqueued nodes)", e.InstrPos(k.popSlice),
		"the next iteration sees a queue from which the processed element was not removed (endless loop) or an unrelated value")
}

func (k *kahn) checkInit() {
	e, r := k.e, k.e.R
	n := 0
	k.initFld = -1
	initLoops := k.loops
	if k.initFn != k.fn {
		initLoops = ir.Loops(k.initFn)
	}
	for _, b := range k.initFn.Blocks {
		if k.initFn == k.fn && k.main.Blocks[b] {
			continue
		}
		for _, in := range b.Instrs {
			mu, ok := in.(*ssa.MapUpdate)
			if !ok || !k.isD(mu.Map) {
				continue
			}
			n++
			good := false
			fld := -1
			if x, isLen := lenArg(mu.Value); isLen {
				l := ir.InnermostLoop(initLoops, b)
				// for key, list := range g.M { D[key] = len(list) }
				if l != nil && l.Ranged != nil && l.Elem != nil && ir.Resolve(x) == ir.Resolve(l.Elem) && l.Key != nil && ir.Resolve(mu.Key) == ir.Resolve(l.Key) {
					if f, isF := k.graphField(l.Ranged); isF {
						good, fld = true, f
					}
				}
				// D[key] = len(g.M[key])
				if lk, isLk := ir.Resolve(x).(*ssa.Lookup); isLk && k.samePath(lk.Index, mu.Key) {
					if f, isF := k.graphField(lk.X); isF {
						good, fld = true, f
					}
				}
			}
			if good && k.initFld >= 0 && fld != k.initFld {
				good = false
			}
			if good {
				k.initFld = fld
			}
			r.Check(good, "cycle test: degree table initialised with len(adjacency[key]) for each key", e.InstrPos(mu),
				"a node's initial degree is not the number of its neighbours in one adjacency map: the elimination resolves it too early (cycle missed) or never (false cycle)",
				"value: "+e.C.Render(mu.Value))
		}
	}
	if n == 0 {
		r.Unknown("cycle test: degree table initialisation", e.Pos(k.fn.Pos()), "no store into the degree table before the elimination loop")
	}
}

func (k *kahn) checkRelax() {
	e, r := k.e, k.e.R
	k.relaxFld = -1
	n := 0
	for b := range k.main.Blocks {
		for _, in := range b.Instrs {
			mu, ok := in.(*ssa.MapUpdate)
			if !ok || !k.isD(mu.Map) {
				continue
			}
			n++
			// value = D[key] - 1
			okDec := false
			if bo, isB := ir.Resolve(mu.Value).(*ssa.BinOp); isB && bo.Op == token.SUB {
				if lk, isLk := ir.Resolve(bo.X).(*ssa.Lookup); isLk && k.isD(lk.X) && k.samePath(lk.Index, mu.Key) {
					if c, isC := ir.ConstInt(bo.Y); isC && c == 1 {
						okDec = true
					}
				}
			}
			r.Check(okDec, "cycle test: relaxing an edge lowers the neighbour's degree by exactly one", e.InstrPos(mu),
				"the degree of a neighbour is not decremented by one per resolved edge", "value: "+e.C.Render(mu.Value))
			// key ranges over adjacency[popped]
			okKey := false
			l := ir.InnermostLoop(k.loops, b)
			if l != nil && l != k.main && k.main.Blocks[l.Header] && l.Elem != nil && ir.Resolve(mu.Key) == ir.Resolve(l.Elem) {
				if lk, isLk := ir.Resolve(l.Ranged).(*ssa.Lookup); isLk && k.popped != nil && SameValue(lk.Index, k.popped) {
					if f, isF := k.graphField(lk.X); isF {
						okKey = true
						k.relaxFld = f
						k.relaxKey = mu.Key
						k.relaxUpd = mu
					}
				}
				// the neighbour loop visits every neighbour: it is left only by exhaustion
				if okKey {
					for lb := range l.Blocks {
						for _, s := range lb.Succs {
							if !l.Blocks[s] && lb != l.Header {
								okKey = false
							}
						}
					}
				}
			}
			r.Check(okKey, "cycle test: the relaxed nodes are all neighbours adjacency[popped] of the node just taken from the work list", e.InstrPos(mu),
				"the degrees lowered in an iteration are not exactly those of the popped node's neighbours (wrong map key, partial loop)")
		}
	}
	if n == 0 {
		r.Unknown("cycle test: relaxation", e.Pos(k.fn.Pos()), "no store into the degree table inside the elimination loop")
		return
	}
	// the two adjacency maps are inverse to each other
	if k.initFld >= 0 && k.relaxFld >= 0 {
		ra, rb := k.role[k.initFld], k.role[k.relaxFld]
		r.Check(ra != "" && rb != "" && ra != rb, "cycle test: degrees counted in one adjacency map are relaxed along the inverse one", e.Pos(k.fn.Pos()),
			"the degree table counts a node's neighbours in g."+k.fieldName(k.initFld)+" but edges are relaxed along g."+k.fieldName(k.relaxFld)+", which addEdge does not fill as its inverse: degrees never reach zero for the right nodes",
			sprintf("init: g.%s (role %q), relax: g.%s (role %q)", k.fieldName(k.initFld), ra, k.fieldName(k.relaxFld), rb))
	}
	// enqueue sites inside the loop
	ne := 0
	for c := range k.qAppends {
		if !k.main.Blocks[c.Block()] {
			continue
		}
		ne++
		good, direct := false, false
		els := appendedElems(c)
		if len(els) == 1 && k.relaxKey != nil && k.relaxUpd != nil && k.samePath(els[0], k.relaxKey) {
			for _, l := range e.DCS(c) {
				// D[k]==0 read after the decrement, or D[k]==1 read before it
				lk, isZ := k.isValTest(l, k.relaxKey, 0)
				hit := isZ && ir.Precedes(k.relaxUpd, lk)
				if !hit {
					lk1, isOne := k.isValTest(l, k.relaxKey, 1)
					hit = isOne && ir.Precedes(lk1, k.relaxUpd)
				}
				if hit {
					good = true
					// completeness: the branch taken on that test leads straight to the append
					if i := l.Src.If; i != nil {
						idx := 1
						if l.Src.Pol {
							idx = 0
						}
						if i.Block().Succs[idx] == c.Block() {
							direct = true
						}
					}
				}
			}
		}
		r.Check(good, "cycle test: a neighbour is queued exactly when its degree has just dropped to zero", e.InstrPos(c),
			"a node is put on the work list although it still has unresolved dependencies (cycle missed), or the zero test reads the degree before the decrement", e.FactsStr("dominating conditions: ", e.DCS(c)))
		if good {
			r.Check(direct, "cycle test: every neighbour whose degree drops to zero is queued", e.InstrPos(c),
				"a node whose last dependency was resolved is not always put on the work list (a further condition guards the append): it is reported as part of a cycle")
		}
	}
	if ne == 0 {
		r.Unknown("cycle test: enqueue in the elimination loop", e.Pos(k.fn.Pos()), "no append to the work list inside the loop")
	}
}

func (k *kahn) allNodesField(v ssa.Value) bool {
	f, ok := k.graphField(v)
	if !ok {
		return false
	}
	st, ok := k.graphStruct()
	if !ok {
		return false
	}
	ft := st.Field(f).Type().Underlying()
	isNodePtr := func(t types.Type) bool {
		p, ok := t.(*types.Pointer)
		return ok && ir.NamedType(p.Elem()) != "" && typesName(p.Elem()) == "Node"
	}
	switch t := ft.(type) {
	case *types.Slice:
		return isNodePtr(t.Elem())
	case *types.Map:
		return isNodePtr(t.Elem())
	}
	return false
}

func derefStruct(t types.Type) (*types.Struct, bool) {
	if p, ok := t.Underlying().(*types.Pointer); ok {
		t = p.Elem()
	}
	st, ok := t.Underlying().(*types.Struct)
	return st, ok
}

func typesName(t types.Type) string {
	if n, ok := t.(*types.Named); ok {
		return n.Obj().Name()
	}
	return ""
}

func (k *kahn) checkSeeds() {
	e, r := k.e, k.e.R
	n := 0
	for c := range k.qAppends {
		if k.main.Blocks[c.Block()] {
			continue
		}
		n++
		els := appendedElems(c)
		good := false
		l := ir.InnermostLoop(k.loops, c.Block())
		if len(els) == 1 && l != nil && l.Ranged != nil && k.allNodesField(l.Ranged) {
			// the seed is the id of the node of this iteration
			p, okp := e.C.PathOf(els[0])
			if okp && p.Suffix("id") && l.Elem != nil && (SameValue(p.Root, l.Elem) || sameElem(p.Root, l.Elem)) {
				for _, lit := range e.DCS(c) {
					if _, isZ := k.isZeroTest(lit, els[0]); isZ {
						good = true
					}
				}
			}
			// every node is considered: the seeding loop is left only by exhaustion
			if good {
				for lb := range l.Blocks {
					for _, s := range lb.Succs {
						if !l.Blocks[s] && lb != l.Header {
							good = false
						}
					}
				}
			}
			// and every node with degree zero is seeded: no other way round the loop body skips the append under D==0
			if good {
				for _, p := range l.Header.Preds {
					if !l.Blocks[p] || p == c.Block() {
						continue
					}
					// a back edge that does not come from the append block must carry D[id] != 0
					lits := e.DCSEdgeTo(p, l.Header)
					nonzero := false
					for _, lit := range lits {
						if lit.Kind != "cmp" {
							continue
						}
						var lkv, cv ssa.Value
						switch lit.Op {
						case token.NEQ:
							lkv, cv = lit.X, lit.Y
						case token.LSS: // 0 < D[id]
							lkv, cv = lit.Y, lit.X
						default:
							continue
						}
						lk, isLk := ir.Resolve(lkv).(*ssa.Lookup)
						cst, isC := ir.ConstInt(cv)
						if isLk && isC && cst == 0 && k.isD(lk.X) && k.samePath(lk.Index, els[0]) {
							nonzero = true
						}
					}
					if !nonzero {
						good = false
					}
				}
			}
		}
		r.Check(good, "cycle test: exactly the nodes without unresolved dependencies (degree 0), taken over all nodes of the graph, seed the work list", e.InstrPos(c),
			"the work list is not seeded with every degree-zero node of the graph (a node is skipped, seeded with a non-zero degree, or the loop ranges over a partial collection): acyclic graphs are refused or cycles are missed",
			e.FactsStr("dominating conditions: ", e.DCS(c)))
	}
	if n == 0 {
		r.Unknown("cycle test: seeding of the work list", e.Pos(k.fn.Pos()), "no append to the work list before the elimination loop")
	}
}

// counterInfo describes an int phi cycle: where it is stepped.
type counterInfo struct {
	steps []*ssa.BinOp
	inits []ssa.Value
}

func (k *kahn) counter(v ssa.Value) (*counterInfo, bool) {
	ci := &counterInfo{}
	seen := map[ssa.Value]bool{}
	ok := true
	var walk func(v ssa.Value)
	walk = func(v ssa.Value) {
		if seen[v] {
			return
		}
		seen[v] = true
		switch x := v.(type) {
		case *ssa.Phi:
			for _, ed := range x.Edges {
				walk(ed)
			}
		case *ssa.BinOp:
			if (x.Op == token.ADD || x.Op == token.SUB) && x.Y != nil {
				if c, isC := ir.ConstInt(x.Y); isC && c == 1 {
					ci.steps = append(ci.steps, x)
					walk(x.X)
					return
				}
			}
			ok = false
		default:
			ci.inits = append(ci.inits, v)
		}
	}
	walk(v)
	return ci, ok && len(ci.steps) > 0
}

func (k *kahn) checkVerdict() {
	e, r := k.e, k.e.R
	ex, okEx := k.exitLit()
	hasLit := func(ls []ir.NLit, want ir.NLit) bool {
		for _, l := range ls {
			if l.Kind == want.Kind && l.Op == want.Op && l.Src.If == want.Src.If && l.Src.Pol == want.Src.Pol {
				return true
			}
		}
		return false
	}
	// element of a range over D
	var elemOfD func(v ssa.Value) (*ir.Loop, bool)
	elemOfD = func(v ssa.Value) (*ir.Loop, bool) {
		ext, ok := ir.Resolve(v).(*ssa.Extract)
		if !ok || ext.Index != 2 {
			return nil, false
		}
		nx, ok := ext.Tuple.(*ssa.Next)
		if !ok {
			return nil, false
		}
		rg, ok := nx.Iter.(*ssa.Range)
		if !ok || !k.isD(rg.X) {
			return nil, false
		}
		for _, l := range k.loops {
			if l.Header == nx.Block() {
				return l, true
			}
		}
		return nil, false
	}
	// ... or D[node.id] for the element of a range over all the graph's nodes (a node
	// without an entry reads 0, so the walk over the nodes covers every entry of D)
	elemOfD0 := elemOfD
	elemOfD = func(v ssa.Value) (*ir.Loop, bool) {
		if l, ok := elemOfD0(v); ok {
			return l, true
		}
		lk, ok := ir.Resolve(v).(*ssa.Lookup)
		if !ok || lk.CommaOk || !k.isD(lk.X) {
			return nil, false
		}
		p, okp := e.C.PathOf(lk.Index)
		if !okp || len(p.Fields) != 1 || p.Fields[0] != "id" {
			return nil, false
		}
		for _, l := range k.loops {
			if l.Ranged == nil || l.Elem == nil || k.main.Blocks[l.Header] {
				continue
			}
			if !SameValue(p.Root, l.Elem) && !sameElem(p.Root, l.Elem) {
				continue
			}
			if rp, okr := e.C.PathOf(l.Ranged); okr {
				for _, an := range e.graphRoles().AllNodes {
					if rp.Suffix(an) {
						return l, true
					}
				}
			}
		}
		return nil, false
	}
	positive := func(l ir.NLit) (*ir.Loop, bool) { // 0 < elem  or  elem != 0
		if l.Kind != "cmp" {
			return nil, false
		}
		if l.Op == token.LSS {
			if c, ok := ir.ConstInt(l.X); ok && c == 0 {
				return elemOfD(l.Y)
			}
		}
		if l.Op == token.NEQ {
			if c, ok := ir.ConstInt(l.Y); ok && c == 0 {
				return elemOfD(l.X)
			}
		}
		return nil, false
	}
	nonPositive := func(l ir.NLit, loop *ir.Loop) bool { // elem <= 0 or elem == 0
		if l.Kind != "cmp" {
			return false
		}
		if c, ok := ir.ConstInt(l.Y); ok && c == 0 && (l.Op == token.LEQ || l.Op == token.EQL) {
			ll, ok := elemOfD(l.X)
			return ok && ll == loop
		}
		return false
	}
	n := 0
	for _, b := range k.fn.Blocks {
		rt, ok := b.Instrs[len(b.Instrs)-1].(*ssa.Return)
		if !ok || !e.Facts(k.fn).Reachable(b) || len(rt.Results) != 1 {
			continue
		}
		n++
		lits := e.DCS(rt)
		drained := okEx && hasLit(lits, ex)
		r.Check(drained, "cycle test: the verdict is given only after the work list was drained", e.InstrPos(rt),
			"a verdict is returned before the elimination finished", e.FactsStr("dominating conditions: ", lits))
		res := ir.Resolve(rt.Results[0])
		cv, isC := ir.ConstBool(res)
		neg := e.graphRoles().CycleNegated // the test answers "acyclic": true is `no cycle`
		if isC && neg {
			cv = !cv
		}
		if !isC && nilable(res.Type()) {
			// a cycle test that hands back a witness: nil is "no cycle", a value that
			// cannot be nil is "cycle"; a value that may be nil, returned where a degree
			// is still positive, can turn a cycle found into "no cycle"
			switch {
			case ir.IsNilConst(res):
				cv, isC = false, true
			case e.definitelyNonNil(res, 0):
				cv, isC = true, true
			default:
				pos := false
				for _, l := range lits {
					if _, isP := positive(l); isP {
						pos = true
					}
				}
				if pos {
					r.Bad("cycle test: where a degree is still non-zero after the elimination the answer is `cycle`", e.InstrPos(rt),
						"at a node whose in-degree stayed positive the test returns a witness that can be nil (= no cycle): the cycle the elimination found is lost on the way to the verdict, the cyclic DAG is admitted and its run never finishes", "returned: "+e.C.Render(res))
				} else {
					r.Unknown("cycle test: the witness returned", e.InstrPos(rt), "neither nil nor a value known to be non-nil: "+e.C.Render(res))
				}
				continue
			}
		}
		if isC {
			if cv {
				good := false
				for _, l := range lits {
					if _, isP := positive(l); isP {
						good = true
					}
				}
				r.Check(good, "cycle test: `cycle` is answered only for a node whose degree is still non-zero after the elimination", e.InstrPos(rt),
					"`true` (cycle) is returned without a remaining non-zero degree: acyclic DAGs are refused", e.FactsStr("dominating conditions: ", lits))
				continue
			}
			// false: after a complete scan of D in which every element was non-positive
			var scan *ir.Loop
			for _, l := range k.loops {
				if l.Ranged != nil && !k.main.Blocks[l.Header] && l.Header.Dominates(b) && !l.Blocks[b] {
					if k.isD(l.Ranged) {
						scan = l
					} else if rp, okr := e.C.PathOf(l.Ranged); okr {
						for _, an := range e.graphRoles().AllNodes {
							if rp.Suffix(an) {
								scan = l
							}
						}
					}
				}
			}
			good := scan != nil
			if good {
				// leaving the scan other than by exhaustion must return true; going round must mean elem <= 0
				for lb := range scan.Blocks {
					for si, s := range lb.Succs {
						if scan.Blocks[s] {
							if s == scan.Header { // back edge
								ff := e.Facts(k.fn)
								edge := ir.NormalizeAll(ff.Expand(ff.DCSEdge(lb, si)))
								np := false
								for _, l := range edge {
									if nonPositive(l, scan) {
										np = true
									}
								}
								if !np {
									good = false
								}
							}
							continue
						}
						if lb == scan.Header {
							continue // exhaustion
						}
						rt2, isR := s.Instrs[len(s.Instrs)-1].(*ssa.Return)
						cv2, isC2 := false, false
						if isR && len(rt2.Results) == 1 {
							rv2 := ir.Resolve(rt2.Results[0])
							cv2, isC2 = ir.ConstBool(rv2)
							if isC2 && neg {
								cv2 = !cv2
							}
							if !isC2 && nilable(rv2.Type()) && !ir.IsNilConst(rv2) {
								cv2, isC2 = true, true // a witness: judged at its own return
							}
						}
						if !(isR && isC2 && cv2) {
							good = false
						}
					}
				}
			}
			r.Check(good, "cycle test: `no cycle` is answered only after every degree was seen to be zero", e.InstrPos(rt),
				"`false` (no cycle) can be returned although a node still has unresolved dependencies: a cyclic DAG is admitted and its run never finishes", e.FactsStr("dominating conditions: ", lits))
			continue
		}
		// computed verdict: a comparison of a node-event counter
		good, why := k.countVerdict(res)
		r.Check(good, "cycle test: a counted verdict compares node events with the matching node count", e.InstrPos(rt),
			"the verdict is computed from a counter that is not stepped once per resolved node or is compared with the wrong total: "+why, "verdict: "+e.C.Render(res))
	}
	if n == 0 {
		r.Unknown("cycle test: verdict", e.Pos(k.fn.Pos()), "no return found")
	}
}

// countVerdict accepts
//
//	dequeued != len(allNodes)  /  dequeued < len(allNodes)      (counter stepped +1 in the pop block, from 0)
//	remaining > 0 / != 0                                        (counter from len(D), stepped -1 where a neighbour is queued)
func (k *kahn) countVerdict(res ssa.Value) (bool, string) {
	bo, ok := res.(*ssa.BinOp)
	if !ok {
		return false, "not a comparison"
	}
	n := ir.Normalize(ir.Lit{Cond: bo, Pol: true})
	if n.Kind != "cmp" {
		return false, "not a comparison"
	}
	try := func(cv, other ssa.Value, counterOnLeft bool) (bool, string) {
		ci, ok := k.counter(cv)
		if !ok {
			return false, "no unit-step counter"
		}
		// where is it stepped?
		inPop, inEnq, elsewhere := 0, 0, 0
		for _, st := range ci.steps {
			switch {
			case k.popSlice != nil && st.Block() == k.popSlice.Block():
				inPop++
			case k.isEnqueueBlock(st.Block()):
				inEnq++
			default:
				elsewhere++
			}
		}
		if elsewhere > 0 {
			return false, "the counter is stepped outside the node events (dequeue / becomes-ready), e.g. once per relaxed edge"
		}
		if inPop > 0 && inEnq == 0 {
			// dequeued vs len(all nodes)
			up := true
			for _, st := range ci.steps {
				if st.Op != token.ADD {
					up = false
				}
			}
			zero := len(ci.inits) == 1
			if zero {
				c, isC := ir.ConstInt(ci.inits[0])
				zero = isC && c == 0
			}
			la, isLen := lenArg(other)
			if up && zero && isLen && k.allNodesField(la) {
				// dequeued != len  or dequeued < len
				if n.Op == token.NEQ || (n.Op == token.LSS && counterOnLeft) {
					return true, ""
				}
			}
			return false, "dequeue counter not compared as `count != / < number of nodes`"
		}
		if inEnq > 0 && inPop == 0 {
			down := true
			for _, st := range ci.steps {
				if st.Op != token.SUB {
					down = false
				}
			}
			fromD := len(ci.inits) == 1
			if fromD {
				la, isLen := lenArg(ci.inits[0])
				fromD = isLen && k.isD(la)
			}
			c, isC := ir.ConstInt(other)
			if down && fromD && isC && c == 0 {
				if n.Op == token.NEQ || (n.Op == token.LSS && !counterOnLeft) {
					return true, ""
				}
			}
			return false, "resolved-node counter not of the form `len(degrees) - resolved > 0`"
		}
		return false, "counter stepped at mixed events"
	}
	if ok, why := try(n.X, n.Y, true); ok {
		return true, ""
	} else if ok2, _ := try(n.Y, n.X, false); ok2 {
		return true, ""
	} else {
		return false, why
	}
}

func (k *kahn) isEnqueueBlock(b *ssa.BasicBlock) bool {
	if !k.main.Blocks[b] {
		return false
	}
	for _, in := range b.Instrs {
		if c, ok := in.(*ssa.Call); ok && k.qAppends[c] {
			return true
		}
	}
	return false
}
