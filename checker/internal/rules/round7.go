package rules

// Rules added after the seventh round of seeded changes (prompts `h`, stored as
// seeded/CNN-g): each states a necessary structural condition of its property that the
// seeded change broke and no earlier rule saw.

import (
	"go/token"
	"go/types"
	"sort"
	"strings"
	"unicode"

	"bdcheck/internal/ir"

	"golang.org/x/tools/go/ssa"
)

// ---------------------------------------------------------------------------
// C01.edge-every-pair

// c01EdgeEveryPair: the edge writer records every (dependency, dependent) pair it is
// called with. A path through it that records nothing is acceptable only for a pair
// that has been recorded already - the skip is taken under a membership test of a set
// whose key identifies the PAIR: a struct / array of the two ids, or a text in which
// the two numbers are separated by something that is not a digit. (`Itoa(a)+Itoa(b)`
// maps 1→12 and 11→2 to the same key: the second edge is dropped and its dependent
// starts without waiting.)
func c01EdgeEveryPair(e *Env, rule string) {
	r := e.R
	r.Rule(rule, "MPT+VF", "the edge writer records every pair; a skip only under a set keyed injectively by the pair", 1)
	gr := e.graphRoles()
	if gr.AddEdge == nil || len(gr.Updates) == 0 {
		r.Unknown("edge writer", schedRel, "not resolved: "+gr.why)
		return
	}
	f := gr.AddEdge
	isUpdate := func(in ssa.Instruction) bool {
		for _, u := range gr.Updates {
			if ssa.Instruction(u.Site) == in {
				return true
			}
		}
		return false
	}
	// judge: every way to `at` (a point reached without having recorded the edge) is a hit
	// in a pair-keyed set
	judge := func(at ssa.Instruction) (bool, string) {
		good, why := true, ""
		ws := e.waysTo(at)
		if len(ws) == 0 {
			return false, "conditions of the skipping path not resolved"
		}
		for _, w := range ws {
			hit := false
			for _, l := range w {
				if l.Kind != "val" || !l.Pol {
					continue
				}
				ex, isE := ir.Resolve(l.V).(*ssa.Extract)
				if !isE || ex.Index != 1 {
					continue
				}
				lk, isL := ex.Tuple.(*ssa.Lookup)
				if !isL || !lk.CommaOk {
					continue
				}
				if okKey, whyKey := e.pairKey(lk.Index, f); okKey {
					hit = true
				} else {
					why = whyKey
				}
			}
			if !hit {
				good = false
				if why == "" {
					why = "a way to the skipping path carries no membership test: {" + strings.Join(e.RenderN(w), " ; ") + "}"
				}
			}
		}
		return good, why
	}
	const what = "the edge writer can go on without recording the edge for a pair it has not recorded: the dependent is then not held back by that dependency (its command starts while the dependency is still not started, running or failed), the cycle test does not see the edge and a retry does not re-run the dependent"
	n := 0
	// the writer merged into the loop over the dependencies: one iteration = one pair; an
	// iteration that ends (reaches the loop's header again) without the updates skipped it.
	// Leaving the function from inside the iteration is the refusal of the graph (an error).
	var loop *ir.Loop
	for _, l := range ir.Loops(f) {
		if l.Blocks[gr.Updates[0].Site.Block()] && (loop == nil || len(l.Blocks) < len(loop.Blocks)) {
			loop = l
		}
	}
	if loop != nil {
		var body *ssa.BasicBlock
		for _, sb := range loop.Header.Succs {
			if loop.Blocks[sb] {
				body = sb
			}
		}
		for _, latch := range loop.Header.Preds {
			if !loop.Blocks[latch] || body == nil {
				continue
			}
			n++
			last := latch.Instrs[len(latch.Instrs)-1]
			bad, _ := ir.Bypass(nil, body, ir.PathQuery{Stop: isUpdate, Bad: func(in ssa.Instruction) bool { return in == last },
				SkipEdge: func(from *ssa.BasicBlock, k int) bool {
					return !loop.Blocks[from.Succs[k]] || from.Succs[k] == loop.Header
				}})
			if bad == nil {
				r.OK("edge writer: an iteration over the dependencies ends only after the adjacency updates", e.InstrPos(last), "")
				continue
			}
			good, why := judge(last)
			r.Check(good, "edge writer: an edge is skipped only when the same pair is already recorded", e.InstrPos(last), what, why)
		}
	} else {
		for _, b := range f.Blocks {
			rt, ok := b.Instrs[len(b.Instrs)-1].(*ssa.Return)
			if !ok || !e.Facts(f).Reachable(b) {
				continue
			}
			n++
			bad, _ := ir.Bypass(nil, f.Blocks[0], ir.PathQuery{Stop: isUpdate, Bad: func(in ssa.Instruction) bool { return in == ssa.Instruction(rt) }})
			if bad == nil {
				r.OK("edge writer: this return is reached only after the adjacency updates", e.InstrPos(rt), "")
				continue
			}
			good, why := judge(rt)
			r.Check(good, "edge writer: an edge is skipped only when the same pair is already recorded", e.InstrPos(rt), what, why)
		}
	}
	if n == 0 {
		r.Unknown("edge writer: returns", e.Pos(f.Pos()), "none found")
	}
}

// pairKey: k identifies the pair of ids the edge writer was called with.
func (e *Env) pairKey(k ssa.Value, f *ssa.Function) (bool, string) {
	k = ir.Resolve(k)
	isID := func(v ssa.Value) bool {
		v = ir.Resolve(v)
		for d := 0; d < 3; d++ {
			switch x := v.(type) {
			case *ssa.Convert:
				v = ir.Resolve(x.X)
				continue
			case *ssa.MakeInterface:
				v = ir.Resolve(x.X)
				continue
			case *ssa.Call:
				if ir.IsCallTo(&x.Call, "strconv.Itoa", "strconv.FormatInt", "fmt.Sprint") && len(x.Call.Args) > 0 {
					v = ir.Resolve(x.Call.Args[0])
					continue
				}
			}
			break
		}
		p, ok := e.C.PathOf(v)
		return ok && p.Suffix("id")
	}
	switch k.Type().Underlying().(type) {
	case *types.Struct, *types.Array:
		// the composite's elements: both ids, each in its own slot
		ids := 0
		var walk func(v ssa.Value, d int)
		walk = func(v ssa.Value, d int) {
			if d > 4 {
				return
			}
			v = ir.Resolve(v)
			if u, ok := v.(*ssa.UnOp); ok && u.Op == token.MUL {
				if al, isAl := u.X.(*ssa.Alloc); isAl && al.Referrers() != nil {
					for _, ref := range *al.Referrers() {
						var addr ssa.Value
						switch x := ref.(type) {
						case *ssa.FieldAddr:
							addr = x
						case *ssa.IndexAddr:
							addr = x
						}
						if addr == nil || addr.Referrers() == nil {
							continue
						}
						for _, r2 := range *addr.Referrers() {
							if st, isSt := r2.(*ssa.Store); isSt && isID(st.Val) {
								ids++
							}
						}
					}
				}
			}
		}
		walk(k, 0)
		if ids >= 2 {
			return true, ""
		}
		return false, "the set's composite key is not made of the two ids"
	}
	if b, ok := k.Type().Underlying().(*types.Basic); ok && b.Info()&types.IsString != 0 {
		// a text: flatten the concatenation, or read the Sprintf format
		var parts []ssa.Value
		var flat func(v ssa.Value, d int)
		flat = func(v ssa.Value, d int) {
			v = ir.Resolve(v)
			if bo, isB := v.(*ssa.BinOp); isB && bo.Op == token.ADD && d < 8 {
				flat(bo.X, d+1)
				flat(bo.Y, d+1)
				return
			}
			parts = append(parts, v)
		}
		flat(k, 0)
		nonDigit := func(s string) bool {
			for _, c := range s {
				if !unicode.IsDigit(c) {
					return true
				}
			}
			return false
		}
		if len(parts) == 1 {
			if c, isC := parts[0].(*ssa.Call); isC && ir.IsCallTo(&c.Call, "fmt.Sprintf") {
				fm, okF := ir.ConstString(c.Call.Args[0])
				if !okF {
					return false, "the set's key is formatted with a format that is not a constant"
				}
				// literal text between consecutive verbs
				var between []string
				cur, verbs := "", 0
				for i := 0; i < len(fm); i++ {
					if fm[i] == '%' && i+1 < len(fm) {
						if fm[i+1] == '%' {
							cur += "%"
							i++
							continue
						}
						j := i + 1
						for j < len(fm) && !unicode.IsLetter(rune(fm[j])) {
							j++
						}
						if verbs > 0 {
							between = append(between, cur)
						}
						cur = ""
						verbs++
						i = j
						continue
					}
					cur += string(fm[i])
				}
				if verbs < 2 {
					return false, "the set's key does not format both ids"
				}
				for _, s := range between {
					if !nonDigit(s) {
						return false, "the set's key formats the two ids next to each other without a separator (" + fm + "): different pairs share a key"
					}
				}
				return true, ""
			}
			return false, "the set's key is a single text that does not name both ids: " + e.C.Render(parts[0])
		}
		ids, sepSince := 0, true
		for _, p := range parts {
			if s, isS := ir.ConstString(p); isS {
				if nonDigit(s) {
					sepSince = true
				}
				continue
			}
			if isID(p) {
				if ids > 0 && !sepSince {
					return false, "the set's key concatenates the two ids without a separator that is not a digit: different pairs (1,12 and 11,2) share a key"
				}
				ids++
				sepSince = false
				continue
			}
			return false, "the set's key contains " + e.C.Render(p) + ", which is not one of the ids"
		}
		if ids >= 2 {
			return true, ""
		}
		return false, "the set's key does not name both ids"
	}
	return false, "the set's key is neither a composite of the two ids nor a text naming both"
}

// ---------------------------------------------------------------------------
// C02.condition-command-status

// c02ConditionCommandStatus: a precondition written as a command substitution is not
// met when the command fails. In the functions of the loader package that the
// evaluation of conditions reaches, the error of running a command (exec.Cmd.Output /
// CombinedOutput / Run) reaches the caller: no return that follows the call hands back
// a nil error unless the call's own error was nil.
func c02ConditionCommandStatus(e *Env, rule string) {
	r := e.R
	r.Rule(rule, "MPT", "a command substitution that exits non-zero is an error of the evaluation", 1)
	ev := e.FnQuiet(dagRel, "EvalConditions")
	if ev == nil {
		r.Unknown("dag.EvalConditions", dagRel, "not found")
		return
	}
	n := 0
	for _, g := range e.withPkgHelpers(ev) {
		for _, ci := range ir.CallsIn(g, func(c *ssa.CallCommon) bool {
			return ir.IsCallTo(c, "(*os/exec.Cmd).Output", "(*os/exec.Cmd).CombinedOutput", "(*os/exec.Cmd).Run")
		}) {
			call, isC := ci.(*ssa.Call)
			if !isC {
				continue
			}
			n++
			errIdx := g.Signature.Results().Len() - 1
			if errIdx < 0 || !ir.IsErrorType(g.Signature.Results().At(errIdx).Type()) {
				r.Bad(shortName(g)+": the command's failure is reported", e.InstrPos(ci), "the function that runs the substituted command cannot report a failure")
				continue
			}
			var badRet *ssa.Return
			for _, b := range g.Blocks {
				rt, isR := b.Instrs[len(b.Instrs)-1].(*ssa.Return)
				if !isR || !e.Facts(g).Reachable(b) || errIdx >= len(rt.Results) {
					continue
				}
				evv := errOfCall(call)
				if evv == nil {
					badRet = rt // the command's error is dropped on the floor
					continue
				}
				for _, rv := range RetVals(rt, errIdx) {
					// once the command's error is assumed non-nil, no return that may hand back nil is reachable
					if e.mayBeNil(rt, rv) && ir.ReachableAssuming(call, rt, map[ssa.Value]bool{evv: true}) {
						badRet = rt
					}
				}
			}
			pos := e.InstrPos(ci)
			r.Check(badRet == nil, shortName(g)+": a failed command substitution is an error of the evaluation", pos,
				"the evaluation goes on with the output of a command that failed: a precondition such as `test -e FILE` (exit status, no output) compared with an empty expectation counts as met, the guarded step is launched and labelled finished and everything downstream runs instead of being skipped",
				func() string {
					if badRet != nil {
						return "nil can be returned at " + e.InstrPos(badRet) + " although the command's error was not nil"
					}
					return ""
				}())
		}
	}
	if n == 0 {
		r.Unknown("command substitution reached from EvalConditions", dagRel, "no exec.Cmd.Output / Run in the evaluation's closure")
	}
}

// ---------------------------------------------------------------------------
// C18.location-spelling-agrees

// c18LocationSpelling: a DAG has one location, and it is spelled the same way by
// everybody who computes it: the loader (whose result becomes DAG.Location, the key of
// the history and of the socket address) and the definition store (whose Find hands
// the location to the rename / delete of the history). Sibling agreement: the
// functions of these two packages that make a path absolute apply the same set of
// canonicalising library calls. (One side resolving symbolic links and the other not
// gives two keys for one DAG behind a linked directory.)
func c18LocationSpelling(e *Env, rule string) {
	r := e.R
	r.Rule(rule, "SIB/AGR", "loader and definition store spell a DAG's location with the same canonicalisers", 2)
	canon := []string{"path/filepath.Abs", "path/filepath.EvalSymlinks", "os.Readlink", "path/filepath.Rel"}
	isCanon := func(c *ssa.CallCommon) bool { return ir.IsCallTo(c, canon...) }
	type prod struct {
		f   *ssa.Function
		set string
	}
	var prods []prod
	for _, rel := range []string{dagRel, localRel} {
		sp := e.P.Pkg(rel)
		if sp == nil {
			r.Unknown("package "+rel, "-", "not loaded")
			return
		}
		for _, f := range e.RepoFuncsSorted() {
			if f.Package() != sp || f.Parent() != nil || f.Synthetic != "" || f.Blocks == nil {
				continue
			}
			// producers: functions that return a string and make a path absolute themselves
			// or through a helper of the package nobody else shares
			res := f.Signature.Results()
			if res.Len() == 0 || res.At(0).Type().String() != "string" {
				continue
			}
			seen := map[string]bool{}
			for _, g := range e.withPkgHelpers(f) {
				for _, ci := range ir.CallsIn(g, isCanon) {
					seen[ir.CalleeName(ci.Common())] = true
				}
			}
			if !seen["path/filepath.Abs"] {
				continue
			}
			var names []string
			for k := range seen {
				names = append(names, k)
			}
			sort.Strings(names)
			prods = append(prods, prod{f, strings.Join(names, ", ")})
		}
	}
	if len(prods) < 2 {
		r.Unknown("functions computing a DAG's absolute location", "-", "fewer than two found")
		return
	}
	ref := prods[0]
	for _, p := range prods {
		if p.f.Package().Pkg.Path() != ref.f.Package().Pkg.Path() {
			break
		}
	}
	// the reference is the loader's (the location every run is keyed by)
	for _, p := range prods {
		if strings.HasSuffix(p.f.Package().Pkg.Path(), dagRel) {
			ref = p
			break
		}
	}
	for _, p := range prods {
		r.Check(p.set == ref.set, shortName(p.f)+": spells the location like the loader does", e.Pos(p.f.Pos()),
			"two functions compute a DAG's location with different canonicalisations: for a DAGs directory (or file) reached through a symbolic link the definition store and the runs disagree about the key of the history - a rename moves no history (and reports success), the runs recorded so far surface under whatever DAG is created under the old name",
			shortName(p.f)+" applies {"+p.set+"}, "+shortName(ref.f)+" applies {"+ref.set+"}")
	}
}

// ---------------------------------------------------------------------------
// C16.socket-json-is-status

// c16SocketJSONIsStatus: whatever the run's socket answers in JSON is a status. The
// probe (and the status getter) parse the body of every answer, whatever its HTTP
// code, as a status record; an error answer is kept apart from a status only by not
// being a JSON object. So in the agent's handler, JSON written to the client is made
// from a model.Status and from nothing else. (An error object {"Code","Message"}
// decodes into a zero status: `not started`, and a second run is admitted.)
func c16SocketJSONIsStatus(e *Env, rule string) {
	r := e.R
	r.Rule(rule, "VF", "the agent's socket handler emits JSON only for a status", 1)
	h := e.FnQuiet("internal/agent", "(*Agent).HandleHTTP")
	if h == nil {
		r.Unknown("agent.HandleHTTP", "internal/agent", "not found")
		return
	}
	// the handler with the closures it returns / registers and the helpers of the package
	fns := map[*ssa.Function]bool{}
	var add func(f *ssa.Function, d int)
	add = func(f *ssa.Function, d int) {
		if f == nil || fns[f] || f.Blocks == nil || d > 6 {
			return
		}
		fns[f] = true
		for _, a := range f.AnonFuncs {
			add(a, d+1)
		}
		for _, ci := range ir.CallsIn(f, func(c *ssa.CallCommon) bool { return c.StaticCallee() != nil }) {
			g := ci.Common().StaticCallee()
			if e.P.Funcs[g] && rootFn(g).Package() == h.Package() {
				add(g, d+1)
			}
		}
	}
	add(h, 0)
	isStatus := func(v ssa.Value) bool {
		v = ir.Resolve(v)
		for d := 0; d < 3; d++ {
			if mi, ok := v.(*ssa.MakeInterface); ok {
				v = ir.Resolve(mi.X)
				continue
			}
			break
		}
		return strings.HasSuffix(ir.NamedType(derefT(v.Type())), "internal/persistence/model.Status")
	}
	n := 0
	for _, f := range sortedFns(fns) {
		for _, ci := range ir.CallsIn(f, func(c *ssa.CallCommon) bool {
			return ir.IsCallTo(c, "encoding/json.Marshal", "encoding/json.MarshalIndent", "(*encoding/json.Encoder).Encode")
		}) {
			n++
			arg := ci.Common().Args[len(ci.Common().Args)-1]
			if ir.IsCallTo(ci.Common(), "encoding/json.MarshalIndent") {
				arg = ci.Common().Args[0]
			}
			r.Check(isStatus(arg), shortName(f)+": JSON written by the run's socket is a status", e.InstrPos(ci),
				"the run's socket answers with a JSON object that is not a status: the already-running probe and the status getter decode every answer as a status record, an object of another shape decodes into the zero status (`not started`), and while the run is alive a second run of the same DAG is admitted",
				"encoded value: "+e.C.Render(ir.Resolve(arg)))
		}
	}
	if n == 0 {
		r.OK("agent socket handler: no JSON is produced outside the status record's own encoder", e.Pos(h.Pos()), sprintf("%d functions of the handler's closure examined", len(fns)))
	}
}

// ---------------------------------------------------------------------------
// C13.recorded-step-is-plain-data

// c13StepIsPlainData: a step is written into the run's record and rebuilt from it (a
// retry runs the recorded steps), so a step is what its exported fields say. Every
// struct type of the loader package reachable from dag.Step through fields, pointers,
// slices and maps - except types that encode themselves (MarshalJSON / UnmarshalJSON) -
// has exported fields only: state kept in an unexported field (a compiled pattern, a
// cache) exists after a load and is gone after the round trip through the record.
func c13StepIsPlainData(e *Env, rule string) {
	r := e.R
	r.Rule(rule, "COV", "every field of the types a recorded step is made of is exported", 1)
	dp := e.P.Pkg(dagRel)
	if dp == nil || dp.Type("Step") == nil {
		r.Unknown("dag.Step", dagRel, "not found")
		return
	}
	seen := map[types.Type]bool{}
	n := 0
	var walk func(t types.Type, via string, d int)
	walk = func(t types.Type, via string, d int) {
		if d > 8 {
			return
		}
		switch x := t.(type) {
		case *types.Pointer:
			walk(x.Elem(), via, d+1)
			return
		case *types.Slice:
			walk(x.Elem(), via, d+1)
			return
		case *types.Array:
			walk(x.Elem(), via, d+1)
			return
		case *types.Map:
			walk(x.Key(), via, d+1)
			walk(x.Elem(), via, d+1)
			return
		}
		nt, ok := t.(*types.Named)
		if !ok || seen[nt] || nt.Obj().Pkg() == nil || nt.Obj().Pkg() != dp.Pkg {
			return
		}
		seen[nt] = true
		st, ok := nt.Underlying().(*types.Struct)
		if !ok {
			return
		}
		// a type that encodes itself decides what survives
		ms := types.NewMethodSet(types.NewPointer(nt))
		for i := 0; i < ms.Len(); i++ {
			if nm := ms.At(i).Obj().Name(); nm == "UnmarshalJSON" || nm == "MarshalJSON" {
				return
			}
		}
		for i := 0; i < st.NumFields(); i++ {
			fd := st.Field(i)
			n++
			tag := ""
			if i < st.NumFields() {
				tag = st.Tag(i)
			}
			_ = tag
			r.Check(fd.Exported(), "recorded step: "+nt.Obj().Name()+"."+fd.Name()+" is an exported field", e.Pos(fd.Pos()),
				"a type the recorded step is made of keeps state in an unexported field: it is set by the loader and missing in a step rebuilt from the run's record, so a retry evaluates / executes a step that is not the one that was loaded (a nil compiled pattern is dereferenced by the scheduler's precondition test and the process crashes)",
				"reached from dag.Step through "+via)
			walk(fd.Type(), via+"."+fd.Name(), d+1)
		}
	}
	walk(dp.Type("Step").Type(), "Step", 0)
	if n == 0 {
		r.Unknown("fields of dag.Step", dagRel, "none found")
	}
}
