package rules

import (
	"go/types"
	"sort"
	"strings"

	"golang.org/x/tools/go/ssa"

	"bdcheck/internal/ir"
	"bdcheck/internal/load"
)

// Lock discipline of the run state that several goroutines share (the
// scheduling loop, the step workers, the agent's status handler and signal
// path). The protected fields are not listed by hand: a field of a struct with
// a mutex is *protected* when the code itself writes it with that mutex held
// and reads it with that mutex held somewhere outside the construction phase.
// The rule then demands consistency:
//
//	W  every other write of a protected field also holds the write lock
//	R  a protected field of a Node is read from outside the Node's own methods
//	   only with the lock held (other goroutines see a node through accessors)
//
// An access is also accepted when the object is fresh (allocated in the same
// function), when every static caller holds the lock for the corresponding
// argument (helpers called under the caller's lock), or in the construction
// phase (functions that allocate the shared container, and functions called
// only from those): nothing is shared yet.
type lockOwner struct {
	typ        string   // named struct type, relative to the module
	containers []string // allocating one of these also starts a construction phase
	readsToo   bool     // apply rule R
	minFields  int      // anti-vacuity: protected fields expected at least
}

var lockOwners = []lockOwner{
	{typ: "internal/dag/scheduler.Node", containers: []string{"internal/dag/scheduler.ExecutionGraph"}, readsToo: true, minFields: 5},
	{typ: "internal/dag/scheduler.Scheduler", minFields: 1},
	{typ: "internal/dag/scheduler.ExecutionGraph", minFields: 1},
}

type lockRule struct {
	e      *Env
	facts  map[*ssa.Function]*ir.LockFacts
	accs   map[*ssa.Function][]ir.FieldAccess
	cphase map[string]map[*ssa.Function]bool
}

func (lr *lockRule) locks(f *ssa.Function) *ir.LockFacts {
	if x, ok := lr.facts[f]; ok {
		return x
	}
	x := lr.e.C.Locks(f)
	lr.facts[f] = x
	return x
}

func isFresh(root ssa.Value) bool {
	switch ir.Resolve(root).(type) {
	case *ssa.Alloc, *ssa.MakeMap, *ssa.MakeSlice:
		return true
	}
	return false
}

// leafField: the path up to and including the first field that is not a struct
// embedded by value is what we call "the field" (data.State.Status, cmd ...).
func protectedKey(path string) string {
	parts := strings.Split(path, ".")
	if len(parts) > 3 {
		parts = parts[:3]
	}
	return strings.Join(parts, ".")
}

func (lr *lockRule) constructionPhase(o lockOwner) map[*ssa.Function]bool {
	if m, ok := lr.cphase[o.typ]; ok {
		return m
	}
	e := lr.e
	want := map[string]bool{load.ModulePath + "/" + o.typ: true}
	for _, c := range o.containers {
		want[load.ModulePath+"/"+c] = true
	}
	cp := map[*ssa.Function]bool{}
	for _, f := range e.RepoFuncsSorted() {
		for _, b := range f.Blocks {
			for _, in := range b.Instrs {
				if al, ok := in.(*ssa.Alloc); ok && want[ir.NamedType(al.Type())] {
					cp[f] = true
				}
			}
		}
		// constructors by signature: a function that returns the owner (or its container)
		if f.Parent() == nil {
			res := f.Signature.Results()
			for i := 0; i < res.Len(); i++ {
				if _, isPtr := res.At(i).Type().(*types.Pointer); isPtr && want[ir.NamedType(res.At(i).Type())] {
					cp[f] = true
				}
			}
		}
	}
	for changed := true; changed; {
		changed = false
		for _, f := range e.RepoFuncsSorted() {
			if cp[f] || f.Parent() != nil {
				continue
			}
			sites := e.StaticCallSites(f)
			if len(sites) == 0 {
				continue
			}
			all := true
			for _, s := range sites {
				if !cp[rootFn(s.Parent())] && !cp[s.Parent()] {
					all = false
				}
			}
			if all {
				cp[f] = true
				changed = true
			}
		}
	}
	lr.cphase[o.typ] = cp
	return cp
}

// callerHolds: every static caller of f holds mu on the argument bound to root
// (a parameter of f), is itself covered, or passes a fresh object.
func (lr *lockRule) callerHolds(f *ssa.Function, root ssa.Value, mu string, write bool, depth int, cp map[*ssa.Function]bool) bool {
	p, ok := ir.Resolve(root).(*ssa.Parameter)
	if !ok || p.Parent() != f || depth > 3 {
		return false
	}
	idx := paramIndex(p)
	sites := lr.e.StaticCallSites(f)
	if len(sites) == 0 || idx < 0 {
		return false
	}
	for _, s := range sites {
		if idx >= len(s.Common().Args) {
			return false
		}
		arg := s.Common().Args[idx]
		g := s.Parent()
		if g.Synthetic != "" {
			// a method value (bound-method wrapper): it is called where the closure is
			// used; accepted when every place that creates it holds the lock on the
			// receiver there and keeps it until the function returns
			if !lr.boundHeld(g, mu, write, cp) {
				return false
			}
			continue
		}
		switch {
		case cp[g] || cp[rootFn(g)]:
		case isFresh(arg):
		case lr.locks(g).Holds(s, arg, mu, write):
		case lr.callerHolds(g, arg, mu, write, depth+1, cp):
		default:
			return false
		}
	}
	return true
}

// boundHeld: every creation site of the bound-method closure w holds mu on the
// bound receiver, from the creation to every return of the creating function.
func (lr *lockRule) boundHeld(w *ssa.Function, mu string, write bool, cp map[*ssa.Function]bool) bool {
	n := 0
	for _, f := range lr.e.RepoFuncsSorted() {
		for _, b := range f.Blocks {
			for _, in := range b.Instrs {
				mc, ok := in.(*ssa.MakeClosure)
				if !ok || mc.Fn != ssa.Value(w) || len(mc.Bindings) == 0 {
					continue
				}
				n++
				if cp[f] || cp[rootFn(f)] {
					continue
				}
				recv := mc.Bindings[0]
				lf := lr.locks(f)
				if !lf.Holds(mc, recv, mu, write) {
					return false
				}
				for _, rb := range f.Blocks {
					if rt, isR := rb.Instrs[len(rb.Instrs)-1].(*ssa.Return); isR && lf.Reached(rb) {
						if !lf.Holds(rt, recv, mu, write) {
							return false
						}
					}
				}
			}
		}
	}
	return n > 0
}

func cLockDiscipline(e *Env) {
	r := e.R
	r.Rule("C08.state-lock", "LOCKSET (must-hold dataflow) + WMW", "run state written under its mutex everywhere; node state read from outside only under it", 3)
	lr := &lockRule{e: e, facts: map[*ssa.Function]*ir.LockFacts{}, accs: map[*ssa.Function][]ir.FieldAccess{}, cphase: map[string]map[*ssa.Function]bool{}}
	fns := e.RepoFuncsSorted()
	for _, o := range lockOwners {
		full := load.ModulePath + "/" + o.typ
		// the mutex and what it protects may have moved into a struct the owner embeds
		// by value (`Scheduler{runState}`): the discipline is then that struct's
		if i := strings.LastIndex(o.typ, "."); i > 0 {
			if pk := e.P.Pkg(o.typ[:i]); pk != nil {
				if tn := pk.Type(o.typ[i+1:]); tn != nil && len(ir.MutexFields(tn.Type())) == 0 {
					if st, isS := tn.Type().Underlying().(*types.Struct); isS {
						var homes []string
						for k := 0; k < st.NumFields(); k++ {
							fd := st.Field(k)
							if _, isES := fd.Type().Underlying().(*types.Struct); isES && fd.Embedded() && fd.Pkg() == pk.Pkg && len(ir.MutexFields(fd.Type())) > 0 {
								homes = append(homes, ir.NamedType(fd.Type()))
							}
						}
						if len(homes) == 1 {
							full = homes[0]
						}
					}
				}
			}
		}
		cp := lr.constructionPhase(o)
		type acc struct {
			f *ssa.Function
			a ir.FieldAccess
		}
		var all []acc
		var mus []string
		for _, f := range fns {
			if strings.HasPrefix(ShortFn(rootFn(f)), "internal/test") {
				continue
			}
			if _, ok := lr.accs[f]; !ok {
				lr.accs[f] = e.C.FieldAccesses(f)
			}
			for _, a := range lr.accs[f] {
				if a.Struct != full {
					continue
				}
				if mus == nil {
					mus = ir.MutexFields(a.Root.Type())
				}
				all = append(all, acc{f, a})
			}
		}
		if len(mus) == 0 {
			r.Unknown("lock discipline: "+o.typ, "-", "the type has no mutex field (or is never accessed)")
			continue
		}
		mu := mus[0]
		for _, m := range mus {
			if m == "mu" {
				mu = m
			}
		}
		isMu := func(p string) bool {
			for _, m := range mus {
				if p == m || strings.HasPrefix(p, m+".") {
					return true
				}
			}
			return false
		}
		// protected: outside the construction phase the field is written with the lock
		// held somewhere AND read with the lock held somewhere (evidence that another
		// party looks at it under the mutex; a flag only its single owner touches is not)
		wLocked := map[string]bool{}
		var rLocked []string
		for _, x := range all {
			if isMu(x.a.Path) || cp[x.f] || cp[rootFn(x.f)] {
				continue
			}
			if !lr.locks(x.f).Holds(x.a.Instr, x.a.Root, mu, x.a.Write) {
				continue
			}
			if x.a.Write {
				wLocked[protectedKey(x.a.Path)] = true
			} else {
				rLocked = append(rLocked, x.a.Path)
			}
		}
		protected := map[string]bool{}
		for k := range wLocked {
			for _, p := range rLocked {
				if p == k || strings.HasPrefix(k, p+".") || strings.HasPrefix(p, k+".") {
					protected[k] = true
				}
			}
		}
		var plist []string
		for k := range protected {
			plist = append(plist, k)
		}
		sort.Strings(plist)
		r.Info["C08.state-lock.protected."+o.typ] = plist
		if len(plist) < o.minFields {
			r.Bad("lock discipline: "+o.typ+" has lock-protected fields", "-",
				sprintf("only %d field(s) of the type are ever written with %s held (expected at least %d): the run state is no longer kept under its mutex", len(plist), mu, o.minFields))
			continue
		}
		covered := func(x acc) bool {
			if lr.locks(x.f).Holds(x.a.Instr, x.a.Root, mu, x.a.Write) {
				return true
			}
			if isFresh(x.a.Root) || cp[x.f] || cp[rootFn(x.f)] {
				return true
			}
			return lr.callerHolds(x.f, x.a.Root, mu, x.a.Write, 0, cp)
		}
		isMethodOfOwner := func(f *ssa.Function) bool {
			g := rootFn(f)
			if g.Signature.Recv() == nil {
				return false
			}
			return ir.NamedType(g.Signature.Recv().Type()) == full
		}
		type site struct {
			pos   string
			field string
		}
		badW := map[string][]site{}
		badR := map[string][]site{}
		okCount := 0
		for _, x := range all {
			if isMu(x.a.Path) {
				continue
			}
			k := protectedKey(x.a.Path)
			prot := protected[k]
			if !prot {
				// a write of the whole enclosing struct also writes its protected parts
				for p := range protected {
					if strings.HasPrefix(p, x.a.Path+".") && x.a.Write {
						prot = true
					}
				}
			}
			if !prot {
				continue
			}
			if x.a.Write {
				if covered(x) {
					okCount++
				} else {
					badW[ShortFn(x.f)] = append(badW[ShortFn(x.f)], site{e.InstrPos(x.a.Instr), x.a.Path})
				}
				continue
			}
			if o.readsToo && !isMethodOfOwner(x.f) {
				if covered(x) {
					okCount++
				} else {
					badR[ShortFn(x.f)] = append(badR[ShortFn(x.f)], site{e.InstrPos(x.a.Instr), x.a.Path})
				}
			}
		}
		short := o.typ[strings.LastIndex(o.typ, ".")+1:]
		report := func(m map[string][]site, kind, detail string) {
			// one obligation per field (not per function: moving the access into another
			// function must not look like a new report); the sites are listed as facts
			byField := map[string][]string{}
			first := map[string]string{}
			var fs []string
			for f := range m {
				fs = append(fs, f)
			}
			sort.Strings(fs)
			for _, f := range fs {
				for _, s := range m[f] {
					k := protectedKey(s.field)
					byField[k] = append(byField[k], s.pos+" in "+f)
					if first[k] == "" {
						first[k] = s.pos
					}
				}
			}
			var fields []string
			for k := range byField {
				fields = append(fields, k)
			}
			sort.Strings(fields)
			for _, k := range fields {
				r.Bad(short+"."+k+": "+kind+" without "+short+"."+mu, first[k], detail, "sites: "+strings.Join(dedupe(byField[k]), "; "))
			}
		}
		report(badW, "write", "a field that the code otherwise writes under the mutex is written here without it, while the agent's status handler / other workers read the run state under that mutex: a data race - the recorded or reported status can contain a torn or stale value (for an interface-typed field such as an error, a torn value can crash the reader)")
		report(badR, "read", "node state is read from outside the node's own methods without the node's mutex while its worker writes it under the mutex: the scheduler decides on a torn or stale state")
		if len(badW) == 0 && len(badR) == 0 {
			r.OK(short+": every write of "+strings.Join(plist, ", ")+" holds "+short+"."+mu, "-", sprintf("%d accesses covered (lock held, fresh object, caller holds the lock, or construction phase)", okCount))
		} else {
			for i := 0; i < okCount && i < 1; i++ {
				r.OK(short+": other accesses hold "+short+"."+mu, "-", sprintf("%d accesses covered", okCount))
			}
		}
	}
}
