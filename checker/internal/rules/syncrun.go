package rules

import (
	"go/token"
	"go/types"
	"strings"

	"golang.org/x/tools/go/ssa"

	"bdcheck/internal/ir"
	"bdcheck/internal/load"
)

// syncParts splits what a function does into the part that has completed when it
// returns (itself, the repository functions it calls, closures it calls or defers)
// and the part it only starts (go statements: their callees, closures handed to a
// function that launches its parameter). A function found both ways is reported in
// both sets.
func (e *Env) syncParts(root *ssa.Function) (sync, async map[*ssa.Function]bool) {
	sync, async = map[*ssa.Function]bool{}, map[*ssa.Function]bool{}
	// functions that launch one of their func-typed parameters in a goroutine
	launches := func(f *ssa.Function) map[int]bool {
		out := map[int]bool{}
		for _, b := range f.Blocks {
			for _, in := range b.Instrs {
				g, ok := in.(*ssa.Go)
				if !ok {
					continue
				}
				if p, isP := ir.Resolve(g.Call.Value).(*ssa.Parameter); isP {
					for k, q := range f.Params {
						if q == p {
							out[k] = true
						}
					}
				}
			}
		}
		return out
	}
	type item struct {
		f     *ssa.Function
		async bool
	}
	work := []item{{root, false}}
	for len(work) > 0 {
		it := work[len(work)-1]
		work = work[:len(work)-1]
		set := sync
		if it.async {
			set = async
		}
		if set[it.f] || it.f.Blocks == nil {
			continue
		}
		set[it.f] = true
		// closures created here: by how they are used
		goClos := map[*ssa.Function]bool{}
		for _, b := range it.f.Blocks {
			for _, in := range b.Instrs {
				switch x := in.(type) {
				case *ssa.Go:
					if c := x.Call.StaticCallee(); c != nil && e.P.Funcs[c] {
						goClos[c] = true
						work = append(work, item{c, true})
					}
				case ssa.CallInstruction:
					c := x.Common().StaticCallee()
					if c == nil || !e.P.Funcs[c] {
						continue
					}
					work = append(work, item{c, it.async})
					if ls := launches(c); len(ls) > 0 {
						for k := range ls {
							if k < len(x.Common().Args) {
								if mc, ok := ir.Resolve(x.Common().Args[k]).(*ssa.MakeClosure); ok {
									cf := mc.Fn.(*ssa.Function)
									goClos[cf] = true
									work = append(work, item{cf, true})
								}
							}
						}
					}
				}
			}
		}
		for _, cl := range it.f.AnonFuncs {
			if !goClos[cl] {
				work = append(work, item{cl, it.async})
			}
		}
	}
	return sync, async
}

// cSyncRun: the step's command has ended when (*Node).Execute returns. Everything
// the scheduler derives from a node's status - a dependent may start (C01), the
// concurrency slot is free (C15) - is written by the worker after Execute returned,
// so it is only true of the command if the executor's Run call is made, and
// awaited, by Execute itself: Run is invoked in the part of Execute that has
// completed when it returns, and never in a goroutine it merely starts.
func cSyncRun(e *Env, s *Sched, rule string) {
	r := e.R
	r.Rule(rule, "MPT (sync/async partition of the call tree)", "Node.Execute invokes the executor's Run itself and returns after it", 1)
	isExecRun := isExecutorRun
	sync, async := e.syncParts(s.Execute)
	nSync := 0
	for _, f := range sortedFns(sync) {
		nSync += len(ir.CallsIn(f, isExecRun))
	}
	nAsync := 0
	for _, f := range sortedFns(async) {
		for _, ci := range ir.CallsIn(f, isExecRun) {
			if e.awaitedGo(ci, sync) {
				nSync++ // started in a goroutine whose completion is awaited on every path: as good as a call
				continue
			}
			nAsync++
			r.Bad("Node.Execute: the executor's Run is not started in a goroutine Execute may leave behind", e.InstrPos(ci),
				"the step's command runs in a goroutine that Node.Execute only starts: Execute can return (and the worker mark the node finished / canceled, freeing its maxActiveRuns slot and releasing its dependents) while the command is still executing")
		}
	}
	if nSync == 0 {
		r.Bad("Node.Execute: invokes the executor's Run before it returns", e.Pos(s.Execute.Pos()),
			"no invocation of Executor.Run in the part of Node.Execute that has completed when it returns")
		return
	}
	r.OK("Node.Execute: invokes the executor's Run before it returns", e.Pos(s.Execute.Pos()), sprintf("%d synchronous invocation(s)", nSync))
	if nAsync == 0 {
		r.OK("Node.Execute: the executor's Run is not started in a goroutine Execute may leave behind", e.Pos(s.Execute.Pos()), "")
	}
}

// awaitedGo: the instruction lies in a function launched by a go statement of a
// function in `sync`, signals its completion on a channel on every path after the
// instruction (send, close, deferred close), and the launching function receives
// from that channel on every path from the go statement to its returns (a select
// counts only when all its cases are such receives).
func (e *Env) awaitedGo(in ssa.Instruction, sync map[*ssa.Function]bool) bool {
	cl := in.Parent()
	var launch *ssa.Go
	n := 0
	for h := range sync {
		for _, b := range h.Blocks {
			for _, x := range b.Instrs {
				if g, ok := x.(*ssa.Go); ok && g.Call.StaticCallee() == cl {
					launch = g
					n++
				}
			}
		}
	}
	if n != 1 {
		return false
	}
	h := launch.Parent()
	// the channel as seen by the launcher
	up := func(c ssa.Value) ssa.Value {
		c = ir.Resolve(c)
		switch x := c.(type) {
		case *ssa.FreeVar:
			return ir.Deep(x)
		case *ssa.Parameter:
			for k, q := range cl.Params {
				if q == x && k < len(launch.Call.Args) {
					return ir.Resolve(launch.Call.Args[k])
				}
			}
		}
		return ir.Deep(c)
	}
	signals := func(x ssa.Instruction) ssa.Value {
		switch y := x.(type) {
		case *ssa.Send:
			return y.Chan
		case ssa.CallInstruction:
			if bi, ok := y.Common().Value.(*ssa.Builtin); ok && bi.Name() == "close" && len(y.Common().Args) == 1 {
				return y.Common().Args[0]
			}
		}
		return nil
	}
	chans := map[ssa.Value]bool{}
	for _, b := range cl.Blocks {
		for _, x := range b.Instrs {
			if c := signals(x); c != nil {
				if u := up(c); u != nil && (u.Parent() == h) {
					chans[u] = true
				}
			}
		}
	}
	if len(chans) == 0 {
		return false
	}
	isSignal := func(x ssa.Instruction) bool {
		c := signals(x)
		return c != nil && chans[up(c)]
	}
	isRet := func(x ssa.Instruction) bool { _, ok := x.(*ssa.Return); return ok }
	// (1) the goroutine signals on every path after the instruction
	if bad, _ := ir.Bypass(in, nil, ir.PathQuery{Stop: isSignal, Bad: isRet,
		DeferStop: func(d *ssa.Defer) bool { return isSignal(d) }}); bad != nil {
		return false
	}
	// a deferred signal installed after the instruction does not cover a panic-free early path before it: Bypass handles order
	isRecv := func(x ssa.Instruction) bool {
		switch y := x.(type) {
		case *ssa.UnOp:
			return y.Op == token.ARROW && chans[ir.Deep(y.X)]
		case *ssa.Select:
			if !y.Blocking || len(y.States) == 0 {
				return false
			}
			for _, st := range y.States {
				if st.Dir != types.RecvOnly || !chans[ir.Deep(st.Chan)] {
					return false
				}
			}
			return true
		}
		return false
	}
	// (2) the launcher receives on every path from the go statement to a return
	bad, _ := ir.Bypass(launch, nil, ir.PathQuery{Stop: isRecv, Bad: isRet})
	return bad == nil
}

// isExecutorRun: an invocation of Run on the repository's executor interface.
func isExecutorRun(c *ssa.CallCommon) bool {
	if !c.IsInvoke() || c.Method.Name() != "Run" {
		return false
	}
	n := ir.NamedType(c.Value.Type())
	if !strings.HasPrefix(n, load.ModulePath) {
		return false
	}
	_, isIface := c.Value.Type().Underlying().(*types.Interface)
	return isIface && strings.Contains(n, "/executor.")
}

// cExecErrorReported: what Node.Execute reports after running the command is the
// executor's Run result. In the part of Execute that has completed when it returns,
// every error it returns after the Run, and every error it records in the node
// (SetError / State.Error) after the Run, is - on every way the value can get there -
// the result of that Run (directly, or as handed back by a helper that made the call),
// or a read-back of the node's recorded error. An error variable that something else
// is assigned to on the way (the close of the capture pipe) turns a failed command
// into a success: the step is labelled finished, its dependents run.
func cExecErrorReported(e *Env, s *Sched, rule string) {
	r := e.R
	r.Rule(rule, "VF", "after Run, Node.Execute returns and records the Run result", 1)
	sync, _ := e.syncParts(s.Execute)
	// helpers whose result is the Run result
	var runResult func(v ssa.Value, d int) bool
	runResult = func(v ssa.Value, d int) bool {
		v = ir.Resolve(v)
		if d > 4 {
			return false
		}
		idx := 0
		if ex, ok := v.(*ssa.Extract); ok {
			v, idx = ex.Tuple, ex.Index
		}
		c, ok := v.(*ssa.Call)
		if !ok {
			return false
		}
		if isExecutorRun(&c.Call) {
			return true
		}
		g := c.Call.StaticCallee()
		if g == nil || !sync[g] || g.Blocks == nil {
			return false
		}
		n := 0
		for _, b := range g.Blocks {
			rt, isR := b.Instrs[len(b.Instrs)-1].(*ssa.Return)
			if !isR || idx >= len(rt.Results) || !e.Facts(g).Reachable(b) {
				continue
			}
			for _, rv := range RetVals(rt, idx) {
				for _, leaf := range phiLeaves(rv) {
					n++
					if !runResult(leaf, d+1) {
						return false
					}
				}
			}
		}
		return n > 0
	}
	isRecorded := func(v ssa.Value) bool {
		p, ok := e.C.PathOf(ir.Resolve(v))
		return ok && p.Suffix("State.Error")
	}
	okLeaf := func(v ssa.Value) bool { return runResult(v, 0) || isRecorded(v) }
	nSites := 0
	for _, f := range sortedFns(sync) {
		if f != s.Execute && ir.UniqueSite(f) == nil {
			continue
		}
		var runs []ssa.Instruction
		for _, b := range f.Blocks {
			for _, in := range b.Instrs {
				if v, ok := in.(ssa.Value); ok {
					if c, isC := in.(*ssa.Call); isC && runResult(v, 0) && (isExecutorRun(&c.Call) || true) {
						runs = append(runs, in)
					}
				}
			}
		}
		if len(runs) == 0 {
			continue
		}
		after := func(in ssa.Instruction) bool {
			for _, rn := range runs {
				if ir.Precedes(rn, in) {
					return true
				}
			}
			return false
		}
		name := shortName(f)
		for _, b := range f.Blocks {
			for _, in := range b.Instrs {
				switch x := in.(type) {
				case *ssa.Return:
					res := f.Signature.Results()
					if res.Len() == 0 || !ir.IsErrorType(res.At(res.Len()-1).Type()) || !after(x) {
						continue
					}
					nSites++
					okAll := true
					var facts []string
					for _, rv := range RetVals(x, res.Len()-1) {
						for _, leaf := range phiLeaves(rv) {
							if !okLeaf(leaf) {
								okAll = false
								facts = append(facts, "can return "+e.C.Render(ir.Resolve(leaf)))
							}
							// a read-back of the recorded error stands for the Run result only if the
							// Run result was recorded before
							if !runResult(leaf, 0) && isRecorded(leaf) {
								rec := false
								for _, b2 := range f.Blocks {
									for _, in2 := range b2.Instrs {
										c2, isC := in2.(*ssa.Call)
										if !isC || len(c2.Call.Args) != 2 || !ir.Precedes(c2, x) {
											continue
										}
										if g2 := c2.Call.StaticCallee(); g2 != nil && len(e.C.FieldStores(g2, "State.Error")) > 0 {
											all := true
											for _, lf := range phiLeaves(c2.Call.Args[1]) {
												if !runResult(lf, 0) {
													all = false
												}
											}
											if all {
												rec = true
											}
										}
									}
								}
								if !rec {
									okAll = false
									facts = append(facts, "returns the node's recorded error, but the Run result was not recorded before")
								}
							}
						}
					}
					r.Check(okAll, name+": the error returned after Run is the Run result", e.InstrPos(x),
						"after the command ran, the step's execution can report something other than the command's result (an error variable reused for another call): a failed command is reported as success, the step is labelled finished and its dependents run", facts...)
				case *ssa.Call:
					if !after(x) {
						continue
					}
					g := x.Call.StaticCallee()
					isSet := g != nil && g.Signature.Recv() != nil && strings.HasSuffix(ir.NamedType(g.Signature.Recv().Type()), schedRel+".Node") && len(x.Call.Args) == 2 && ir.IsErrorType(x.Call.Args[1].Type())
					if !isSet {
						continue
					}
					// a setter of the node's recorded error: stores its argument into State.Error
					stores := false
					for _, ev := range e.C.FieldStores(g, "State.Error") {
						if ir.Resolve(ev.Val) == ssa.Value(g.Params[1]) {
							stores = true
						}
					}
					if !stores {
						continue
					}
					nSites++
					okAll := true
					var facts []string
					for _, leaf := range phiLeaves(x.Call.Args[1]) {
						if !okLeaf(leaf) {
							okAll = false
							facts = append(facts, "can record "+e.C.Render(ir.Resolve(leaf)))
						}
					}
					r.Check(okAll, name+": the error recorded in the node after Run is the Run result", e.InstrPos(x),
						"after the command ran, the node's recorded error can be something other than the command's result", facts...)
				}
			}
		}
	}
	if nSites == 0 {
		r.Unknown("Node.Execute: what is returned / recorded after the executor's Run", e.Pos(s.Execute.Pos()), "no return of an error or SetError after the Run found")
	}
}
