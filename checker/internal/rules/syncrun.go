package rules

import (
	"go/token"
	"go/types"
	"strings"

	"golang.org/x/tools/go/ssa"

	"bdcheck/internal/ir"
	"bdcheck/internal/load"
)

// syncParts splits what a function does into the part that has completed when it
// returns (itself, the repository functions it calls, closures it calls or defers)
// and the part it only starts (go statements: their callees, closures handed to a
// function that launches its parameter). A function found both ways is reported in
// both sets.
func (e *Env) syncParts(root *ssa.Function) (sync, async map[*ssa.Function]bool) {
	sync, async = map[*ssa.Function]bool{}, map[*ssa.Function]bool{}
	// functions that launch one of their func-typed parameters in a goroutine
	launches := func(f *ssa.Function) map[int]bool {
		out := map[int]bool{}
		for _, b := range f.Blocks {
			for _, in := range b.Instrs {
				g, ok := in.(*ssa.Go)
				if !ok {
					continue
				}
				if p, isP := ir.Resolve(g.Call.Value).(*ssa.Parameter); isP {
					for k, q := range f.Params {
						if q == p {
							out[k] = true
						}
					}
				}
			}
		}
		return out
	}
	type item struct {
		f     *ssa.Function
		async bool
	}
	work := []item{{root, false}}
	for len(work) > 0 {
		it := work[len(work)-1]
		work = work[:len(work)-1]
		set := sync
		if it.async {
			set = async
		}
		if set[it.f] || it.f.Blocks == nil {
			continue
		}
		set[it.f] = true
		// closures created here: by how they are used
		goClos := map[*ssa.Function]bool{}
		for _, b := range it.f.Blocks {
			for _, in := range b.Instrs {
				switch x := in.(type) {
				case *ssa.Go:
					if c := x.Call.StaticCallee(); c != nil && e.P.Funcs[c] {
						goClos[c] = true
						work = append(work, item{c, true})
					}
				case ssa.CallInstruction:
					c := x.Common().StaticCallee()
					if c == nil || !e.P.Funcs[c] {
						continue
					}
					work = append(work, item{c, it.async})
					if ls := launches(c); len(ls) > 0 {
						for k := range ls {
							if k < len(x.Common().Args) {
								if mc, ok := ir.Resolve(x.Common().Args[k]).(*ssa.MakeClosure); ok {
									cf := mc.Fn.(*ssa.Function)
									goClos[cf] = true
									work = append(work, item{cf, true})
								}
							}
						}
					}
				}
			}
		}
		for _, cl := range it.f.AnonFuncs {
			if !goClos[cl] {
				work = append(work, item{cl, it.async})
			}
		}
	}
	return sync, async
}

// cSyncRun: the step's command has ended when (*Node).Execute returns. Everything
// the scheduler derives from a node's status - a dependent may start (C01), the
// concurrency slot is free (C15) - is written by the worker after Execute returned,
// so it is only true of the command if the executor's Run call is made, and
// awaited, by Execute itself: Run is invoked in the part of Execute that has
// completed when it returns, and never in a goroutine it merely starts.
func cSyncRun(e *Env, s *Sched, rule string) {
	r := e.R
	r.Rule(rule, "MPT (sync/async partition of the call tree)", "Node.Execute invokes the executor's Run itself and returns after it", 1)
	isExecRun := func(c *ssa.CallCommon) bool {
		if !c.IsInvoke() || c.Method.Name() != "Run" {
			return false
		}
		n := ir.NamedType(c.Value.Type())
		if !strings.HasPrefix(n, load.ModulePath) {
			return false
		}
		_, isIface := c.Value.Type().Underlying().(*types.Interface)
		return isIface && strings.Contains(n, "/executor.")
	}
	sync, async := e.syncParts(s.Execute)
	nSync := 0
	for _, f := range sortedFns(sync) {
		nSync += len(ir.CallsIn(f, isExecRun))
	}
	nAsync := 0
	for _, f := range sortedFns(async) {
		for _, ci := range ir.CallsIn(f, isExecRun) {
			if e.awaitedGo(ci, sync) {
				nSync++ // started in a goroutine whose completion is awaited on every path: as good as a call
				continue
			}
			nAsync++
			r.Bad("Node.Execute: the executor's Run is not started in a goroutine Execute may leave behind", e.InstrPos(ci),
				"the step's command runs in a goroutine that Node.Execute only starts: Execute can return (and the worker mark the node finished / canceled, freeing its maxActiveRuns slot and releasing its dependents) while the command is still executing")
		}
	}
	if nSync == 0 {
		r.Bad("Node.Execute: invokes the executor's Run before it returns", e.Pos(s.Execute.Pos()),
			"no invocation of Executor.Run in the part of Node.Execute that has completed when it returns")
		return
	}
	r.OK("Node.Execute: invokes the executor's Run before it returns", e.Pos(s.Execute.Pos()), sprintf("%d synchronous invocation(s)", nSync))
	if nAsync == 0 {
		r.OK("Node.Execute: the executor's Run is not started in a goroutine Execute may leave behind", e.Pos(s.Execute.Pos()), "")
	}
}

// awaitedGo: the instruction lies in a function launched by a go statement of a
// function in `sync`, signals its completion on a channel on every path after the
// instruction (send, close, deferred close), and the launching function receives
// from that channel on every path from the go statement to its returns (a select
// counts only when all its cases are such receives).
func (e *Env) awaitedGo(in ssa.Instruction, sync map[*ssa.Function]bool) bool {
	cl := in.Parent()
	var launch *ssa.Go
	n := 0
	for h := range sync {
		for _, b := range h.Blocks {
			for _, x := range b.Instrs {
				if g, ok := x.(*ssa.Go); ok && g.Call.StaticCallee() == cl {
					launch = g
					n++
				}
			}
		}
	}
	if n != 1 {
		return false
	}
	h := launch.Parent()
	// the channel as seen by the launcher
	up := func(c ssa.Value) ssa.Value {
		c = ir.Resolve(c)
		switch x := c.(type) {
		case *ssa.FreeVar:
			return ir.Deep(x)
		case *ssa.Parameter:
			for k, q := range cl.Params {
				if q == x && k < len(launch.Call.Args) {
					return ir.Resolve(launch.Call.Args[k])
				}
			}
		}
		return ir.Deep(c)
	}
	signals := func(x ssa.Instruction) ssa.Value {
		switch y := x.(type) {
		case *ssa.Send:
			return y.Chan
		case ssa.CallInstruction:
			if bi, ok := y.Common().Value.(*ssa.Builtin); ok && bi.Name() == "close" && len(y.Common().Args) == 1 {
				return y.Common().Args[0]
			}
		}
		return nil
	}
	chans := map[ssa.Value]bool{}
	for _, b := range cl.Blocks {
		for _, x := range b.Instrs {
			if c := signals(x); c != nil {
				if u := up(c); u != nil && (u.Parent() == h) {
					chans[u] = true
				}
			}
		}
	}
	if len(chans) == 0 {
		return false
	}
	isSignal := func(x ssa.Instruction) bool {
		c := signals(x)
		return c != nil && chans[up(c)]
	}
	isRet := func(x ssa.Instruction) bool { _, ok := x.(*ssa.Return); return ok }
	// (1) the goroutine signals on every path after the instruction
	if bad, _ := ir.Bypass(in, nil, ir.PathQuery{Stop: isSignal, Bad: isRet,
		DeferStop: func(d *ssa.Defer) bool { return isSignal(d) }}); bad != nil {
		return false
	}
	// a deferred signal installed after the instruction does not cover a panic-free early path before it: Bypass handles order
	isRecv := func(x ssa.Instruction) bool {
		switch y := x.(type) {
		case *ssa.UnOp:
			return y.Op == token.ARROW && chans[ir.Deep(y.X)]
		case *ssa.Select:
			if !y.Blocking || len(y.States) == 0 {
				return false
			}
			for _, st := range y.States {
				if st.Dir != types.RecvOnly || !chans[ir.Deep(st.Chan)] {
					return false
				}
			}
			return true
		}
		return false
	}
	// (2) the launcher receives on every path from the go statement to a return
	bad, _ := ir.Bypass(launch, nil, ir.PathQuery{Stop: isRecv, Bad: isRet})
	return bad == nil
}
