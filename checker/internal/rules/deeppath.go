package rules

import (
	"go/constant"
	"go/types"
	"strings"

	"golang.org/x/tools/go/ssa"

	"bdcheck/internal/ir"
)

// DeepPath is an access path whose root was followed through φ-nodes and
// through the results of repository functions: `f().Status.Params` and
// `x := helper(); x.Params` with `helper` returning `f().Status` are the same
// deep path (root: the call of f, fields Status.Params).
type DeepPath struct {
	Root   ssa.Value
	Fields []string
}

func (p DeepPath) Dotted() string { return strings.Join(p.Fields, ".") }

// DeepPaths lists the alternatives v can stand for. Error returns of a followed
// function (its value result is a zero constant) are not alternatives. ok is
// false when the bound was exceeded.
func (e *Env) DeepPaths(v ssa.Value) ([]DeepPath, bool) {
	var out []DeepPath
	ok := true
	var walk func(v ssa.Value, suffix []string, depth int, stack []*ssa.Call)
	walk = func(v ssa.Value, suffix []string, depth int, stack []*ssa.Call) {
		if depth > 10 {
			ok = false
			return
		}
		v = ir.Resolve(v)
		fields := suffix
		root := v
		if p, okp := e.C.PathOf(v); okp {
			root = ir.Resolve(p.Root)
			fields = append(append([]string{}, p.Fields...), suffix...)
		}
		// a field of a small unexported helper struct of the repository kept in a local or
		// handed around by pointer (`previous.lookup(...)` fills `previous.status`, the caller
		// reads it): the field stands for what is stored into it, anywhere
		switch root.(type) {
		case *ssa.Alloc, *ssa.Parameter, *ssa.FreeVar:
			if len(fields) > 0 {
				if st, isS := derefT(root.Type()).Underlying().(*types.Struct); isS {
					for k := 0; k < st.NumFields(); k++ {
						if st.Field(k).Name() != fields[0] {
							continue
						}
						if vals := e.helperObjectFields(root.Type(), k); len(vals) > 0 {
							for _, sv := range vals {
								walk(sv, fields[1:], depth+1, nil)
							}
							return
						}
					}
				}
			}
		}
		switch x := root.(type) {
		case *ssa.Phi:
			for _, ed := range x.Edges {
				walk(ed, fields, depth+1, stack)
			}
			return
		case *ssa.Parameter:
			// inside a followed callee: the parameter stands for the argument
			if n := len(stack); n > 0 {
				c := stack[n-1]
				for i, p := range x.Parent().Params {
					if p == x && i < len(c.Call.Args) && c.Call.StaticCallee() == x.Parent() {
						walk(c.Call.Args[i], fields, depth+1, stack[:n-1])
						return
					}
				}
			} else if us := ir.UniqueSite(x.Parent()); us != nil {
				// a helper called from one place: the parameter is that call's argument
				for i, p := range x.Parent().Params {
					if p == x && i < len(us.Common().Args) {
						walk(us.Common().Args[i], fields, depth+1, nil)
						return
					}
				}
			}
		case *ssa.Extract, *ssa.Call:
			var call *ssa.Call
			idx := 0
			if ex, isE := x.(*ssa.Extract); isE {
				call, _ = ex.Tuple.(*ssa.Call)
				idx = ex.Index
			} else {
				call = x.(*ssa.Call)
			}
			if call != nil {
				if g := call.Call.StaticCallee(); g != nil && e.P.Funcs[g] && g.Blocks != nil && !call.Call.IsInvoke() {
					n := 0
					for _, b := range g.Blocks {
						rt, isR := b.Instrs[len(b.Instrs)-1].(*ssa.Return)
						if !isR || idx >= len(rt.Results) {
							continue
						}
						for _, rv := range RetVals(rt, idx) {
							if isZeroValueConst(ir.Resolve(rv)) {
								continue
							}
							n++
							walk(rv, fields, depth+1, append(append([]*ssa.Call{}, stack...), call))
						}
					}
					if n > 0 {
						return
					}
				}
			}
		}
		out = append(out, DeepPath{Root: root, Fields: fields})
	}
	walk(v, nil, 0, nil)
	return out, ok
}

func isZeroValueConst(v ssa.Value) bool {
	c, ok := v.(*ssa.Const)
	if !ok {
		return false
	}
	if c.Value == nil {
		return true
	}
	switch c.Value.Kind() {
	case constant.String:
		return constant.StringVal(c.Value) == ""
	case constant.Int, constant.Float:
		return constant.Sign(c.Value) == 0
	case constant.Bool:
		return !constant.BoolVal(c.Value)
	}
	return false
}

// invokeResult: v is result #idx of an interface call of the named method.
func invokeResult(v ssa.Value, method string, idx int) bool {
	v = ir.Resolve(v)
	var call *ssa.Call
	switch x := v.(type) {
	case *ssa.Extract:
		if x.Index != idx {
			return false
		}
		call, _ = x.Tuple.(*ssa.Call)
	case *ssa.Call:
		if idx != 0 {
			return false
		}
		call = x
	}
	return call != nil && call.Call.IsInvoke() && call.Call.Method.Name() == method
}

// cobraBody returns the functions making up the body of the command-line
// command whose usage string starts with `use` (the command's name is the
// user-visible anchor; the Go function that implements it may be a closure or a
// named function of any name): the function stored in the command's Run field,
// its closures and its single-call-site helpers.
func (e *Env) cobraBody(use string) []*ssa.Function {
	sp := e.P.Pkg("cmd")
	if sp == nil {
		return nil
	}
	var roots []*ssa.Function
	for _, f := range e.RepoFuncsSorted() {
		if rootFn(f).Package() != sp {
			continue
		}
		for _, b := range f.Blocks {
			for _, in := range b.Instrs {
				al, ok := in.(*ssa.Alloc)
				if !ok || !strings.HasSuffix(ir.NamedType(al.Type()), "cobra.Command") {
					continue
				}
				isCmd := false
				var run *ssa.Function
				for _, ref := range *al.Referrers() {
					fa, ok := ref.(*ssa.FieldAddr)
					if !ok {
						continue
					}
					name := ir.FieldNameOf(fa.X.Type(), fa.Field)
					for _, r2 := range *fa.Referrers() {
						st, ok := r2.(*ssa.Store)
						if !ok {
							continue
						}
						switch name {
						case "Use":
							if s, isC := ir.ConstString(st.Val); isC && (s == use || strings.HasPrefix(s, use+" ")) {
								isCmd = true
							}
						case "Run", "RunE":
							switch fv := st.Val.(type) {
							case *ssa.MakeClosure:
								run, _ = fv.Fn.(*ssa.Function)
							case *ssa.Function:
								run = fv
							case *ssa.ChangeType:
								if g, ok := fv.X.(*ssa.Function); ok {
									run = g
								}
							}
						}
					}
				}
				if isCmd && run != nil {
					roots = append(roots, run)
				}
			}
		}
	}
	var out []*ssa.Function
	seen := map[*ssa.Function]bool{}
	for _, r := range roots {
		for _, g := range sortedFns(e.inlinedSet(r, nil)) {
			for _, h := range ir.WithClosures(g) {
				if !seen[h] {
					seen[h] = true
					out = append(out, h)
				}
			}
		}
	}
	return out
}
