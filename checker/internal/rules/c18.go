package rules

import (
	"go/token"
	"sort"
	"strings"

	"golang.org/x/tools/go/ssa"

	"bdcheck/internal/ir"
)

const localRel = "internal/persistence/local"

func init() {
	register(&Prop{ID: "C18", Run: runC18,
		Technique: "static analysis: dominance guards of file-mutating calls, ordering / must-pass-through in the client, value-flow of paths (go/ssa)",
		Decided: []string{
			"the client's DeleteDAG gets a location read out of a lookup only when that lookup's error was nil (C18.delete-needs-location)",
			"Create writes only under 'target does not exist' (C18.create-guard)",
			"the DAG store's Rename tests the target before os.Rename (C18.rename-guard)",
			"UpdateSpec writes only after LoadYAML(spec)==nil and 'file exists' (C18.validate-then-write)",
			"the saved definition is never the target of a truncating in-place write (write elsewhere, then rename) (C18.atomic-save)",
			"client.Rename renames the history only after the file rename succeeded, keyed by old and new Location; DeleteDAG removes history (keyed by the DAG's location) and definition on the success path and returns the first error (C18.order)",
			"effect table of the client's operations: create / rename / save / delete / status edit / suspend invoke only the mutating store methods they are about, reading operations none (C18.footprint)",
			"the history store's Rename removes the old directory only non-recursively or when found empty (C18.rename-keeps-history); destructive history operations stay inside the DAG's own directory (C06.isolation shared)",
			"the functions of the loader and of the definition store that make a DAG's location absolute apply the same set of canonicalising calls (filepath.Abs / EvalSymlinks / Readlink / Rel): one spelling, one history key (C18.location-spelling-agrees)",
		},
		NotDec: []string{"sequences of operations against a reference model", "crash points other than the save; fsync durability", "races between check and write (create/rename are check-then-act)"},
	})
}

func runC18(e *Env) {
	c18Guards(e)
	c18Order(e)
	c18RenameKeepsHistory(e)
	c18DeleteNeedsLocation(e)
	c18Footprint(e)
	c06Isolation(e)
	c18LocationSpelling(e, "C18.location-spelling-agrees")
}

// existsIn: the conjunction says the file `arg` exists (pol) / does not exist
// (!pol), through whatever existence predicate the repository uses; arg == nil
// accepts any file. The literals may come from helpers (bound frames).
func (e *Env) existsIn(alt []BLit, arg ssa.Value, pol bool) (bool, ssa.Value) {
	for _, bl := range alt {
		if bl.Kind != "val" {
			continue
		}
		c, ok := ir.Resolve(bl.V).(*ssa.Call)
		if !ok {
			continue
		}
		is, positive := e.existsPredicate(c.Call.StaticCallee())
		if !is || (bl.Pol == positive) != pol {
			continue
		}
		a := e.pathBase(bl.Val(c.Call.Args[len(c.Call.Args)-1]))
		if arg == nil || a == e.pathBase(arg) {
			return true, a
		}
	}
	return false, nil
}

// existsAll: every way the conditions can hold (helpers expanded) says so.
func (e *Env) existsAll(lits []ir.NLit, arg ssa.Value, pol bool) bool {
	alts := e.expandBound(lits)
	if len(alts) == 0 {
		return false
	}
	for _, alt := range alts {
		if ok, _ := e.existsIn(alt, arg, pol); !ok {
			return false
		}
	}
	return true
}

// samePath: two spellings of one file name (conversions and accessors of a path type
// looked through).
func (e *Env) samePath(a, b ssa.Value) bool {
	return SameValue(a, b) || SameValue(e.pathBase(a), e.pathBase(b))
}

var truncatingWrites = []string{"os.WriteFile", "os.Create", "io/ioutil.WriteFile"}

func c18Guards(e *Env) {
	r := e.R
	create := e.Fn(localRel, "(*dagStoreImpl).Create")
	rename := e.Fn(localRel, "(*dagStoreImpl).Rename")
	update := e.Fn(localRel, "(*dagStoreImpl).UpdateSpec")

	r.Rule("C18.create-guard", "DCS", "Create writes only under !exists(loc)", 1)
	if create != nil {
		n := 0
		var createWrites []ssa.CallInstruction
		for _, g := range e.withPkgHelpers(create) {
			if g != create && ir.UniqueSite(g) == nil {
				continue // shared helpers are judged where they write for this operation only if inlined
			}
			createWrites = append(createWrites, ir.CallsIn(g, func(c *ssa.CallCommon) bool {
				return ir.IsCallTo(c, append([]string{"os.OpenFile", "os.Rename"}, truncatingWrites...)...)
			})...)
		}
		for _, ci := range createWrites {
			n++
			lits := e.DCS(ci)
			ok := e.existsAll(lits, ci.Common().Args[0], false)
			if ir.IsCallTo(ci.Common(), "os.OpenFile") {
				// O_EXCL is an atomic alternative
				if fl, isC := ir.ConstInt(ci.Common().Args[1]); isC && fl&0x80 != 0 {
					ok = true
				}
			}
			r.Check(ok, "Create: "+shortCallee(ci.Common())+" only when the target does not exist", e.InstrPos(ci),
				"creating a DAG can overwrite an existing definition", e.FactsStr("dominating conditions: ", lits))
		}
		if n == 0 {
			r.Unknown("Create: write site", e.Pos(create.Pos()), "no file-writing call found")
		}
	}

	r.Rule("C18.rename-guard", "RC", "Rename tests the target before os.Rename", 1)
	if rename != nil {
		n := 0
		ff := e.Facts(rename)
		// the rename itself, or a call of a one-block forwarder of the package around it
		// (`from.moveTo(to)` = os.Rename(string(f), string(target))): source and target are
		// then the forwarder's arguments
		type rnSite struct {
			ci       ssa.CallInstruction
			src, dst ssa.Value
		}
		var rnSites []rnSite
		stripConv := func(v ssa.Value) ssa.Value {
			for d := 0; d < 3; d++ {
				switch x := v.(type) {
				case *ssa.Convert:
					v = x.X
					continue
				case *ssa.ChangeType:
					v = x.X
					continue
				}
				break
			}
			return v
		}
		for _, ci := range ir.CallsIn(rename, func(c *ssa.CallCommon) bool { return c.StaticCallee() != nil }) {
			if ir.IsCallTo(ci.Common(), "os.Rename", "os.Link") {
				rnSites = append(rnSites, rnSite{ci, ci.Common().Args[0], ci.Common().Args[1]})
				continue
			}
			h := ci.Common().StaticCallee()
			if !e.P.Funcs[h] || len(h.Blocks) != 1 || rootFn(h).Package() != rootFn(rename).Package() {
				continue
			}
			for _, inner := range ir.CallsIn(h, func(c *ssa.CallCommon) bool { return ir.IsCallTo(c, "os.Rename", "os.Link") }) {
				var sd [2]ssa.Value
				for k := 0; k < 2; k++ {
					a := stripConv(ir.Resolve(inner.Common().Args[k]))
					for pi, hp := range h.Params {
						if a == ssa.Value(hp) && pi < len(ci.Common().Args) {
							sd[k] = ci.Common().Args[pi]
						}
					}
				}
				if sd[0] != nil && sd[1] != nil {
					rnSites = append(rnSites, rnSite{ci, sd[0], sd[1]})
				}
			}
		}
		for _, rs := range rnSites {
			ci := rs.ci
			n++
			// the guard may be disjunctive (`new != old && exists(new)` refuses):
			// every way of reaching the rename must carry !exists(target) or target == source
			src, dst := rs.src, rs.dst
			dnf, ok := ir.ReachingCondition(rename.Blocks[0], ci.Block(), 32)
			if !ok {
				r.Unknown("DAGStore.Rename: os.Rename only when the target does not exist", e.InstrPos(ci), "reaching condition too large to decide")
				continue
			}
			good := len(dnf) > 0
			var bad []string
			for _, cj := range dnf {
				for _, conj := range ff.ExpandDNFRegion(rename.Blocks[0], []ir.Lit(cj)) {
					lits := ir.NormalizeAll(conj)
					same := false
					for _, l := range lits {
						if l.Kind == "cmp" && l.Op == token.EQL &&
							((e.samePath(l.X, src) && e.samePath(l.Y, dst)) || (e.samePath(l.X, dst) && e.samePath(l.Y, src))) {
							same = true // renaming a file onto itself replaces nothing
						}
					}
					if !e.existsAll(lits, dst, false) && !same {
						good = false
						bad = append(bad, "{"+strings.Join(e.RenderN(lits), " ; ")+"}")
					}
				}
			}
			r.Check(good, "DAGStore.Rename: os.Rename only when the target does not exist", e.InstrPos(ci),
				"renaming a DAG onto the name of an existing DAG silently replaces that DAG's definition", "unguarded ways to reach the rename: "+strings.Join(bad, " | "))
		}
		if n == 0 {
			r.Unknown("DAGStore.Rename: rename site", e.Pos(rename.Pos()), "no os.Rename found")
		}
	}

	r.Rule("C18.validate-then-write", "DCS", "UpdateSpec writes only after validation and exists", 1)
	if update != nil {
		n := 0
		var spec ssa.Value
		for _, p := range update.Params {
			if p.Type().String() == "[]byte" {
				spec = p
			}
		}
		// write sites: file-mutating library calls in UpdateSpec itself and calls of
		// repository helpers that reach one through static calls (e.g. an atomic-write helper)
		for _, ci := range ir.CallsIn(update, func(c *ssa.CallCommon) bool {
			if isFileMutation(c) {
				return true
			}
			sc := c.StaticCallee()
			if sc == nil || !e.P.Funcs[sc] || strings.HasSuffix(ir.CalleeName(c), "internal/dag.LoadYAML") {
				return false
			}
			return e.reachesStatic(sc, func(f *ssa.Function) bool {
				return len(ir.CallsIn(f, isFileMutation)) > 0
			})
		}) {
			n++
			lits := e.DCS(ci)
			alts := e.expandBound(lits)
			valid := len(alts) > 0
			for _, alt := range alts {
				v := false
				for _, l := range alt {
					if l.Kind == "cmp" && l.Op == token.EQL && ir.IsNilConst(l.Y) {
						if ex, ok := ir.Resolve(l.X).(*ssa.Extract); ok {
							if c, ok := ex.Tuple.(*ssa.Call); ok && strings.HasSuffix(ir.CalleeName(&c.Call), "internal/dag.LoadYAML") && l.Val(c.Call.Args[0]) == spec {
								v = true
							}
						}
					}
				}
				if !v {
					valid = false
				}
			}
			r.Check(valid, "UpdateSpec: "+shortCallee(ci.Common())+" only after LoadYAML(spec)==nil", e.InstrPos(ci),
				"a definition is written although the new text was not (successfully) validated", e.FactsStr("dominating conditions: ", lits))
			r.Check(e.existsAll(lits, nil, true), "UpdateSpec: "+shortCallee(ci.Common())+" only when the DAG file exists", e.InstrPos(ci),
				"saving creates a DAG that does not exist", e.FactsStr("dominating conditions: ", lits))
		}
		if n == 0 {
			r.Unknown("UpdateSpec: write site", e.Pos(update.Pos()), "no file-writing call found")
		}

		c18AtomicSave(e, update, spec)
	}
}

var fileMutations = append([]string{"os.OpenFile", "os.Rename", "os.CreateTemp", "(*os.File).Write", "(*os.File).WriteString", "(*os.File).Truncate", "os.Truncate"}, truncatingWrites...)

func isFileMutation(c *ssa.CallCommon) bool { return ir.IsCallTo(c, fileMutations...) }

// reachesStatic: pred holds for f or a repository function reachable from it
// through static calls (closures included).
func (e *Env) reachesStatic(from *ssa.Function, pred func(*ssa.Function) bool) bool {
	seen := map[*ssa.Function]bool{}
	var visit func(f *ssa.Function) bool
	visit = func(f *ssa.Function) bool {
		if f == nil || seen[f] || !e.P.Funcs[f] {
			return false
		}
		seen[f] = true
		for _, g := range ir.WithClosures(f) {
			if pred(g) {
				return true
			}
			for _, ci := range ir.CallsIn(g, func(c *ssa.CallCommon) bool { return c.StaticCallee() != nil }) {
				if visit(ci.Common().StaticCallee()) {
					return true
				}
			}
			// method values (`n.setupLog` put into a table and called through it): the
			// synthetic bound-method wrapper's callee counts as called
			for _, b := range g.Blocks {
				for _, in := range b.Instrs {
					if mc, ok := in.(*ssa.MakeClosure); ok {
						if w, ok := mc.Fn.(*ssa.Function); ok && w.Synthetic != "" {
							for _, ci := range ir.CallsIn(w, func(c *ssa.CallCommon) bool { return c.StaticCallee() != nil }) {
								if visit(ci.Common().StaticCallee()) {
									return true
								}
							}
						}
					}
				}
			}
		}
		return false
	}
	return visit(from)
}

// staticClosure lists from and the repository functions it reaches through static calls.
func (e *Env) staticClosure(from *ssa.Function) []*ssa.Function {
	var out []*ssa.Function
	e.reachesStatic(from, func(f *ssa.Function) bool { out = append(out, f); return false })
	return out
}

// c18AtomicSave: the new text reaches the definition's final location by a
// rename of a separately written file, never by a truncating write in place.
func c18AtomicSave(e *Env, update *ssa.Function, spec ssa.Value) {
	r := e.R
	r.Rule("C18.atomic-save", "VF", "final location is not written in place", 1)
	// the definition's location: the value whose existence UpdateSpec requires before
	// writing; the function computing it (whatever it is called) is not looked into
	var locFn *ssa.Function
	for _, b := range update.Blocks {
		for _, in := range b.Instrs {
			c, ok := in.(*ssa.Call)
			if !ok {
				continue
			}
			if is, _ := e.existsPredicate(c.Call.StaticCallee()); is {
				v := ir.Resolve(c.Call.Args[0])
				if ex, isE := v.(*ssa.Extract); isE {
					v = ex.Tuple
				}
				if lc, isC := v.(*ssa.Call); isC && lc.Call.StaticCallee() != nil && e.P.Funcs[lc.Call.StaticCallee()] {
					locFn = lc.Call.StaticCallee()
				}
			}
		}
	}
	if locFn == nil {
		r.Unknown("UpdateSpec: the definition's location", e.Pos(update.Pos()), "no existence test of a computed location found")
		return
	}
	locName := ir.FuncName(locFn)
	noLoc := func(f *ssa.Function) bool { return e.P.Funcs[f] && f != locFn }
	up := func(f *ssa.Function) []ssa.CallInstruction {
		if f == update {
			return nil
		}
		var out []ssa.CallInstruction
		for _, cs := range e.StaticCallSites(f) {
			if p := cs.Parent(); p.Synthetic != "" && p.Origin() == nil && p.Parent() == nil {
				continue // the compiler's pointer-receiver wrapper of a value method
			}
			out = append(out, cs)
		}
		return out
	}
	// exact: the value IS the location (no path arithmetic followed)
	exact := &ir.Tracer{C: e.C, Through: map[string]bool{}, Descend: noLoc, Up: up}
	// derived: assembled from ...
	derived := &ir.Tracer{C: e.C, Through: withThrough("(*os.File).Name"), Descend: noLoc, Up: up}
	isLoc := func(v ssa.Value) bool {
		ls := exact.Trace(v)
		if len(ls) == 0 {
			return false
		}
		for _, l := range ls {
			if !(l.Kind == "call" && l.Name == locName) {
				return false
			}
		}
		return true
	}
	fromCall := func(tr *ir.Tracer, v ssa.Value, names ...string) *ssa.Call {
		for _, l := range tr.Trace(v) {
			if c, ok := l.V.(*ssa.Call); ok && l.Kind == "call" && ir.IsCallTo(&c.Call, names...) {
				return c
			}
		}
		return nil
	}
	fromSpec := func(v ssa.Value) bool {
		for _, l := range exact.Trace(v) {
			if l.Kind == "param" && l.V == spec {
				return true
			}
		}
		return false
	}
	inPlace := false
	var site ssa.Instruction
	var renameSites []ssa.CallInstruction
	tmpCreate := map[ssa.CallInstruction]*ssa.Call{}
	writtenTo := map[*ssa.Call]ssa.CallInstruction{} // creation call of a file the spec is written to -> the write
	for _, f := range e.staticClosure(update) {
		for _, ci := range ir.CallsIn(f, func(c *ssa.CallCommon) bool { return true }) {
			c := ci.Common()
			switch {
			case ir.IsCallTo(c, truncatingWrites...) && isLoc(c.Args[0]):
				inPlace, site = true, ci
			case ir.IsCallTo(c, "os.OpenFile") && isLoc(c.Args[0]):
				inPlace, site = true, ci
			case ir.IsCallTo(c, "os.Rename") && isLoc(c.Args[1]):
				renameSites = append(renameSites, ci)
				tmpCreate[ci] = fromCall(derived, c.Args[0], "os.CreateTemp", "os.Create", "os.OpenFile")
			case ir.IsCallTo(c, "(*os.File).Write", "(*os.File).WriteString") && fromSpec(c.Args[1]):
				if cr := fromCall(exact, c.Args[0], "os.CreateTemp", "os.Create", "os.OpenFile"); cr != nil {
					writtenTo[cr] = ci
				}
			}
		}
	}
	pos := e.Pos(update.Pos())
	if site != nil {
		pos = e.InstrPos(site)
	} else if len(renameSites) > 0 {
		pos = e.InstrPos(renameSites[0])
	}
	r.Check(!inPlace && len(renameSites) > 0, "UpdateSpec: new text reaches the final location by rename, not by an in-place truncating write", pos,
		"the definition is truncated and rewritten in place: a crash (or a full disk) between the truncate and the last write leaves an empty or partial definition",
		sprintf("location function: %s; in-place write found: %v; renames onto the location: %d", locName, inPlace, len(renameSites)))
	if !inPlace {
		// every file renamed into place is one the spec was written to, and the rename happens only after that write succeeded
		for _, rs := range renameSites {
			cr := tmpCreate[rs]
			w := writtenTo[cr]
			okWrite := cr != nil && w != nil
			okAfter := false
			if okWrite {
				alts := e.expandBound(e.DCS(rs))
				okAfter = len(alts) > 0
				for _, alt := range alts {
					found := false
					for _, l := range alt {
						if l.Kind == "cmp" && l.Op == token.EQL && ir.IsNilConst(l.Y) {
							if ex, ok := ir.Resolve(l.X).(*ssa.Extract); ok && ex.Tuple == ssa.Value(w.(*ssa.Call)) {
								found = true
							}
						}
					}
					if !found {
						okAfter = false
					}
				}
				// the accumulate-the-first-error style: no single test names the write's
				// error, but assuming it is not nil the rename cannot be reached
				if !okAfter {
					if wc, isC := w.(*ssa.Call); isC && wc.Parent() == rs.Parent() && ir.Precedes(wc, rs) {
						for _, ref := range *wc.Referrers() {
							if ex, isE := ref.(*ssa.Extract); isE && ex.Index == wc.Call.Signature().Results().Len()-1 {
								if !ir.ReachableAssuming(ex, rs, map[ssa.Value]bool{ex: true}) {
									okAfter = true
								}
							}
						}
					}
				}
			}
			// the write made by a helper of the package (`fillAndFlush(tmp, content, perm)`)
			// that hands back nil only when the write succeeded: the helper's call stands
			// for the write in the function that renames
			if okWrite && !okAfter {
				if wc, isC := w.(*ssa.Call); isC && wc.Parent() != rs.Parent() {
					h := wc.Parent()
					errIdx := h.Signature.Results().Len() - 1
					reports := errIdx >= 0 && ir.IsErrorType(h.Signature.Results().At(errIdx).Type())
					if reports {
						for _, hb := range h.Blocks {
							if rt, isR := hb.Instrs[len(hb.Instrs)-1].(*ssa.Return); isR && e.Facts(h).Reachable(hb) {
								for _, rv := range RetVals(rt, errIdx) {
									if e.mayBeNil(rt, rv) && !e.onlyAfterOK(wc, rt) {
										reports = false
									}
								}
							}
						}
					}
					if reports {
						for _, cs := range e.StaticCallSites(h) {
							cc, isCall := cs.(*ssa.Call)
							if !isCall || cc.Parent() != rs.Parent() || !ir.Precedes(cc, rs) {
								continue
							}
							if ev := errOfCall(cc); ev != nil && !ir.ReachableAssuming(cc, rs, map[ssa.Value]bool{ev: true}) {
								okAfter = true
							}
						}
					}
				}
			}
			r.Check(okWrite && okAfter, "UpdateSpec: the file renamed into place is the temporary file the new text was completely written to", e.InstrPos(rs),
				"the definition is replaced by a file that does not (yet) hold the complete new text: the rename is not dominated by a successful write of the spec to that same file")
		}
	}
}

func withThrough(extra ...string) map[string]bool {
	m := map[string]bool{}
	for k, v := range ir.StringThrough {
		m[k] = v
	}
	for _, x := range extra {
		m[x] = true
	}
	return m
}

func c18Order(e *Env) {
	r := e.R
	r.Rule("C18.order", "MPT+VF", "client Rename/DeleteDAG ordering and keys", 3)
	ren := e.Fn("internal/client", "(*client).Rename")
	del := e.Fn("internal/client", "(*client).DeleteDAG")
	invoke := func(name string) func(c *ssa.CallCommon) bool {
		return func(c *ssa.CallCommon) bool { return c.IsInvoke() && ir.CalleeName(c) == name }
	}
	if ren != nil {
		var fileRen, histRen []ssa.CallInstruction
		for _, g := range e.withPkgHelpers(ren) {
			if g != ren && ir.UniqueSite(g) == nil {
				continue
			}
			fileRen = append(fileRen, ir.CallsIn(g, invoke("iface:github.com/ErdemOzgen/blackdagger/internal/persistence.DAGStore.Rename"))...)
			histRen = append(histRen, ir.CallsIn(g, invoke("iface:github.com/ErdemOzgen/blackdagger/internal/persistence.HistoryStore.Rename"))...)
		}
		if len(fileRen) != 1 || len(histRen) != 1 {
			r.Bad("client.Rename: one definition rename and one history rename", e.Pos(ren.Pos()), sprintf("found %d / %d", len(fileRen), len(histRen)))
		} else {
			lits := e.DCS(histRen[0])
			ok := false
			for _, l := range lits {
				if l.Kind == "cmp" && l.Op == token.EQL && ir.IsNilConst(l.Y) && ir.Resolve(l.X) == ssa.Value(fileRen[0].(*ssa.Call)) {
					ok = true
				}
			}
			// the definition rename made by a helper of the client (`before, after, err :=
			// move.definition(store)`): the history rename is under `helper's error == nil`, and
			// the helper hands back a nil error only after its rename succeeded
			if !ok && fileRen[0].Parent() != histRen[0].Parent() {
				h := fileRen[0].Parent()
				errIdx := h.Signature.Results().Len() - 1
				if fc, isFC := fileRen[0].(*ssa.Call); isFC && errIdx >= 0 && ir.IsErrorType(h.Signature.Results().At(errIdx).Type()) {
					reports := true
					for _, hb := range h.Blocks {
						if rt, isR := hb.Instrs[len(hb.Instrs)-1].(*ssa.Return); isR && e.Facts(h).Reachable(hb) && errIdx < len(rt.Results) {
							for _, rv := range RetVals(rt, errIdx) {
								if e.mayBeNil(rt, rv) && !e.onlyAfterNil(fc, rt) {
									reports = false
								}
							}
						}
					}
					if reports {
						for _, l := range lits {
							if l.Kind != "cmp" || l.Op != token.EQL || !ir.IsNilConst(l.Y) {
								continue
							}
							var hc *ssa.Call
							switch x := ir.Resolve(l.X).(type) {
							case *ssa.Extract:
								if c, isC := x.Tuple.(*ssa.Call); isC && x.Index == errIdx {
									hc = c
								}
							case *ssa.Call:
								hc = x
							}
							if hc != nil && hc.Call.StaticCallee() == h {
								ok = true
							}
						}
					}
				}
			}
			r.Check(ok, "client.Rename: history renamed only after the definition rename succeeded", e.InstrPos(histRen[0]),
				"the history is moved although the definition rename failed or was refused (the DAG would lose its history)", e.FactsStr("dominating conditions: ", lits))
			// keys: oldDAG.Location (found before the rename) and newDAG.Location (found after)
			a := histRen[0].Common().Args
			okKeys := len(a) == 2 && e.IsFieldRead(a[0], nil, "Location") && e.IsFieldRead(a[1], nil, "Location")
			if okKeys {
				p0, _ := e.pathThroughParams(a[0])
				p1, _ := e.pathThroughParams(a[1])
				c0, ok0 := findCall(p0.Root)
				c1, ok1 := findCall(p1.Root)
				okKeys = ok0 && ok1 && ir.Deep(c0.Call.Args[0]) == ssa.Value(ren.Params[1]) && ir.Deep(c1.Call.Args[0]) == ssa.Value(ren.Params[2]) &&
					liftedPrecedes(c0, fileRen[0]) && liftedPrecedes(fileRen[0], c1)
			}
			r.Check(okKeys, "client.Rename: history keyed by Find(old).Location (before) and Find(new).Location (after)", e.InstrPos(histRen[0]),
				"the history rename is not keyed by the old and the new definition's locations")
		}
	}
	if del != nil {
		hist := ir.CallsIn(del, invoke("iface:github.com/ErdemOzgen/blackdagger/internal/persistence.HistoryStore.RemoveAll"))
		def := ir.CallsIn(del, invoke("iface:github.com/ErdemOzgen/blackdagger/internal/persistence.DAGStore.Delete"))
		if len(hist) != 1 || len(def) != 1 {
			r.Bad("client.DeleteDAG: removes history and definition", e.Pos(del.Pos()), sprintf("found %d history removals / %d definition removals", len(hist), len(def)))
			return
		}
		r.Check(ir.Resolve(hist[0].Common().Args[0]) == ssa.Value(del.Params[2]) && ir.Resolve(def[0].Common().Args[0]) == ssa.Value(del.Params[1]),
			"client.DeleteDAG: RemoveAll(loc) and Delete(name)", e.InstrPos(hist[0]), "history / definition removal keyed by the wrong argument")
		// the first error returns: the second call is dominated by first == nil; the result of the second is returned
		first, second := hist[0], def[0]
		if ir.Precedes(second, first) {
			first, second = second, first
		}
		okFirst := false
		for _, l := range e.DCS(second) {
			if l.Kind == "cmp" && l.Op == token.EQL && ir.IsNilConst(l.Y) && ir.Resolve(l.X) == ssa.Value(first.(*ssa.Call)) {
				okFirst = true
			}
		}
		okSecond := false
		for _, b := range del.Blocks {
			for _, in := range b.Instrs {
				if rt, ok := in.(*ssa.Return); ok {
					for _, v := range RetVals(rt, 0) {
						if ir.Resolve(v) == ssa.Value(second.(*ssa.Call)) {
							okSecond = true
						}
						// one error variable for both (`if err = a(); err == nil { err = b() }; return err`):
						// what is returned is the first call's error or the second's, nothing else
						if ph, isPhi := ir.Resolve(v).(*ssa.Phi); isPhi {
							hasSecond, only := false, true
							for _, leaf := range phiLeaves(ph) {
								switch ir.Resolve(leaf) {
								case ssa.Value(second.(*ssa.Call)):
									hasSecond = true
								case ssa.Value(first.(*ssa.Call)):
								default:
									only = false
								}
							}
							if hasSecond && only {
								okSecond = true
							}
						}
					}
				}
			}
		}
		r.Check(okFirst && okSecond, "client.DeleteDAG: second removal only after the first succeeded; its error is returned", e.InstrPos(second),
			"an error of one removal is ignored, or the second removal runs although the first failed")
	}
}

// c18Footprint: effect table of the client's DAG-management operations. For each
// operation the set of *mutating* store methods it can invoke (directly or
// through static helpers of the client package) must stay inside the set the
// operation is about: renaming never deletes history, deleting never touches
// another store method, reading operations mutate nothing.
func c18Footprint(e *Env) {
	r := e.R
	r.Rule("C18.footprint", "WMC (effect table)", "client operations invoke only the mutating store methods they are about", 6)
	mutating := map[string]bool{
		"HistoryStore.Open": true, "HistoryStore.Write": true, "HistoryStore.Close": true, "HistoryStore.Update": true,
		"HistoryStore.RemoveAll": true, "HistoryStore.RemoveOld": true, "HistoryStore.Rename": true,
		"DAGStore.Create": true, "DAGStore.Delete": true, "DAGStore.Rename": true, "DAGStore.UpdateSpec": true,
		"FlagStore.ToggleSuspend": true,
	}
	allowed := map[string][]string{
		"CreateDAG":     {"DAGStore.Create"},
		"Rename":        {"DAGStore.Rename", "HistoryStore.Rename"},
		"UpdateDAG":     {"DAGStore.UpdateSpec"},
		"DeleteDAG":     {"HistoryStore.RemoveAll", "DAGStore.Delete"},
		"UpdateStatus":  {"HistoryStore.Update"},
		"ToggleSuspend": {"FlagStore.ToggleSuspend"},
		// read-only operations
		"GetDAGSpec": {}, "Grep": {}, "GetStatusByRequestID": {}, "GetLatestStatus": {}, "GetCurrentStatus": {}, "GetRecentHistory": {},
		"GetAllStatus": {}, "GetAllStatusPagination": {}, "GetStatus": {}, "IsSuspended": {}, "GetTagList": {},
	}
	sp := e.P.Pkg("internal/client")
	if sp == nil {
		r.Unknown("package internal/client", "-", "not found")
		return
	}
	effects := func(root *ssa.Function) map[string]ssa.Instruction {
		out := map[string]ssa.Instruction{}
		for _, f := range e.staticClosure(root) {
			if rootFn(f).Package() != sp {
				continue
			}
			for _, ci := range ir.CallsIn(f, func(c *ssa.CallCommon) bool { return c.IsInvoke() }) {
				t := ir.NamedType(ci.Common().Value.Type())
				if i := strings.LastIndex(t, "."); i >= 0 {
					t = t[i+1:]
				}
				k := t + "." + ci.Common().Method.Name()
				if mutating[k] {
					if _, seen := out[k]; !seen {
						out[k] = ci
					}
				}
			}
		}
		return out
	}
	var names []string
	for n := range allowed {
		names = append(names, n)
	}
	sort.Strings(names)
	for _, n := range names {
		f := e.FnQuiet("internal/client", "(*client)."+n)
		if f == nil {
			continue // an operation that does not exist (any more) has no footprint
		}
		eff := effects(f)
		var extra []string
		var site ssa.Instruction
		for k, ci := range eff {
			ok := false
			for _, a := range allowed[n] {
				if a == k {
					ok = true
				}
			}
			if !ok {
				extra = append(extra, k)
				site = ci
			}
		}
		sort.Strings(extra)
		pos := e.Pos(f.Pos())
		if site != nil {
			pos = e.InstrPos(site)
		}
		want := "nothing"
		if len(allowed[n]) > 0 {
			want = strings.Join(allowed[n], ", ")
		}
		r.Check(len(extra) == 0, "client."+n+": mutates only through {"+want+"}", pos,
			"the operation invokes a mutating store method that is not part of what it is for (e.g. a rename that removes history, a read that writes): with the right arguments it destroys or changes data of this or another DAG",
			"unexpected: "+strings.Join(extra, ", "))
	}
}

func findCall(v ssa.Value) (*ssa.Call, bool) {
	v = ir.Resolve(v)
	if ex, ok := v.(*ssa.Extract); ok {
		v = ex.Tuple
	}
	c, ok := v.(*ssa.Call)
	return c, ok
}

func c18RenameKeepsHistory(e *Env) {
	r := e.R
	r.Rule("C18.rename-keeps-history", "DCS", "history Rename removes the old directory only non-recursively or when empty", 1)
	fn := e.Fn(jsondbRel, "(*JSONDB).Rename")
	if fn == nil {
		return
	}
	n := 0
	closure := e.staticClosure(fn)
	var mv []ssa.CallInstruction
	for _, g := range closure {
		if rootFn(g).Package() != fn.Package() {
			continue
		}
		for _, ci := range ir.CallsIn(g, func(c *ssa.CallCommon) bool { return ir.IsCallTo(c, "os.Remove", "os.RemoveAll") }) {
			n++
			lits := e.DCS(ci)
			recursive := ir.IsCallTo(ci.Common(), "os.RemoveAll")
			r.Check(!recursive, "history Rename: old directory removed non-recursively (and only when found empty)", e.InstrPos(ci),
				"renaming removes the old history directory recursively: when old and new name resolve to the same directory, or a file could not be moved, recorded runs are deleted", e.FactsStr("dominating conditions: ", lits))
		}
		// the per-file move is an os.Rename of a glob match of the old pattern into newDir
		mv = append(mv, ir.CallsIn(g, func(c *ssa.CallCommon) bool { return ir.IsCallTo(c, "os.Rename") })...)
	}
	r.Check(len(mv) == 1, "history Rename: files are moved with os.Rename", e.Pos(fn.Pos()), sprintf("found %d os.Rename calls", len(mv)))
	_ = n
}
