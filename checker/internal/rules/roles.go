package rules

import (
	"fmt"
	"go/constant"
	"go/token"
	"go/types"
	"os"
	"strings"

	"golang.org/x/tools/go/ssa"

	"bdcheck/internal/ir"
)

// GraphRoles names the parts of the ExecutionGraph and of its construction by
// what they do, read off the code. The adjacency maps are the map[int][]int
// fields; the edge writer is the one function that updates two of them; the
// edge loop is the function that ranges over a node's Step.Depends and adds the
// edges (by calling the edge writer, or by being it). Orientation comes from
// that loop: the *dependent* is the node whose Depends list is being read, the
// *dependency* the other node of the edge; Pred is the map keyed by the
// dependent's id that collects dependency ids, Succ its inverse.
type GraphRoles struct {
	AddEdge         *ssa.Function   // the edge writer
	EdgeLoop        *ssa.Function   // the function ranging over Step.Depends
	DepLoop         *ir.Loop        // that loop
	Owner           ssa.Value       // in EdgeLoop: the node whose Depends is read
	Setup           *ssa.Function   // the function that refuses the graph when the cycle test is positive
	HasCycle        *ssa.Function   // the cycle test: the boolean function whose positive answer makes Setup return an error
	AdjOwners       map[string]bool // named structs of the package (other than the graph) that hold the adjacency maps
	CycleNegated    bool            // the test answers "acyclic": its NEGATIVE answer refuses the graph (`if !edges.acyclic() { return err }`)
	Reset           *ssa.Function   // the retry reset: the construction-phase function that zeroes node states
	Pred            string          // adjacency[dependent] = its dependencies   (today: "to")
	Succ            string          // adjacency[dependency] = its dependents    (today: "from")
	AllNodes        []string
	Updates         []EdgeUpdate // the adjacency updates of the edge writer
	why             string       // what could not be resolved
	addEdgeFromLoop bool
	ok              bool
}

// EdgeUpdate is one `g.<Field>[K.id] = append(g.<Field>[K.id], A.id)` of the edge writer.
type EdgeUpdate struct {
	Site                         *ssa.MapUpdate
	Field                        string
	Key, App                     ssa.Value // roots of the key's and the appended id's access paths, in the writer's frame
	KeyDependent, AppDependent   bool
	KeyDependency, AppDependency bool
}

// appendedID returns the value whose `.id` is appended by `m[k] = append(m[k], x.id)`.
func (e *Env) appendedID(mu *ssa.MapUpdate) ssa.Value {
	c, ok := mu.Value.(*ssa.Call)
	if !ok {
		return nil
	}
	bi, ok := c.Call.Value.(*ssa.Builtin)
	if !ok || bi.Name() != "append" || len(c.Call.Args) != 2 {
		return nil
	}
	fl := &ir.Flow{C: e.C, Source: func(v ssa.Value) bool {
		p, ok := e.C.PathOf(v)
		return ok && p.Suffix("id")
	}}
	sl, ok := c.Call.Args[1].(*ssa.Slice)
	if !ok {
		return nil
	}
	al, ok := sl.X.(*ssa.Alloc)
	if !ok {
		return nil
	}
	for _, ref := range *al.Referrers() {
		if ia, ok := ref.(*ssa.IndexAddr); ok {
			for _, r2 := range *ia.Referrers() {
				if st, ok := r2.(*ssa.Store); ok {
					if par, isP := ir.Resolve(st.Val).(*ssa.Parameter); isP && isIntType(par.Type()) {
						return par // the id itself, handed to the writer
					}
					if fl.Any(st.Val) && len(fl.Sources) > 0 {
						if ap, ok := e.C.PathOf(fl.Sources[0]); ok {
							return ap.Root
						}
					}
				}
			}
		}
	}
	return nil
}

func isIntType(t types.Type) bool {
	b, ok := t.Underlying().(*types.Basic)
	return ok && b.Info()&types.IsInteger != 0
}

func (e *Env) graphRoles() *GraphRoles {
	if e.groles != nil {
		return e.groles
	}
	g := &GraphRoles{}
	e.groles = g
	sp := e.P.Pkg(schedRel)
	if sp == nil {
		g.why = "scheduler package not loaded"
		return g
	}
	gt := sp.Type("ExecutionGraph")
	if gt == nil {
		g.why = "type ExecutionGraph not found"
		return g
	}
	st, ok := gt.Type().Underlying().(*types.Struct)
	if !ok {
		return g
	}
	adj := map[string]bool{}
	// the adjacency maps may live in a small struct of their own that the graph holds
	// (`g.edges.upstream`): the types of the graph's struct-valued fields are looked into
	adjOwner := map[string]bool{}
	for i := 0; i < st.NumFields(); i++ {
		ft := derefT(st.Field(i).Type())
		nt, isN := ft.(*types.Named)
		if !isN || nt.Obj().Pkg() == nil || nt.Obj().Pkg() != gt.Object().Pkg() {
			continue
		}
		if inner, isS := nt.Underlying().(*types.Struct); isS {
			for k := 0; k < inner.NumFields(); k++ {
				if mt, isM := inner.Field(k).Type().Underlying().(*types.Map); isM {
					if sl, ok := mt.Elem().Underlying().(*types.Slice); ok {
						if b, ok := sl.Elem().Underlying().(*types.Basic); ok && b.Info()&types.IsInteger != 0 {
							adj[inner.Field(k).Name()] = true
							adjOwner[nt.Obj().Name()] = true
							g.AdjOwners = adjOwner
						}
					}
				}
			}
		}
	}
	for i := 0; i < st.NumFields(); i++ {
		f := st.Field(i)
		switch t := f.Type().Underlying().(type) {
		case *types.Map:
			if sl, ok := t.Elem().Underlying().(*types.Slice); ok {
				if b, ok := sl.Elem().Underlying().(*types.Basic); ok && b.Info()&types.IsInteger != 0 {
					adj[f.Name()] = true
				}
			}
			if p, ok := t.Elem().(*types.Pointer); ok && typesName(p.Elem()) == "Node" {
				g.AllNodes = append(g.AllNodes, f.Name())
			}
		case *types.Slice:
			if p, ok := t.Elem().(*types.Pointer); ok && typesName(p.Elem()) == "Node" {
				g.AllNodes = append(g.AllNodes, f.Name())
			}
		}
	}
	adjUpdates := func(f *ssa.Function) []EdgeUpdate {
		var out []EdgeUpdate
		for _, b := range f.Blocks {
			for _, in := range b.Instrs {
				mu, ok := in.(*ssa.MapUpdate)
				if !ok {
					continue
				}
				mp, ok1 := e.C.PathOf(mu.Map)
				if !ok1 || len(mp.Fields) == 0 || len(mp.Fields) > 2 || !adj[mp.Fields[len(mp.Fields)-1]] {
					continue
				}
				rootT := typesName(derefT(mp.Root.Type()))
				if !(rootT == "ExecutionGraph" || (len(mp.Fields) == 1 && adjOwner[rootT])) {
					continue
				}
				u := EdgeUpdate{Site: mu, Field: mp.Fields[len(mp.Fields)-1]}
				if kp, ok2 := e.C.PathOf(mu.Key); ok2 && kp.Suffix("id") {
					u.Key = kp.Root
				} else if kpar, isP := ir.Resolve(mu.Key).(*ssa.Parameter); isP && isIntType(kpar.Type()) {
					u.Key = kpar // the writer is handed the ids themselves (`add(required.id, node.id)`)
				}
				u.App = e.appendedID(mu)
				out = append(out, u)
			}
		}
		return out
	}
	// the edge writer: the function updating two adjacency maps
	for _, f := range e.RepoFuncsSorted() {
		if rootFn(f).Package() != sp {
			continue
		}
		us := adjUpdates(f)
		fields := map[string]bool{}
		for _, u := range us {
			fields[u.Field] = true
		}
		if len(fields) >= 2 {
			// among several functions that update both maps, the edge writer is the one
			// the loop over Step.Depends uses (the others are reported by C01.edges as
			// additional writers)
			usedByDependsLoop := false
			for _, lf := range e.RepoFuncsSorted() {
				if rootFn(lf).Package() != sp {
					continue
				}
				for _, l := range ir.Loops(lf) {
					if l.Ranged == nil {
						continue
					}
					if p, ok := e.C.PathOf(l.Ranged); !ok || !p.Suffix("Step.Depends") {
						continue
					}
					if lf == f {
						usedByDependsLoop = true
					}
					for b := range l.Blocks {
						for _, in := range b.Instrs {
							if c, ok := in.(*ssa.Call); ok && c.Call.StaticCallee() == f {
								usedByDependsLoop = true
							}
						}
					}
				}
			}
			if g.AddEdge != nil && !usedByDependsLoop {
				continue
			}
			if g.AddEdge != nil && usedByDependsLoop && g.addEdgeFromLoop {
				g.why = "two functions add dependency edges: " + ShortFn(g.AddEdge) + ", " + ShortFn(f)
				return g
			}
			g.AddEdge, g.Updates, g.addEdgeFromLoop = f, us, usedByDependsLoop
		}
	}
	if g.AddEdge == nil {
		g.why = "no function of the scheduler package updates two map[int][]int fields of ExecutionGraph"
		return g
	}
	// the edge loop: ranges over X.Step.Depends and reaches the edge writer from inside the loop
	var edgeCalls []*ssa.Call
	for _, f := range e.RepoFuncsSorted() {
		if rootFn(f).Package() != sp {
			continue
		}
		for _, l := range ir.Loops(f) {
			if l.Ranged == nil {
				continue
			}
			p, ok := e.C.PathOf(l.Ranged)
			if !ok || !p.Suffix("Step.Depends") {
				continue
			}
			var calls []*ssa.Call
			inl := false
			for b := range l.Blocks {
				for _, in := range b.Instrs {
					if c, ok := in.(*ssa.Call); ok && c.Call.StaticCallee() == g.AddEdge {
						calls = append(calls, c)
					}
					if mu, ok := in.(*ssa.MapUpdate); ok && f == g.AddEdge {
						for _, u := range g.Updates {
							if u.Site == mu {
								inl = true
							}
						}
					}
				}
			}
			if len(calls) > 0 || inl {
				g.EdgeLoop, g.DepLoop, g.Owner, edgeCalls = f, l, p.Root, calls
			}
		}
	}
	if g.EdgeLoop == nil {
		g.why = "no loop over a node's Step.Depends adds edges (calls " + ShortFn(g.AddEdge) + " or updates the adjacency maps)"
		return g
	}
	// orientation: translate the writer's key / appended roots into the edge loop's frame
	isOwner := func(v ssa.Value) bool { return v != nil && (SameValue(v, g.Owner) || sameElem(v, g.Owner)) }
	toLoop := func(v ssa.Value) []ssa.Value {
		if v == nil {
			return nil
		}
		if g.AddEdge == g.EdgeLoop {
			return []ssa.Value{v}
		}
		var out []ssa.Value
		for i, p := range g.AddEdge.Params {
			if ir.Resolve(v) == ssa.Value(p) {
				for _, c := range edgeCalls {
					if i < len(c.Call.Args) {
						a := c.Call.Args[i]
						// an id handed over: the node it is the id of
						if ap, okp := e.C.PathOf(a); okp && ap.Suffix("id") && isIntType(p.Type()) {
							a = ap.Root
						}
						out = append(out, a)
					}
				}
			}
		}
		return out
	}
	all := func(vs []ssa.Value, pred func(ssa.Value) bool) bool {
		if len(vs) == 0 {
			return false
		}
		for _, v := range vs {
			if !pred(v) {
				return false
			}
		}
		return true
	}
	for i := range g.Updates {
		u := &g.Updates[i]
		kl, al := toLoop(u.Key), toLoop(u.App)
		u.KeyDependent, u.AppDependent = all(kl, isOwner), all(al, isOwner)
		notOwner := func(v ssa.Value) bool { return !isOwner(v) }
		u.KeyDependency, u.AppDependency = all(kl, notOwner), all(al, notOwner)
		if u.KeyDependent && u.AppDependency {
			if g.Pred != "" && g.Pred != u.Field {
				g.why = "two different maps collect a node's dependencies"
				return g
			}
			g.Pred = u.Field
		}
		if u.KeyDependency && u.AppDependent {
			if g.Succ != "" && g.Succ != u.Field {
				g.why = "two different maps collect a node's dependents"
				return g
			}
			g.Succ = u.Field
		}
	}
	g.ok = g.Pred != "" && g.Succ != "" && g.Pred != g.Succ
	if !g.ok {
		g.why = "the edge writer does not record an edge as adjacency[dependent]+=dependency and adjacency'[dependency]+=dependent"
	}
	// the refusing setup: the edge loop or one of its callers in the package, the
	// first whose error return depends on a boolean test of the package
	cands := []*ssa.Function{g.EdgeLoop}
	seen := map[*ssa.Function]bool{g.EdgeLoop: true}
	for i := 0; i < len(cands) && i < 8; i++ {
		for _, ci := range e.StaticCallSites(cands[i]) {
			if c := ci.Parent(); c != nil && rootFn(c).Package() == sp && !seen[c] {
				seen[c] = true
				cands = append(cands, c)
			}
		}
	}
	for _, c := range cands {
		for _, b := range c.Blocks {
			rt, ok := b.Instrs[len(b.Instrs)-1].(*ssa.Return)
			if !ok || len(rt.Results) == 0 || !ir.IsErrorType(rt.Results[len(rt.Results)-1].Type()) {
				continue
			}
			nonNil := false
			for _, v := range RetVals(rt, len(rt.Results)-1) {
				if !ir.IsNilConst(ir.Resolve(v)) {
					nonNil = true
				}
			}
			if !nonNil {
				continue
			}
			for _, l := range e.DCSBlock(b) {
				// the positive answer: `hasCycle()`, or a witness that is not nil (`findCycle() != nil`)
				var subj ssa.Value
				negated := false
				switch {
				case l.Kind == "val" && l.Pol:
					subj = l.V
				case l.Kind == "val" && !l.Pol:
					subj, negated = l.V, true // `if !acyclic() { return errCycle }`
				case l.Kind == "cmp" && l.Op == token.NEQ && ir.IsNilConst(l.Y):
					subj = l.X
				default:
					continue
				}
				if cc, isC := ir.Resolve(subj).(*ssa.Call); isC && cc.Call.StaticCallee() != nil && rootFn(cc.Call.StaticCallee()).Package() == sp {
					h := cc.Call.StaticCallee()
					if h.Signature.Results().Len() != 1 {
						continue
					}
					if rtp := h.Signature.Results().At(0).Type(); l.Kind == "val" && rtp.String() != "bool" || l.Kind == "cmp" && (!nilable(rtp) || ir.IsErrorType(rtp)) {
						continue
					}
					if negated && h.Signature.Results().At(0).Type().String() != "bool" {
						continue
					}
					g.HasCycle, g.CycleNegated = h, negated
					cycleTestNegated = negated
					// a function with the error as its only result is the refusing setup; a
					// constructor that asks the cycle test itself leaves Setup unset
					if len(rt.Results) == 1 {
						g.Setup = c
					}
				}
			}
		}
		if g.HasCycle != nil {
			break
		}
	}
	// the retry reset: reachable from the retry constructor, zeroes a node's state
	if ctor := e.FnQuiet(schedRel, "NewExecutionGraphForRetry"); ctor != nil {
		for _, f := range e.staticClosure(ctor) {
			if rootFn(f).Package() != sp || isAccessor(f) {
				continue
			}
			for _, ev := range e.C.FieldStores(f, "State.Status") {
				if ev.Zero && len(ir.Loops(f)) > 0 {
					g.Reset = f
				}
			}
		}
	}
	return g
}

// isEdgeSite: the instruction adds an edge inside the edge loop (a call of the
// edge writer, or - when the loop is the writer - one of its adjacency updates).
func (g *GraphRoles) isEdgeSite(in ssa.Instruction) bool {
	if c, ok := in.(*ssa.Call); ok && g.AddEdge != g.EdgeLoop && c.Call.StaticCallee() == g.AddEdge {
		return true
	}
	if mu, ok := in.(*ssa.MapUpdate); ok && g.AddEdge == g.EdgeLoop {
		for _, u := range g.Updates {
			if u.Site == mu {
				return true
			}
		}
	}
	return false
}

// readinessFunc: by role, the boolean function of the scheduler package that
// the launch is gated on and that receives the node being launched.
func (e *Env) readinessFunc(s *Sched) *ssa.Function {
	if s.Launch == nil {
		return nil
	}
	sp := e.P.Pkg(schedRel)
	var best *ssa.Function
	for _, n := range e.DCS(s.Launch) {
		if n.Kind != "val" || !n.Pol {
			continue
		}
		c, ok := ir.Resolve(n.V).(*ssa.Call)
		if !ok {
			continue
		}
		callee := c.Call.StaticCallee()
		if callee == nil || rootFn(callee).Package() != sp || callee.Signature.Results().Len() != 1 {
			continue
		}
		takesNode := false
		for _, a := range c.Call.Args {
			if sameNode(a, s.LoopNode) {
				takesNode = true
			}
		}
		// it looks at other nodes' status: iterates an adjacency list of the graph
		if takesNode && len(ir.Loops(callee)) > 0 {
			best = callee
		}
	}
	return best
}

// boolHelperReturns: for a repository function with a boolean result, the
// conditions (inside the function) under which it returns the wanted value, one
// conjunction per return site. ok=false when a return value is neither a
// constant nor a plain condition.
func (e *Env) boolHelperReturns(h *ssa.Function, want bool) (alts [][]ir.NLit, ok bool) {
	if h == nil || h.Blocks == nil || h.Signature.Results().Len() != 1 {
		return nil, false
	}
	if b, isB := h.Signature.Results().At(0).Type().Underlying().(*types.Basic); !isB || b.Kind() != types.Bool {
		return nil, false
	}
	ff := e.Facts(h)
	for _, b := range h.Blocks {
		rt, isR := b.Instrs[len(b.Instrs)-1].(*ssa.Return)
		if !isR || !ff.Reachable(b) {
			continue
		}
		// the ways of reaching this return: its reaching condition inside the helper
		// (a return shared by several case edges is a disjunction), else its dominators
		var ways [][]ir.NLit
		if dnf, okRC := ir.ReachingCondition(h.Blocks[0], b, 32); okRC && len(dnf) > 0 && len(ir.Loops(h)) == 0 {
			for _, cj := range dnf {
				for _, conj := range ff.ExpandDNFRegion(h.Blocks[0], []ir.Lit(cj)) {
					ways = append(ways, ir.NormalizeAll(conj))
				}
			}
		} else {
			ways = [][]ir.NLit{e.DCSBlock(b)}
		}
		for _, v := range RetVals(rt, 0) {
			for _, lits := range ways {
				if cb, isC := ir.ConstBool(ir.Resolve(v)); isC {
					if cb == want {
						alts = append(alts, lits)
					}
					continue
				}
				// a computed verdict: the ways the value can have the wanted polarity
				// (short-circuit expressions expanded into a disjunction)
				for _, conj := range ff.ExpandDNF([]ir.Lit{{Cond: v, Pol: want}}) {
					alts = append(alts, append(append([]ir.NLit{}, lits...), ir.NormalizeAll(conj)...))
				}
			}
		}
	}
	return alts, true
}

// callAlt is one way a helper call can have returned, seen from the caller: the
// caller's conditions with every literal about the call's results replaced by
// the helper's own conditions for that return, and the values returned there.
type callAlt struct {
	Lits    []ir.NLit
	Results []ssa.Value
}

// helperOf: v is a result of a call of a branching helper of the repository that
// is called from one place; returns the call and the result index.
func (e *Env) helperOf(v ssa.Value) (*ssa.Call, int, bool) {
	v = ir.Resolve(v)
	idx := 0
	if sc, fld, ok := structResultOf(v); ok {
		// a field of the small struct a classifier hands back (`v := judge(dep); v.blocks`)
		h := sc.Call.StaticCallee()
		if h == nil || !e.P.Funcs[h] || h.Blocks == nil || ir.UniqueSite(h) == nil || len(h.Blocks) < 3 {
			return nil, 0, false
		}
		return sc, structIdx + fld, true
	}
	if ex, ok := v.(*ssa.Extract); ok {
		v, idx = ex.Tuple, ex.Index
	}
	c, ok := v.(*ssa.Call)
	if !ok {
		return nil, 0, false
	}
	h := c.Call.StaticCallee()
	if h == nil || !e.P.Funcs[h] || h.Blocks == nil || ir.UniqueSite(h) == nil {
		return nil, 0, false
	}
	// getters (State(), isCanceled() ...) stay as they are: only helpers that
	// branch, and forwarders (`return other(x)`) of such helpers
	if len(h.Blocks) < 3 {
		fwd := false
		if len(h.Blocks) == 1 {
			if rt, isR := h.Blocks[0].Instrs[len(h.Blocks[0].Instrs)-1].(*ssa.Return); isR && idx < len(rt.Results) {
				if cc, isC := ir.Resolve(rt.Results[idx]).(*ssa.Call); isC {
					if g := cc.Call.StaticCallee(); g != nil && e.P.Funcs[g] && g.Blocks != nil && len(g.Blocks) >= 3 && ir.UniqueSite(g) != nil {
						fwd = true
					}
				}
			}
		}
		if !fwd {
			return nil, 0, false
		}
	}
	return c, idx, true
}

// splitOnCall enumerates the return sites of the helper called by c (and, for a
// return reached in several ways, each way) and keeps those consistent with the
// literals of lits that speak about c's results.
func (e *Env) splitOnCall(c *ssa.Call, lits []ir.NLit) ([]callAlt, bool) {
	h := e.calleeFn(&c.Call)
	ff := e.Facts(h)
	var rest, about []ir.NLit
	aboutIdx := []int{}
	for _, l := range lits {
		var subj ssa.Value
		switch l.Kind {
		case "val":
			subj = l.V
		case "cmp":
			subj = l.X
		}
		hof := e.helperOf
		if e.anySite {
			hof = e.helperOfAny
		}
		if cc, idx, ok := hof(subj); ok && cc == c {
			about = append(about, l)
			aboutIdx = append(aboutIdx, idx)
			continue
		}
		rest = append(rest, l)
	}
	var out []callAlt
	for _, b := range h.Blocks {
		rt, isR := b.Instrs[len(b.Instrs)-1].(*ssa.Return)
		if !isR || !ff.Reachable(b) {
			continue
		}
		var ways [][]ir.NLit
		if dnf, okRC := ir.ReachingCondition(h.Blocks[0], b, 32); okRC && len(dnf) > 0 && len(ir.Loops(h)) == 0 {
			for _, cj := range dnf {
				for _, conj := range ff.ExpandDNFRegion(h.Blocks[0], []ir.Lit(cj)) {
					ways = append(ways, ir.NormalizeAll(conj))
				}
			}
		} else {
			ways = [][]ir.NLit{e.DCSBlock(b)}
		}
		// the values returned here (one alternative per combination is not needed:
		// a spilled result with several stores is left undecided)
		results := make([]ssa.Value, len(rt.Results))
		for i := range rt.Results {
			vs := RetVals(rt, i)
			if len(vs) == 1 {
				results[i] = ir.Resolve(vs[0])
			}
		}
		// a single struct result: its fields, as built at this return, behind structIdx
		if len(rt.Results) == 1 {
			if st, isSt := rt.Results[0].Type().Underlying().(*types.Struct); isSt {
				if sv := structRetVal(rt); sv != nil {
					fv := e.structFieldsOf(sv, st)
					if fv != nil {
						full := make([]ssa.Value, structIdx+len(fv))
						copy(full, results)
						copy(full[structIdx:], fv)
						results = full
					}
				}
			}
		}
		for _, way := range ways {
			alts := [][]ir.NLit{append(append([]ir.NLit{}, rest...), way...)}
			feasible := true
			for k, l := range about {
				var rv ssa.Value
				if aboutIdx[k] < len(results) {
					rv = results[aboutIdx[k]]
				}
				if rv == nil {
					for a := range alts {
						alts[a] = append(alts[a], l)
					}
					continue
				}
				switch l.Kind {
				case "val":
					if cb, isC := ir.ConstBool(rv); isC {
						if cb != l.Pol {
							feasible = false
						}
						continue
					}
					// a computed verdict: the ways the value can have the wanted polarity
					var next [][]ir.NLit
					for _, conj := range ff.ExpandDNF([]ir.Lit{{Cond: rv, Pol: l.Pol}}) {
						for _, a := range alts {
							next = append(next, append(append([]ir.NLit{}, a...), ir.NormalizeAll(conj)...))
						}
					}
					alts = next
				case "cmp":
					dec, val := e.evalCmp(l.Op, rv, l.Y)
					if dec {
						if !val {
							feasible = false
						}
						continue
					}
					if ir.IsNilConst(l.Y) && forwardedResult(rv) {
						// `return g(x)` / `_, err := g(x); return err`: the caller's nil test is a test of g's result
						nl := l
						nl.X = rv
						for a := range alts {
							alts[a] = append(alts[a], nl)
						}
						continue
					}
					// a computed result compared in the caller: the literal stays as the caller wrote it
					for a := range alts {
						alts[a] = append(alts[a], l)
					}
				}
				if !feasible {
					break
				}
			}
			if !feasible {
				continue
			}
			for _, a := range alts {
				out = append(out, callAlt{Lits: a, Results: results})
			}
		}
	}
	return out, len(out) > 0 && len(out) <= 64
}

// verdictResult: result idx of h is a boolean, or every return gives it a constant.
func (e *Env) verdictResult(h *ssa.Function, idx int) bool {
	rs := h.Signature.Results()
	if idx >= structIdx {
		// a field of a struct result: a boolean, or a constant at every return
		if rs.Len() != 1 {
			return false
		}
		st, isSt := rs.At(0).Type().Underlying().(*types.Struct)
		if !isSt || idx-structIdx >= st.NumFields() {
			return false
		}
		if b, isB := st.Field(idx - structIdx).Type().Underlying().(*types.Basic); isB && b.Kind() == types.Bool {
			return true
		}
		n := 0
		for _, b := range h.Blocks {
			rt, isR := b.Instrs[len(b.Instrs)-1].(*ssa.Return)
			if !isR || len(rt.Results) != 1 || !e.Facts(h).Reachable(b) {
				continue
			}
			sv := structRetVal(rt)
			if sv == nil {
				return false
			}
			fv := e.structFieldsOf(sv, st)
			if fv == nil {
				return false
			}
			n++
			if _, isC := fv[idx-structIdx].(*ssa.Const); !isC && !e.definitelyNonNil(fv[idx-structIdx], 0) {
				return false
			}
		}
		return n > 0
	}
	if idx >= rs.Len() {
		return false
	}
	if b, isB := rs.At(idx).Type().Underlying().(*types.Basic); isB && b.Kind() == types.Bool {
		return true
	}
	n := 0
	for _, b := range h.Blocks {
		rt, isR := b.Instrs[len(b.Instrs)-1].(*ssa.Return)
		if !isR || idx >= len(rt.Results) {
			continue
		}
		for _, v := range RetVals(rt, idx) {
			n++
			if _, isC := ir.Resolve(v).(*ssa.Const); !isC && !e.definitelyNonNil(v, 0) && !forwardedResult(v) {
				return false
			}
		}
	}
	return n > 0
}

// definitelyNonNil: v is a freshly built value (an allocation, an interface
// made from one, the result of a repository constructor all of whose returns are
// such values).
func (e *Env) definitelyNonNil(v ssa.Value, depth int) bool {
	v = ir.Resolve(v)
	switch x := v.(type) {
	case *ssa.Alloc, *ssa.MakeClosure, *ssa.Function, *ssa.FieldAddr, *ssa.IndexAddr, *ssa.MakeMap, *ssa.MakeSlice, *ssa.MakeChan:
		return true
	case *ssa.MakeInterface:
		return true
	case *ssa.Slice:
		return depth <= 2 && e.definitelyNonNil(x.X, depth+1)
	case *ssa.Call:
		if ir.IsCallTo(&x.Call, "fmt.Errorf", "errors.New") {
			return true
		}
		// a non-empty append
		if c, ok := isAppend(x); ok && len(c.Call.Args) == 2 {
			if _, isSl := c.Call.Args[1].(*ssa.Slice); isSl && len(variadicElems(c.Call.Args[1])) > 0 {
				return true
			}
			return depth <= 2 && e.definitelyNonNil(c.Call.Args[0], depth+1)
		}
		g := x.Call.StaticCallee()
		if g == nil || !e.P.Funcs[g] || g.Blocks == nil || depth > 2 || g.Signature.Results().Len() != 1 {
			return false
		}
		n := 0
		for _, b := range g.Blocks {
			if rt, ok := b.Instrs[len(b.Instrs)-1].(*ssa.Return); ok {
				for _, rv := range RetVals(rt, 0) {
					n++
					if !e.definitelyNonNil(rv, depth+1) {
						return false
					}
				}
			}
		}
		return n > 0
	}
	return false
}

// evalCmp decides `x op y` for constants (integers, nil).
func (e *Env) evalCmp(op token.Token, x, y ssa.Value) (decided, val bool) {
	if ir.IsNilConst(y) && !ir.IsNilConst(x) && e.definitelyNonNil(x, 0) {
		switch op {
		case token.EQL:
			return true, false
		case token.NEQ:
			return true, true
		}
	}
	return evalCmp(op, x, y)
}

func evalCmp(op token.Token, x, y ssa.Value) (decided, val bool) {
	if a, ok := ir.ConstInt(x); ok {
		if b, ok := ir.ConstInt(y); ok {
			switch op {
			case token.EQL:
				return true, a == b
			case token.NEQ:
				return true, a != b
			case token.LSS:
				return true, a < b
			case token.LEQ:
				return true, a <= b
			}
		}
		return false, false
	}
	if ir.IsNilConst(y) && ir.IsNilConst(x) {
		switch op {
		case token.EQL:
			return true, true
		case token.NEQ:
			return true, false
		}
	}
	return false, false
}

// expandHelperCalls rewrites a conjunction of literals into a disjunction in
// which literals about the results of single-call-site branching helpers of the
// repository (boolean helpers, and classifiers returning several values) are
// replaced by the helper's own return conditions (the virtual inlining view for
// conditions). All literals about one call are resolved against the same return.
// Bounded.
func (e *Env) expandHelperCalls(lits []ir.NLit, depth int) [][]ir.NLit {
	var out [][]ir.NLit
	// a φ compared with a constant says which branch assigned it: its edge's conditions
	// take the place of the comparison (and may mention helpers themselves)
	for _, p := range e.expandPhiConst(lits, 0) {
		for _, a := range e.expandHelperCallsX(p, depth, map[*ssa.Call]bool{}) {
			// and the lookups in constant tables (`v, ok := table[k]`)
			out = append(out, e.expandTableLits(a)...)
		}
	}
	return out
}

func (e *Env) expandHelperCallsX(lits []ir.NLit, depth int, done map[*ssa.Call]bool) [][]ir.NLit {
	if depth > 3 {
		return [][]ir.NLit{lits}
	}
	for _, l := range lits {
		var subj ssa.Value
		switch l.Kind {
		case "val":
			subj = l.V
		case "cmp":
			subj = l.X
		}
		c, idx, ok := e.helperOf(subj)
		if !ok || done[c] {
			continue
		}
		// only results that are verdicts (booleans, enum-like constants) are resolved
		// against the helper's returns; a computed quantity (a count) stays opaque
		if !e.verdictResult(c.Call.StaticCallee(), idx) {
			continue
		}
		alts, ok := e.splitOnCall(c, lits)
		if !ok {
			continue
		}
		nd := map[*ssa.Call]bool{c: true}
		for k := range done {
			nd[k] = true
		}
		var out [][]ir.NLit
		for _, a := range alts {
			out = append(out, e.expandHelperCallsX(a.Lits, depth+1, nd)...)
		}
		return out
	}
	return [][]ir.NLit{lits}
}

var _ = token.ADD
var _ = strings.TrimSpace

// NodeRoles names the Node's life-cycle functions by what they do:
//
//	Setup     opens the step's files: its static closure (inside the package) installs
//	          bufio writers into Node fields, and somebody outside the Node's methods calls it
//	Teardown  flushes them: its closure calls (*bufio.Writer).Flush, installs nothing, and
//	          somebody outside the Node's methods calls it
//	Wire      the function that hands the writers to the executor (invokes SetStdout)
type NodeRoles struct {
	Setup, Teardown, Wire *ssa.Function
}

func (e *Env) nodeRoles() *NodeRoles {
	if e.nroles != nil {
		return e.nroles
	}
	nr := &NodeRoles{}
	e.nroles = nr
	sp := e.P.Pkg(schedRel)
	if sp == nil {
		return nr
	}
	isNodeMethod := func(f *ssa.Function) bool {
		g := rootFn(f)
		return g.Signature.Recv() != nil && strings.HasSuffix(ir.NamedType(g.Signature.Recv().Type()), schedRel+".Node")
	}
	inPkgClosure := func(f *ssa.Function) []*ssa.Function {
		var out []*ssa.Function
		for _, g := range e.staticClosure(f) {
			if rootFn(g).Package() == sp {
				out = append(out, g)
			}
		}
		return out
	}
	has := func(fs []*ssa.Function, names ...string) bool {
		for _, g := range fs {
			if len(ir.CallsIn(g, func(c *ssa.CallCommon) bool { return ir.IsCallTo(c, names...) })) > 0 {
				return true
			}
		}
		return false
	}
	calledFromOutside := func(f *ssa.Function) bool {
		for _, ci := range e.StaticCallSites(f) {
			if ci.Parent().Synthetic != "" {
				continue // bound-method wrapper: a method value, not a caller
			}
			if !isNodeMethod(ci.Parent()) {
				return true
			}
		}
		return false
	}
	for _, f := range e.RepoFuncsSorted() {
		if f.Parent() != nil || f.Package() != sp || !isNodeMethod(f) {
			continue
		}
		if len(ir.CallsIn(f, func(c *ssa.CallCommon) bool { return c.IsInvoke() && c.Method.Name() == "SetStdout" })) > 0 {
			nr.Wire = f
		}
		if !calledFromOutside(f) {
			continue
		}
		cl := inPkgClosure(f)
		installs := has(cl, "bufio.NewWriter", "bufio.NewWriterSize")
		flushes := has(cl, "(*bufio.Writer).Flush")
		switch {
		case installs && !flushes:
			nr.Setup = f
		case flushes && !installs:
			nr.Teardown = f
		}
	}
	if nr.Setup == nil {
		nr.Setup = e.FnQuiet(schedRel, "(*Node).setup")
	}
	if nr.Teardown == nil {
		nr.Teardown = e.FnQuiet(schedRel, "(*Node).teardown")
	}
	if nr.Wire == nil {
		nr.Wire = e.FnQuiet(schedRel, "(*Node).setupExec")
	}
	return nr
}

// BLit is a literal in the frame of some function together with the binding of
// that function's parameters to the arguments of the call through which the
// literal was obtained. It lets the conditions of a helper that is called from
// several places (no virtual inlining possible) be read at one of its calls.
type BLit struct {
	ir.NLit
	Bind map[ssa.Value]ssa.Value
}

// Val resolves a value of the literal's frame to the frame of the call the
// literal was taken from: bound parameters are replaced by their arguments
// (callers apply ir.Deep for the virtual inlining view on top).
func (b BLit) Val(v ssa.Value) ssa.Value {
	for d := 0; d < 6; d++ {
		v = ir.Resolve(v)
		if a, ok := b.Bind[v]; ok {
			v = a
			continue
		}
		break
	}
	return ir.Resolve(v)
}

// expandBound is expandHelperCalls without the single-call-site restriction:
// a literal about the result of any branching helper (or one-expression
// predicate) of the repository is replaced by the helper's own conditions, each
// carrying the binding of the helper's parameters at this call.
func (e *Env) expandBound(lits []ir.NLit) [][]BLit {
	var start []BLit
	for _, l := range lits {
		start = append(start, BLit{NLit: l})
	}
	return e.expandBoundX(start, 0, map[*ssa.Call]bool{})
}

func (e *Env) expandBoundX(lits []BLit, depth int, done map[*ssa.Call]bool) [][]BLit {
	if depth > 3 {
		return [][]BLit{lits}
	}
	for _, l := range lits {
		var subj ssa.Value
		switch l.Kind {
		case "val":
			subj = l.V
		case "cmp":
			subj = l.X
		}
		c, idx, ok := e.helperOfAny(subj)
		if !ok || done[c] {
			continue
		}
		h := e.calleeFn(&c.Call)
		if !e.verdictResult(h, idx) {
			continue
		}
		// split on the plain literals, then attach the binding to what came from the callee
		var plain []ir.NLit
		owner := map[int]map[ssa.Value]ssa.Value{}
		for i, x := range lits {
			plain = append(plain, x.NLit)
			owner[i] = x.Bind
		}
		alts, ok := e.splitOnCallAny(c, plain)
		if !ok {
			continue
		}
		bind := map[ssa.Value]ssa.Value{}
		for i, p := range h.Params {
			if i < len(c.Call.Args) {
				// the argument itself may live in a bound frame
				bind[p] = l.Val(c.Call.Args[i])
			}
		}
		// a predicate made by a function (`stepNamed(name)`): what the closure captured
		// is the maker's parameter, which stands for the argument of the making call
		for k, v := range e.makerBindings(&c.Call) {
			bind[k] = v
		}
		nd := map[*ssa.Call]bool{c: true}
		for k := range done {
			nd[k] = true
		}
		var out [][]BLit
		// splitOnCall returns the caller's literals that are not about c first, in their
		// order, then what came from the callee (and caller literals about c it had to keep).
		// Attribution by position: two literals can be equal as values and still belong to
		// different calls of the same predicate (`n.is(A) || n.is(B)`).
		var restOwner, aboutLits []int
		for i, pl := range plain {
			var sj ssa.Value
			switch pl.Kind {
			case "val":
				sj = pl.V
			case "cmp":
				sj = pl.X
			}
			if cc, _, okc := e.helperOfAny(sj); okc && cc == c {
				aboutLits = append(aboutLits, i)
			} else {
				restOwner = append(restOwner, i)
			}
		}
		for _, a := range alts {
			var bl []BLit
			for j, x := range a.Lits {
				// a literal of the caller keeps its own binding; one of the callee gets the new one
				var b map[ssa.Value]ssa.Value
				switch {
				case j < len(restOwner):
					b = owner[restOwner[j]]
				default:
					b = bind
					for _, i := range aboutLits {
						if plain[i] == x {
							b = owner[i]
						}
					}
				}
				bl = append(bl, BLit{NLit: x, Bind: b})
			}
			out = append(out, e.expandBoundX(bl, depth+1, nd)...)
		}
		return out
	}
	return [][]BLit{lits}
}

// helperOfAny is helperOf without the single-call-site requirement; it also
// accepts one-expression predicates (a single block returning a comparison).
func (e *Env) helperOfAny(v ssa.Value) (*ssa.Call, int, bool) {
	if v == nil {
		return nil, 0, false
	}
	v = ir.Resolve(v)
	idx := 0
	if sc, fld, ok := structResultOf(v); ok {
		h := sc.Call.StaticCallee()
		if h == nil || !e.P.Funcs[h] || h.Blocks == nil || len(h.Blocks) < 3 || sc.Parent() == nil || pkgOfFn(sc.Parent()) != pkgOfFn(h) {
			return nil, 0, false
		}
		return sc, structIdx + fld, true
	}
	if ex, ok := v.(*ssa.Extract); ok {
		v, idx = ex.Tuple, ex.Index
	}
	c, ok := v.(*ssa.Call)
	if !ok {
		return nil, 0, false
	}
	h := e.calleeFn(&c.Call)
	if h == nil || !e.P.Funcs[h] || h.Blocks == nil || c.Call.IsInvoke() {
		return nil, 0, false
	}
	// only helpers of the caller's own package: another package's function is an
	// interface whose meaning the rules state themselves
	if c.Parent() == nil || pkgOfFn(c.Parent()) != pkgOfFn(h) {
		return nil, 0, false
	}
	if len(h.Blocks) >= 3 {
		return c, idx, true
	}
	if len(h.Blocks) == 1 {
		if rt, isR := h.Blocks[0].Instrs[len(h.Blocks[0].Instrs)-1].(*ssa.Return); isR && idx < len(rt.Results) {
			rv := ir.Resolve(rt.Results[idx])
			for {
				if u, isU := rv.(*ssa.UnOp); isU && u.Op == token.NOT {
					rv = ir.Resolve(u.X)
					continue
				}
				break
			}
			switch x := rv.(type) {
			case *ssa.BinOp:
				switch x.Op {
				case token.EQL, token.NEQ, token.LSS, token.LEQ, token.GTR, token.GEQ:
					return c, idx, true
				}
			case *ssa.Call:
				if g := x.Call.StaticCallee(); g != nil && e.P.Funcs[g] && g.Blocks != nil {
					return c, idx, true
				}
				// a library predicate applied to projections of the parameters only
				// (`return !e.Next.After(tick)`): a pure one-expression predicate
				pure := len(x.Call.Args) > 0 && !x.Call.IsInvoke()
				for _, a := range x.Call.Args {
					ra := ir.Resolve(a)
					if _, isC := ra.(*ssa.Const); isC {
						continue
					}
					if _, isP := ra.(*ssa.Parameter); isP {
						continue
					}
					if p, okp := e.C.PathOf(ra); okp {
						if _, isP := ir.Resolve(p.Root).(*ssa.Parameter); isP {
							continue
						}
					}
					pure = false
				}
				if pure {
					return c, idx, true
				}
			case *ssa.Extract:
				// `_, err := g(x); return err`
				if _, isC := x.Tuple.(*ssa.Call); isC {
					return c, idx, true
				}
			}
		}
	}
	return nil, 0, false
}

// splitOnCallAny: splitOnCall for helpers found by helperOfAny.
func (e *Env) splitOnCallAny(c *ssa.Call, lits []ir.NLit) ([]callAlt, bool) {
	e.anySite = true
	defer func() { e.anySite = false }()
	return e.splitOnCall(c, lits)
}

// forwardedResult: v is the (error) result of another call, handed on unchanged.
func forwardedResult(v ssa.Value) bool {
	v = ir.Resolve(v)
	if ex, ok := v.(*ssa.Extract); ok {
		_, isC := ex.Tuple.(*ssa.Call)
		return isC
	}
	c, ok := v.(*ssa.Call)
	if !ok {
		return false
	}
	_, isB := c.Call.Value.(*ssa.Builtin)
	return !isB
}

// existsPredicate: f tells whether a file exists - a function of the repository
// with one string parameter and a boolean result that stats its argument and
// answers from os.IsNotExist / the stat error. positive reports whether `true`
// means "exists".
func (e *Env) existsPredicate(f *ssa.Function) (is, positive bool) {
	if f == nil || !e.P.Funcs[f] || f.Blocks == nil || len(f.Params) != 1 || f.Signature.Results().Len() != 1 {
		return false, false
	}
	if b, ok := f.Signature.Results().At(0).Type().Underlying().(*types.Basic); !ok || b.Kind() != types.Bool {
		return false, false
	}
	// a forwarder on a path type (`func (f specFile) present() bool { return util.FileExists(string(f)) }`)
	if len(f.Blocks) == 1 {
		if rt, ok := f.Blocks[0].Instrs[len(f.Blocks[0].Instrs)-1].(*ssa.Return); ok && len(rt.Results) == 1 {
			v, pol := ir.Resolve(rt.Results[0]), true
			for {
				if u, isU := v.(*ssa.UnOp); isU && u.Op == token.NOT {
					v, pol = ir.Resolve(u.X), !pol
					continue
				}
				break
			}
			if c, isC := v.(*ssa.Call); isC && c.Call.StaticCallee() != f && len(c.Call.Args) == 1 && e.pathBase(c.Call.Args[0]) == ssa.Value(f.Params[0]) {
				if is, positive := e.existsPredicate(c.Call.StaticCallee()); is {
					return true, positive == pol
				}
			}
		}
	}
	stat := ir.CallsIn(f, func(c *ssa.CallCommon) bool { return ir.IsCallTo(c, "os.Stat", "os.Lstat") })
	if len(stat) != 1 || ir.Resolve(stat[0].Common().Args[0]) != ssa.Value(f.Params[0]) {
		return false, false
	}
	for _, b := range f.Blocks {
		rt, ok := b.Instrs[len(b.Instrs)-1].(*ssa.Return)
		if !ok {
			continue
		}
		v := ir.Resolve(rt.Results[0])
		pol := true
		for {
			if u, isU := v.(*ssa.UnOp); isU && u.Op == token.NOT {
				v, pol = ir.Resolve(u.X), !pol
				continue
			}
			break
		}
		if c, isC := v.(*ssa.Call); isC && ir.IsCallTo(&c.Call, "os.IsNotExist", "errors.Is") {
			return true, !pol // IsNotExist(err): true means "does not exist"
		}
		if bo, isB := v.(*ssa.BinOp); isB && (bo.Op == token.EQL || bo.Op == token.NEQ) && (ir.IsNilConst(bo.X) || ir.IsNilConst(bo.Y)) {
			return true, (bo.Op == token.EQL) == pol // err == nil: exists
		}
	}
	return false, false
}

// pathBase: the value a file name is a spelling of - conversions between string types
// and one-expression accessors of a path type (`func (f specFile) path() string { return
// string(f) }`) are looked through.
func (e *Env) pathBase(v ssa.Value) ssa.Value {
	for d := 0; d < 6; d++ {
		v = ir.Deep(v)
		switch x := v.(type) {
		case *ssa.Convert:
			if isStringish(x.Type()) && isStringish(x.X.Type()) {
				v = x.X
				continue
			}
		case *ssa.ChangeType:
			v = x.X
			continue
		case *ssa.Call:
			g := x.Call.StaticCallee()
			if g != nil && e.P.Funcs[g] && len(g.Blocks) == 1 && len(g.Params) == 1 && len(x.Call.Args) == 1 && len(g.Blocks[0].Instrs) <= 3 {
				if rt, ok := g.Blocks[0].Instrs[len(g.Blocks[0].Instrs)-1].(*ssa.Return); ok && len(rt.Results) == 1 {
					rv := ir.Resolve(rt.Results[0])
					if cv, isCv := rv.(*ssa.Convert); isCv {
						rv = ir.Resolve(cv.X)
					}
					if ct, isCt := rv.(*ssa.ChangeType); isCt {
						rv = ir.Resolve(ct.X)
					}
					if rv == ssa.Value(g.Params[0]) && isStringish(g.Params[0].Type()) {
						v = x.Call.Args[0]
						continue
					}
				}
			}
		}
		break
	}
	return v
}

func isStringish(t types.Type) bool {
	b, ok := t.Underlying().(*types.Basic)
	return ok && b.Info()&types.IsString != 0
}

// waysTo returns the ways control can reach an instruction, each as a
// conjunction: the dominating conditions (with the call-site context of the
// virtual inlining view) refined by the reaching condition inside the innermost
// enclosing loop body (or the function). A guard written as one disjunction
// (`if a || (b && c) { continue }`) leaves facts that no single dominating edge
// carries; the reaching condition has them.
func (e *Env) waysTo(in ssa.Instruction) [][]ir.NLit {
	base := e.DCS(in)
	fn := in.Parent()
	start := fn.Blocks[0]
	if l := ir.InnermostLoop(ir.Loops(fn), in.Block()); l != nil {
		for _, sb := range l.Header.Succs {
			if l.Blocks[sb] {
				start = sb
			}
		}
	}
	dnf, ok := ir.ReachingCondition(start, in.Block(), 32)
	if !ok || len(dnf) == 0 {
		return [][]ir.NLit{base}
	}
	ff := e.Facts(fn)
	var out [][]ir.NLit
	for _, cj := range dnf {
		for _, conj := range ff.ExpandDNFRegion(start, []ir.Lit(cj)) {
			out = append(out, append(append([]ir.NLit{}, base...), ir.NormalizeAll(conj)...))
		}
	}
	if len(out) == 0 || len(out) > 64 {
		return [][]ir.NLit{base}
	}
	return out
}

// ways expands a conjunction through the helpers and constant tables it
// mentions - helpers with one call site, helpers and one-expression predicates
// with several (their parameters bound to this call's arguments) - and calls fn
// once per alternative, with the bindings in force: inside fn, value identity
// (SameValue, PathOf roots, IsFieldRead) sees a predicate's parameter as the
// argument it was called with.
func (e *Env) ways(lits []ir.NLit, fn func(lits []ir.NLit)) {
	for _, alt := range e.expandBound(lits) {
		bind := map[ssa.Value]ssa.Value{}
		conflict := map[ssa.Value]bool{}
		var plain []ir.NLit
		for _, bl := range alt {
			plain = append(plain, bl.NLit)
			for k, v := range bl.Bind {
				if old, ok := bind[k]; ok && old != v {
					conflict[k] = true
				}
				bind[k] = v
			}
		}
		for k := range conflict {
			delete(bind, k)
		}
		for _, t := range e.expandTableLits(plain) {
			for _, t2 := range e.expandPhiConst(t, 0) {
				if nilContradiction(t2) {
					continue // `err != nil` of a helper's failing return with the caller's `err == nil`: not a way at all
				}
				undo := ir.SetOverride(bind)
				fn(t2)
				undo()
			}
		}
	}
}

// expandPhiConst: a comparison of a φ with a constant (`reason == ""` for a variable
// that the branches of a switch assign constants to) says which way control came:
// one alternative per φ edge whose constant satisfies the comparison, with the
// conditions of that edge in place of the comparison. Edges carrying a computed
// value keep the comparison.
func (e *Env) expandPhiConst(lits []ir.NLit, depth int) [][]ir.NLit {
	if depth > 2 {
		return [][]ir.NLit{lits}
	}
	for i, l := range lits {
		if l.Kind != "cmp" || (l.Op != token.EQL && l.Op != token.NEQ) {
			continue
		}
		ph, ok := l.X.(*ssa.Phi)
		if !ok {
			continue
		}
		yc, isC := l.Y.(*ssa.Const)
		if !isC || yc.Value == nil {
			continue
		}
		nConst := 0
		for _, ev := range ph.Edges {
			if c, isEC := ev.(*ssa.Const); isEC && c.Value != nil {
				nConst++
			}
		}
		if nConst == 0 || e.Facts(ph.Parent()) == nil {
			continue
		}
		rest := append(append([]ir.NLit{}, lits[:i]...), lits[i+1:]...)
		var out [][]ir.NLit
		for k, ev := range ph.Edges {
			edge := e.DCSPhiEdge(ph.Block(), k)
			if c, isEC := ev.(*ssa.Const); isEC && c.Value != nil {
				same := constant.Compare(c.Value, token.EQL, yc.Value)
				if same != (l.Op == token.EQL) {
					continue
				}
				alt := append(append([]ir.NLit{}, rest...), edge...)
				out = append(out, e.expandPhiConst(alt, depth+1)...)
				continue
			}
			alt := append(append(append([]ir.NLit{}, rest...), l), edge...)
			out = append(out, alt)
		}
		if len(out) == 0 {
			return [][]ir.NLit{lits} // contradictory: leave as is
		}
		return out
	}
	return [][]ir.NLit{lits}
}

// restrictWays is ir.Restrict over every way the conjunction can hold (helpers,
// predicates and constant tables expanded): the union of the values the subject
// can have.
func (e *Env) restrictWays(lits []ir.NLit, subject func(ssa.Value) bool, names map[int64]string) ir.EnumSet {
	out := ir.EnumSet{}
	for _, alt := range e.expandBound(lits) {
		if os.Getenv("BDDEBUG") != "" {
			for _, bl := range alt {
				fmt.Fprintf(os.Stderr, "DBG lit %v bind:", e.RenderN([]ir.NLit{bl.NLit}))
				for k, v := range bl.Bind {
					fmt.Fprintf(os.Stderr, " %s->%s", k.Name(), v.String())
				}
				fmt.Fprintln(os.Stderr)
			}
			fmt.Fprintln(os.Stderr, "DBG --")
		}
		// (1) all literals under the merged bindings (a parameter bound differently by
		// two literals is left unbound), tables resolved for the conjunction as a whole
		bind := map[ssa.Value]ssa.Value{}
		conflict := map[ssa.Value]bool{}
		var plain []ir.NLit
		for _, bl := range alt {
			plain = append(plain, bl.NLit)
			for k, v := range bl.Bind {
				if old, ok := bind[k]; ok && old != v {
					conflict[k] = true
				}
				bind[k] = v
			}
		}
		for k := range conflict {
			delete(bind, k)
		}
		merged := ir.EnumSet{}
		undo := ir.SetOverride(bind)
		for _, t := range e.expandTableLits(plain) {
			for v := range ir.Restrict(t, subject, names) {
				merged[v] = true
			}
		}
		undo()
		// (2) each literal under its own binding: the same predicate called twice with
		// different arguments (`n.is(Running) || n.is(None)`) restricts the subject twice.
		// Both sets contain every value the subject can have; so does their intersection.
		if len(conflict) > 0 {
			for _, bl := range alt {
				undo := ir.SetOverride(bl.Bind)
				one := ir.Restrict([]ir.NLit{bl.NLit}, subject, names)
				undo()
				for v := range merged {
					if !one[v] {
						delete(merged, v)
					}
				}
			}
		}
		for v := range merged {
			out[v] = true
		}
	}
	return out
}

// calleeFn: the function a call runs: its static callee, or - for a call through a
// func-typed parameter that is currently bound (virtual inlining of a higher-order
// helper: `countFunc(nodes, (*Node).isRunning)`) - the function value it is bound to.
func (e *Env) calleeFn(c *ssa.CallCommon) *ssa.Function {
	if f := c.StaticCallee(); f != nil {
		return f
	}
	if c.IsInvoke() {
		return nil
	}
	v := c.Value
	for d := 0; d < 4; d++ {
		switch x := v.(type) {
		case *ssa.Parameter:
			b := ir.Bound(x)
			if b == nil {
				return nil
			}
			v = b
		case *ssa.ChangeType:
			v = x.X
		case *ssa.MakeClosure:
			f, _ := x.Fn.(*ssa.Function)
			return f
		case *ssa.Call:
			// a predicate made by a function of the repository (`stepNamed(name)` returning
			// `func(n) bool { return n.Step.Name == name }`): the closure every return makes
			g := x.Call.StaticCallee()
			if g == nil || !e.P.Funcs[g] || g.Blocks == nil || g.Signature.Results().Len() != 1 {
				return nil
			}
			var made *ssa.Function
			for _, b := range g.Blocks {
				rt, isR := b.Instrs[len(b.Instrs)-1].(*ssa.Return)
				if !isR {
					continue
				}
				mc, isMC := ir.Resolve(rt.Results[0]).(*ssa.MakeClosure)
				if !isMC {
					return nil
				}
				f, _ := mc.Fn.(*ssa.Function)
				if made != nil && made != f {
					return nil
				}
				made = f
			}
			return made
		case *ssa.Function:
			// a method expression's thunk: the method itself (same parameters, receiver first)
			if strings.HasSuffix(x.Name(), "$thunk") && len(x.Blocks) == 1 {
				for _, in := range x.Blocks[0].Instrs {
					if ci, ok := in.(*ssa.Call); ok && ci.Call.StaticCallee() != nil && len(ci.Call.Args) == len(x.Params) {
						return ci.Call.StaticCallee()
					}
				}
			}
			return x
		default:
			return nil
		}
	}
	return nil
}

// pkgOfFn: the package a function belongs to; for an instance of a generic function,
// the package of the generic.
func pkgOfFn(f *ssa.Function) *ssa.Package {
	f = rootFn(f)
	if f.Package() != nil {
		return f.Package()
	}
	if o := f.Origin(); o != nil {
		return rootFn(o).Package()
	}
	return nil
}

// nilable: values of the type can be compared with nil.
func nilable(t types.Type) bool {
	switch t.Underlying().(type) {
	case *types.Slice, *types.Pointer, *types.Map, *types.Interface, *types.Chan, *types.Signature:
		return true
	}
	return false
}

// cycleTestNegated mirrors GraphRoles.CycleNegated for the env-less cycleNeg.
var cycleTestNegated = false

// cycleNeg: the conjunction says the cycle test answered "no cycle": `!hasCycle()`,
// or - for a test that hands back a witness - `findCycle() == nil`.
func cycleNeg(lits []ir.NLit, pred func(ssa.Value) bool) bool {
	if HasVal(lits, pred, cycleTestNegated) {
		return true
	}
	if cycleTestNegated {
		return false
	}
	for _, l := range lits {
		if l.Kind == "cmp" && l.Op == token.EQL && ir.IsNilConst(l.Y) && pred(ir.Resolve(l.X)) {
			return true
		}
	}
	return false
}

// structIdx marks a result index that names a field of a single struct result
// (structIdx + field index) instead of a component of a result tuple.
const structIdx = 1000

// structResultOf: v is a field of the struct a call returned: Field(call, k), or a
// read of field k of the local the call's result was stored in.
func structResultOf(v ssa.Value) (*ssa.Call, int, bool) {
	switch x := v.(type) {
	case *ssa.Field:
		if c, ok := ir.Resolve(x.X).(*ssa.Call); ok && c.Call.StaticCallee() != nil {
			return c, x.Field, true
		}
		if u, ok := ir.Resolve(x.X).(*ssa.UnOp); ok && u.Op == token.MUL {
			if al, isA := u.X.(*ssa.Alloc); isA {
				if st := ir.StoresTo(al); len(st) == 1 {
					if c, isC := ir.Resolve(st[0]).(*ssa.Call); isC && c.Call.StaticCallee() != nil {
						return c, x.Field, true
					}
				}
			}
		}
	case *ssa.UnOp:
		if x.Op != token.MUL {
			return nil, 0, false
		}
		fa, ok := x.X.(*ssa.FieldAddr)
		if !ok {
			return nil, 0, false
		}
		al, ok := fa.X.(*ssa.Alloc)
		if !ok {
			return nil, 0, false
		}
		if _, isSt := al.Type().Underlying().(*types.Pointer).Elem().Underlying().(*types.Struct); !isSt {
			return nil, 0, false
		}
		// the local is only ever assigned the call's result, and no field of it is written
		for _, ref := range *al.Referrers() {
			if f2, isFA := ref.(*ssa.FieldAddr); isFA {
				for _, r2 := range *f2.Referrers() {
					if st, isS := r2.(*ssa.Store); isS && st.Addr == ssa.Value(f2) {
						return nil, 0, false
					}
				}
			}
		}
		if st := ir.StoresTo(al); len(st) == 1 {
			if c, isC := ir.Resolve(st[0]).(*ssa.Call); isC && c.Call.StaticCallee() != nil {
				return c, fa.Field, true
			}
		}
	}
	return nil, 0, false
}

// structFieldsOf: the field values of a struct value built in place (a composite
// literal: a local with constant field stores, missing fields zero), read from a
// package-level variable that is initialised with such a literal and never
// reassigned, or the zero constant; nil when the value is put together otherwise.
func (e *Env) structFieldsOf(v ssa.Value, st *types.Struct) []ssa.Value {
	out := make([]ssa.Value, st.NumFields())
	zero := func() {
		for i := range out {
			if out[i] == nil {
				out[i] = zeroConst(st.Field(i).Type())
			}
		}
	}
	v = ir.Resolve(v)
	if c, ok := v.(*ssa.Const); ok && c.Value == nil {
		zero()
		return out
	}
	u, ok := v.(*ssa.UnOp)
	if !ok || u.Op != token.MUL {
		return nil
	}
	collect := func(base ssa.Value, refs []ssa.Instruction, only *ssa.Function) bool {
		for _, ref := range refs {
			switch x := ref.(type) {
			case *ssa.FieldAddr:
				for _, r2 := range *x.Referrers() {
					if sto, isS := r2.(*ssa.Store); isS && sto.Addr == ssa.Value(x) {
						if only != nil && sto.Parent() != only {
							return false
						}
						if out[x.Field] != nil {
							return false // assigned twice
						}
						out[x.Field] = ir.Resolve(sto.Val)
					}
				}
			case *ssa.Store:
				if x.Addr == base {
					return false // the whole value copied in
				}
			}
		}
		return true
	}
	switch b := u.X.(type) {
	case *ssa.Alloc:
		if !collect(b, *b.Referrers(), nil) {
			return nil
		}
	case *ssa.Global:
		if b.Pkg == nil || e.globalReassigned(b) {
			return nil
		}
		init := b.Pkg.Func("init")
		if init == nil {
			return nil
		}
		var refs []ssa.Instruction
		for _, f := range e.RepoFuncsSorted() {
			for _, blk := range f.Blocks {
				for _, in := range blk.Instrs {
					if fa, isFA := in.(*ssa.FieldAddr); isFA && fa.X == ssa.Value(b) {
						refs = append(refs, fa)
					}
					if sto, isS := in.(*ssa.Store); isS && sto.Addr == ssa.Value(b) {
						// a whole-value initialisation from a literal built in init
						if f != init {
							return nil
						}
						return e.structFieldsOf(sto.Val, st)
					}
				}
			}
		}
		if !collect(b, refs, init) {
			return nil
		}
	default:
		return nil
	}
	zero()
	return out
}

// zeroConst: the zero value of a type as a constant.
func zeroConst(t types.Type) *ssa.Const {
	if b, ok := t.Underlying().(*types.Basic); ok {
		switch {
		case b.Info()&types.IsBoolean != 0:
			return ssa.NewConst(constant.MakeBool(false), t)
		case b.Info()&types.IsInteger != 0:
			return ssa.NewConst(constant.MakeInt64(0), t)
		case b.Info()&types.IsString != 0:
			return ssa.NewConst(constant.MakeString(""), t)
		}
	}
	return ssa.NewConst(nil, t)
}

// structRetVal: the struct value a return hands back: a composite literal built in a
// local (read back whole), or what RetVals finds for a spilled result.
func structRetVal(rt *ssa.Return) ssa.Value {
	if u, ok := rt.Results[0].(*ssa.UnOp); ok && u.Op == token.MUL {
		if al, isA := u.X.(*ssa.Alloc); isA && len(ir.StoresTo(al)) == 0 {
			return u
		}
		if _, isG := u.X.(*ssa.Global); isG {
			return u
		}
	}
	if vs := RetVals(rt, 0); len(vs) == 1 {
		return vs[0]
	}
	return nil
}

// funcOfValue: the function a function value stands for: a closure, a named function,
// or - for a method expression (`(*Node).isPending`) - the method behind the thunk.
func funcOfValue(v ssa.Value) *ssa.Function {
	switch x := ir.Resolve(v).(type) {
	case *ssa.MakeClosure:
		f, _ := x.Fn.(*ssa.Function)
		return f
	case *ssa.Function:
		if strings.HasSuffix(x.Name(), "$thunk") && len(x.Blocks) == 1 {
			for _, in := range x.Blocks[0].Instrs {
				if ci, ok := in.(*ssa.Call); ok && ci.Call.StaticCallee() != nil && len(ci.Call.Args) == len(x.Params) {
					return ci.Call.StaticCallee()
				}
			}
		}
		return x
	}
	return nil
}

// nilContradiction: the conjunction says of one value both that it is nil and that it
// is not, or of one boolean both that it holds and that it does not.
func nilContradiction(lits []ir.NLit) bool {
	for i, a := range lits {
		for _, b := range lits[i+1:] {
			if a.Kind == "cmp" && b.Kind == "cmp" && ir.IsNilConst(a.Y) && ir.IsNilConst(b.Y) && ir.Resolve(a.X) == ir.Resolve(b.X) &&
				((a.Op == token.EQL && b.Op == token.NEQ) || (a.Op == token.NEQ && b.Op == token.EQL)) {
				return true
			}
			if a.Kind == "val" && b.Kind == "val" && a.Pol != b.Pol && a.V != nil && ir.Resolve(a.V) == ir.Resolve(b.V) {
				if _, isCall := ir.Resolve(a.V).(*ssa.Call); !isCall {
					return true
				}
			}
		}
	}
	return false
}

// makerBindings: for a call through a func-typed parameter that is bound to the result
// of a closure-making function, the maker's parameters bound to the making call's arguments.
func (e *Env) makerBindings(c *ssa.CallCommon) map[ssa.Value]ssa.Value {
	if c.StaticCallee() != nil || c.IsInvoke() {
		return nil
	}
	v := c.Value
	for d := 0; d < 4; d++ {
		switch x := v.(type) {
		case *ssa.Parameter:
			b := ir.Bound(x)
			if b == nil {
				return nil
			}
			v = b
		case *ssa.ChangeType:
			v = x.X
		case *ssa.Call:
			g := x.Call.StaticCallee()
			if g == nil || !e.P.Funcs[g] {
				return nil
			}
			out := map[ssa.Value]ssa.Value{}
			for i, p := range g.Params {
				if i < len(x.Call.Args) {
					out[p] = x.Call.Args[i]
				}
			}
			return out
		default:
			return nil
		}
	}
	return nil
}
