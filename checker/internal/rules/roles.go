package rules

import (
	"go/token"
	"go/types"
	"strings"

	"golang.org/x/tools/go/ssa"

	"bdcheck/internal/ir"
)

// GraphRoles names the ExecutionGraph's fields by what they hold, read off the
// code: the two adjacency maps are the map[int][]int fields that one function
// (the edge writer) appends to, keyed by one node's id and holding the other's;
// in the edge setup the edge writer's first node argument is the dependency
// (it comes from the by-name lookup of a Depends entry).
type GraphRoles struct {
	AddEdge  *ssa.Function
	Setup    *ssa.Function // the edge setup: the caller of the edge writer
	HasCycle *ssa.Function // the cycle test: the boolean callee of Setup whose positive answer makes it return an error
	Reset    *ssa.Function // the retry reset: the construction-phase function that zeroes node states
	Pred     string // adjacency[dependent] = its dependencies   (today: "to")
	Succ     string // adjacency[dependency] = its dependents    (today: "from")
	AllNodes []string
	ok       bool
}

func (e *Env) graphRoles() *GraphRoles {
	if e.groles != nil {
		return e.groles
	}
	g := &GraphRoles{}
	e.groles = g
	sp := e.P.Pkg(schedRel)
	if sp == nil {
		return g
	}
	gt := sp.Type("ExecutionGraph")
	if gt == nil {
		return g
	}
	st, ok := gt.Type().Underlying().(*types.Struct)
	if !ok {
		return g
	}
	adj := map[string]bool{}
	for i := 0; i < st.NumFields(); i++ {
		f := st.Field(i)
		switch t := f.Type().Underlying().(type) {
		case *types.Map:
			if sl, ok := t.Elem().Underlying().(*types.Slice); ok {
				if b, ok := sl.Elem().Underlying().(*types.Basic); ok && b.Info()&types.IsInteger != 0 {
					adj[f.Name()] = true
				}
			}
			if p, ok := t.Elem().(*types.Pointer); ok && typesName(p.Elem()) == "Node" {
				g.AllNodes = append(g.AllNodes, f.Name())
			}
		case *types.Slice:
			if p, ok := t.Elem().(*types.Pointer); ok && typesName(p.Elem()) == "Node" {
				g.AllNodes = append(g.AllNodes, f.Name())
			}
		}
	}
	// the edge writer: the function updating two adjacency maps keyed by its two node parameters
	for _, f := range e.RepoFuncsSorted() {
		if rootFn(f).Package() != sp || len(f.Params) != 3 {
			continue
		}
		keyed := map[string]int{} // field -> index of the parameter whose id is the key
		for _, b := range f.Blocks {
			for _, in := range b.Instrs {
				mu, ok := in.(*ssa.MapUpdate)
				if !ok {
					continue
				}
				mp, ok1 := e.C.PathOf(mu.Map)
				kp, ok2 := e.C.PathOf(mu.Key)
				if !ok1 || !ok2 || len(mp.Fields) != 1 || !adj[mp.Fields[0]] {
					continue
				}
				for i, p := range f.Params {
					if i > 0 && ir.Resolve(kp.Root) == ssa.Value(p) {
						keyed[mp.Fields[0]] = i
					}
				}
			}
		}
		if len(keyed) == 2 {
			g.AddEdge = f
			for name, idx := range keyed {
				if idx == 1 {
					g.Succ = name // keyed by the first node (the dependency)
				} else {
					g.Pred = name
				}
			}
		}
	}
	g.ok = g.AddEdge != nil && g.Pred != "" && g.Succ != ""
	if g.AddEdge != nil {
		for _, ci := range e.StaticCallSites(g.AddEdge) {
			g.Setup = ci.Parent()
		}
	}
	if g.Setup == nil {
		g.Setup = e.FnQuiet(schedRel, "(*ExecutionGraph).setup")
	}
	if g.Setup != nil {
		for _, b := range g.Setup.Blocks {
			rt, ok := b.Instrs[len(b.Instrs)-1].(*ssa.Return)
			if !ok || len(rt.Results) != 1 {
				continue
			}
			nonNil := false
			for _, v := range RetVals(rt, 0) {
				if !ir.IsNilConst(ir.Resolve(v)) {
					nonNil = true
				}
			}
			if !nonNil {
				continue
			}
			for _, l := range e.DCSBlock(b) {
				if l.Kind != "val" || !l.Pol {
					continue
				}
				if c, isC := ir.Resolve(l.V).(*ssa.Call); isC && c.Call.StaticCallee() != nil && rootFn(c.Call.StaticCallee()).Package() == sp {
					g.HasCycle = c.Call.StaticCallee()
				}
			}
		}
	}
	if g.HasCycle == nil {
		g.HasCycle = e.FnQuiet(schedRel, "(*ExecutionGraph).hasCycle")
	}
	// the retry reset: reachable from the retry constructor, zeroes a node's state
	if ctor := e.FnQuiet(schedRel, "NewExecutionGraphForRetry"); ctor != nil {
		for _, f := range e.staticClosure(ctor) {
			if rootFn(f).Package() != sp || isAccessor(f) {
				continue
			}
			for _, ev := range e.C.FieldStores(f, "State.Status") {
				if ev.Zero && len(ir.Loops(f)) > 0 {
					g.Reset = f
				}
			}
		}
	}
	if g.Reset == nil {
		g.Reset = e.FnQuiet(schedRel, "(*ExecutionGraph).setupRetry")
	}
	return g
}

// readinessFunc: by role, the boolean function of the scheduler package that
// the launch is gated on and that receives the node being launched.
func (e *Env) readinessFunc(s *Sched) *ssa.Function {
	if s.Launch == nil {
		return nil
	}
	sp := e.P.Pkg(schedRel)
	var best *ssa.Function
	for _, n := range e.DCS(s.Launch) {
		if n.Kind != "val" || !n.Pol {
			continue
		}
		c, ok := ir.Resolve(n.V).(*ssa.Call)
		if !ok {
			continue
		}
		callee := c.Call.StaticCallee()
		if callee == nil || rootFn(callee).Package() != sp || callee.Signature.Results().Len() != 1 {
			continue
		}
		takesNode := false
		for _, a := range c.Call.Args {
			if sameNode(a, s.LoopNode) {
				takesNode = true
			}
		}
		// it looks at other nodes' status: iterates an adjacency list of the graph
		if takesNode && len(ir.Loops(callee)) > 0 {
			best = callee
		}
	}
	return best
}

// boolHelperReturns: for a repository function with a boolean result, the
// conditions (inside the function) under which it returns the wanted value, one
// conjunction per return site. ok=false when a return value is neither a
// constant nor a plain condition.
func (e *Env) boolHelperReturns(h *ssa.Function, want bool) (alts [][]ir.NLit, ok bool) {
	if h == nil || h.Blocks == nil || h.Signature.Results().Len() != 1 {
		return nil, false
	}
	if b, isB := h.Signature.Results().At(0).Type().Underlying().(*types.Basic); !isB || b.Kind() != types.Bool {
		return nil, false
	}
	ff := e.Facts(h)
	for _, b := range h.Blocks {
		rt, isR := b.Instrs[len(b.Instrs)-1].(*ssa.Return)
		if !isR || !ff.Reachable(b) {
			continue
		}
		// the ways of reaching this return: its reaching condition inside the helper
		// (a return shared by several case edges is a disjunction), else its dominators
		var ways [][]ir.NLit
		if dnf, okRC := ir.ReachingCondition(h.Blocks[0], b, 32); okRC && len(dnf) > 0 && len(ir.Loops(h)) == 0 {
			for _, cj := range dnf {
				for _, conj := range ff.ExpandDNFRegion(h.Blocks[0], []ir.Lit(cj)) {
					ways = append(ways, ir.NormalizeAll(conj))
				}
			}
		} else {
			ways = [][]ir.NLit{e.DCSBlock(b)}
		}
		for _, v := range RetVals(rt, 0) {
			for _, lits := range ways {
				if cb, isC := ir.ConstBool(ir.Resolve(v)); isC {
					if cb == want {
						alts = append(alts, lits)
					}
					continue
				}
				// a computed verdict: the ways the value can have the wanted polarity
				// (short-circuit expressions expanded into a disjunction)
				for _, conj := range ff.ExpandDNF([]ir.Lit{{Cond: v, Pol: want}}) {
					alts = append(alts, append(append([]ir.NLit{}, lits...), ir.NormalizeAll(conj)...))
				}
			}
		}
	}
	return alts, true
}

// expandHelperCalls rewrites a conjunction of literals into a disjunction in
// which literals that are calls of single-call-site boolean helpers of the
// repository are replaced by the helper's own return conditions (the virtual
// inlining view for conditions). Bounded.
func (e *Env) expandHelperCalls(lits []ir.NLit, depth int) [][]ir.NLit {
	if depth > 3 {
		return [][]ir.NLit{lits}
	}
	for i, l := range lits {
		if l.Kind != "val" {
			continue
		}
		c, ok := ir.Resolve(l.V).(*ssa.Call)
		if !ok {
			continue
		}
		h := c.Call.StaticCallee()
		if h == nil || !e.P.Funcs[h] || ir.UniqueSite(h) == nil {
			continue
		}
		// getters (State(), isCanceled() ...) stay as they are: only helpers that branch
		if len(h.Blocks) < 3 {
			continue
		}
		alts, ok := e.boolHelperReturns(h, l.Pol)
		if !ok || len(alts) == 0 || len(alts) > 32 {
			continue
		}
		rest := append(append([]ir.NLit{}, lits[:i]...), lits[i+1:]...)
		var out [][]ir.NLit
		for _, a := range alts {
			out = append(out, e.expandHelperCalls(append(append([]ir.NLit{}, rest...), a...), depth+1)...)
		}
		return out
	}
	return [][]ir.NLit{lits}
}

var _ = token.ADD
var _ = strings.TrimSpace

// NodeRoles names the Node's life-cycle functions by what they do:
//
//	Setup     opens the step's files: its static closure (inside the package) installs
//	          bufio writers into Node fields, and somebody outside the Node's methods calls it
//	Teardown  flushes them: its closure calls (*bufio.Writer).Flush, installs nothing, and
//	          somebody outside the Node's methods calls it
//	Wire      the function that hands the writers to the executor (invokes SetStdout)
type NodeRoles struct {
	Setup, Teardown, Wire *ssa.Function
}

func (e *Env) nodeRoles() *NodeRoles {
	if e.nroles != nil {
		return e.nroles
	}
	nr := &NodeRoles{}
	e.nroles = nr
	sp := e.P.Pkg(schedRel)
	if sp == nil {
		return nr
	}
	isNodeMethod := func(f *ssa.Function) bool {
		g := rootFn(f)
		return g.Signature.Recv() != nil && strings.HasSuffix(ir.NamedType(g.Signature.Recv().Type()), schedRel+".Node")
	}
	inPkgClosure := func(f *ssa.Function) []*ssa.Function {
		var out []*ssa.Function
		for _, g := range e.staticClosure(f) {
			if rootFn(g).Package() == sp {
				out = append(out, g)
			}
		}
		return out
	}
	has := func(fs []*ssa.Function, names ...string) bool {
		for _, g := range fs {
			if len(ir.CallsIn(g, func(c *ssa.CallCommon) bool { return ir.IsCallTo(c, names...) })) > 0 {
				return true
			}
		}
		return false
	}
	calledFromOutside := func(f *ssa.Function) bool {
		for _, ci := range e.StaticCallSites(f) {
			if ci.Parent().Synthetic != "" {
				continue // bound-method wrapper: a method value, not a caller
			}
			if !isNodeMethod(ci.Parent()) {
				return true
			}
		}
		return false
	}
	for _, f := range e.RepoFuncsSorted() {
		if f.Parent() != nil || f.Package() != sp || !isNodeMethod(f) {
			continue
		}
		if len(ir.CallsIn(f, func(c *ssa.CallCommon) bool { return c.IsInvoke() && c.Method.Name() == "SetStdout" })) > 0 {
			nr.Wire = f
		}
		if !calledFromOutside(f) {
			continue
		}
		cl := inPkgClosure(f)
		installs := has(cl, "bufio.NewWriter", "bufio.NewWriterSize")
		flushes := has(cl, "(*bufio.Writer).Flush")
		switch {
		case installs && !flushes:
			nr.Setup = f
		case flushes && !installs:
			nr.Teardown = f
		}
	}
	if nr.Setup == nil {
		nr.Setup = e.FnQuiet(schedRel, "(*Node).setup")
	}
	if nr.Teardown == nil {
		nr.Teardown = e.FnQuiet(schedRel, "(*Node).teardown")
	}
	if nr.Wire == nil {
		nr.Wire = e.FnQuiet(schedRel, "(*Node).setupExec")
	}
	return nr
}
