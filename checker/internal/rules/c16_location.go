package rules

import (
	"strings"

	"golang.org/x/tools/go/ssa"

	"bdcheck/internal/ir"
)

// c16CanonicalLocation: a DAG file has one lock. The lock is the socket whose address
// is a hash of DAG.Location, so two spellings of one file (`/dags//x.yaml`,
// `/dags/./x.yaml`) must give the same Location: whatever the loader stores into
// DAG.Location comes, on every path, out of a call that makes the path absolute AND
// clean (filepath.Abs, filepath.Clean, filepath.EvalSymlinks, filepath.Join), through
// φs, the loader's helpers and their parameters. An absolute argument handed through
// unchanged keeps its spelling.
func c16CanonicalLocation(e *Env) {
	r := e.R
	r.Rule("C16.canonical-location", "VF", "DAG.Location is always the result of an absolute-and-clean path function", 1)
	canon := func(c *ssa.CallCommon) bool {
		return ir.IsCallTo(c, "path/filepath.Abs", "path/filepath.Clean", "path/filepath.EvalSymlinks", "path/filepath.Join")
	}
	var ok func(v ssa.Value, d int, seen map[ssa.Value]bool) (bool, string)
	ok = func(v ssa.Value, d int, seen map[ssa.Value]bool) (bool, string) {
		v = ir.Deep(v)
		if seen[v] {
			return true, ""
		}
		seen[v] = true
		if d > 8 {
			return false, "origin too deep"
		}
		idx := 0
		switch x := v.(type) {
		case *ssa.Phi:
			for _, ed := range x.Edges {
				if o, why := ok(ed, d+1, seen); !o {
					return false, why
				}
			}
			return true, ""
		case *ssa.Extract:
			v, idx = x.Tuple, x.Index
		}
		c, isC := v.(*ssa.Call)
		if !isC {
			return false, "comes from " + e.C.Render(v)
		}
		if canon(&c.Call) {
			return true, ""
		}
		g := c.Call.StaticCallee()
		if g == nil || !e.P.Funcs[g] || g.Blocks == nil {
			return false, "comes from " + ir.CalleeName(&c.Call) + " at " + e.InstrPos(c)
		}
		for _, b := range g.Blocks {
			rt, isR := b.Instrs[len(b.Instrs)-1].(*ssa.Return)
			if !isR || idx >= len(rt.Results) || !e.Facts(g).Reachable(b) {
				continue
			}
			// an error return hands back no path
			res := g.Signature.Results()
			if res.Len() > 1 && ir.IsErrorType(res.At(res.Len()-1).Type()) {
				failing := true
				for _, ev := range RetVals(rt, res.Len()-1) {
					if e.mayBeNil(rt, ev) {
						failing = false
					}
				}
				if failing {
					continue
				}
			}
			for _, rv := range RetVals(rt, idx) {
				if o, why := ok(rv, d+1, seen); !o {
					return false, why + " (returned by " + ShortFn(g) + " at " + e.InstrPos(rt) + ")"
				}
			}
		}
		return true, ""
	}
	n := 0
	for _, f := range e.RepoFuncsSorted() {
		if !strings.HasSuffix(ShortFn(rootFn(f)), "") || rootFn(f).Package() != e.P.Pkg(dagRel) {
			continue
		}
		for _, b := range f.Blocks {
			for _, in := range b.Instrs {
				st, isS := in.(*ssa.Store)
				if !isS {
					continue
				}
				fa, isF := st.Addr.(*ssa.FieldAddr)
				if !isF || !strings.HasSuffix(ir.NamedType(fa.X.Type()), "internal/dag.DAG") || ir.FieldNameOf(fa.X.Type(), fa.Field) != "Location" {
					continue
				}
				n++
				o, why := ok(st.Val, 0, map[ssa.Value]bool{})
				var facts []string
				if why != "" {
					facts = append(facts, why)
				}
				r.Check(o, ShortFn(f)+": DAG.Location is an absolute, cleaned path on every way", e.InstrPos(st),
					"the file's location (from which the run's socket address - the only lock - is derived) can keep the spelling the caller used: two spellings of the same file get two sockets, the already-running probe of the second start finds nobody and the DAG runs twice at once", facts...)
			}
		}
	}
	if n == 0 {
		r.Unknown("loader: the store of DAG.Location", dagRel, "not found")
	}
}
