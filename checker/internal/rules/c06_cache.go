package rules

import (
	"go/token"
	"go/types"
	"strings"

	"golang.org/x/tools/go/ssa"

	"bdcheck/internal/ir"
)

// c06CacheValidator: the status cache in front of the history files answers from
// memory while the (size, mtime) pair stored with the entry still matches the file.
// Two structural conditions make that validator sound for append-only files:
//
//	(1) the file attributes stored with an entry are taken BEFORE the data is
//	    loaded: a write landing during the load then leaves the entry with the
//	    older attributes and the next query reloads. Attributes taken after the load
//	    can pair an old parse with the newer size/mtime, and the last recorded status
//	    stays hidden.
//	(2) the cached data is returned without loading only when the entry's size equals
//	    the file's size and the entry's mtime is not older than the file's.
//
// By role: a fill function is a repository function that calls one of its own
// function-typed parameters (the loader) and also handles an os.FileInfo.
func c06CacheValidator(e *Env) {
	r := e.R
	r.Rule("C06.cache-validator", "MPT+DCS", "cache fill: file attributes taken before the load; cached answer only under size== and mtime>=", 2)
	isFileInfo := func(t types.Type) bool {
		n := ir.NamedType(t)
		return n == "io/fs.FileInfo" || n == "os.FileInfo"
	}
	fills := 0
	seenOrigin := map[*ssa.Function]bool{}
	for _, f := range e.RepoFuncsSorted() {
		if f.Blocks == nil || (f.Synthetic != "" && f.Origin() == nil) {
			continue
		}
		// a generic function is analysed once, in its first instantiation (calls
		// are resolved there), and reported under the generic's name
		org := f
		if f.Origin() != nil {
			org = f.Origin()
		}
		if seenOrigin[org] {
			continue
		}
		// the loader: a call whose callee value is one of f's parameters
		var loads []*ssa.Call
		for _, b := range f.Blocks {
			for _, in := range b.Instrs {
				c, ok := in.(*ssa.Call)
				if !ok || c.Call.IsInvoke() {
					continue
				}
				if p, isP := ir.Resolve(c.Call.Value).(*ssa.Parameter); isP && p.Parent() == f {
					if _, isSig := p.Type().Underlying().(*types.Signature); isSig {
						loads = append(loads, c)
					}
				}
			}
		}
		if len(loads) == 0 {
			continue
		}
		// file attributes handled in f: FileInfo values passed on or asked for Size/ModTime
		type use struct {
			v  ssa.Value
			at ssa.Instruction
		}
		var uses []use
		for _, b := range f.Blocks {
			for _, in := range b.Instrs {
				ci, ok := in.(ssa.CallInstruction)
				if !ok {
					continue
				}
				cc := ci.Common()
				if cc.IsInvoke() && isFileInfo(cc.Value.Type()) {
					uses = append(uses, use{cc.Value, in})
				}
				for _, a := range cc.Args {
					if isFileInfo(a.Type()) {
						uses = append(uses, use{a, in})
					}
				}
			}
		}
		if len(uses) == 0 {
			continue
		}
		fills++
		seenOrigin[org] = true
		name := ShortFn(org)
		for _, L := range loads {
			// (1) attributes used after the load were produced before it
			n := 0
			for _, u := range uses {
				if !ir.Precedes(L, u.at) {
					continue
				}
				n++
				for _, leaf := range phiLeaves(u.v) {
					org, _ := originInstr(leaf, f)
					if org == nil {
						r.Unknown(name+": origin of the file attributes stored with the entry", e.InstrPos(u.at), "the FileInfo handed on after the load is not produced by a call in this function")
						continue
					}
					facts := []string{"attributes produced at " + e.InstrPos(org), "load at " + e.InstrPos(L)}
					r.Check(ir.Precedes(org, L), name+": the file attributes stored with the entry are taken before the load", e.InstrPos(u.at),
						"the size/mtime validator stored with the cache entry is read after the data was loaded: a status appended between the load and the stat is paired with the new attributes, the entry looks fresh and the queries keep returning the older status", facts...)
				}
			}
			if n == 0 {
				r.Unknown(name+": the cache fill stores file attributes with the loaded data", e.InstrPos(L), "no FileInfo is handed on after the load (entry stored without a validator?)")
			}
		}
		// (2) a return of data that was not just loaded is under size== and mtime>=
		isLoaded := func(v ssa.Value) bool {
			v = ir.Resolve(v)
			if ex, ok := v.(*ssa.Extract); ok {
				v = ex.Tuple
			}
			for _, L := range loads {
				if v == ssa.Value(L) {
					return true
				}
			}
			return false
		}
		for _, b := range f.Blocks {
			rt, ok := b.Instrs[len(b.Instrs)-1].(*ssa.Return)
			if !ok || len(rt.Results) == 0 || !e.Facts(f).Reachable(b) {
				continue
			}
			res := rt.Results[0]
			type way struct {
				v    ssa.Value
				lits []ir.NLit
			}
			var ws []way
			if phi, isPhi := res.(*ssa.Phi); isPhi && phi.Block() == b {
				for k, ev := range phi.Edges {
					ws = append(ws, way{ev, e.DCSPhiEdge(b, k)})
				}
			} else {
				ws = append(ws, way{res, e.DCS(rt)})
			}
			for _, w := range ws {
				cached := false
				for _, leaf := range phiLeaves(w.v) {
					if !isLoaded(leaf) && !isZeroValueConst(ir.Resolve(leaf)) && !isZeroAlloc(leaf) {
						cached = true
					}
				}
				if !cached {
					continue
				}
				okSize, okTime := true, true
				nw := 0
				e.ways(w.lits, func(alt []ir.NLit) {
					nw++
					sz, tm := false, false
					for _, l := range alt {
						if l.Kind != "cmp" {
							continue
						}
						for _, sw := range [2]bool{false, true} {
							x, y, op := l.X, l.Y, l.Op
							if sw {
								x, y, op = l.Y, l.X, swapOp(l.Op)
							}
							// x: the entry's field, y: the file's attribute
							if !isFieldLoad(x) {
								continue
							}
							if op == token.EQL && derivesFromInvoke(y, "Size", 0) {
								sz = true
							}
							if (op == token.GEQ || op == token.EQL) && derivesFromInvoke(y, "ModTime", 0) {
								tm = true
							}
						}
					}
					if !sz {
						okSize = false
					}
					if !tm {
						okTime = false
					}
				})
				if nw == 0 {
					okSize, okTime = false, false
				}
				r.Check(okSize, name+": cached data answered only when the entry's size equals the file's", e.InstrPos(rt),
					"the cache answers from memory without the stored size being equal to the file's current size: an appended status line within the same mtime second is not seen", e.FactsStr("conditions: ", w.lits))
				r.Check(okTime, name+": cached data answered only when the entry's mtime is not older than the file's", e.InstrPos(rt),
					"the cache answers from memory although the file was modified after the entry was stored", e.FactsStr("conditions: ", w.lits))
			}
		}
	}
	if fills == 0 {
		r.Unknown("cache fill function", "", "no function calling a loader parameter and handling file attributes found (status cache not recognised)")
	}
}

func swapOp(op token.Token) token.Token {
	switch op {
	case token.LSS:
		return token.GTR
	case token.GTR:
		return token.LSS
	case token.LEQ:
		return token.GEQ
	case token.GEQ:
		return token.LEQ
	}
	return op
}

// originInstr: the instruction of f that produced v (a call, possibly through
// extracts of its tuple), looking through helper-free wrappers.
func originInstr(v ssa.Value, f *ssa.Function) (ssa.Instruction, bool) {
	v = ir.Resolve(v)
	for d := 0; d < 8; d++ {
		switch x := v.(type) {
		case *ssa.Extract:
			v = x.Tuple
			continue
		case *ssa.ChangeInterface:
			v = x.X
			continue
		case *ssa.MakeInterface:
			v = x.X
			continue
		case *ssa.Call:
			if x.Parent() == f {
				return x, true
			}
		}
		break
	}
	return nil, false
}

func isFieldLoad(v ssa.Value) bool {
	switch x := ir.Resolve(v).(type) {
	case *ssa.Field:
		return true
	case *ssa.UnOp:
		if x.Op == token.MUL {
			_, ok := x.X.(*ssa.FieldAddr)
			return ok
		}
	case *ssa.Convert:
		return isFieldLoad(x.X)
	}
	return false
}

// isZeroAlloc: the zero value of a type parameter (`var zero T`) read back.
func isZeroAlloc(v ssa.Value) bool {
	u, ok := ir.Resolve(v).(*ssa.UnOp)
	if !ok || u.Op != token.MUL {
		return false
	}
	al, ok := u.X.(*ssa.Alloc)
	if !ok {
		return false
	}
	for _, ref := range *al.Referrers() {
		if st, isSt := ref.(*ssa.Store); isSt && st.Addr == ssa.Value(al) {
			return false
		}
	}
	return true
}

// derivesFromInvoke: v is computed (conversions, method calls on the value, e.g.
// ModTime().Unix()) from the result of the named interface method.
func derivesFromInvoke(v ssa.Value, method string, d int) bool {
	if d > 5 {
		return false
	}
	v = ir.Resolve(v)
	switch x := v.(type) {
	case *ssa.Call:
		if x.Call.IsInvoke() {
			return x.Call.Method.Name() == method
		}
		callee := x.Call.StaticCallee()
		if callee == nil || callee.Pkg == nil || strings.Contains(callee.Pkg.Pkg.Path(), ".") {
			return false // only standard-library accessors (Time.Unix, ...) are looked through
		}
		for _, a := range x.Call.Args {
			if derivesFromInvoke(a, method, d+1) {
				return true
			}
		}
	case *ssa.Convert:
		return derivesFromInvoke(x.X, method, d+1)
	case *ssa.ChangeType:
		return derivesFromInvoke(x.X, method, d+1)
	case *ssa.Phi:
		for _, ev := range x.Edges {
			if !derivesFromInvoke(ev, method, d+1) {
				return false
			}
		}
		return len(x.Edges) > 0
	}
	return false
}
