package rules

import (
	"strings"

	"golang.org/x/tools/go/ssa"

	"bdcheck/internal/ir"
)

// c08ServeUntilShutdown: the run's socket - the live status endpoint and, at the same
// time, the only mark that the DAG is running - is served until the agent shuts it
// down. In the socket server (by role: the function of the sock package that binds
// with net.Listen and accepts in a loop, with its package helpers) every way out of
// the accept loop is taken under the server's shutdown flag: a field of the server
// that the function closing the listener sets. A failed Accept (EMFILE for a moment)
// must not end the loop: leaving it runs the deferred close-and-unlink, after which
// the still-running DAG is reported failed / not running and a second run can start.
func c08ServeUntilShutdown(e *Env, rule string) {
	r := e.R
	r.Rule(rule, "DCS", "the accept loop of the run's socket is left only on shutdown", 1)
	sp := e.P.Pkg("internal/sock")
	if sp == nil {
		r.Unknown("socket server package", "internal/sock", "not loaded")
		return
	}
	// fields of the server set by whoever closes the listener
	fieldOfArg := func(v ssa.Value) string {
		if fa, ok := v.(*ssa.FieldAddr); ok {
			return ir.FieldNameOf(fa.X.Type(), fa.Field)
		}
		if p, ok := e.C.PathOf(v); ok && len(p.Fields) > 0 {
			return p.Fields[len(p.Fields)-1]
		}
		return ""
	}
	flags := map[string]bool{}
	for _, f := range e.RepoFuncsSorted() {
		if rootFn(f).Package() != sp {
			continue
		}
		closes := len(ir.CallsIn(f, func(c *ssa.CallCommon) bool {
			return c.IsInvoke() && c.Method.Name() == "Close" && strings.HasSuffix(ir.NamedType(c.Value.Type()), "net.Listener")
		})) > 0
		if !closes {
			continue
		}
		for _, b := range f.Blocks {
			for _, in := range b.Instrs {
				switch x := in.(type) {
				case *ssa.Store:
					if n := fieldOfArg(x.Addr); n != "" {
						flags[n] = true
					}
				case *ssa.Call:
					cn := ir.CalleeName(&x.Call)
					if strings.HasPrefix(cn, "(*sync/atomic.") && (strings.HasSuffix(cn, ").Store") || strings.HasSuffix(cn, ").CompareAndSwap") || strings.HasSuffix(cn, ").Swap")) && len(x.Call.Args) > 0 {
						if n := fieldOfArg(x.Call.Args[0]); n != "" {
							flags[n] = true
						}
					}
				}
			}
		}
	}
	readsFlag := func(v ssa.Value) bool {
		v = ir.Resolve(v)
		if c, ok := v.(*ssa.Call); ok && strings.HasPrefix(ir.CalleeName(&c.Call), "(*sync/atomic.") && strings.HasSuffix(ir.CalleeName(&c.Call), ").Load") && len(c.Call.Args) > 0 {
			return flags[fieldOfArg(c.Call.Args[0])]
		}
		if p, ok := e.C.PathOf(v); ok && len(p.Fields) > 0 {
			return flags[p.Fields[len(p.Fields)-1]]
		}
		return false
	}
	n := 0
	for _, f := range e.RepoFuncsSorted() {
		if rootFn(f).Package() != sp {
			continue
		}
		accepts := ir.CallsIn(f, func(c *ssa.CallCommon) bool {
			return c.IsInvoke() && c.Method.Name() == "Accept" && strings.HasSuffix(ir.NamedType(c.Value.Type()), "net.Listener")
		})
		for _, ac := range accepts {
			l := ir.InnermostLoop(ir.Loops(f), ac.Block())
			if l == nil {
				continue
			}
			n++
			for _, b := range sortedBlocks(l.Blocks) {
				for _, sb := range b.Succs {
					if l.Blocks[sb] {
						continue
					}
					lits := e.DCSEdgeTo(b, sb)
					okAll := true
					nw := 0
					e.ways(lits, func(alt []ir.NLit) {
						nw++
						has := false
						for _, lt := range alt {
							switch lt.Kind {
							case "val":
								if lt.Pol && readsFlag(lt.V) {
									has = true
								}
							case "cmp":
								if readsFlag(lt.X) || readsFlag(lt.Y) {
									has = true
								}
							}
						}
						if !has {
							okAll = false
						}
					})
					r.Check(okAll && nw > 0 && len(flags) > 0, shortName(rootFn(f))+": the accept loop is left only when shutdown was requested", e.InstrPos(b.Instrs[len(b.Instrs)-1]),
						"the socket server stops serving (and its deferred clean-up closes and unlinks the run's socket) for a reason other than shutdown - e.g. one failed Accept: for the rest of the run the live status cannot be asked, the run is reported failed / not running, and a second run of the DAG can start", e.FactsStr("way out taken under: ", lits))
				}
			}
		}
	}
	if n == 0 {
		r.Unknown("socket server: accept loop", "internal/sock", "no loop around (net.Listener).Accept found")
	}
}
