package rules

// Rules added after the second half of the seventh round of seeded changes (seeded/CNN-g
// of C09, C12, C19, C20).

import (
	"go/token"
	"go/types"
	"strings"

	"bdcheck/internal/ir"

	"golang.org/x/tools/go/ssa"
)

// ---------------------------------------------------------------------------
// C20.update-refuses-on-timeout

// c20UpdateRefusesOnTimeout: the client's UpdateStatus writes the edited record only
// when it knows that no live run owns it: every way to HistoryStore.Update knows the
// outcome of a request on the run's socket - the request succeeded (its error was
// nil, and the answer was inspected), or it failed with something that is not the
// timeout sentinel. A helper that swallows the error leaves "process alive but not
// answering" indistinguishable from "no process", and a run in progress is edited.
func c20UpdateRefusesOnTimeout(e *Env, rule string) {
	r := e.R
	r.Rule(rule, "DCS", "UpdateStatus reaches the history only knowing the socket request did not time out", 1)
	up := e.FnQuiet("internal/client", "(*client).UpdateStatus")
	if up == nil {
		r.Unknown("client.UpdateStatus", "internal/client", "not found")
		return
	}
	n := 0
	isTimeoutIs := func(v ssa.Value) bool {
		c, ok := ir.Resolve(v).(*ssa.Call)
		if !ok || !ir.IsCallTo(&c.Call, "errors.Is") || len(c.Call.Args) != 2 {
			return false
		}
		u, isU := ir.Resolve(c.Call.Args[1]).(*ssa.UnOp)
		if !isU || u.Op != token.MUL {
			return false
		}
		g, isG := u.X.(*ssa.Global)
		return isG && strings.Contains(g.Name(), "Timeout")
	}
	isReqErr := func(v ssa.Value) bool {
		v = ir.Resolve(v)
		ex, ok := v.(*ssa.Extract)
		if !ok {
			return false
		}
		c, isC := ex.Tuple.(*ssa.Call)
		if !isC || !ir.IsErrorType(ex.Type()) {
			return false
		}
		if ir.CalleeName(&c.Call) == "(*internal/sock.Client).Request" {
			return true
		}
		// a helper of the client that performs the request and hands its error on
		h := c.Call.StaticCallee()
		return h != nil && e.P.Funcs[h] && e.reachesStatic(h, func(f *ssa.Function) bool {
			return len(ir.CallsIn(f, func(cc *ssa.CallCommon) bool { return ir.CalleeName(cc) == "(*internal/sock.Client).Request" })) > 0
		})
	}
	for _, g := range e.withPkgHelpers(up) {
		if rootFn(g) != up && ir.UniqueSite(rootFn(g)) == nil {
			continue
		}
		for _, ci := range ir.CallsIn(g, func(c *ssa.CallCommon) bool {
			return c.IsInvoke() && c.Method.Name() == "Update" && strings.HasSuffix(ir.NamedType(c.Value.Type()), "persistence.HistoryStore")
		}) {
			n++
			ws := e.waysTo(ci)
			good := len(ws) > 0
			var bad []string
			for _, w := range ws {
				knows := false
				for _, l := range w {
					switch {
					case l.Kind == "cmp" && l.Op == token.EQL && ir.IsNilConst(l.Y) && isReqErr(l.X):
						knows = true // the request was answered
					case l.Kind == "val" && !l.Pol && isTimeoutIs(l.V):
						knows = true // it failed, and not by timing out
					}
				}
				if !knows {
					good = false
					bad = append(bad, "{"+strings.Join(e.RenderN(w), " ; ")+"}")
				}
			}
			r.Check(good, "UpdateStatus: the record is rewritten only when the socket request was answered or failed with something other than a timeout", e.InstrPos(ci),
				"the status edit reaches the history store on a way that does not know how the request on the run's socket ended: a run whose process is alive but does not answer in time (stopped, overloaded) is taken for `no process` and its record is edited while it is in progress",
				"ways without that knowledge: "+strings.Join(bad, " | "))
		}
	}
	if n == 0 {
		r.Unknown("UpdateStatus: HistoryStore.Update site", e.Pos(up.Pos()), "none found")
	}
}

// ---------------------------------------------------------------------------
// C12.writer-per-sink

// c12WriterPerSink: each of the node's buffered writers is a writer of its own. The
// executor copies stdout and stderr in two goroutines; bufio.Writer is not safe for
// concurrent use, so a writer field never receives the value of another writer field:
// what is stored into a writer field is a freshly made bufio.Writer (or nil).
func c12WriterPerSink(e *Env, rule string) {
	r := e.R
	r.Rule(rule, "WMW", "every store into a writer field of the node installs a freshly made bufio.Writer", 1)
	sp := e.P.Pkg(schedRel)
	if sp == nil {
		r.Unknown("scheduler package", "-", "not loaded")
		return
	}
	n := 0
	for _, f := range e.RepoFuncsSorted() {
		if rootFn(f).Package() != sp {
			continue
		}
		for _, b := range f.Blocks {
			for _, in := range b.Instrs {
				st, ok := in.(*ssa.Store)
				if !ok {
					continue
				}
				fa, ok := st.Addr.(*ssa.FieldAddr)
				// the node's own fields, or those of a small struct of the package the node
				// keeps its sinks in
				if !ok || !strings.Contains(ir.NamedType(derefT(fa.X.Type())), schedRel+".") {
					continue
				}
				if !strings.HasSuffix(ir.NamedType(derefT(fa.X.Type())), schedRel+".Node") {
					// a sink struct: only where it is reached from the node (not a temporary
					// that gathers the writers for a walk)
					pth, okP := e.C.PathOf(fa.X)
					if !okP || !strings.HasSuffix(ir.NamedType(derefT(ir.Deep(pth.Root).Type())), schedRel+".Node") {
						continue
					}
				}
				pt, isP := fa.Type().(*types.Pointer)
				if !isP {
					continue
				}
				ft, isFP := pt.Elem().(*types.Pointer)
				if !isFP || ir.NamedType(ft.Elem()) != "bufio.Writer" {
					continue
				}
				n++
				v := ir.Resolve(st.Val)
				fresh := ir.IsNilConst(v)
				if c, isC := v.(*ssa.Call); isC && ir.IsCallTo(&c.Call, "bufio.NewWriter", "bufio.NewWriterSize") {
					fresh = true
				}
				r.Check(fresh, shortName(f)+": the node's "+ir.FieldNameOf(fa.X.Type(), fa.Field)+" gets a bufio.Writer of its own", e.InstrPos(st),
					"a writer field of the node receives a writer that something else also holds: the executor's two copy goroutines (stdout, stderr) then write into one bufio.Writer concurrently and bytes of one stream overwrite or drop bytes of the other - the finished step's file does not hold what the step printed",
					"value stored: "+e.C.Render(v))
			}
		}
	}
	if n == 0 {
		r.Unknown("stores into the node's writer fields", schedRel, "none found")
	}
}

// ---------------------------------------------------------------------------
// C09.suspend-flag-read-through

// c09SuspendReadThrough: whether a DAG is suspended is asked of the flag directory
// every time. The daemon and the web server are separate processes sharing only that
// directory; an answer remembered inside one process goes stale the moment the other
// toggles the flag. Every value IsSuspended returns is the result of a call it makes
// to the storage layer in that invocation (possibly negated) - not something read
// from the store's own memory.
func c09SuspendReadThrough(e *Env, rule string) {
	r := e.R
	r.Rule(rule, "VF", "IsSuspended answers from the flag directory on every call", 1)
	var fns []*ssa.Function
	for _, f := range e.RepoFuncsSorted() {
		if f.Name() == "IsSuspended" && f.Signature.Recv() != nil && f.Synthetic == "" && rootFn(f).Package() != nil && strings.HasSuffix(rootFn(f).Package().Pkg.Path(), "internal/persistence/local") {
			fns = append(fns, f)
		}
	}
	if len(fns) == 0 {
		// methods that are only called through the interface: looked up on the package's types
		if lp := e.P.Pkg("internal/persistence/local"); lp != nil {
			for _, mem := range lp.Members {
				tp, isT := mem.(*ssa.Type)
				if !isT {
					continue
				}
				for _, t := range []types.Type{tp.Type(), types.NewPointer(tp.Type())} {
					ms := lp.Prog.MethodSets.MethodSet(t)
					for i := 0; i < ms.Len(); i++ {
						if ms.At(i).Obj().Name() != "IsSuspended" {
							continue
						}
						if fn := lp.Prog.MethodValue(ms.At(i)); fn != nil && fn.Synthetic == "" && fn.Blocks != nil {
							dup := false
							for _, g := range fns {
								dup = dup || g == fn
							}
							if !dup {
								fns = append(fns, fn)
							}
						}
					}
				}
			}
		}
	}
	if len(fns) == 0 {
		r.Unknown("the flag store's IsSuspended", "internal/persistence/local", "not found")
		return
	}
	for _, f := range fns {
		for _, b := range f.Blocks {
			rt, ok := b.Instrs[len(b.Instrs)-1].(*ssa.Return)
			if !ok || !e.Facts(f).Reachable(b) || len(rt.Results) != 1 {
				continue
			}
			good, why := true, ""
			for _, rv := range RetVals(rt, 0) {
				for _, leaf := range phiLeaves(rv) {
					v := ir.Resolve(leaf)
					for {
						if u, isU := v.(*ssa.UnOp); isU && u.Op == token.NOT {
							v = ir.Resolve(u.X)
							continue
						}
						break
					}
					c, isC := v.(*ssa.Call)
					if !isC || c.Parent() != f {
						good, why = false, "returned: "+e.C.Render(v)
						continue
					}
					// a call into the storage layer (another package), or the file system
					if h := c.Call.StaticCallee(); h != nil && e.P.Funcs[h] && rootFn(h).Package() == f.Package() {
						good, why = false, "returned: the result of "+shortName(h)+", a function of the store itself"
					}
				}
			}
			r.Check(good, shortName(f)+": the answer is the storage's answer of this call", e.InstrPos(rt),
				"the flag store answers from its own memory: the scheduler daemon and the web server share only the flag directory, so a DAG suspended (or resumed) through the other process keeps being started (or skipped) until the daemon is restarted", why)
		}
	}
}

// ---------------------------------------------------------------------------
// C19.licence-carried

// c19LicenceCarried: the loader's options are handed down, not re-made. A function of
// the loader package that receives the options and builds another options value (for
// the base configuration, for a nested load) makes a copy of what it received, or sets
// the no-evaluation switch from it: a fresh literal leaves the switch at its zero value,
// which is "evaluate" - the base configuration's commands run and its variables are
// exported during a load that asked for no side effects.
func c19LicenceCarried(e *Env, rule string) {
	r := e.R
	r.Rule(rule, "VF", "an options value built inside a function that received options keeps the no-evaluation switch", 1)
	tn, fld := e.noEvalField()
	dp := e.P.Pkg(dagRel)
	if dp == nil {
		r.Unknown("loader package", dagRel, "not loaded")
		return
	}
	isOpts := func(t types.Type) bool {
		return typesName(derefT(t)) == tn && strings.HasSuffix(ir.NamedType(derefT(t)), dagRel+"."+tn)
	}
	n := 0
	for _, f := range e.RepoFuncsSorted() {
		if rootFn(f).Package() != dp || f.Blocks == nil {
			continue
		}
		var par *ssa.Parameter
		for _, p := range f.Params {
			if isOpts(p.Type()) {
				par = p
			}
		}
		if par == nil {
			continue
		}
		fromPar := func(v ssa.Value) bool {
			v = ir.Resolve(v)
			if v == ssa.Value(par) {
				return true
			}
			// the parameter spilled into a local, or read through the pointer
			if u, ok := v.(*ssa.UnOp); ok && u.Op == token.MUL {
				if ir.Resolve(u.X) == ssa.Value(par) {
					return true
				}
				if al, isAl := u.X.(*ssa.Alloc); isAl {
					for _, sv := range ir.StoresTo(al) {
						if ir.Resolve(sv) == ssa.Value(par) {
							return true
						}
					}
				}
			}
			return false
		}
		// a copy of another options value of this function (itself judged)
		fromLocal := func(v ssa.Value) bool {
			if u, ok := ir.Resolve(v).(*ssa.UnOp); ok && u.Op == token.MUL {
				if la, isAl := u.X.(*ssa.Alloc); isAl && isOpts(la.Type()) {
					return true
				}
			}
			return false
		}
		for _, b := range f.Blocks {
			for _, in := range b.Instrs {
				// an options value of its own, or the options-typed field of something
				// built here (`&builder{opts: buildOpts{…}}`)
				var al ssa.Value
				switch x := in.(type) {
				case *ssa.Alloc:
					al = x
				case *ssa.FieldAddr:
					if _, fresh := x.X.(*ssa.Alloc); fresh {
						al = x
					}
				}
				if al == nil || !isOpts(al.Type()) || al.Referrers() == nil {
					continue
				}
				// the parameter's own spill slot is not a new value
				spill := false
				if sa, isAl := al.(*ssa.Alloc); isAl {
					for _, sv := range ir.StoresTo(sa) {
						if ir.Resolve(sv) == ssa.Value(par) && sa.Comment == par.Name() {
							spill = true
						}
					}
				}
				if spill {
					continue
				}
				n++
				carried := false
				for _, ref := range *al.Referrers() {
					switch x := ref.(type) {
					case *ssa.Store:
						if x.Addr == al && (fromPar(x.Val) || fromLocal(x.Val)) {
							carried = true // a copy of what was received
						}
					case *ssa.FieldAddr:
						if ir.FieldNameOf(x.X.Type(), x.Field) != fld || x.Referrers() == nil {
							continue
						}
						for _, r2 := range *x.Referrers() {
							st, isSt := r2.(*ssa.Store)
							if !isSt {
								continue
							}
							sv := ir.Resolve(st.Val)
							if bv, isC := ir.ConstBool(sv); isC && bv {
								carried = true // switched off outright
							}
							switch y := sv.(type) {
							case *ssa.Field:
								if fromPar(y.X) && ir.FieldNameOf(y.X.Type(), y.Field) == fld {
									carried = true
								}
							case *ssa.UnOp:
								if fa, isFA := y.X.(*ssa.FieldAddr); isFA && y.Op == token.MUL && ir.FieldNameOf(fa.X.Type(), fa.Field) == fld && (fromPar(fa.X) || ir.Resolve(fa.X) == ssa.Value(par)) {
									carried = true
								}
							}
						}
					}
				}
				r.Check(carried, shortName(f)+": the options it builds keep the no-evaluation switch of the options it received", e.InstrPos(in),
					"a loader function that was handed the options builds a fresh options value and leaves the no-evaluation switch at `evaluate`: what it loads with them (the base configuration) runs its command substitutions and exports its variables although the caller asked for a load without side effects (details view, listing, validation)")
			}
		}
	}
	if n == 0 {
		r.OK("loader: no function that receives options builds another options value", dagRel, "")
	}
}

// ---------------------------------------------------------------------------
// C05.os-signal-forwarded

// c05OSSignalForwarded: the stop the agent is asked to perform is the signal the process
// received. Where the command package subscribes to SIGTERM, what it hands to the
// listener's Signal is the value it received from the subscription (a channel receive),
// not a constant: steps are signalled with the signal the run was stopped with (or the
// step's signalOnStop), and a step that reacts to TERM but ignores INT is only stopped
// by TERM.
func c05OSSignalForwarded(e *Env, rule string) {
	r := e.R
	r.Rule(rule, "VF", "the signal handed to the agent is the one received from the OS subscription", 1)
	cp := e.P.Pkg("cmd")
	if cp == nil {
		r.Unknown("package cmd", "cmd", "not loaded")
		return
	}
	n := 0
	for _, f := range e.RepoFuncsSorted() {
		if f.Package() != cp || f.Parent() != nil {
			continue
		}
		var subs []ssa.CallInstruction
		var sigCalls []ssa.CallInstruction
		for _, g := range ir.WithClosures(f) {
			subs = append(subs, ir.CallsIn(g, func(c *ssa.CallCommon) bool { return ir.IsCallTo(c, "os/signal.Notify", "os/signal.NotifyContext") })...)
			sigCalls = append(sigCalls, ir.CallsIn(g, func(c *ssa.CallCommon) bool {
				return c.IsInvoke() && c.Method.Name() == "Signal" && len(c.Args) == 1 && ir.NamedType(c.Args[0].Type()) == "os.Signal"
			})...)
		}
		if len(subs) == 0 || len(sigCalls) == 0 {
			continue
		}
		n++
		received := false
		for _, sc := range sigCalls {
			for _, leaf := range phiLeaves(sc.Common().Args[0]) {
				switch x := ir.Resolve(leaf).(type) {
				case *ssa.UnOp:
					if x.Op == token.ARROW {
						received = true
					}
				case *ssa.Extract:
					if _, isSel := x.Tuple.(*ssa.Select); isSel {
						received = true
					}
					if u, isU := x.Tuple.(*ssa.UnOp); isU && u.Op == token.ARROW {
						received = true
					}
				}
			}
		}
		r.Check(received, shortName(f)+": the listener is handed the signal that was received", e.InstrPos(subs[0]),
			"the process subscribes to SIGTERM but hands the agent a fixed signal whatever arrived: a `kill <pid>` (service manager, a parent DAG stopping a sub-workflow) reaches the steps as another signal, a step that ends on TERM but ignores INT is never stopped, and - being marked canceled after the first fan-out - is skipped by the re-sends and by the KILL escalation")
	}
	if n == 0 {
		r.Unknown("the command package's OS signal subscription", "cmd", "no function subscribes to signals and calls a listener's Signal")
	}
}
