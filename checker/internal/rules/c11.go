package rules

import (
	"go/token"
	"go/types"
	"strings"

	"golang.org/x/tools/go/ssa"

	"bdcheck/internal/ir"
)

func init() {
	register(&Prop{ID: "C11", Run: runC11,
		Technique: "static analysis: value-flow of parameters and captured outputs (go/ssa slices), writer/reader agreement on the NAME=value encoding, ordering of the pipe reader against cmd.Run, sibling agreement of process executors",
		Decided: []string{
			"process executors append nothing static (Step.Variables, os.Environ) to the child's environment after the captured outputs (C11.outputs-last)",
			"API start parameters flow unchanged into StartOptions.Params and into the `-p` argument through escapeArg and quoting only; the CLI hands --params (outer quotes removed) to the loader (C11.param-flow)",
			"a captured output is stored under the step's output name as NAME=TrimSpace(stdout), and the retry-graph reader strips exactly the NAME= prefix (C11.output-store)",
			"every graph node (both constructors) and every handler node gets the graph's shared output map before it can execute; both process executors append the map to the child's environment (C11.output-visibility)",
			"the writer installed as stderr does not include the capture pipe (C11.capture-is-stdout-only) — violated today, known finding F24",
			"the capture pipe (read end = the field receiving os.Pipe()#0) is drained by a goroutine started before cmd.Run(), reading the pipe itself to EOF without closing it, into a buffer that is fresh for each execution and read only after the drain signalled completion (C11.pipe-drained)",
			"the NAME=value entries the parameter parser returns are appended to DAG.Env whole, unconditionally and last, so a named parameter overrides an `env:` entry of the same name in Step.Variables (C11.params-override-env)",
			"the recorded parameter string quotes each element it joins with the parser's delimiter (C11.recorder-quotes) — violated today, known finding F22",
			"the restart command re-loads the DAG with GetLatestStatus(…).Params - the persisted record of the run it repeats, not the live answer, which falls back to the defaults once the run has ended (C11.restart-params, shared with C10.flows)",
		},
		NotDec: []string{"the parameter regular expression's grammar, byte-exactness of values, shell quoting", "the process environment as the third channel (os.Setenv ordering across steps)"},
	})
}

func runC11(e *Env) {
	c11ParamFlow(e)
	cRestartParams(e, "C11.restart-params")
	c11OutputStore(e)
	c11OutputVisibility(e)
	c11Capture(e)
	c11Recorder(e)
	c11ParamsOverrideEnv(e)
	c11OutputsLast(e)
}

func c11ParamFlow(e *Env) {
	r := e.R
	r.Rule("C11.param-flow", "VF", "start parameters pass through unchanged", 3)
	// (1) API handler: StartOptions{Params: params.Body.Params}
	// (the handler that issues the start: wherever in the API handler package the
	// client's Start / StartAsync is invoked)
	var starts []ssa.CallInstruction
	fp := e.P.Pkg("internal/frontend/dag")
	for _, f := range e.RepoFuncsSorted() {
		if fp == nil || rootFn(f).Package() != fp {
			continue
		}
		starts = append(starts, ir.CallsIn(f, func(c *ssa.CallCommon) bool {
			return c.IsInvoke() && (c.Method.Name() == "StartAsync" || c.Method.Name() == "Start") && strings.HasSuffix(ir.NamedType(c.Value.Type()), "client.Client")
		})...)
	}
	if fp != nil {
		n := 0
		for _, ci := range starts {
			n++
			opts := ci.Common().Args[len(ci.Common().Args)-1]
			ok := false
			// opts is a struct value loaded from a local literal: find the store into its Params field
			var al ssa.Value
			if u, isU := opts.(*ssa.UnOp); isU {
				al = u.X
			}
			if al != nil {
				for _, ref := range *al.Referrers() {
					if fa, isFA := ref.(*ssa.FieldAddr); isFA && ir.FieldNameOf(fa.X.Type(), fa.Field) == "Params" {
						for _, r2 := range *fa.Referrers() {
							if st, isS := r2.(*ssa.Store); isS && e.IsFieldReadAll(st.Val, "Body.Params") {
								ok = true
							}
						}
					}
				}
			}
			r.Check(ok, "API start: StartOptions.Params = request Body.Params", e.InstrPos(ci), "the parameters given in the API request are not what the start is issued with")
		}
		if n == 0 {
			r.Unknown("API start action", "internal/frontend/dag", "no StartAsync call")
		}
	}
	// (2) client.Start: "-p", `"` + escapeArg(opts.Params) + `"`
	st := e.Fn("internal/client", "(*client).Start")
	if st != nil {
		okFlag := false
		var encs []string
		var site ssa.Instruction
		for _, b := range st.Blocks {
			for _, in := range b.Instrs {
				c, isC := in.(*ssa.Call)
				if !isC {
					continue
				}
				for _, el := range appendedElems(c) {
					if s, isS := ir.ConstString(el); isS && (s == "-p" || s == "--params") {
						okFlag = true
						continue
					}
					if kinds, fromParams := c11Encoding(e, el, 0); fromParams {
						encs = append(encs, kinds...)
						site = in
					}
				}
			}
		}
		writer := "none"
		switch {
		case containsStr(encs, "go-quote"):
			writer = "go-quote"
		case containsStr(encs, "plain-wrap"):
			writer = "plain-wrap"
		}
		pos := e.Pos(st.Pos())
		if site != nil {
			pos = e.InstrPos(site)
		}
		r.Check(okFlag && site != nil, "client.Start: the -p argument derives from opts.Params", pos,
			"the spawned start command does not receive the caller's parameters")
		// writer / reader agreement on the quoting of the -p argument
		// the reader, by role: the repository function(s) the value of the start command's
		// --params flag passes through on its way to dag.Load
		reader := "none"
		for _, dec := range c11ParamDecoders(e) {
			if k := c11Decoding(dec); k != "none" {
				reader = k
			}
		}
		agree := (writer == "plain-wrap" && reader == "strip-ends") || (writer == "go-quote" && reader == "unquote") || (writer == "none" && reader == "none")
		r.Check(agree, "start parameters: the client's quoting of -p and the start command's unquoting agree", pos,
			"the API client encodes the parameter string as `"+writer+"` but the start command decodes `"+reader+"`: with Go-style quoting on one side only, every `\"` or `\\` inside the parameters reaches the DAG with a stray backslash (or loses one)",
			"writer encoding: "+writer, "reader decoding: "+reader)
	}
	// (3) CLI: dag.Load(…, removeQuotes(flag params))
	sp := e.P.Pkg("cmd")
	loadFn := e.FnQuiet(dagRel, "Load")
	if sp != nil && loadFn != nil {
		for _, name := range []string{"startCmd", "dryCmd"} {
			// the command's body, found from its user-visible usage string
			body := e.cobraBody(strings.TrimSuffix(name, "Cmd"))
			if len(body) == 0 {
				r.Unknown("cmd."+name, "-", "not found")
				continue
			}
			root := body[0]
			ok := false
			for _, f := range body {
				for _, ci := range ir.CallsIn(f, func(c *ssa.CallCommon) bool { return c.StaticCallee() == loadFn }) {
					fl := &ir.Flow{C: e.C, Through: func(c *ssa.Call) []int {
						// a decoding helper of the command package applied to the flag's value
						if sc := c.Call.StaticCallee(); sc != nil && e.P.Funcs[sc] && sc.Pkg == sp && len(c.Call.Args) == 1 {
							return []int{0}
						}
						return nil
					}, Source: func(v ssa.Value) bool {
						c, isC := v.(*ssa.Call)
						if !isC || !strings.HasSuffix(ir.CalleeName(&c.Call), "FlagSet).GetString") {
							return false
						}
						s, _ := ir.ConstString(c.Call.Args[1])
						return s == "params"
					}}
					if fl.All(ci.Common().Args[2]) {
						ok = true
					}
				}
			}
			r.Check(ok, "cmd "+strings.TrimSuffix(name, "Cmd")+": dag.Load(…, removeQuotes(--params))", e.Pos(root.Pos()),
				"the command does not load the DAG with the parameters given on its command line")
		}
	}
}

// c11ParamDecoders: the one-argument functions of package cmd that the start
// command applies to the --params flag value before loading the DAG.
func c11ParamDecoders(e *Env) []*ssa.Function {
	sp := e.P.Pkg("cmd")
	loadFn := e.FnQuiet(dagRel, "Load")
	if sp == nil || loadFn == nil {
		return nil
	}
	body := e.cobraBody("start")
	if len(body) == 0 {
		return nil
	}
	var out []*ssa.Function
	for _, f := range body {
		for _, ci := range ir.CallsIn(f, func(c *ssa.CallCommon) bool { return c.StaticCallee() == loadFn }) {
			v := ir.Resolve(ci.Common().Args[2])
			for d := 0; d < 4; d++ {
				c, ok := v.(*ssa.Call)
				if !ok || c.Call.StaticCallee() == nil || !e.P.Funcs[c.Call.StaticCallee()] || len(c.Call.Args) != 1 {
					break
				}
				out = append(out, c.Call.StaticCallee())
				v = ir.Resolve(c.Call.Args[0])
			}
		}
	}
	return out
}

func containsStr(ss []string, x string) bool {
	for _, s := range ss {
		if s == x {
			return true
		}
	}
	return false
}

// c11Encoding classifies how v is assembled from the Params field: the quoting
// steps on the way ("plain-wrap": surrounded by literal double quotes;
// "go-quote": strconv.Quote / %q, which also escapes inner quotes and
// backslashes) and whether it derives from Params at all.
func c11Encoding(e *Env, v ssa.Value, depth int) (kinds []string, fromParams bool) {
	if depth > 8 || v == nil {
		return nil, false
	}
	v = ir.Resolve(v)
	if e.IsFieldRead(v, nil, "Params") {
		return nil, true
	}
	switch x := v.(type) {
	case *ssa.Parameter:
		// the parameter of a single-call-site helper stands for its argument
		if d := ir.Deep(x); d != ssa.Value(x) {
			return c11Encoding(e, d, depth+1)
		}
		return nil, false
	case *ssa.MakeInterface:
		return c11Encoding(e, x.X, depth+1)
	case *ssa.Convert:
		return c11Encoding(e, x.X, depth+1)
	case *ssa.Phi:
		for _, ed := range x.Edges {
			k, f := c11Encoding(e, ed, depth+1)
			kinds = append(kinds, k...)
			fromParams = fromParams || f
		}
		return
	case *ssa.BinOp:
		if x.Op == token.ADD {
			k1, f1 := c11Encoding(e, x.X, depth+1)
			k2, f2 := c11Encoding(e, x.Y, depth+1)
			kinds = append(append(kinds, k1...), k2...)
			for _, side := range []ssa.Value{x.X, x.Y} {
				if s, ok := ir.ConstString(side); ok && strings.Contains(s, "\"") && (f1 || f2) {
					kinds = append(kinds, "plain-wrap")
				}
			}
			return kinds, f1 || f2
		}
	case *ssa.Call:
		name := ir.CalleeName(&x.Call)
		switch {
		case name == "fmt.Sprintf":
			f, _ := ir.ConstString(x.Call.Args[0])
			for _, a := range x.Call.Args[1:] {
				// variadic: elements of the slice literal
				for _, el := range sliceElems(a) {
					k, fp := c11Encoding(e, el, depth+1)
					kinds = append(kinds, k...)
					fromParams = fromParams || fp
				}
			}
			if fromParams {
				if strings.Contains(f, "%q") {
					kinds = append(kinds, "go-quote")
				} else if strings.Contains(f, "\"%s\"") || strings.Contains(f, "\"%v\"") {
					kinds = append(kinds, "plain-wrap")
				}
			}
			return
		case strings.HasPrefix(name, "strconv.Quote") || strings.HasPrefix(name, "strconv.AppendQuote"):
			_, fp := c11Encoding(e, x.Call.Args[len(x.Call.Args)-1], depth+1)
			return []string{"go-quote"}, fp
		}
		if sc := x.Call.StaticCallee(); sc != nil && e.P.Funcs[sc] {
			for _, a := range x.Call.Args {
				k, fp := c11Encoding(e, a, depth+1)
				if fp {
					kinds = append(kinds, k...)
					fromParams = true
				}
			}
			// a single-call-site helper that assembles the argument: what it returns
			if ir.UniqueSite(sc) != nil && sc.Blocks != nil {
				for _, b := range sc.Blocks {
					if rt, ok := b.Instrs[len(b.Instrs)-1].(*ssa.Return); ok && len(rt.Results) == 1 {
						k, fp := c11Encoding(e, rt.Results[0], depth+1)
						if fp {
							kinds = append(kinds, k...)
							fromParams = true
						}
					}
				}
			}
			if fromParams && e.reachesStatic(sc, func(f *ssa.Function) bool {
				return len(ir.CallsIn(f, func(c *ssa.CallCommon) bool {
					n := ir.CalleeName(c)
					if strings.HasPrefix(n, "strconv.Quote") || strings.HasPrefix(n, "strconv.AppendQuote") {
						return true
					}
					if n == "fmt.Sprintf" || n == "fmt.Fprintf" {
						for _, a := range c.Args {
							if s, ok := ir.ConstString(a); ok && strings.Contains(s, "%q") {
								return true
							}
						}
					}
					return false
				})) > 0
			}) {
				kinds = append(kinds, "go-quote")
			}
			return
		}
	}
	return nil, false
}

// sliceElems: the elements of a variadic slice literal, or the value itself.
func sliceElems(v ssa.Value) []ssa.Value {
	if sl, ok := v.(*ssa.Slice); ok {
		if al, ok := sl.X.(*ssa.Alloc); ok {
			var out []ssa.Value
			for _, ref := range *al.Referrers() {
				if ia, ok := ref.(*ssa.IndexAddr); ok {
					for _, r2 := range *ia.Referrers() {
						if st, ok := r2.(*ssa.Store); ok && st.Addr == ia {
							out = append(out, st.Val)
						}
					}
				}
			}
			return out
		}
	}
	return []ssa.Value{v}
}

// c11Decoding classifies the start command's unquoting helper.
func c11Decoding(f *ssa.Function) string {
	for _, g := range ir.WithClosures(f) {
		for _, b := range g.Blocks {
			for _, in := range b.Instrs {
				switch x := in.(type) {
				case *ssa.Call:
					if strings.HasPrefix(ir.CalleeName(&x.Call), "strconv.Unquote") {
						return "unquote"
					}
				case *ssa.Slice:
					if x.Low != nil && x.High != nil {
						if k, ok := ir.ConstInt(x.Low); ok && k == 1 {
							return "strip-ends"
						}
					}
				}
			}
		}
	}
	return "none"
}

func c11OutputStore(e *Env) {
	r := e.R
	r.Rule("C11.output-store", "VF", "NAME=TrimSpace(stdout) stored under NAME; reader strips exactly NAME=", 2)
	ex := e.Fn(schedRel, "(*Node).Execute")
	if ex != nil {
		n := 0
		var exFns []*ssa.Function
		for _, g := range e.staticClosure(ex) {
			if rootFn(g).Package() == ex.Package() {
				exFns = append(exFns, g)
			}
		}
		for _, f := range exFns {
			for _, ci := range ir.CallsIn(f, func(c *ssa.CallCommon) bool {
				return ir.IsCallTo(c, "(*sync.Map).Store") || (c.StaticCallee() != nil && strings.HasSuffix(ir.CalleeName(c), "dag.SyncMap).Store"))
			}) {
				if !e.IsFieldRead(ci.Common().Args[0], nil, "OutputVariables") {
					if fa, isFA := ci.Common().Args[0].(*ssa.FieldAddr); !isFA || !e.IsFieldRead(fa.X, nil, "OutputVariables") {
						continue
					}
				}
				n++
				a := ci.Common().Args
				key, val := a[1], a[2]
				if mi, ok := key.(*ssa.MakeInterface); ok {
					key = mi.X
				}
				if mi, ok := val.(*ssa.MakeInterface); ok {
					val = mi.X
				}
				okKey := e.IsFieldRead(key, nil, "Step.Output")
				// NAME "=" TrimSpace(captured): a Sprintf("%s=%s", …) or a concatenation
				okVal := false
				{
					tr := &ir.Tracer{C: e.C, Through: map[string]bool{"fmt.Sprintf": true}, Descend: e.repoDescend,
						Up: func(f *ssa.Function) []ssa.CallInstruction {
							if f == ex {
								return nil
							}
							return e.StaticCallSites(f)
						}}
					hasName, hasTrim, hasEq, other := false, false, false, false
					for _, l := range tr.Trace(val) {
						switch {
						case l.Kind == "field" && strings.HasSuffix(l.Name, "Step.Output"):
							hasName = true
						case l.Kind == "call" && l.Name == "strings.TrimSpace":
							hasTrim = true
						case l.Kind == "const":
							if cs, isS := ir.ConstString(l.V); isS && (cs == "=" || cs == "%s=%s") {
								hasEq = true
							} else if isS && cs != "" {
								other = true
							}
						default:
							other = true
						}
					}
					okVal = hasName && hasTrim && hasEq && !other
				}
				r.Check(okKey, "Execute: captured output stored under the step's output name", e.InstrPos(ci), "the captured value is stored under a key other than the step's `output:` name")
				r.Check(okVal, "Execute: stored value is NAME=TrimSpace(captured stdout)", e.InstrPos(ci), "the stored value is not `NAME=` followed by the trimmed captured standard output")
			}
		}
		if n == 0 {
			r.Unknown("Execute: output store", e.Pos(ex.Pos()), "no SyncMap.Store found")
		}
	}
	// reader in the retry-graph constructor
	rg := e.Fn(schedRel, "NewExecutionGraphForRetry")
	if rg != nil {
		n := 0
		var rgFns []*ssa.Function
		for _, g := range e.staticClosure(rg) {
			if rootFn(g).Package() == rg.Package() {
				rgFns = append(rgFns, g)
			}
		}
		for _, f := range rgFns {
			for _, ci := range ir.CallsIn(f, func(c *ssa.CallCommon) bool { return ir.IsCallTo(c, "os.Setenv") }) {
				n++
				v := ir.Resolve(ci.Common().Args[1])
				ok, how := false, e.C.Render(v)
				switch x := v.(type) {
				case *ssa.Slice:
					// v[len(k)+1:]
					if x.High == nil && x.Low != nil {
						if bo, isB := x.Low.(*ssa.BinOp); isB && bo.Op == token.ADD {
							if k, isC := ir.ConstInt(bo.Y); isC && k == 1 {
								if lc, isL := bo.X.(*ssa.Call); isL {
									if bi, isBi := lc.Call.Value.(*ssa.Builtin); isBi && bi.Name() == "len" {
										ok = true
									}
								}
							}
						}
					}
				case *ssa.Call:
					if ir.IsCallTo(&x.Call, "strings.TrimPrefix") {
						ok = true
					}
				case *ssa.Extract:
					if c, isC := x.Tuple.(*ssa.Call); isC && ir.IsCallTo(&c.Call, "strings.Cut") && x.Index == 1 {
						ok = true
					}
				case *ssa.UnOp:
					// parts[1] of strings.SplitN(v, "=", 2)
					if ia, isIA := x.X.(*ssa.IndexAddr); isIA {
						if c, isC := ir.Resolve(ia.X).(*ssa.Call); isC && ir.IsCallTo(&c.Call, "strings.SplitN") {
							if k, isK := ir.ConstInt(c.Call.Args[2]); isK && k == 2 {
								ok = true
							}
						}
					}
				}
				r.Check(ok, "retry graph: restored value = recorded string minus exactly the NAME= prefix", e.InstrPos(ci),
					"the value exported for a retry is not the recorded NAME=value with exactly the NAME= prefix removed (values containing '=' or other bytes are lost or mangled): "+how)
			}
		}
		if n == 0 {
			r.Unknown("retry graph: output restore", e.Pos(rg.Pos()), "no os.Setenv found")
		}
	}
}

func c11OutputVisibility(e *Env) {
	r := e.R
	r.Rule("C11.output-visibility", "VF/MPT", "shared output map installed on every node before execution; exported by process executors", 4)
	// the graph's shared output map, by role: the ExecutionGraph field of the
	// output-variable map's type
	outMap := "outputVariables"
	if sp := e.P.Pkg(schedRel); sp != nil {
		if gt := sp.Type("ExecutionGraph"); gt != nil {
			if st, ok := gt.Type().Underlying().(*types.Struct); ok {
				for i := 0; i < st.NumFields(); i++ {
					if strings.HasSuffix(ir.NamedType(st.Field(i).Type()), "dag.SyncMap") {
						outMap = st.Field(i).Name()
					}
				}
			}
		}
	}
	isShare := func(in ssa.Instruction) bool {
		st, isS := in.(*ssa.Store)
		if !isS {
			return false
		}
		fa, isFA := st.Addr.(*ssa.FieldAddr)
		return isFA && ir.FieldNameOf(fa.X.Type(), fa.Field) == "OutputVariables" && e.IsFieldRead(st.Val, nil, outMap)
	}
	// a helper that installs the map on the node it is given, whatever else it does
	// (`g.addNode(node)`): the store is on every path through it
	var installs func(h *ssa.Function, d int) bool
	installs = func(h *ssa.Function, d int) bool {
		if h == nil || !e.P.Funcs[h] || h.Blocks == nil || d > 2 {
			return false
		}
		bad, _ := ir.Bypass(nil, h.Blocks[0], ir.PathQuery{
			Stop: func(in ssa.Instruction) bool {
				if isShare(in) {
					return true
				}
				c, ok := in.(*ssa.Call)
				return ok && c.Call.StaticCallee() != nil && installs(c.Call.StaticCallee(), d+1)
			},
			Bad: ir.IsReturn})
		return bad == nil
	}
	sharedStore := func(f *ssa.Function, what string) {
		ok := false
		for _, g := range ir.WithClosures(f) {
			for _, b := range g.Blocks {
				for _, in := range b.Instrs {
					// inside a loop over the nodes/steps: the store itself, or a call of a helper that makes it
					if ir.InnermostLoop(ir.Loops(g), b) == nil {
						continue
					}
					if isShare(in) {
						ok = true
					}
					if c, isC := in.(*ssa.Call); isC && c.Call.StaticCallee() != nil && installs(c.Call.StaticCallee(), 0) {
						ok = true
					}
				}
			}
		}
		r.Check(ok, what+": every node gets the graph's output map", e.Pos(f.Pos()), "nodes of this graph do not share the run's output map: captured outputs are invisible to later steps")
	}
	if f := e.Fn(schedRel, "NewExecutionGraph"); f != nil {
		sharedStore(f, "NewExecutionGraph")
	}
	if f := e.Fn(schedRel, "NewExecutionGraphForRetry"); f != nil {
		sharedStore(f, "NewExecutionGraphForRetry")
	}
	// handler nodes: store precedes the runner call in the handler loop
	s := e.resolveSchedQuiet()
	if s != nil && s.ok {
		// in the scheduling function's handler loop (or a helper of it): the handler node's
		// OutputVariables := the graph's map, before the call that runs that node
		ok := false
		for _, lf := range sortedFns(s.LoopFns) {
			var stores []ir.StoreEvent
			for _, ev := range e.C.FieldStores(lf, "OutputVariables") {
				if ev.Val != nil && e.IsFieldRead(ir.Deep(ev.Val), nil, outMap) {
					stores = append(stores, ev)
				}
			}
			for _, ci := range ir.CallsIn(lf, func(c *ssa.CallCommon) bool {
				return c.StaticCallee() != nil && e.ReachesRepo(c.StaticCallee(), func(x *ssa.Function) bool { return x == s.Execute })
			}) {
				for _, st := range stores {
					if !ir.Precedes(st.Site, ci) {
						continue
					}
					for _, a := range ci.Common().Args {
						if sameNode(st.Root, a) {
							ok = true
						}
					}
				}
			}
		}
		r.Check(ok, "handler loop: the handler node gets the graph's output map before it runs", e.Pos(s.Loop.Pos()), "handlers do not see the outputs captured during the run")
	}
	// process executors export the map
	sp := e.P.Pkg("internal/dag/executor")
	if sp != nil {
		for _, f := range e.procCtors() {
			ok := false
			var ctorFns []*ssa.Function
			for _, g := range e.staticClosure(f) {
				if rootFn(g).Package() == sp {
					ctorFns = append(ctorFns, g)
				}
			}
			envStored := false
			for _, g := range ctorFns {
				if len(e.C.FieldStores(g, "Env")) > 0 {
					envStored = true
				}
			}
			for _, g := range ctorFns {
				for _, ci := range ir.CallsIn(g, func(c *ssa.CallCommon) bool { return ir.IsCallTo(c, "(*sync.Map).Range") }) {
					if fa, isFA := ci.Common().Args[0].(*ssa.FieldAddr); isFA && e.IsFieldRead(fa.X, nil, "OutputVariables") {
						// the callback collects the entries (appends) and the environment is stored into cmd.Env
						if mc, isMC := ci.Common().Args[1].(*ssa.MakeClosure); isMC && envStored {
							cb := mc.Fn.(*ssa.Function)
							// a method value (`m.Range(list.collect)`): the method behind the bound-method wrapper
							cbs := []*ssa.Function{cb}
							if cb.Synthetic != "" {
								for _, b := range cb.Blocks {
									for _, in := range b.Instrs {
										if cc, isC := in.(ssa.CallInstruction); isC && cc.Common().StaticCallee() != nil {
											cbs = append(cbs, cc.Common().StaticCallee())
										}
									}
								}
							}
							for _, h := range cbs {
								if len(ir.CallsIn(h, func(c *ssa.CallCommon) bool { _, isA := isAppendCommon(c); return isA })) > 0 {
									ok = true
								}
							}
						}
						// the callback appends to cmd.Env
						if mc, isMC := ci.Common().Args[1].(*ssa.MakeClosure); isMC {
							for _, ev := range e.C.FieldStores(mc.Fn.(*ssa.Function), "Env") {
								if ev.Site != nil {
									ok = true
								}
							}
						}
					}
				}
			}
			r.Check(ok, shortName(f)+": appends the output map to the child's environment", e.Pos(f.Pos()), "steps run by this executor do not see captured outputs as environment variables")
		}
	}
}

func isAppendCommon(c *ssa.CallCommon) (*ssa.Builtin, bool) {
	b, ok := c.Value.(*ssa.Builtin)
	return b, ok && b.Name() == "append"
}

func (e *Env) resolveSchedQuiet() *Sched {
	// resolveSched records undecided obligations under the current rule on failure; acceptable here
	return e.resolveSched()
}

func c11Capture(e *Env) {
	r := e.R
	fn := e.nodeRoles().Wire
	ex := e.Fn(schedRel, "(*Node).Execute")
	if fn == nil || ex == nil {
		if fn == nil {
			e.R.Rule("C11.capture-is-stdout-only", "VF", "stderr writer does not include the capture pipe", 1)
			e.R.Unknown("the function wiring the executor's output", "-", "no Node method invokes SetStdout")
		}
		return
	}
	r.Rule("C11.capture-is-stdout-only", "VF", "stderr writer does not include the capture pipe", 1)
	for _, ci := range ir.CallsIn(fn, func(c *ssa.CallCommon) bool { return c.IsInvoke() && c.Method.Name() == "SetStderr" }) {
		followed, _ := ir.Bypass(ci, nil, ir.PathQuery{
			Stop: func(in ssa.Instruction) bool {
				c, ok := in.(*ssa.Call)
				return ok && c.Call.IsInvoke() && c.Call.Method.Name() == "SetStderr"
			},
			Bad: ir.IsReturn})
		if followed == nil {
			continue // always overridden by a later SetStderr
		}
		tr := &ir.Tracer{C: e.C, Through: map[string]bool{"io.MultiWriter": true}}
		has := false
		for _, l := range tr.Trace(ci.Common().Args[0]) {
			if l.Kind == "field" && l.Name == "outputWriter" {
				has = true
			}
		}
		which := "stderr: file configured"
		if !HasNilCmp(e.DCS(ci), func(v ssa.Value) bool { return e.IsFieldRead(v, nil, "stderrWriter") }, true) {
			which = "no stderr: file"
		}
		r.Check(!has, "setupExec ("+which+"): SetStderr writer excludes the output-capture pipe", e.InstrPos(ci),
			"the writer installed as the step's stderr includes the capture pipe: what the step prints to stderr ends up in its `output:` variable")
	}
	c11Drain(e, ex)
}

// c11Drain: the output-capture pipe, by role. The read end is whatever field
// receives os.Pipe()'s first result; a drain is any io.Copy / ReadAll / ReadFrom
// whose source derives from that field (through helpers, closures, wrappers).
//
//	a. the drain runs in a goroutine started before the executor's Run (otherwise a
//	   step printing more than the pipe buffer blocks forever)
//	b. it reads the pipe itself to EOF - no bounded wrapper - and does not close the
//	   read end while the child may still write (EPIPE would cut the step's log too,
//	   because the log and the pipe share one MultiWriter)
//	c. it fills a buffer that is fresh for this execution (a local, or a field that
//	   is reset before the drain starts): a retried / repeated step must not see the
//	   previous attempt's output
//	d. the buffer is read only after the drain has signalled completion
func c11Drain(e *Env, ex *ssa.Function) {
	r := e.R
	r.Rule("C11.pipe-drained", "roles+VF+MPT", "capture pipe drained concurrently, to EOF, into a per-execution buffer, read after completion", 3)
	sp := e.P.Pkg(schedRel)
	var pkgFns []*ssa.Function
	for _, f := range e.RepoFuncsSorted() {
		if rootFn(f).Package() == sp {
			pkgFns = append(pkgFns, f)
		}
	}
	// read end: the field os.Pipe()#0 is stored into
	readField := ""
	for _, f := range pkgFns {
		for _, ci := range ir.CallsIn(f, func(c *ssa.CallCommon) bool { return ir.IsCallTo(c, "os.Pipe") }) {
			pv, ok := ci.(ssa.Value)
			if !ok {
				continue
			}
			for _, ref := range *pv.Referrers() {
				if ext, ok := ref.(*ssa.Extract); ok && ext.Index == 0 {
					for _, r2 := range *ext.Referrers() {
						if st, ok := r2.(*ssa.Store); ok {
							if fa, ok := st.Addr.(*ssa.FieldAddr); ok {
								readField = ir.FieldNameOf(fa.X.Type(), fa.Field)
							}
						}
					}
				}
			}
		}
	}
	if readField == "" {
		r.Unknown("capture pipe: the field holding the read end of os.Pipe()", e.Pos(ex.Pos()), "no os.Pipe() whose read end is stored into a field")
		return
	}
	var run ssa.Instruction
	for _, ci := range ir.CallsIn(ex, func(c *ssa.CallCommon) bool { return c.IsInvoke() && c.Method.Name() == "Run" }) {
		run = ci
	}
	if run == nil {
		r.Unknown("Execute: the executor's Run call", e.Pos(ex.Pos()), "not found")
		return
	}
	up := func(f *ssa.Function) []ssa.CallInstruction { return e.StaticCallSites(f) }
	wrappers := map[string]bool{"io.LimitReader": true, "io.TeeReader": true, "bufio.NewReader": true, "bufio.NewReaderSize": true, "io.NewSectionReader": true, "io.MultiReader": true}
	wide := &ir.Tracer{C: e.C, Through: wrappers, Descend: e.repoDescend, Up: up, Fields: e.helperObjectFields}
	exact := &ir.Tracer{C: e.C, Through: map[string]bool{}, Descend: e.repoDescend, Up: up, Fields: e.helperObjectFields}
	isRead := func(ls []ir.Leaf) (any, all bool) {
		all = len(ls) > 0
		for _, l := range ls {
			if l.Kind == "field" && strings.HasSuffix(l.Name, readField) {
				any = true
			} else {
				all = false
			}
		}
		return
	}
	n := 0
	for _, f := range pkgFns {
		for _, ci := range ir.CallsIn(f, func(c *ssa.CallCommon) bool {
			return ir.IsCallTo(c, "io.Copy", "io.CopyBuffer", "io.ReadAll", "io/ioutil.ReadAll", "(*bytes.Buffer).ReadFrom", "io.CopyN")
		}) {
			c := ci.Common()
			srcIdx, dstIdx := 1, 0
			if ir.IsCallTo(c, "io.ReadAll", "io/ioutil.ReadAll") {
				srcIdx, dstIdx = 0, -1
			}
			if anyRead, _ := isRead(wide.Trace(c.Args[srcIdx])); !anyRead {
				continue
			}
			n++
			// b. to EOF, unwrapped
			_, allRead := isRead(exact.Trace(c.Args[srcIdx]))
			r.Check(allRead && !ir.IsCallTo(c, "io.CopyN"), "capture drain: reads the pipe's read end itself until EOF", e.InstrPos(ci),
				"the capture pipe is drained through a bounded or wrapping reader: once the bound is reached nobody reads the pipe any more, the child blocks or gets EPIPE, and - the step's log sharing one MultiWriter with the pipe - the rest of its output is lost from the log as well")
			// a. in a goroutine started before Run
			var g *ssa.Go
			var gfn *ssa.Function
			for fnc := f; fnc != nil && g == nil; fnc = fnc.Parent() {
				for _, h := range pkgFns {
					for _, bb := range h.Blocks {
						for _, in := range bb.Instrs {
							if gi, ok := in.(*ssa.Go); ok && gi.Call.StaticCallee() == fnc {
								g, gfn = gi, fnc
							}
						}
					}
				}
			}
			if g == nil {
				r.Bad("capture drain: runs in its own goroutine", e.InstrPos(ci), "the capture pipe is read synchronously: a step with `output:` that prints more than the pipe buffer (64 KiB) blocks forever")
				continue
			}
			// the instruction of Execute that leads to the go statement
			var lead ssa.Instruction
			if rootFn(g.Parent()) == ex {
				lead = g
				if g.Parent() != ex {
					lead = nil // started from a nested closure: not supported
				}
			} else {
				host := rootFn(g.Parent())
				for _, c2 := range ir.CallsIn(ex, func(cc *ssa.CallCommon) bool {
					sc := cc.StaticCallee()
					return sc != nil && e.reachesStatic(sc, func(x *ssa.Function) bool { return x == host })
				}) {
					lead = c2
				}
			}
			if lead == nil {
				r.Unknown("capture drain: started from Execute", e.InstrPos(g), "cannot relate the goroutine start to the executor's Run call")
				continue
			}
			toRun, _ := ir.Bypass(lead, nil, ir.PathQuery{Bad: func(x ssa.Instruction) bool { return x == run }})
			fromRun, _ := ir.Bypass(run, nil, ir.PathQuery{Bad: func(x ssa.Instruction) bool { return x == lead }})
			r.Check(toRun != nil && fromRun == nil, "capture drain: the goroutine is started before cmd.Run()", e.InstrPos(g),
				"the capture pipe is only read after the command has finished: a step with `output:` that prints more than the pipe buffer (64 KiB) blocks forever")
			// b'. the drain goroutine does not close the read end
			closes := false
			for _, gf := range ir.WithClosures(gfn) {
				for _, cl := range ir.CallsIn(gf, func(cc *ssa.CallCommon) bool { return ir.IsCallTo(cc, "(*os.File).Close") }) {
					if anyR, _ := isRead(wide.Trace(cl.Common().Args[0])); anyR {
						closes = true
					}
				}
			}
			r.Check(!closes, "capture drain: the read end is not closed by the draining goroutine", e.InstrPos(g),
				"the goroutine that drains the capture pipe closes its read end: if it stops reading before EOF the child's next write fails with EPIPE and the shared MultiWriter drops the rest of the output from the step's log")
			// c. per-execution buffer
			if dstIdx >= 0 {
				kind, what, site := c11Classify(e, c.Args[dstIdx], 0)
				switch kind {
				case "local":
					r.OK("capture drain: fills a buffer that is fresh for each execution", e.InstrPos(ci), "", "buffer: local "+what)
					// d. read only after completion was signalled
					if al, ok := site.(*ssa.Alloc); ok && al.Parent() == ex {
						okD := true
						for _, ref := range *al.Referrers() {
							rc, isCall := ref.(ssa.CallInstruction)
							if !isCall || ref.Block() == nil {
								continue
							}
							if _, isGo := ref.(*ssa.Go); isGo {
								continue
							}
							// only reads of the buffer: its own methods other than the writing ones
							cc := rc.Common()
							if cc.StaticCallee() == nil || cc.Signature().Recv() == nil || len(cc.Args) == 0 || cc.Args[0] != ssa.Value(al) {
								continue
							}
							switch cc.StaticCallee().Name() {
							case "Write", "WriteString", "WriteByte", "WriteRune", "ReadFrom", "Reset", "Grow", "Truncate":
								continue
							}
							// a method of the capture object itself (`captured.wait()`): inside it every
							// read of the buffer comes after a channel receive
							if hc := cc.StaticCallee(); e.P.Funcs[hc] && hc.Blocks != nil {
								var recvs, reads []ssa.Instruction
								for _, bb := range hc.Blocks {
									for _, in := range bb.Instrs {
										if u, isU := in.(*ssa.UnOp); isU && u.Op == token.ARROW {
											recvs = append(recvs, u)
										}
										if c2, isC := in.(*ssa.Call); isC && c2.Call.StaticCallee() != nil && c2.Call.Signature().Recv() != nil && len(c2.Call.Args) > 0 {
											if fa, isF := c2.Call.Args[0].(*ssa.FieldAddr); isF && ir.Resolve(fa.X) == ssa.Value(hc.Params[0]) {
												switch c2.Call.StaticCallee().Name() {
												case "Write", "WriteString", "WriteByte", "WriteRune", "ReadFrom", "Reset", "Grow", "Truncate":
												default:
													reads = append(reads, c2)
												}
											}
										}
									}
								}
								inner := true
								for _, rd := range reads {
									okR := false
									for _, rv := range recvs {
										if ir.Precedes(rv, rd) {
											okR = true
										}
									}
									if !okR {
										inner = false
									}
								}
								if inner && ir.Precedes(run, rc) && (len(reads) == 0 || len(recvs) > 0) {
									continue
								}
							}
							recvBefore := false
							for _, bb := range ex.Blocks {
								for _, in := range bb.Instrs {
									if u, isU := in.(*ssa.UnOp); isU && u.Op == token.ARROW && ir.Precedes(run, u) && ir.Precedes(u, rc) {
										recvBefore = true
									}
								}
							}
							if !recvBefore {
								okD = false
							}
						}
						r.Check(okD, "capture buffer: read only after the drain signalled completion (channel receive after Run)", e.InstrPos(run),
							"the captured output is read while the draining goroutine may still be copying: the stored value can miss the tail of the step's output")
					}
				case "field":
					// a reset of that field must precede the goroutine start
					reset := false
					for _, hf := range pkgFns {
						for _, bb := range hf.Blocks {
							for _, in := range bb.Instrs {
								switch x := in.(type) {
								case *ssa.Store:
									if fa, ok := x.Addr.(*ssa.FieldAddr); ok && ir.FieldNameOf(fa.X.Type(), fa.Field) == what && hf == g.Parent() && ir.Precedes(x, g) {
										reset = true
									}
								case *ssa.Call:
									if ir.IsCallTo(&x.Call, "(*bytes.Buffer).Reset", "(*bytes.Buffer).Truncate", "(*strings.Builder).Reset") {
										if fa, ok := x.Call.Args[0].(*ssa.FieldAddr); ok && ir.FieldNameOf(fa.X.Type(), fa.Field) == what {
											if (hf == g.Parent() && ir.Precedes(x, g)) || (hf == ex && ir.Precedes(x, lead)) {
												reset = true
											}
										}
									}
								}
							}
						}
					}
					r.Check(reset, "capture drain: fills a buffer that is fresh for each execution", e.InstrPos(ci),
						"the capture buffer is the node's field "+what+" and nothing resets it before the drain starts: a step that is executed again on the same node (retryPolicy, repeatPolicy) stores the concatenation of all attempts' output under its `output:` name", "buffer: field "+what)
				default:
					r.Unknown("capture drain: destination buffer", e.InstrPos(ci), "cannot classify the destination: "+what)
				}
			}
		}
	}
	if n == 0 {
		r.Unknown("capture pipe: a drain of the read end (field "+readField+")", e.Pos(ex.Pos()), "no io.Copy / ReadAll whose source derives from the pipe's read end")
	}
}

// c11Classify resolves an io.Writer argument to the variable it writes into.
func c11Classify(e *Env, v ssa.Value, depth int) (kind, what string, site ssa.Value) {
	if depth > 6 {
		return "unknown", "too deep", nil
	}
	switch x := v.(type) {
	case *ssa.MakeInterface:
		return c11Classify(e, x.X, depth+1)
	case *ssa.ChangeType:
		return c11Classify(e, x.X, depth+1)
	case *ssa.ChangeInterface:
		return c11Classify(e, x.X, depth+1)
	case *ssa.Alloc:
		return "local", x.Comment, x
	case *ssa.FieldAddr:
		// a field of an object allocated for this execution is as fresh as a local
		if k, w, site := c11Classify(e, x.X, depth+1); k == "local" {
			return "local", w + "." + ir.FieldNameOf(x.X.Type(), x.Field), site
		}
		return "field", ir.FieldNameOf(x.X.Type(), x.Field), x
	case *ssa.UnOp:
		if x.Op == token.MUL {
			// a pointer kept in a cell or field
			if fa, ok := x.X.(*ssa.FieldAddr); ok {
				return "field", ir.FieldNameOf(fa.X.Type(), fa.Field), fa
			}
			st := ir.StoresTo(x.X)
			if len(st) == 1 {
				return c11Classify(e, st[0], depth+1)
			}
		}
	case *ssa.FreeVar:
		fn := x.Parent()
		idx := -1
		for i, fv := range fn.FreeVars {
			if fv == x {
				idx = i
			}
		}
		for _, f := range e.RepoFuncsSorted() {
			for _, b := range f.Blocks {
				for _, in := range b.Instrs {
					if mc, ok := in.(*ssa.MakeClosure); ok && mc.Fn == ssa.Value(fn) && idx >= 0 && idx < len(mc.Bindings) {
						return c11Classify(e, mc.Bindings[idx], depth+1)
					}
				}
			}
		}
	case *ssa.Parameter:
		sites := e.StaticCallSites(x.Parent())
		idx := paramIndex(x)
		if len(sites) == 1 && idx >= 0 && idx < len(sites[0].Common().Args) {
			return c11Classify(e, sites[0].Common().Args[idx], depth+1)
		}
	case *ssa.Call:
		// an object built for this execution by a constructor of the repository
		// (every return hands back a fresh allocation)
		if g := x.Call.StaticCallee(); g != nil && e.P.Funcs[g] && g.Blocks != nil && g.Signature.Results().Len() == 1 {
			fresh, n := true, 0
			for _, b := range g.Blocks {
				if rt, ok := b.Instrs[len(b.Instrs)-1].(*ssa.Return); ok {
					n++
					if _, isA := ir.Resolve(rt.Results[0]).(*ssa.Alloc); !isA {
						fresh = false
					}
				}
			}
			if fresh && n > 0 {
				return "local", "object built by " + shortName(g), x
			}
		}
	case *ssa.Phi:
		// `var c *T; if cond { c = newT() }`: the non-nil alternatives
		var kind, what string
		var site ssa.Value
		for _, ed := range x.Edges {
			if ir.IsNilConst(ed) {
				continue
			}
			k, w, st := c11Classify(e, ed, depth+1)
			if kind != "" && k != kind {
				return "unknown", v.String(), nil
			}
			kind, what, site = k, w, st
		}
		if kind != "" {
			return kind, what, site
		}
	}
	return "unknown", v.String(), nil
}

func c11Recorder(e *Env) {
	r := e.R
	r.Rule("C11.recorder-quotes", "AGR", "recorded parameter string quotes what it joins with the parser's delimiter", 1)
	fn := e.Fn("internal/persistence/model", "Params")
	if fn == nil {
		return
	}
	for _, ci := range ir.CallsIn(fn, func(c *ssa.CallCommon) bool { return ir.IsCallTo(c, "strings.Join") }) {
		sep, _ := ir.ConstString(ci.Common().Args[1])
		// elements quoted? the joined slice must come from a call/loop applying %q / strconv.Quote
		quoted := false
		for _, c2 := range ir.CallsIn(fn, func(c *ssa.CallCommon) bool {
			return ir.IsCallTo(c, "strconv.Quote", "fmt.Sprintf")
		}) {
			if ir.IsCallTo(c2.Common(), "strconv.Quote") {
				quoted = true
			} else if f, ok := ir.ConstString(c2.Common().Args[0]); ok && (strings.Contains(f, "%q") || strings.Contains(f, `"%s"`)) {
				quoted = true
			}
		}
		ok := quoted || strings.TrimSpace(sep) != ""
		r.Check(ok, "model.Params: elements joined with whitespace are quoted", e.InstrPos(ci),
			"parameters are recorded joined by a blank without quoting: a value containing a blank (\"hello world\") is re-parsed as two parameters on retry / restart")
	}
	// whatever quoting the recorder applies, the parameter parser must undo exactly that:
	// Go quoting (strconv.Quote, %q) escapes backslashes and control bytes as well, which
	// only strconv.Unquote reverses; the parser of the dag package strips the quotes and
	// turns \" back into " and nothing else
	var goQuote []ssa.CallInstruction
	for _, f := range e.withPkgHelpers(fn) {
		for _, c2 := range ir.CallsIn(f, func(c *ssa.CallCommon) bool {
			return ir.IsCallTo(c, "strconv.Quote", "strconv.QuoteToASCII", "strconv.AppendQuote", "fmt.Sprintf")
		}) {
			if ir.IsCallTo(c2.Common(), "fmt.Sprintf") {
				if f, ok := ir.ConstString(c2.Common().Args[0]); !ok || !strings.Contains(f, "%q") {
					continue
				}
			}
			goQuote = append(goQuote, c2)
		}
	}
	readerUnquotes := false
	if sp := e.P.Pkg(dagRel); sp != nil {
		for _, f := range e.RepoFuncsSorted() {
			if rootFn(f).Package() == sp && len(ir.CallsIn(f, func(c *ssa.CallCommon) bool { return ir.IsCallTo(c, "strconv.Unquote") })) > 0 {
				readerUnquotes = true
			}
		}
	}
	if len(goQuote) == 0 {
		r.OK("model.Params: the recorder applies no quoting the parameter parser does not undo", e.Pos(fn.Pos()), "no Go-syntax quoting in the recorder")
	}
	for _, q := range goQuote {
		r.Check(readerUnquotes, "model.Params: the recorder applies no quoting the parameter parser does not undo", e.InstrPos(q),
			"the recorded parameter string is quoted in Go syntax (backslashes and control bytes escaped) but the parameter parser only strips the quotes and un-escapes \\\": a value containing a backslash comes back doubled on retry / restart, and doubles again with every further retry")
	}
}
