package rules

import (
	"go/token"
	"strings"

	"golang.org/x/tools/go/ssa"

	"bdcheck/internal/ir"
)

func init() {
	register(&Prop{ID: "C11", Run: runC11,
		Technique: "static analysis: value-flow of parameters and captured outputs (go/ssa slices), writer/reader agreement on the NAME=value encoding, ordering of the pipe reader against cmd.Run, sibling agreement of process executors",
		Decided: []string{
			"API start parameters flow unchanged into StartOptions.Params and into the `-p` argument through escapeArg and quoting only; the CLI hands --params (outer quotes removed) to the loader (C11.param-flow)",
			"a captured output is stored under the step's output name as NAME=TrimSpace(stdout), and the retry-graph reader strips exactly the NAME= prefix (C11.output-store)",
			"every graph node (both constructors) and every handler node gets the graph's shared output map before it can execute; both process executors append the map to the child's environment (C11.output-visibility)",
			"the writer installed as stderr does not include the capture pipe (C11.capture-is-stdout-only) — violated today, known finding F24",
			"the capture pipe is drained by a goroutine started before cmd.Run() (C11.pipe-drained)",
			"the recorded parameter string quotes each element it joins with the parser's delimiter (C11.recorder-quotes) — violated today, known finding F22",
		},
		NotDec: []string{"the parameter regular expression's grammar, byte-exactness of values, shell quoting", "the process environment as the third channel (os.Setenv ordering across steps)"},
	})
}

func runC11(e *Env) {
	c11ParamFlow(e)
	c11OutputStore(e)
	c11OutputVisibility(e)
	c11Capture(e)
	c11Recorder(e)
}

func c11ParamFlow(e *Env) {
	r := e.R
	r.Rule("C11.param-flow", "VF", "start parameters pass through unchanged", 3)
	// (1) API handler: StartOptions{Params: params.Body.Params}
	pa := e.Fn("internal/frontend/dag", "(*Handler).postAction")
	if pa != nil {
		n := 0
		for _, ci := range ir.CallsIn(pa, func(c *ssa.CallCommon) bool {
			return c.IsInvoke() && (c.Method.Name() == "StartAsync" || c.Method.Name() == "Start")
		}) {
			n++
			opts := ci.Common().Args[len(ci.Common().Args)-1]
			ok := false
			// opts is a struct value loaded from a local literal: find the store into its Params field
			var al ssa.Value
			if u, isU := opts.(*ssa.UnOp); isU {
				al = u.X
			}
			if al != nil {
				for _, ref := range *al.Referrers() {
					if fa, isFA := ref.(*ssa.FieldAddr); isFA && ir.FieldNameOf(fa.X.Type(), fa.Field) == "Params" {
						for _, r2 := range *fa.Referrers() {
							if st, isS := r2.(*ssa.Store); isS && e.IsFieldRead(st.Val, nil, "Body.Params") {
								ok = true
							}
						}
					}
				}
			}
			r.Check(ok, "API start: StartOptions.Params = request Body.Params", e.InstrPos(ci), "the parameters given in the API request are not what the start is issued with")
		}
		if n == 0 {
			r.Unknown("API start action", e.Pos(pa.Pos()), "no StartAsync call")
		}
	}
	// (2) client.Start: "-p", `"` + escapeArg(opts.Params) + `"`
	st := e.Fn("internal/client", "(*client).Start")
	esc := e.FnQuiet("internal/client", "escapeArg")
	if st != nil {
		okFlag, okVal := false, false
		for _, b := range st.Blocks {
			for _, in := range b.Instrs {
				c, isC := in.(*ssa.Call)
				if !isC {
					continue
				}
				for _, el := range appendedElems(c) {
					if s, isS := ir.ConstString(el); isS && (s == "-p" || s == "--params") {
						okFlag = true
					}
					if sc, isCall := el.(*ssa.Call); isCall && ir.IsCallTo(&sc.Call, "fmt.Sprintf") {
						f, _ := ir.ConstString(sc.Call.Args[0])
						tr := &ir.Tracer{C: e.C}
						var inner *ssa.Call
						for _, l := range tr.Trace(sc.Call.Args[1]) {
							if l.Kind == "call" {
								inner, _ = l.V.(*ssa.Call)
							}
						}
						if (f == `"%s"` || f == "%s" || f == "%q") && inner != nil && esc != nil && inner.Call.StaticCallee() == esc && e.IsFieldRead(inner.Call.Args[0], nil, "Params") {
							okVal = true
						}
					}
					if e.IsFieldRead(el, nil, "Params") {
						okVal = true
					}
				}
			}
		}
		r.Check(okFlag && okVal, "client.Start: -p \"escapeArg(opts.Params)\"", e.Pos(st.Pos()),
			"the spawned start command does not receive the caller's parameters (or receives them transformed by something other than escapeArg and quoting)")
	}
	// (3) CLI: dag.Load(…, removeQuotes(flag params))
	sp := e.P.Pkg("cmd")
	loadFn := e.FnQuiet(dagRel, "Load")
	if sp != nil && loadFn != nil {
		for _, name := range []string{"startCmd", "dryCmd"} {
			root := sp.Func(name)
			if root == nil {
				r.Unknown("cmd."+name, "-", "not found")
				continue
			}
			ok := false
			for _, f := range ir.WithClosures(root) {
				for _, ci := range ir.CallsIn(f, func(c *ssa.CallCommon) bool { return c.StaticCallee() == loadFn }) {
					fl := &ir.Flow{C: e.C, Through: func(c *ssa.Call) []int {
						if sc := c.Call.StaticCallee(); sc != nil && sc.Name() == "removeQuotes" {
							return []int{0}
						}
						return nil
					}, Source: func(v ssa.Value) bool {
						c, isC := v.(*ssa.Call)
						if !isC || !strings.HasSuffix(ir.CalleeName(&c.Call), "FlagSet).GetString") {
							return false
						}
						s, _ := ir.ConstString(c.Call.Args[1])
						return s == "params"
					}}
					if fl.All(ci.Common().Args[2]) {
						ok = true
					}
				}
			}
			r.Check(ok, "cmd "+strings.TrimSuffix(name, "Cmd")+": dag.Load(…, removeQuotes(--params))", e.Pos(root.Pos()),
				"the command does not load the DAG with the parameters given on its command line")
		}
	}
}

func c11OutputStore(e *Env) {
	r := e.R
	r.Rule("C11.output-store", "VF", "NAME=TrimSpace(stdout) stored under NAME; reader strips exactly NAME=", 2)
	ex := e.Fn(schedRel, "(*Node).Execute")
	if ex != nil {
		n := 0
		for _, f := range ir.WithClosures(ex) {
			for _, ci := range ir.CallsIn(f, func(c *ssa.CallCommon) bool { return ir.IsCallTo(c, "(*sync.Map).Store") }) {
				n++
				a := ci.Common().Args
				key, val := a[1], a[2]
				if mi, ok := key.(*ssa.MakeInterface); ok {
					key = mi.X
				}
				if mi, ok := val.(*ssa.MakeInterface); ok {
					val = mi.X
				}
				okKey := e.IsFieldRead(key, nil, "Step.Output")
				okVal := false
				if sc, ok := ir.Resolve(val).(*ssa.Call); ok && ir.IsCallTo(&sc.Call, "fmt.Sprintf") {
					f, _ := ir.ConstString(sc.Call.Args[0])
					tr := &ir.Tracer{C: e.C}
					hasName, hasTrim := false, false
					for _, l := range tr.Trace(sc.Call.Args[1]) {
						if l.Kind == "field" && strings.HasSuffix(l.Name, "Step.Output") {
							hasName = true
						}
						if l.Kind == "call" && l.Name == "strings.TrimSpace" {
							hasTrim = true
						}
					}
					okVal = f == "%s=%s" && hasName && hasTrim
				}
				r.Check(okKey, "Execute: captured output stored under the step's output name", e.InstrPos(ci), "the captured value is stored under a key other than the step's `output:` name")
				r.Check(okVal, "Execute: stored value is NAME=TrimSpace(captured stdout)", e.InstrPos(ci), "the stored value is not `NAME=` followed by the trimmed captured standard output")
			}
		}
		if n == 0 {
			r.Unknown("Execute: output store", e.Pos(ex.Pos()), "no SyncMap.Store found")
		}
	}
	// reader in the retry-graph constructor
	rg := e.Fn(schedRel, "NewExecutionGraphForRetry")
	if rg != nil {
		n := 0
		for _, f := range ir.WithClosures(rg) {
			for _, ci := range ir.CallsIn(f, func(c *ssa.CallCommon) bool { return ir.IsCallTo(c, "os.Setenv") }) {
				n++
				v := ir.Resolve(ci.Common().Args[1])
				ok, how := false, e.C.Render(v)
				switch x := v.(type) {
				case *ssa.Slice:
					// v[len(k)+1:]
					if x.High == nil && x.Low != nil {
						if bo, isB := x.Low.(*ssa.BinOp); isB && bo.Op == token.ADD {
							if k, isC := ir.ConstInt(bo.Y); isC && k == 1 {
								if lc, isL := bo.X.(*ssa.Call); isL {
									if bi, isBi := lc.Call.Value.(*ssa.Builtin); isBi && bi.Name() == "len" {
										ok = true
									}
								}
							}
						}
					}
				case *ssa.Call:
					if ir.IsCallTo(&x.Call, "strings.TrimPrefix") {
						ok = true
					}
				case *ssa.Extract:
					if c, isC := x.Tuple.(*ssa.Call); isC && ir.IsCallTo(&c.Call, "strings.Cut") && x.Index == 1 {
						ok = true
					}
				case *ssa.UnOp:
					// parts[1] of strings.SplitN(v, "=", 2)
					if ia, isIA := x.X.(*ssa.IndexAddr); isIA {
						if c, isC := ir.Resolve(ia.X).(*ssa.Call); isC && ir.IsCallTo(&c.Call, "strings.SplitN") {
							if k, isK := ir.ConstInt(c.Call.Args[2]); isK && k == 2 {
								ok = true
							}
						}
					}
				}
				r.Check(ok, "retry graph: restored value = recorded string minus exactly the NAME= prefix", e.InstrPos(ci),
					"the value exported for a retry is not the recorded NAME=value with exactly the NAME= prefix removed (values containing '=' or other bytes are lost or mangled): "+how)
			}
		}
		if n == 0 {
			r.Unknown("retry graph: output restore", e.Pos(rg.Pos()), "no os.Setenv found")
		}
	}
}

func c11OutputVisibility(e *Env) {
	r := e.R
	r.Rule("C11.output-visibility", "VF/MPT", "shared output map installed on every node before execution; exported by process executors", 4)
	sharedStore := func(f *ssa.Function, what string) {
		ok := false
		for _, g := range ir.WithClosures(f) {
			for _, b := range g.Blocks {
				for _, in := range b.Instrs {
					st, isS := in.(*ssa.Store)
					if !isS {
						continue
					}
					if fa, isFA := st.Addr.(*ssa.FieldAddr); isFA && ir.FieldNameOf(fa.X.Type(), fa.Field) == "OutputVariables" {
						if e.IsFieldRead(st.Val, nil, "outputVariables") {
							// inside a loop over the nodes/steps
							if ir.InnermostLoop(ir.Loops(g), b) != nil {
								ok = true
							}
						}
					}
				}
			}
		}
		r.Check(ok, what+": every node gets the graph's output map", e.Pos(f.Pos()), "nodes of this graph do not share the run's output map: captured outputs are invisible to later steps")
	}
	if f := e.Fn(schedRel, "NewExecutionGraph"); f != nil {
		sharedStore(f, "NewExecutionGraph")
	}
	if f := e.Fn(schedRel, "NewExecutionGraphForRetry"); f != nil {
		sharedStore(f, "NewExecutionGraphForRetry")
	}
	// handler nodes: store precedes the runner call in the handler loop
	s := e.resolveSchedQuiet()
	if s != nil && s.ok {
		var store ssa.Instruction
		for _, b := range s.Loop.Blocks {
			for _, in := range b.Instrs {
				if st, isS := in.(*ssa.Store); isS {
					if fa, isFA := st.Addr.(*ssa.FieldAddr); isFA && ir.FieldNameOf(fa.X.Type(), fa.Field) == "OutputVariables" && e.IsFieldRead(st.Val, nil, "outputVariables") {
						store = st
					}
				}
			}
		}
		runner := e.FnQuiet(schedRel, "(*Scheduler).runHandlerNode")
		ok := false
		for _, ci := range ir.CallsIn(s.Loop, func(c *ssa.CallCommon) bool { return c.StaticCallee() == runner && runner != nil }) {
			if store != nil && ir.Precedes(store, ci) {
				// same handler node
				p, okp := e.C.StorePath(store.(*ssa.Store).Addr)
				if okp && len(ci.Common().Args) >= 3 && sameNode(p.Root, ci.Common().Args[2]) {
					ok = true
				}
			}
		}
		r.Check(ok, "handler loop: the handler node gets the graph's output map before it runs", e.Pos(s.Loop.Pos()), "handlers do not see the outputs captured during the run")
	}
	// process executors export the map
	sp := e.P.Pkg("internal/dag/executor")
	if sp != nil {
		for _, f := range e.RepoFuncsSorted() {
			if f.Package() != sp || f.Parent() != nil {
				continue
			}
			if len(ir.CallsIn(f, func(c *ssa.CallCommon) bool { return ir.IsCallTo(c, "os/exec.CommandContext", "os/exec.Command") })) == 0 {
				continue
			}
			ok := false
			for _, ci := range ir.CallsIn(f, func(c *ssa.CallCommon) bool { return ir.IsCallTo(c, "(*sync.Map).Range") }) {
				if fa, isFA := ci.Common().Args[0].(*ssa.FieldAddr); isFA && e.IsFieldRead(fa.X, nil, "OutputVariables") {
					// the callback appends to cmd.Env
					if mc, isMC := ci.Common().Args[1].(*ssa.MakeClosure); isMC {
						for _, ev := range e.C.FieldStores(mc.Fn.(*ssa.Function), "Env") {
							if ev.Site != nil {
								ok = true
							}
						}
					}
				}
			}
			r.Check(ok, shortName(f)+": appends the output map to the child's environment", e.Pos(f.Pos()), "steps run by this executor do not see captured outputs as environment variables")
		}
	}
}

func (e *Env) resolveSchedQuiet() *Sched {
	// resolveSched records undecided obligations under the current rule on failure; acceptable here
	return e.resolveSched()
}

func c11Capture(e *Env) {
	r := e.R
	fn := e.Fn(schedRel, "(*Node).setupExec")
	ex := e.Fn(schedRel, "(*Node).Execute")
	if fn == nil || ex == nil {
		return
	}
	r.Rule("C11.capture-is-stdout-only", "VF", "stderr writer does not include the capture pipe", 1)
	for _, ci := range ir.CallsIn(fn, func(c *ssa.CallCommon) bool { return c.IsInvoke() && c.Method.Name() == "SetStderr" }) {
		followed, _ := ir.Bypass(ci, nil, ir.PathQuery{
			Stop: func(in ssa.Instruction) bool {
				c, ok := in.(*ssa.Call)
				return ok && c.Call.IsInvoke() && c.Call.Method.Name() == "SetStderr"
			},
			Bad: ir.IsReturn})
		if followed == nil {
			continue // always overridden by a later SetStderr
		}
		tr := &ir.Tracer{C: e.C, Through: map[string]bool{"io.MultiWriter": true}}
		has := false
		for _, l := range tr.Trace(ci.Common().Args[0]) {
			if l.Kind == "field" && l.Name == "outputWriter" {
				has = true
			}
		}
		which := "stderr: file configured"
		if !HasNilCmp(e.DCS(ci), func(v ssa.Value) bool { return e.IsFieldRead(v, nil, "stderrWriter") }, true) {
			which = "no stderr: file"
		}
		r.Check(!has, "setupExec ("+which+"): SetStderr writer excludes the output-capture pipe", e.InstrPos(ci),
			"the writer installed as the step's stderr includes the capture pipe: what the step prints to stderr ends up in its `output:` variable")
	}
	r.Rule("C11.pipe-drained", "MPT/ownership", "capture pipe read by a goroutine started before Run", 1)
	var run ssa.Instruction
	for _, ci := range ir.CallsIn(ex, func(c *ssa.CallCommon) bool { return c.IsInvoke() && c.Method.Name() == "Run" }) {
		run = ci
	}
	n := 0
	for _, f := range ir.WithClosures(ex) {
		for _, ci := range ir.CallsIn(f, func(c *ssa.CallCommon) bool { return true }) {
			reads := false
			for _, a := range ci.Common().Args {
				x := a
				if mi, ok := a.(*ssa.MakeInterface); ok {
					x = mi.X
				}
				if e.IsFieldRead(x, nil, "outputReader") {
					reads = true
				}
			}
			if !reads || ir.IsCallTo(ci.Common(), "(*os.File).Close") {
				continue
			}
			n++
			ok := false
			if f != ex && run != nil {
				for _, b := range ex.Blocks {
					for _, in := range b.Instrs {
						if g, isG := in.(*ssa.Go); isG && g.Call.StaticCallee() == f {
							// started on a path that leads to Run, and never after Run
							toRun, _ := ir.Bypass(g, nil, ir.PathQuery{Bad: func(x ssa.Instruction) bool { return x == run }})
							fromRun, _ := ir.Bypass(run, nil, ir.PathQuery{Bad: func(x ssa.Instruction) bool { return x == ssa.Instruction(g) }})
							if toRun != nil && fromRun == nil {
								ok = true
							}
						}
					}
				}
			}
			r.Check(ok, "Execute: the capture pipe is read by a goroutine started before cmd.Run()", e.InstrPos(ci),
				"the capture pipe is only read after the command has finished: a step with `output:` that prints more than the pipe buffer (64 KiB) blocks forever")
		}
	}
	if n == 0 {
		r.Unknown("Execute: reader of the capture pipe", e.Pos(ex.Pos()), "no read of outputReader found")
	}
}

func c11Recorder(e *Env) {
	r := e.R
	r.Rule("C11.recorder-quotes", "AGR", "recorded parameter string quotes what it joins with the parser's delimiter", 1)
	fn := e.Fn("internal/persistence/model", "Params")
	if fn == nil {
		return
	}
	for _, ci := range ir.CallsIn(fn, func(c *ssa.CallCommon) bool { return ir.IsCallTo(c, "strings.Join") }) {
		sep, _ := ir.ConstString(ci.Common().Args[1])
		// elements quoted? the joined slice must come from a call/loop applying %q / strconv.Quote
		quoted := false
		for _, c2 := range ir.CallsIn(fn, func(c *ssa.CallCommon) bool {
			return ir.IsCallTo(c, "strconv.Quote", "fmt.Sprintf")
		}) {
			if ir.IsCallTo(c2.Common(), "strconv.Quote") {
				quoted = true
			} else if f, ok := ir.ConstString(c2.Common().Args[0]); ok && (strings.Contains(f, "%q") || strings.Contains(f, `"%s"`)) {
				quoted = true
			}
		}
		ok := quoted || strings.TrimSpace(sep) != ""
		r.Check(ok, "model.Params: elements joined with whitespace are quoted", e.InstrPos(ci),
			"parameters are recorded joined by a blank without quoting: a value containing a blank (\"hello world\") is re-parsed as two parameters on retry / restart")
	}
}
