package rules

import (
	"go/token"
	"sort"
	"strings"

	"golang.org/x/tools/go/ssa"

	"bdcheck/internal/ir"
)

// AgentRoles describes the agent's private helpers by what they do. The agent's
// Run is a sequence of calls to unexported methods whose names carry no
// contract; what the properties speak about are the calls that leave the
// package (evaluating preconditions, probing the live status, opening and
// writing history, binding the socket, scheduling). Every function of the
// package is summarised by the set of such outside calls its body - closures,
// go and defer statements and same-package callees included - can make.
type AgentRoles struct {
	e     *Env
	Run   *ssa.Function
	pkg   *ssa.Package
	reach map[*ssa.Function]map[string]bool
}

const agentRel = "internal/agent"

func (e *Env) agentRoles() *AgentRoles {
	if e.aroles != nil {
		return e.aroles
	}
	a := &AgentRoles{e: e, reach: map[*ssa.Function]map[string]bool{}}
	e.aroles = a
	a.Run = e.Fn(agentRel, "(*Agent).Run")
	if a.Run != nil {
		a.pkg = a.Run.Package()
	}
	return a
}

func (a *AgentRoles) inPkg(f *ssa.Function) bool {
	return f != nil && a.pkg != nil && rootFn(f).Package() == a.pkg && f.Blocks != nil
}

// Reach returns the names of the calls leaving the agent package that f can make.
func (a *AgentRoles) Reach(f *ssa.Function) map[string]bool {
	if r, ok := a.reach[f]; ok {
		return r
	}
	out := map[string]bool{}
	a.reach[f] = out // cuts recursion
	for _, h := range ir.WithClosures(f) {
		for _, b := range h.Blocks {
			for _, in := range b.Instrs {
				ci, ok := in.(ssa.CallInstruction)
				if !ok {
					continue
				}
				c := ci.Common()
				g := c.StaticCallee()
				if a.inPkg(g) {
					if rootFn(g) != rootFn(f) {
						for k := range a.Reach(g) {
							out[k] = true
						}
					}
					continue
				}
				if n := ir.CalleeName(c); n != "" {
					out[n] = true
				}
			}
		}
	}
	return out
}

// Does reports whether the call (itself, or through same-package callees)
// performs an outside call whose name contains one of the given fragments; it returns
// the matching names.
func (a *AgentRoles) Does(c *ssa.CallCommon, suffixes []string) []string {
	names := map[string]bool{}
	if g := c.StaticCallee(); a.inPkg(g) {
		for k := range a.Reach(g) {
			names[k] = true
		}
	} else if n := ir.CalleeName(c); n != "" {
		names[n] = true
	}
	var out []string
	for n := range names {
		for _, s := range suffixes {
			if strings.Contains(n, s) {
				out = append(out, n)
				break
			}
		}
	}
	sort.Strings(out)
	return out
}

// Sites lists the call instructions of fn (closures included) that perform one
// of the named outside calls.
func (a *AgentRoles) Sites(fn *ssa.Function, suffixes ...string) []ssa.CallInstruction {
	var out []ssa.CallInstruction
	for _, f := range ir.WithClosures(fn) {
		out = append(out, ir.CallsIn(f, func(c *ssa.CallCommon) bool { return len(a.Does(c, suffixes)) > 0 })...)
	}
	return out
}

// Holder returns the function of the package whose own body (closures included)
// contains the outside call: the helper that "is" the precondition check, the
// probe, the history opener ... however it is called. Several holders are
// returned sorted; the caller decides whether that is an error.
func (a *AgentRoles) Holders(suffix string) []*ssa.Function {
	var out []*ssa.Function
	if a.pkg == nil {
		return nil
	}
	for _, f := range a.e.RepoFuncsSorted() {
		if f.Parent() != nil || !a.inPkg(f) {
			continue
		}
		found := false
		for _, h := range ir.WithClosures(f) {
			if len(ir.CallsIn(h, func(c *ssa.CallCommon) bool {
				if strings.HasSuffix(suffix, "$") {
					return strings.HasSuffix(ir.CalleeName(c), strings.TrimSuffix(suffix, "$"))
				}
				return strings.Contains(ir.CalleeName(c), suffix)
			})) > 0 {
				found = true
			}
		}
		if found {
			out = append(out, f)
		}
	}
	return out
}

// PassedGuard returns a predicate over dominating conditions: some call that
// performs the named outside call returned nil (`x := helper(); x == nil`, or the
// outside call's own error result compared with nil).
func (a *AgentRoles) PassedGuard(suffix string) func([]ir.NLit) bool {
	return func(lits []ir.NLit) bool {
		for _, l := range lits {
			if l.Kind != "cmp" || l.Op != token.EQL || !ir.IsNilConst(l.Y) {
				continue
			}
			v := ir.Resolve(l.X)
			if ex, ok := v.(*ssa.Extract); ok {
				v = ex.Tuple
			}
			if c, ok := v.(*ssa.Call); ok && len(a.Does(&c.Call, []string{suffix})) > 0 {
				return true
			}
		}
		return false
	}
}

// apiShort renders an outside call's name for obligation keys.
func apiShort(n string) string {
	if i := strings.LastIndex(n, "/"); i >= 0 {
		n = n[i+1:]
	}
	return n
}

// The calls by which the agent acts on the world.
const (
	apiEval     = "internal/dag.EvalConditions"
	apiProbe    = ".GetCurrentStatus"
	apiSchedule = "scheduler.Scheduler).Schedule"
	apiHistory  = "persistence.HistoryStore."
	apiServe    = "sock.Server).Serve"
	apiNewGraph = "scheduler.NewExecutionGraph"
)

// phiLeaves expands φ-nodes: the values v can be (resolved), bounded.
func phiLeaves(v ssa.Value) []ssa.Value {
	var out []ssa.Value
	seen := map[ssa.Value]bool{}
	var walk func(v ssa.Value, d int)
	walk = func(v ssa.Value, d int) {
		v = ir.Resolve(v)
		if seen[v] || d > 8 {
			return
		}
		seen[v] = true
		if p, ok := v.(*ssa.Phi); ok {
			for _, x := range p.Edges {
				walk(x, d+1)
			}
			return
		}
		out = append(out, v)
	}
	walk(v, 0)
	return out
}

// withPkgHelpers returns f, its closures, and the functions of f's own package it
// (transitively, statically) calls: the code a helper extraction moves around
// without changing what f does.
func (e *Env) withPkgHelpers(f *ssa.Function) []*ssa.Function {
	seen := map[*ssa.Function]bool{}
	var out []*ssa.Function
	add := func(g *ssa.Function) {
		for _, h := range ir.WithClosures(g) {
			if !seen[h] {
				seen[h] = true
				out = append(out, h)
			}
		}
	}
	add(f)
	for _, g := range e.staticClosure(f) {
		if g.Blocks != nil && rootFn(g).Package() == rootFn(f).Package() {
			add(g)
		}
	}
	return out
}

// nonNilLeaves: what v can be when it is known to be non-nil - its φ-alternatives
// (parameters of single-call-site helpers resolved to their arguments) without
// the nil constants. `var err error; if c { err = f() }; if err != nil` tests f's error.
func nonNilLeaves(v ssa.Value) []ssa.Value {
	var out []ssa.Value
	for _, x := range phiLeaves(ir.Deep(v)) {
		x = ir.Deep(x)
		if ir.IsNilConst(x) {
			continue
		}
		if p, ok := x.(*ssa.Phi); ok {
			out = append(out, nonNilLeaves(p)...)
			continue
		}
		out = append(out, x)
	}
	return out
}

// allNonNil: v has non-nil alternatives and all of them satisfy pred.
func allNonNil(v ssa.Value, pred func(ssa.Value) bool) bool {
	ls := nonNilLeaves(v)
	if len(ls) == 0 {
		return false
	}
	for _, x := range ls {
		if !pred(x) {
			return false
		}
	}
	return true
}

// liftedPrecedes: a comes before b on every path, where either may lie in a
// single-call-site helper (its call site stands for it).
func liftedPrecedes(a, b ssa.Instruction) bool {
	var chain = func(in ssa.Instruction) []ssa.Instruction {
		out := []ssa.Instruction{in}
		for d := 0; d < 4; d++ {
			us := ir.UniqueSite(in.Parent())
			if us == nil {
				break
			}
			in = us
			out = append(out, in)
		}
		return out
	}
	for _, x := range chain(a) {
		for _, y := range chain(b) {
			if x.Parent() == y.Parent() && x != y {
				return ir.Precedes(x, y)
			}
		}
	}
	return false
}
