package rules

import (
	"go/token"
	"go/types"
	"strings"

	"golang.org/x/tools/go/ssa"

	"bdcheck/internal/ir"
)

// ---------------------------------------------------------------------------
// C05.cancel-flag-monotone

// c05CancelFlagMonotone: an accepted stop is remembered in the scheduler's cancel flag
// and nowhere else (between two steps no process exists that could be signalled). The
// flag is only ever raised: every write to it outside the struct's own literal stores a
// non-zero constant. A reset - "so that the scheduler can be handed another graph" -
// erases a stop that was accepted before the scheduling function got that far: every
// step is then launched and runs to its natural end.
func c05CancelFlagMonotone(e *Env, rule string) {
	r := e.R
	r.Rule(rule, "WMW", "the scheduler's cancel flag is only ever raised", 1)
	fld := e.schedFields().Canceled
	sp := e.P.Pkg(schedRel)
	n := 0
	for _, f := range e.RepoFuncsSorted() {
		if sp == nil || rootFn(f).Package() != sp {
			continue
		}
		for _, b := range f.Blocks {
			for _, in := range b.Instrs {
				var fa *ssa.FieldAddr
				var val ssa.Value
				switch x := in.(type) {
				case *ssa.Store:
					fa, _ = x.Addr.(*ssa.FieldAddr)
					val = x.Val
				case *ssa.Call:
					cn := ir.CalleeName(&x.Call)
					if (strings.HasPrefix(cn, "sync/atomic.Store") || strings.HasPrefix(cn, "sync/atomic.Swap")) && len(x.Call.Args) == 2 {
						fa, _ = x.Call.Args[0].(*ssa.FieldAddr)
						val = x.Call.Args[1]
					}
					if strings.HasPrefix(cn, "sync/atomic.CompareAndSwap") && len(x.Call.Args) == 3 {
						fa, _ = x.Call.Args[0].(*ssa.FieldAddr)
						val = x.Call.Args[2]
					}
					if strings.HasPrefix(cn, "(*sync/atomic.") && (strings.HasSuffix(cn, ").Store") || strings.HasSuffix(cn, ").Swap") || strings.HasSuffix(cn, ").CompareAndSwap")) && len(x.Call.Args) >= 2 {
						fa, _ = x.Call.Args[0].(*ssa.FieldAddr)
						val = x.Call.Args[len(x.Call.Args)-1]
					}
				}
				if fa == nil || val == nil || !isSchedOwner(fa.X.Type()) || ir.FieldNameOf(fa.X.Type(), fa.Field) != fld {
					continue
				}
				// the zero value written by the literal that creates the scheduler is its initial state
				if al, isA := fa.X.(*ssa.Alloc); isA && al.Parent() == f {
					continue
				}
				n++
				raised := false
				if k, isK := ir.ConstInt(val); isK && k != 0 {
					raised = true
				}
				if bv, isB := ir.ConstBool(val); isB && bv {
					raised = true
				}
				r.Check(raised, shortName(f)+": the cancel flag is raised, never lowered", e.InstrPos(in),
					"the scheduler's cancel flag is written with something other than a non-zero constant: a stop accepted before this point (between two steps, or before the first one was launched) is forgotten, the remaining steps are started and the run is not bounded by the clean-up time",
					"value written: "+e.C.Render(val))
			}
		}
	}
	if n == 0 {
		r.Unknown("writes of the scheduler's cancel flag", "-", "no store into Scheduler."+fld+" found (flag not recognised)")
	}
}

// ---------------------------------------------------------------------------
// C06.key-injective

// c06KeyInjective: the history of a DAG file lives in a directory keyed by a hash of
// the file's path. Two different files must not share a key: what is hashed is the
// path argument itself, not a normalised form of it (an added extension, a lower-cased
// or cleaned path, the base name).
func c06KeyInjective(e *Env) {
	r := e.R
	r.Rule("C06.key-injective", "VF", "the history directory key hashes the DAG path itself", 1)
	sp := e.P.Pkg(jsondbRel)
	n := 0
	for _, f := range e.RepoFuncsSorted() {
		if sp == nil || rootFn(f).Package() != sp {
			continue
		}
		for _, ci := range ir.CallsIn(f, func(c *ssa.CallCommon) bool {
			cn := ir.CalleeName(c)
			if c.IsInvoke() && c.Method.Name() == "Write" && strings.HasSuffix(ir.NamedType(c.Value.Type()), "hash.Hash") {
				return true
			}
			return cn == "crypto/md5.Sum" || cn == "crypto/sha1.Sum" || cn == "crypto/sha256.Sum256"
		}) {
			n++
			arg := ci.Common().Args[len(ci.Common().Args)-1]
			v := ir.Resolve(arg)
			for d := 0; d < 4; d++ {
				switch x := v.(type) {
				case *ssa.Convert:
					v = ir.Resolve(x.X)
					continue
				case *ssa.ChangeType:
					v = ir.Resolve(x.X)
					continue
				}
				break
			}
			if dv := ir.Deep(v); dv != nil {
				if _, isP := v.(*ssa.Parameter); isP {
					if _, still := dv.(*ssa.Parameter); still {
						v = dv
					}
				}
			}
			_, isParam := v.(*ssa.Parameter)
			r.Check(isParam, shortName(f)+": the directory key is a hash of the path argument itself", e.InstrPos(ci),
				"the per-DAG history directory is keyed by a hash of something computed from the DAG's path ("+e.C.Render(v)+") instead of the path: two DAG files that this computation maps to the same text (x.yaml / x.yml) share one history - queries return the other file's runs, deleting or renaming one takes the other's runs along")
		}
	}
	if n == 0 {
		r.Unknown("the history directory key", "-", "no hash of the DAG path found in the history store")
	}
}

// ---------------------------------------------------------------------------
// C07.compact-own-file

// c07CompactOwnFile: compaction (copy the last record to the `_c` twin, remove the
// original) is safe only for the file the closing writer has just finished: nobody
// else appends to it and its twin cannot exist yet. Every call of the compaction inside
// the repository passes the current writer's own target - never a name taken from a
// directory listing (an older run's file, whose twin may be the torn leftover of a kill
// inside an earlier compaction, would be appended to and the intact original removed).
func c07CompactOwnFile(e *Env) {
	r := e.R
	r.Rule("C07.compact-own-file", "WMC+VF", "compaction is applied only to the closing writer's own file", 1)
	cf := e.Fn(jsondbRel, "(*JSONDB).Compact")
	if cf == nil {
		return
	}
	n := 0
	for _, cs := range e.StaticCallSites(cf) {
		if p := cs.Parent(); p.Synthetic != "" && p.Origin() == nil && p.Parent() == nil {
			continue
		}
		n++
		arg := cs.Common().Args[len(cs.Common().Args)-1]
		own := false
		if p, ok := e.C.PathOf(arg); ok && (p.Suffix("writer.target") || p.Suffix("target")) {
			own = true
		}
		r.Check(own, shortName(cs.Parent())+": Compact is given the current writer's own file", e.InstrPos(cs),
			"a history file other than the one the closing writer has just finished is compacted: when a `_c` twin of it already exists (a kill inside an earlier compaction), the record is appended behind the torn fragment, the intact original is removed, and the run is no longer found",
			"argument: "+e.C.Render(ir.Deep(arg)))
	}
	if n == 0 {
		r.Unknown("calls of the compaction", e.Pos(cf.Pos()), "Compact is not called anywhere in the repository")
	}
}

// ---------------------------------------------------------------------------
// C09.dag-map-key

// c09DagMapKey: the daemon keeps the loaded DAGs in a map that the start-up scan fills
// and the directory watcher updates and deletes from. Both must name a file the same
// way: every key written to, or deleted from, that map is a base name (DirEntry.Name()
// / filepath.Base(…)) or every key is a full path. With mixed keys an edited DAG gets
// a second entry next to the stale one and a removed DAG is never removed: it keeps
// being started on its old schedule.
func c09DagMapKey(e *Env) {
	r := e.R
	r.Rule("C09.dag-map-key", "SIB", "the daemon's DAG map is keyed the same way by the start-up scan and by the watcher", 2)
	sp := e.P.Pkg(dschedRel)
	if sp == nil {
		return
	}
	isDagMap := func(v ssa.Value) bool {
		mt, ok := v.Type().Underlying().(*types.Map)
		if !ok {
			return false
		}
		pt, ok := mt.Elem().(*types.Pointer)
		if !ok || !strings.HasSuffix(ir.NamedType(pt.Elem()), "internal/dag.DAG") {
			return false
		}
		_, isField := e.C.PathOf(v)
		return isField
	}
	var kindD func(k ssa.Value, d int) string
	kind := func(k ssa.Value) string { return kindD(k, 0) }
	kindD = func(k ssa.Value, d int) string {
		v := ir.Resolve(k)
		if c, ok := v.(*ssa.Call); ok {
			// a naming helper of the package (`keyOf(path)`): what it returns
			if g := c.Call.StaticCallee(); g != nil && e.P.Funcs[g] && g.Blocks != nil && g.Signature.Results().Len() == 1 && d < 2 {
				res := ""
				for _, b := range g.Blocks {
					if rt, isR := b.Instrs[len(b.Instrs)-1].(*ssa.Return); isR {
						kd := kindD(rt.Results[0], d+1)
						if res != "" && res != kd {
							return "other (" + e.C.Render(v) + ")"
						}
						res = kd
					}
				}
				if res != "" {
					return res
				}
			}
			if ir.IsCallTo(&c.Call, "path/filepath.Base", "path.Base") {
				return "base name"
			}
			if c.Call.IsInvoke() && c.Call.Method.Name() == "Name" {
				return "base name"
			}
			if ir.IsCallTo(&c.Call, "path/filepath.Join", "path/filepath.Abs", "path/filepath.Clean") {
				return "path"
			}
		}
		// an element of a glob result, an event's Name field: a path
		if u, ok := v.(*ssa.UnOp); ok && u.Op == token.MUL {
			if _, isIA := u.X.(*ssa.IndexAddr); isIA {
				return "path"
			}
			if p, okp := e.C.PathOf(v); okp && p.Suffix("Name") {
				return "path"
			}
		}
		return "other (" + e.C.Render(v) + ")"
	}
	type site struct {
		in   ssa.Instruction
		kind string
	}
	var sites []site
	for _, f := range e.RepoFuncsSorted() {
		if rootFn(f).Package() != sp {
			continue
		}
		for _, b := range f.Blocks {
			for _, in := range b.Instrs {
				switch x := in.(type) {
				case *ssa.MapUpdate:
					if isDagMap(x.Map) {
						sites = append(sites, site{in, kind(x.Key)})
					}
				case *ssa.Call:
					if bi, ok := x.Call.Value.(*ssa.Builtin); ok && bi.Name() == "delete" && len(x.Call.Args) == 2 && isDagMap(x.Call.Args[0]) {
						sites = append(sites, site{in, kind(x.Call.Args[1])})
					}
				}
			}
		}
	}
	if len(sites) == 0 {
		r.Unknown("the daemon's DAG map", "-", "no update of a map[…]*dag.DAG field in the daemon package")
		return
	}
	ref := sites[0].kind
	for _, s := range sites {
		r.Check(s.kind == ref && !strings.HasPrefix(s.kind, "other"), shortName(s.in.Parent())+": the DAG map is keyed by the file's "+ref, e.InstrPos(s.in),
			"the start-up scan and the watcher name the same file differently in the daemon's DAG map (here: "+s.kind+", elsewhere: "+ref+"): an edited DAG gets a second entry beside the stale one and keeps firing on its old schedule, a deleted or renamed DAG is never removed and keeps being started")
	}
}

// ---------------------------------------------------------------------------
// C16.client-errors-are-transport

// c16ClientErrors: the already-running probe and the status getter read EVERY error of
// the socket client other than a timeout as "nobody is listening: no run is alive".
// That is only right while the client's errors are failures of the connection: every
// non-nil error the request function returns wraps (or is) the error result of a
// library call - dial, deadline, write, read - or is the timeout sentinel returned
// under a `Timeout()` test. An error of the client's own making (a size cap, a status
// check) would be taken for a dead run while the run is alive.
func c16ClientErrors(e *Env, rule string) {
	r := e.R
	r.Rule(rule, "VF", "every error of the socket client's request is a transport error or the timeout sentinel", 2)
	sp := e.P.Pkg("internal/sock")
	if sp == nil {
		return
	}
	var req *ssa.Function
	for _, f := range e.RepoFuncsSorted() {
		if rootFn(f).Package() != sp || f.Parent() != nil || f.Synthetic != "" {
			continue
		}
		if len(ir.CallsIn(f, func(c *ssa.CallCommon) bool { return ir.IsCallTo(c, "net.DialTimeout", "net.Dial") })) > 0 && f.Signature.Results().Len() == 2 {
			req = f
		}
	}
	if req == nil {
		r.Unknown("the socket client's request function", "-", "no function of the socket package dials and returns (…, error)")
		return
	}
	type frame struct {
		call   *ssa.CallCommon
		callee *ssa.Function
	}
	underTimeout := func(site ssa.Instruction) bool {
		return site != nil && HasVal(e.DCS(site), func(x ssa.Value) bool {
			c, isC := ir.Resolve(x).(*ssa.Call)
			return isC && c.Call.IsInvoke() && c.Call.Method.Name() == "Timeout"
		}, true)
	}
	// okErr: v (an error value used at `site`) is nil, a library call's error, the
	// timeout sentinel under a Timeout() test, or put together from such values by
	// fmt.Errorf / by helpers of the package (whose parameters stand for the arguments)
	var okErr func(v ssa.Value, site ssa.Instruction, fr []frame, d int) (bool, string)
	okErr = func(v ssa.Value, site ssa.Instruction, fr []frame, d int) (bool, string) {
		if d > 24 {
			return false, "origin too deep"
		}
		v = ir.Resolve(v)
		switch x := v.(type) {
		case *ssa.Const:
			if x.Value == nil {
				return true, ""
			}
		case *ssa.MakeInterface:
			return okErr(x.X, site, fr, d+1)
		case *ssa.ChangeInterface:
			return okErr(x.X, site, fr, d+1)
		case *ssa.TypeAssert:
			return okErr(x.X, site, fr, d+1)
		case *ssa.Extract:
			return okErr(x.Tuple, site, fr, d+1)
		case *ssa.Phi:
			for _, ed := range x.Edges {
				if ok, why := okErr(ed, site, fr, d+1); !ok {
					return false, why
				}
			}
			return true, ""
		case *ssa.UnOp:
			if x.Op == token.MUL {
				if _, isG := x.X.(*ssa.Global); isG {
					if underTimeout(site) {
						return true, ""
					}
					for i := len(fr) - 1; i >= 0; i-- {
						if ci, okI := callInstrOf(fr[i].call); okI && underTimeout(ci) {
							return true, ""
						}
					}
					return false, "package-level error " + e.C.Render(x) + " returned without a Timeout() test"
				}
				if al, isA := x.X.(*ssa.Alloc); isA {
					st := ir.StoresTo(al)
					if len(st) == 0 {
						return true, "" // the zero value: nil
					}
					for _, sv := range st {
						if ok, why := okErr(sv, site, fr, d+1); !ok {
							return false, why
						}
					}
					return true, ""
				}
			}
		case *ssa.Parameter:
			if len(fr) > 0 {
				f := fr[len(fr)-1]
				for i, p := range f.callee.Params {
					if p == x && i < len(f.call.Args) {
						ci, _ := callInstrOf(f.call)
						return okErr(f.call.Args[i], ci, fr[:len(fr)-1], d+1)
					}
				}
			}
			return false, "a parameter of the request function itself"
		case *ssa.Call:
			if x.Call.IsInvoke() {
				return true, "" // a method of a library interface (net.Conn, io.Reader, net.Error …)
			}
			if ir.IsCallTo(&x.Call, "fmt.Errorf") {
				n := 0
				for _, a := range variadicElems(x.Call.Args[len(x.Call.Args)-1]) {
					a = ir.Resolve(a)
					inner := a
					for k := 0; k < 3; k++ {
						switch y := inner.(type) {
						case *ssa.MakeInterface:
							inner = ir.Resolve(y.X)
							continue
						case *ssa.ChangeInterface:
							inner = ir.Resolve(y.X)
							continue
						}
						break
					}
					if !ir.IsErrorType(inner.Type()) {
						if _, isIface := inner.Type().Underlying().(*types.Interface); !isIface || inner == a {
							continue
						}
					}
					n++
					if ok, why := okErr(inner, x, fr, d+1); !ok {
						return false, why
					}
				}
				if n == 0 {
					return false, "an error made up by the client: " + e.C.Render(x)
				}
				return true, ""
			}
			g := x.Call.StaticCallee()
			if g == nil {
				return false, "a dynamic call"
			}
			if !e.P.Funcs[g] {
				if ir.IsCallTo(&x.Call, "errors.New") {
					return false, "an error made up by the client: " + e.C.Render(x)
				}
				return true, "" // a library call's error
			}
			if g.Blocks == nil || len(fr) > 5 {
				return false, "helper not followed: " + shortName(g)
			}
			errIdx := g.Signature.Results().Len() - 1
			nf := append(append([]frame{}, fr...), frame{&x.Call, g})
			for _, b := range g.Blocks {
				rt, isR := b.Instrs[len(b.Instrs)-1].(*ssa.Return)
				if !isR || !e.Facts(g).Reachable(b) || errIdx < 0 || errIdx >= len(rt.Results) {
					continue
				}
				for _, rv := range RetVals(rt, errIdx) {
					if ok, why := okErr(rv, rt, nf, d+1); !ok {
						return false, why
					}
				}
			}
			return true, ""
		}
		return false, "comes from " + e.C.Render(v)
	}
	errIdx := req.Signature.Results().Len() - 1
	for _, b := range req.Blocks {
		rt, ok := b.Instrs[len(b.Instrs)-1].(*ssa.Return)
		if !ok || !e.Facts(req).Reachable(b) || errIdx >= len(rt.Results) {
			continue
		}
		for _, rv := range RetVals(rt, errIdx) {
			if ir.IsNilConst(ir.Resolve(rv)) {
				continue
			}
			good, why := okErr(rv, rt, nil, 0)
			r.Check(good, shortName(req)+": the error returned is a failure of the connection (or the timeout sentinel)", e.InstrPos(rt),
				"the socket client reports a failure that is not a failure of the connection: the already-running probe and the status getter read every non-timeout error as `no run is alive`, so while the run is alive a second run of the same DAG is admitted and the live run is reported as not running",
				"returned: "+e.C.Render(ir.Resolve(rv)), why)
		}
	}
}

// callInstrOf: the call instruction a CallCommon belongs to.
func callInstrOf(c *ssa.CallCommon) (ssa.Instruction, bool) {
	if c == nil {
		return nil, false
	}
	if v, ok := c.Value.(ssa.Value); ok && v != nil {
		for _, holder := range []*[]ssa.Instruction{v.Referrers()} {
			if holder == nil {
				continue
			}
			for _, ref := range *holder {
				if ci, isCI := ref.(ssa.CallInstruction); isCI && ci.Common() == c {
					return ci, true
				}
			}
		}
	}
	for _, a := range c.Args {
		if rs := a.Referrers(); rs != nil {
			for _, ref := range *rs {
				if ci, isCI := ref.(ssa.CallInstruction); isCI && ci.Common() == c {
					return ci, true
				}
			}
		}
	}
	return nil, false
}

// ---------------------------------------------------------------------------
// C19.licence-initialised

// c19LicenceInitialised: whether a loader may evaluate (run commands, export variables)
// is carried by a boolean of the load options whose ZERO value means "evaluate". A
// second holder of that switch (a step builder with its own `noEval`) is only as good
// as its initialisation: wherever a value containing such a derived holder is created,
// the holder's switch is stored (from the options or another holder) by the creating
// function or by what it calls with the value. A literal that leaves it out builds a
// holder that evaluates whatever the options say.
func c19LicenceInitialised(e *Env) {
	r := e.R
	r.Rule("C19.licence-initialised", "WMW", "every derived holder of the evaluation switch is initialised wherever it is created", 1)
	optT, optF := e.noEvalField()
	sp := e.P.Pkg(dagRel)
	if sp == nil {
		return
	}
	// derived holders: struct types of the package, other than the options type, with a
	// bool field of the switch's name
	holder := map[string]bool{}
	for _, m := range sp.Members {
		t, ok := m.(*ssa.Type)
		if !ok {
			continue
		}
		st, ok := t.Type().Underlying().(*types.Struct)
		if !ok || t.Name() == optT {
			continue
		}
		for i := 0; i < st.NumFields(); i++ {
			if st.Field(i).Name() == optF && st.Field(i).Type().String() == "bool" {
				holder[t.Name()] = true
			}
		}
	}
	if len(holder) == 0 {
		r.OK("derived holders of the evaluation switch", "-", "none: the options value is the only holder")
		return
	}
	// the path from a struct type to a holder's switch, through by-value fields
	var pathTo func(t types.Type, d int) (string, bool)
	pathTo = func(t types.Type, d int) (string, bool) {
		nt, ok := t.(*types.Named)
		if !ok || d > 2 {
			return "", false
		}
		st, ok := nt.Underlying().(*types.Struct)
		if !ok {
			return "", false
		}
		if holder[nt.Obj().Name()] {
			return optF, true
		}
		for i := 0; i < st.NumFields(); i++ {
			if p, ok := pathTo(st.Field(i).Type(), d+1); ok {
				return st.Field(i).Name() + "." + p, true
			}
		}
		return "", false
	}
	n := 0
	for _, f := range e.RepoFuncsSorted() {
		if rootFn(f).Package() != sp {
			continue
		}
		for _, b := range f.Blocks {
			for _, in := range b.Instrs {
				al, ok := in.(*ssa.Alloc)
				if !ok {
					continue
				}
				et := al.Type().Underlying().(*types.Pointer).Elem()
				path, has := pathTo(et, 0)
				if !has {
					continue
				}
				// a plain variable declaration that is assigned a whole value later is judged at that value's creation
				whole := false
				for _, sv := range ir.StoresTo(al) {
					if _, isZero := sv.(*ssa.Const); !isZero {
						whole = true
					}
				}
				if whole {
					continue
				}
				n++
				set := false
				for _, ev := range e.C.FieldStores(f, path) {
					if ev.Root != nil && ir.Resolve(ev.Root) == ssa.Value(al) {
						if ev.Val != nil {
							if bv, isC := ir.ConstBool(ev.Val); isC && !bv {
								continue // explicitly "evaluate"
							}
						}
						set = true
					}
				}
				// the switch of the enclosing literal may be set through the type's own suffix (`noEval` of the holder itself)
				if !set && path != optF {
					for _, ev := range e.C.FieldStores(f, optF) {
						if ev.Root != nil && ir.Resolve(ev.Root) == ssa.Value(al) && len(ev.Via) > 0 {
							set = true
						}
					}
				}
				// a constructor that only allocates (`return &builder{opts: opts}`): the switch set
				// by what every caller does with the value it gets (`newBuilder(opts).build(def)`)
				if !set {
					returned := false
					for _, rb := range f.Blocks {
						if rt, isR := rb.Instrs[len(rb.Instrs)-1].(*ssa.Return); isR {
							for _, rv := range rt.Results {
								if ir.Resolve(rv) == ssa.Value(al) {
									returned = true
								}
							}
						}
					}
					if sites := e.StaticCallSites(f); returned && len(sites) > 0 {
						all := true
						for _, cs := range sites {
							cv, isV := cs.(ssa.Value)
							okSite := false
							if isV {
								for _, suffix := range []string{path, optF} {
									for _, ev := range e.C.FieldStores(cs.Parent(), suffix) {
										if ev.Root != nil && ir.Resolve(ev.Root) == cv {
											if ev.Val != nil {
												if bv, isC := ir.ConstBool(ev.Val); isC && !bv {
													continue
												}
											}
											okSite = true
										}
									}
								}
							}
							if !okSite {
								all = false
							}
						}
						set = all
					}
				}
				r.Check(set, shortName(f)+": the evaluation switch of the "+typesName(et)+" created here is set", e.InstrPos(al),
					"a value holding its own copy of the no-evaluation switch is created without that copy being set from the load options: its zero value means `evaluate`, so whatever this value builds runs commands and exports variables also for the loaders that only list, show or validate a DAG",
					"switch: "+typesName(et)+"."+path)
			}
		}
	}
	if n == 0 {
		r.OK("creations of derived holders", "-", "no composite literal of a type holding the switch")
	}
}

// ---------------------------------------------------------------------------
// C13.decode-keys-checked (F31)

// c13DecodeKeysChecked: the loader decodes the raw YAML document into the definition
// structs with mapstructure and ErrorUnused. For the report of unused keys the library
// asserts every key of a map it decodes into a struct to be a string
// (mapstructure.go decodeStructFromMap: `rawKey.(string)`, no comma-ok): a YAML key that
// is a number or a boolean (`1: x` inside a step) makes every loader panic. The
// repository closes this on its side: every call of the decoder is reached only after a
// function of the package that walks the same document - maps with any keys, lists,
// recursively - and hands back an error for a key that is not a string returned nil.
func c13DecodeKeysChecked(e *Env) {
	r := e.R
	r.Rule("C13.decode-keys-checked", "MPT+shape", "the raw document reaches the struct decoder only after its map keys were checked to be strings", 1)
	sp := e.P.Pkg(dagRel)
	if sp == nil {
		return
	}
	// a key checker: ranges over a map[any]any, asserts the key to string with comma-ok,
	// returns a non-nil error where that failed, and calls itself for the elements
	isChecker := func(f *ssa.Function) bool {
		if f == nil || !e.P.Funcs[f] || f.Blocks == nil || f.Signature.Results().Len() != 1 || !ir.IsErrorType(f.Signature.Results().At(0).Type()) {
			return false
		}
		asserts, refuses, recurses := false, false, false
		for _, b := range f.Blocks {
			for _, in := range b.Instrs {
				switch x := in.(type) {
				case *ssa.TypeAssert:
					if !x.CommaOk || x.AssertedType.String() != "string" {
						continue
					}
					// the asserted value is the key of a range over a map with interface keys
					if ex, ok := ir.Resolve(x.X).(*ssa.Extract); ok && ex.Index == 1 {
						if nx, isN := ex.Tuple.(*ssa.Next); isN {
							if rg, isR := nx.Iter.(*ssa.Range); isR {
								if mt, isM := rg.X.Type().Underlying().(*types.Map); isM {
									if _, isI := mt.Key().Underlying().(*types.Interface); isI {
										asserts = true
										// a non-nil error is returned where ok is false
										for _, b2 := range f.Blocks {
											rt, isRt := b2.Instrs[len(b2.Instrs)-1].(*ssa.Return)
											if !isRt || ir.IsNilConst(ir.Resolve(rt.Results[0])) {
												continue
											}
											for _, l := range e.DCS(rt) {
												if l.Kind == "val" && !l.Pol {
													if ok2, isE := ir.Resolve(l.V).(*ssa.Extract); isE && ok2.Tuple == ssa.Value(x) && ok2.Index == 1 {
														refuses = true
													}
												}
											}
										}
									}
								}
							}
						}
					}
				case *ssa.Call:
					if x.Call.StaticCallee() == f {
						recurses = true
					}
				}
			}
		}
		return asserts && refuses && recurses
	}
	n := 0
	for _, f := range e.RepoFuncsSorted() {
		if rootFn(f).Package() != sp {
			continue
		}
		for _, ci := range ir.CallsIn(f, func(c *ssa.CallCommon) bool {
			return ir.IsCallTo(c, "(*github.com/mitchellh/mapstructure.Decoder).Decode")
		}) {
			n++
			doc := ir.Resolve(ci.Common().Args[len(ci.Common().Args)-1])
			if mi, isMI := doc.(*ssa.MakeInterface); isMI {
				doc = ir.Resolve(mi.X)
			}
			ok := false
			for _, kc := range ir.CallsIn(f, func(c *ssa.CallCommon) bool { return isChecker(c.StaticCallee()) }) {
				k, isC := kc.(*ssa.Call)
				if !isC {
					continue
				}
				arg := ir.Resolve(k.Call.Args[len(k.Call.Args)-1])
				if mi, isMI := arg.(*ssa.MakeInterface); isMI {
					arg = ir.Resolve(mi.X)
				}
				same := arg == doc
				// two reads of the same local (`var cm map[string]any; yaml…Decode(&cm)`)
				if !same {
					if ua, okA := arg.(*ssa.UnOp); okA && ua.Op == token.MUL {
						if ud, okD := doc.(*ssa.UnOp); okD && ud.Op == token.MUL && ua.X == ud.X {
							same = true
						}
					}
				}
				if same && e.onlyAfterNil(k, ci) {
					ok = true
				}
			}
			r.Check(ok, shortName(f)+": the document's map keys are checked to be strings before it is decoded into the definition", e.InstrPos(ci),
				"the raw YAML document reaches mapstructure's struct decoder (ErrorUnused) without its map keys having been checked: for a key that is not a string inside a map decoded into a struct (`1: x` in a step, a handler, a function) the library's unused-key report does rawKey.(string) and every loader panics instead of rejecting the file")
		}
	}
	if n == 0 {
		r.Unknown("calls of the struct decoder in the loader", dagRel, "no call of (*mapstructure.Decoder).Decode in the package")
	}
}

// ---------------------------------------------------------------------------
// C02.exit-status-is-outcome

// c02NoWaitDelay: a command step's outcome is the exit status of its command. os/exec's
// WaitDelay changes that: once it has elapsed, Wait closes the output pipes and returns
// ErrWaitDelay although the command exited 0 - a step that leaves a descendant holding
// its stdout is then labelled failed and its dependents are canceled. The executors do
// not set it.
func c02NoWaitDelay(e *Env) {
	r := e.R
	r.Rule("C02.exit-status-is-outcome", "WMW", "no executor sets exec.Cmd.WaitDelay", 1)
	n, bad := 0, 0
	for _, g := range e.RepoFuncsSorted() {
		for _, b := range g.Blocks {
			for _, in := range b.Instrs {
				st, ok := in.(*ssa.Store)
				if !ok {
					continue
				}
				fa, ok := st.Addr.(*ssa.FieldAddr)
				if !ok || ir.NamedType(fa.X.Type()) != "os/exec.Cmd" {
					continue
				}
				n++
				if ir.FieldNameOf(fa.X.Type(), fa.Field) != "WaitDelay" {
					continue
				}
				if k, isK := ir.ConstInt(st.Val); isK && k == 0 {
					continue
				}
				bad++
				r.Bad(shortName(g)+": exec.Cmd.WaitDelay is left at zero", e.InstrPos(st),
					"with WaitDelay set, Wait returns an error for a command that exited 0 while a descendant still holds its output pipe: the step is labelled failed (or retried), its dependents are canceled although nothing failed")
			}
		}
	}
	if bad == 0 {
		r.OK("executors: exec.Cmd.WaitDelay is never set", "-", sprintf("%d stores into exec.Cmd fields inspected", n))
	}
}

// ---------------------------------------------------------------------------
// C10.record-keeps-step / C14.depends-verbatim

// cFieldVerbatim: every store into field `field` of the struct type `owner` made in package
// rel takes its value straight from a field named `src` (or from a parameter of that
// struct's own type) - never from the result of a function that could rewrite it.
func cFieldVerbatim(e *Env, rule, clause, rel, owner, field, srcSuffix, why string, min int) {
	r := e.R
	r.Rule(rule, "VF", clause, min)
	sp := e.P.Pkg(rel)
	if sp == nil {
		r.Unknown("package "+rel, "-", "not loaded")
		return
	}
	n := 0
	for _, f := range e.RepoFuncsSorted() {
		if rootFn(f).Package() != sp {
			continue
		}
		for _, b := range f.Blocks {
			for _, in := range b.Instrs {
				st, ok := in.(*ssa.Store)
				if !ok {
					continue
				}
				fa, ok := st.Addr.(*ssa.FieldAddr)
				if !ok || !strings.HasSuffix(ir.NamedType(fa.X.Type()), owner) || ir.FieldNameOf(fa.X.Type(), fa.Field) != field {
					continue
				}
				n++
				v := ir.Resolve(st.Val)
				verbatim := false
				if _, isP := v.(*ssa.Parameter); isP {
					verbatim = true
				}
				if p, okp := e.C.PathOf(v); okp && p.Suffix(srcSuffix) {
					if _, isCall := ir.Resolve(p.Root).(*ssa.Call); !isCall {
						verbatim = true
					}
				}
				if c, isC := v.(*ssa.Const); isC && c.Value == nil {
					verbatim = true // the zero value of a fresh record
				}
				r.Check(verbatim, shortName(f)+": "+owner[strings.LastIndex(owner, ".")+1:]+"."+field+" is taken over as it is", e.InstrPos(st), why, "value stored: "+e.C.Render(v))
			}
		}
	}
	if n == 0 {
		r.Unknown("stores into "+owner+"."+field, rel, "none found")
	}
}

// ---------------------------------------------------------------------------
// C12.single-actor-on-writers

// c12SingleActor: the step's buffered writers (log, stdout redirect, stderr redirect)
// are written by the executor's copy goroutines and flushed once, by teardown, after
// the executor has returned. bufio.Writer is not safe for concurrent use: nobody else -
// in particular no periodic flusher started at set-up - calls Flush (or Write) on them.
func c12SingleActor(e *Env) {
	r := e.R
	r.Rule("C12.single-actor-on-writers", "WMC", "the node's buffered writers are flushed by teardown only", 1)
	td := e.nodeRoles().Teardown
	if td == nil {
		r.Unknown("the node's teardown function", "-", "not found")
		return
	}
	sp := rootFn(td).Package()
	inTd := map[*ssa.Function]bool{}
	for _, g := range e.staticClosure(td) {
		for _, h := range ir.WithClosures(g) {
			inTd[h] = true
		}
	}
	isNodeWriter := func(v ssa.Value) bool {
		tr := &ir.Tracer{C: e.C, Descend: e.repoDescend, Fields: e.helperObjectFields, Up: func(f *ssa.Function) []ssa.CallInstruction { return e.StaticCallSites(f) }}
		for _, l := range tr.Trace(v) {
			if l.Kind == "field" {
				if fa := fieldAddrOf(l.V); fa != nil && strings.HasSuffix(ir.NamedType(fa.X.Type()), schedRel+".Node") {
					return true
				}
			}
		}
		return false
	}
	n, bad := 0, 0
	for _, f := range e.RepoFuncsSorted() {
		if rootFn(f).Package() != sp {
			continue
		}
		for _, ci := range ir.CallsIn(f, func(c *ssa.CallCommon) bool {
			return ir.IsCallTo(c, "(*bufio.Writer).Flush", "(*bufio.Writer).Write", "(*bufio.Writer).WriteString")
		}) {
			if !isNodeWriter(ci.Common().Args[0]) {
				continue
			}
			n++
			if inTd[f] {
				continue
			}
			bad++
			r.Bad(shortName(f)+": the node's buffered writer is touched outside teardown", e.InstrPos(ci),
				"a second actor flushes / writes the step's bufio.Writer while the executor's copy goroutine writes into it: bufio.Writer is not safe for concurrent use, a write landing during that Flush leaves a sticky short-write error, the rest of the step's output never reaches the log and the step ends failed")
		}
	}
	if bad == 0 {
		r.OK("node writers: flushed by teardown only", e.Pos(td.Pos()), sprintf("%d Flush/Write calls on the node's writers, all in teardown", n))
	}
	if n == 0 {
		r.Unknown("flushes of the node's buffered writers", e.Pos(td.Pos()), "none found")
	}
}

func fieldAddrOf(v ssa.Value) *ssa.FieldAddr {
	if u, ok := v.(*ssa.UnOp); ok && u.Op == token.MUL {
		if fa, isFA := u.X.(*ssa.FieldAddr); isFA {
			return fa
		}
	}
	return nil
}
